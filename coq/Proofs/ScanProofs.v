From Cashews Require Import Base.Prelude Spec.Glob Model.Scan.
Open Scope char_scope.

Definition toks (p : list ascii) : list tok := map (fun c => if is_star c then AnyStar else Lit c) p.

Lemma rx_full_glob p : forall s, rx_full (toks p) s = glob p s.
Proof.
  induction p as [|c p IH]; intro s; cbn [toks map rx_full glob]; [reflexivity|].
  destruct (is_star c).
  - induction s as [|a s IHs]; cbn; rewrite IH; [reflexivity|]. f_equal. exact IHs.
  - destruct s as [|a s]; [reflexivity|]. rewrite IH. reflexivity.
Qed.

(* what one pattern character becomes after escape + rewrite *)
Definition pre (c : ascii) : list ascii :=
  if is_star c then ["."; "*"] else if is_special c then ["\"; c] else [c].

Lemma special_backslash : is_special "\" = true. Proof. reflexivity. Qed.
Lemma special_star : is_special "*" = true. Proof. reflexivity. Qed.
Lemma special_dot : is_special "." = true. Proof. reflexivity. Qed.

Lemma hd_escape_not_star p c r : re_escape p = c :: r -> Ascii.eqb c "*" = false.
Proof.
  destruct p as [|a p]; cbn [re_escape]; [discriminate|].
  destruct (is_special a) eqn:E; intro H; injection H as <-; [reflexivity|].
  destruct (Ascii.eqb_spec a "*") as [->|]; [rewrite special_star in E; discriminate|reflexivity].
Qed.

Lemma star_rewrite_cons c p : star_rewrite (re_escape (c :: p)) = pre c ++ star_rewrite (re_escape p).
Proof.
  unfold pre, is_star. cbn [re_escape].
  destruct (Ascii.eqb_spec c "*") as [->|Hns].
  - rewrite special_star. reflexivity.
  - destruct (is_special c) eqn:Es.
    + (* "\" c rest *)
      cbn [star_rewrite]. rewrite Ascii.eqb_refl. cbn [andb].
      destruct (Ascii.eqb_spec c "*") as [->|_]; [congruence|]. cbn [app]. f_equal.
      destruct (re_escape p) as [|c2 r2] eqn:E; [reflexivity|]. cbn [star_rewrite].
      rewrite (hd_escape_not_star p c2 r2 E). rewrite andb_false_r. reflexivity.
    + destruct (re_escape p) as [|c2 r2] eqn:E; [reflexivity|]. cbn [star_rewrite app].
      destruct (Ascii.eqb_spec c "\") as [->|_]; [rewrite special_backslash in Es; discriminate|]. reflexivity.
Qed.

Lemma rx_parse_pre c rest fuel : (length (pre c ++ rest) < fuel)%nat ->
  exists fuel', (length rest < fuel')%nat /\
    rx_parse fuel (pre c ++ rest) = option_map (cons (if is_star c then AnyStar else Lit c)) (rx_parse fuel' rest).
Proof.
  unfold pre, is_star. intro Hf. destruct fuel as [|f]; [lia|].
  destruct (Ascii.eqb_spec c "*") as [->|Hns].
  - exists f. cbn in *. split; [lia|reflexivity].
  - destruct (is_special c) eqn:Es.
    + exists f. cbn [app length] in *. split; [lia|]. cbn [rx_parse]. rewrite Ascii.eqb_refl. reflexivity.
    + exists f. cbn [app length] in *. split; [lia|]. cbn [rx_parse].
      destruct (Ascii.eqb_spec c "\") as [->|_]; [rewrite special_backslash in Es; discriminate|].
      destruct (Ascii.eqb_spec c ".") as [->|_]; [rewrite special_dot in Es; discriminate|].
      rewrite Es. reflexivity.
Qed.

Lemma rx_parse_translate p : forall fuel, (length (star_rewrite (re_escape p)) < fuel)%nat ->
  rx_parse fuel (star_rewrite (re_escape p)) = Some (toks p).
Proof.
  induction p as [|c p IH]; intros fuel Hf.
  - destruct fuel; [cbn in Hf; lia|reflexivity].
  - rewrite star_rewrite_cons in *. destruct (rx_parse_pre c _ fuel Hf) as (f' & Hf' & ->).
    rewrite (IH f' Hf'). reflexivity.
Qed.

(* the matcher built by Memory.scan is the glob matcher, for every pattern and key *)
Theorem scan_match_is_glob p : exists f, scan_match p = Some f /\ forall k, f k = globs p k.
Proof.
  unfold scan_match. rewrite rx_parse_translate by lia.
  eexists. split; [reflexivity|]. intro k. unfold globs. apply rx_full_glob.
Qed.

Theorem m_scan_is_glob live p : m_scan live p = Some (filter (globs p) live).
Proof.
  unfold m_scan. destruct (scan_match_is_glob p) as (f & -> & Hf). f_equal.
  apply filter_ext. exact Hf.
Qed.

(* ---------- transaction overlay ---------- *)
Lemma memk_In k l : memk k l = true <-> In k l.
Proof.
  unfold memk. rewrite existsb_exists. split.
  - intros (x & Hx & E). apply String.eqb_eq in E. subst. exact Hx.
  - intro H. exists k. split; [exact H|apply String.eqb_refl].
Qed.
Lemma memk_false k l : memk k l = false <-> ~ In k l.
Proof. rewrite <- memk_In. destruct (memk k l); split; congruence. Qed.

Theorem tx_scan_is_glob L B D p : exists out, tx_scan L B D p = Some out /\
  forall k, In k out <-> In k (tx_view L B D) /\ globs p k = true.
Proof.
  unfold tx_scan, tx_view. rewrite !m_scan_is_glob. eexists. split; [reflexivity|].
  intro k. rewrite !in_app_iff, !filter_In, !andb_true_iff, !negb_true_iff, !memk_false, filter_In.
  destruct (globs p k); intuition congruence.
Qed.

Theorem tx_delete_match_is_glob L B D p : exists L' D', tx_delete_match L B D p = Some (L', D') /\
  forall k, In k (tx_view L' B D') <-> In k (tx_view L B D) /\ globs p k = false.
Proof.
  unfold tx_delete_match, tx_view. rewrite !m_scan_is_glob. do 2 eexists. split; [reflexivity|].
  intro k. rewrite !in_app_iff, !filter_In, !andb_true_iff, !negb_true_iff, !memk_false,
    !in_app_iff, !filter_In, !negb_true_iff, !memk_false, filter_In.
  destruct (globs p k); intuition congruence.
Qed.

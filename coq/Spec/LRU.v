(* Abstract recency list of C11.  A stamped list (key, time of last touch), least recently
   touched first.  Touch = move to the end with a fresh stamp; Drop = remove; Evict = drop
   the head.  Nothing here knows about values, deadlines or the store. *)
From Cashews Require Import Base.Prelude Base.OMap.
From Coq Require Import Sorting.Sorted.

Inductive rop := Touch (k : key) | Drop (k : key) | Evict.

Definition slist := list (key * nat).
Definition rstate := (slist * nat)%type.       (* stamped recency list, clock = #ops so far *)
Definition others (k : key) (l : slist) : slist := filter (fun e => neqk k (fst e)) l.

Definition r_step (st : rstate) (o : rop) : rstate :=
  let '(l, n) := st in
  match o with
  | Touch k => (others k l ++ [(k, n)], S n)
  | Drop k => (others k l, S n)
  | Evict => (tl l, S n)
  end.
Definition r_run (st : rstate) (ops : list rop) : rstate := fold_left r_step ops st.

(* the same on bare key lists *)
Definition k_step (l : list key) (o : rop) : list key :=
  match o with
  | Touch k => filter (neqk k) l ++ [k]
  | Drop k => filter (neqk k) l
  | Evict => tl l
  end.
Definition k_run (l : list key) (ops : list rop) : list key := fold_left k_step ops l.

Definition stamp_lt (a b : key * nat) := (snd a < snd b)%nat.
Definition r_inv (st : rstate) : Prop :=
  StronglySorted stamp_lt (fst st) /\ Forall (fun e => (snd e < snd st)%nat) (fst st) /\ NoDup (map fst (fst st)).

(* C14 - early / soft / failover / hit keep their staleness and reuse bounds. Statements only. *)
From Cashews Require Import Base.Prelude Spec.TTLMap Model.DecorStrategies Proofs.StrategiesProofs.
Open Scope Z_scope.

(* early: in every reachable state (PInv: each entry is [t0 + early_ttl, id] of a store made at t0), a call
   never gets a result stored ttl or more ago; while the result is younger than early_ttl it is served and
   nothing runs; once older, the caller is still answered from the store and a refresh starts only if the
   lock is free, taking the lock for early_ttl - so at most one refresh at a time *)
Theorem C14_early_call : forall k ttl ettl bg m L now o, 0 < ttl -> PInv k ttl ettl m L ->
  let '(m', r, a) := early_call m now k ttl ettl bg o in
  PInv k ttl ettl m' (match a with EExec | ERefreshInline => log_after now o L | _ => L end) /\
  match s_get m now k with
  | None => a = EExec /\ r = of_x o
  | Some v =>
      exists t0 id, In (t0, id) L /\ v = pack (t0 + ettl) id /\ now < t0 + ttl /\
        (now <= t0 + ettl -> a = ENone /\ r = RVal id /\ m' = m) /\
        (t0 + ettl < now ->
           (a = ENone -> r = RVal id /\ m' = m /\ s_look m now (lock_key k) <> None) /\
           (a = ERefreshStarted -> r = RVal id /\ s_look m now (lock_key k) = None /\ s_look m' now (lock_key k) <> None) /\
           (a = ERefreshInline -> s_look m now (lock_key k) = None /\ r = match o with XOk _ => RVal id | XExc e => RRaise e end) /\
           a <> EExec)
  end.
Proof. exact early_step. Qed.
Print Assumptions C14_early_call.

Theorem C14_early_refresh_done : forall k ttl ettl m L now o, 0 < ttl -> PInv k ttl ettl m L ->
  PInv k ttl ettl (early_refresh_done m now k ttl ettl o) (log_after now o L) /\
  early_refresh_done m now k ttl ettl o (lock_key k) = None.
Proof. exact early_refresh_inv. Qed.
Print Assumptions C14_early_refresh_done.

(* soft: younger than soft_ttl -> served without running; older -> the function runs, and the old result comes
   back only if it raises a listed exception while the entry is still younger than ttl *)
Theorem C14_soft_call : forall k ttl sttl m L now o, 0 < ttl -> PInv k ttl sttl m L ->
  let '(m', r, ex) := soft_call m now k ttl sttl o in
  PInv k ttl sttl m' (if ex then log_after now o L else L) /\
  match s_get m now k with
  | Some v => exists t0 id, In (t0, id) L /\ v = pack (t0 + sttl) id /\ now < t0 + ttl /\
      (now < t0 + sttl -> ex = false /\ r = RVal id) /\
      (t0 + sttl <= now -> ex = true /\ r = match o with XOk i => RVal i | XExc e => if listed e then RVal id else RRaise e end)
  | None => ex = true /\ r = of_x o
  end.
Proof. exact soft_step. Qed.
Print Assumptions C14_soft_call.

(* failover: the function runs on every call; a stored result younger than ttl is returned only when it raises a listed exception *)
Theorem C14_failover_call : forall k ttl m L now o, 0 < ttl -> FInv k ttl m L ->
  let '(m', r, ex) := fail_call m now k ttl o in
  FInv k ttl m' (log_after now o L) /\ ex = true /\
  match o with
  | XOk i => r = RVal i
  | XExc e => if listed e
              then match s_get m now k with
                   | Some _ => exists t0 id, In (t0, id) L /\ now < t0 + ttl /\ r = RVal id
                   | None => r = RRaise e
                   end
              else r = RRaise e
  end.
Proof. exact fail_step. Qed.
Print Assumptions C14_failover_call.

(* hit: in any sequential history (instants non-decreasing), whenever a call is answered from the store, fewer than
   cache_hits calls were answered from that stored result before it; HInv is kept with the served count updated *)
(* failover whose store condition raises on the function's result: the caller gets that exception, the store is untouched,
   the stored result is not served (the function did not raise); on all other results it is plain failover *)
Theorem C14_failover_condition_raises : forall m now k ttl id, Z.odd id = true -> failc_call m now k ttl (XOk id) = (m, RRaise 1, true).
Proof. exact failc_cond_raises. Qed.
Print Assumptions C14_failover_condition_raises.
Theorem C14_failover_condition_otherwise : forall m now k ttl o, (forall id, o = XOk id -> Z.odd id = false) -> failc_call m now k ttl o = fail_call m now k ttl o.
Proof. exact failc_otherwise. Qed.
Print Assumptions C14_failover_condition_otherwise.

Theorem C14_hit_call : forall k ttl hits upd bg m tcur served now o, 0 < ttl -> tcur <= now -> HInv k ttl m tcur served ->
  let '(m', r, a) := hit_call m now k ttl hits upd bg o in
  HInv k ttl m' now (served_after a o served) /\
  (a <> EExec -> served + 1 <= hits /\ exists id, s_get m now k = Some (VInt id) /\
                 r = match a, o with ERefreshInline, XExc e => RRaise e | _, _ => RVal id end) /\
  (a = EExec -> r = of_x o).
Proof. exact hit_step. Qed.
Print Assumptions C14_hit_call.

Theorem C14_hit_init : forall k ttl t, HInv k ttl empty t 0.
Proof. exact HInv_empty. Qed.
Print Assumptions C14_hit_init.

Theorem C14_hit_refresh_done : forall k ttl m tcur served now o, 0 < ttl -> tcur <= now -> HInv k ttl m now served ->
  HInv k ttl (hit_save m now k ttl o) now (match o with XOk _ => 0 | XExc _ => served end).
Proof. exact hit_save_inv. Qed.
Print Assumptions C14_hit_refresh_done.

(* non-vacuity: ttl 2 s, cache_hits 2: executed, served, served, executed again *)
Example C14_example :
  let step m now o := hit_call m now "k"%string 32 2 0 false (XOk o) in
  let '(m1, r1, a1) := step empty 0 1 in let '(m2, r2, a2) := step m1 1 2 in
  let '(m3, r3, a3) := step m2 2 3 in let '(m4, r4, a4) := step m3 3 4 in
  ([r1; r2; r3; r4], [a1; a2; a3; a4]) = ([RVal 1; RVal 1; RVal 1; RVal 4], [EExec; ENone; ENone; EExec]).
Proof. vm_compute. reflexivity. Qed.

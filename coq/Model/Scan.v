(* Executable image of the pattern commands:
     memory.py  scan        re.compile(re.escape(pattern).replace("\\*", ".*"), DOTALL).fullmatch(key)
                            over the live keys of a snapshot of the store
                delete_match / get_match built on scan
     transaction.py scan / get_match / delete_match  (overlay merge)
   re.escape, str.replace and the regular-expression fragment they produce are modelled on
   character lists.  Definitions only. *)
From Cashews Require Import Base.Prelude Spec.Glob.
Open Scope char_scope.

(* re.escape: _special_chars_map = {i: '\\' + chr(i) for i in b'()[]{}?*+-|^$\\.&~# \t\n\r\v\f'} *)
Definition specials : list ascii :=
  ["("; ")"; "["; "]"; "{"; "}"; "?"; "*"; "+"; "-"; "|"; "^"; "$"; "\"; "."; "&"; "~"; "#"; " ";
   "009"; "010"; "013"; "011"; "012"].
Definition is_special (c : ascii) : bool := existsb (Ascii.eqb c) specials.
Fixpoint re_escape (p : list ascii) : list ascii :=
  match p with [] => [] | c :: r => if is_special c then "\" :: c :: re_escape r else c :: re_escape r end.

(* str.replace("\\*", ".*"): leftmost, non-overlapping *)
Fixpoint star_rewrite (l : list ascii) : list ascii :=
  match l with
  | [] => []
  | c :: r => match r with
              | c2 :: r2 => if Ascii.eqb c "\" && Ascii.eqb c2 "*" then "." :: "*" :: star_rewrite r2
                            else c :: star_rewrite r
              | [] => [c]
              end
  end.

(* the regular-expression fragment: escaped literal, plain literal, ".*" *)
Inductive tok := Lit (c : ascii) | AnyStar.
Fixpoint rx_parse (fuel : nat) (l : list ascii) : option (list tok) :=
  match fuel with
  | O => None
  | S f =>
      match l with
      | [] => Some []
      | c :: r =>
          if Ascii.eqb c "\" then
            match r with c2 :: r2 => option_map (cons (Lit c2)) (rx_parse f r2) | [] => None end
          else if Ascii.eqb c "." then
            match r with
            | c2 :: r2 => if Ascii.eqb c2 "*" then option_map (cons AnyStar) (rx_parse f r2) else None
            | [] => None
            end
          else if is_special c then None      (* an unescaped metacharacter: outside the fragment *)
          else option_map (cons (Lit c)) (rx_parse f r)
      end
  end.

(* fullmatch semantics of the fragment (DOTALL: "." matches every character) *)
Fixpoint rx_full (ts : list tok) : list ascii -> bool :=
  match ts with
  | [] => fun s => match s with [] => true | _ => false end
  | Lit c :: ts' => fun s => match s with c' :: s' => Ascii.eqb c c' && rx_full ts' s' | [] => false end
  | AnyStar :: ts' => fix star (s : list ascii) : bool :=
                        rx_full ts' s || match s with [] => false | _ :: s' => star s' end
  end.

(* Memory.scan's matcher: None = re.compile would raise (outside the fragment) *)
Definition scan_match (p : string) : option (string -> bool) :=
  let rx := star_rewrite (re_escape (list_ascii_of_string p)) in
  match rx_parse (S (length rx)) rx with
  | Some ts => Some (fun k => rx_full ts (list_ascii_of_string k))
  | None => None
  end.

(* scan over the live keys (in store order) *)
Definition m_scan (live_keys : list key) (p : string) : option (list key) :=
  match scan_match p with Some f => Some (filter f live_keys) | None => None end.

(* ---- transaction overlay: local keys L, underlying keys B, pending deletes D ---- *)
Definition memk (k : key) (l : list key) : bool := existsb (String.eqb k) l.
Definition tx_scan (L B D : list key) (p : string) : option (list key) :=
  match m_scan L p, m_scan B p with
  | Some l, Some b => Some (l ++ filter (fun k => negb (memk k D) && negb (memk k l)) b)
  | _, _ => None
  end.
(* delete_match: local delete_match; every matching underlying key joins the pending deletes *)
Definition tx_delete_match (L B D : list key) (p : string) : option (list key * list key) :=
  match m_scan L p, m_scan B p with
  | Some l, Some b => Some (filter (fun k => negb (memk k l)) L, b ++ D)
  | _, _ => None
  end.
(* keys visible inside the transaction *)
Definition tx_view (L B D : list key) : list key := L ++ filter (fun k => negb (memk k D) && negb (memk k L)) B.

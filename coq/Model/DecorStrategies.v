(* Executable image of the decision trees of
     decorators/cache/early.py  (60-146)   soft.py (53-93)   fail.py (53-76)   hit.py (53-111)
   over the TTL-map spec.  The wrapped function is a script: each execution either returns a fresh
   identifier (the harness makes it the execution's number) or raises exception class e; class 1 is the
   one listed in `exceptions=`.  Results are stored as the decorators store them: early/soft keep a pair
   [inner deadline, result].  Definitions only. *)
From Cashews Require Import Base.Prelude Spec.TTLMap.
Open Scope string_scope.

Inductive xout := XOk (id : Z) | XExc (e : Z).          (* what an execution does *)
Inductive cres := RVal (id : Z) | RRaise (e : Z).       (* what the caller gets *)
Definition cres_eqb (a b : cres) : bool :=
  match a, b with RVal x, RVal y => (x =? y)%Z | RRaise x, RRaise y => (x =? y)%Z | _, _ => false end.
Definition listed (e : Z) : bool := (e =? 1)%Z.
Definition of_x (o : xout) : cres := match o with XOk i => RVal i | XExc e => RRaise e end.

Definition pack (inner res : Z) : val := VZs [inner; res].
Definition unpack (v : val) : option (Z * Z) := match v with VZs [a; b] => Some (a, b) | _ => None end.
Definition lock_key (k : key) : key := k ++ ":lock".
Definition counter_key (k : key) : key := k ++ ":counter".
Definition s_del (m : tmap) (k : key) : tmap := upd m k None.

(* ---------------- early ---------------- *)
(* _get_result_for_early at instant now: execute, store [now+early_ttl, result] with ttl when it succeeded *)
Definition early_store (m : tmap) (now : Z) (k : key) (ttl ettl : Z) (o : xout) : tmap :=
  match o with XOk id => s_write m now k (pack (now + ettl) id) ttl | XExc _ => m end.
(* completion of a refresh (inline or background): store, then release the lock *)
Definition early_refresh_done (m : tmap) (now : Z) (k : key) (ttl ettl : Z) (o : xout) : tmap :=
  s_del (early_store m now k ttl ettl o) (lock_key k).

Inductive eact := ENone | EExec | ERefreshInline | ERefreshStarted.   (* what the call did with the function *)
Definition eact_eqb (a b : eact) : bool :=
  match a, b with ENone, ENone | EExec, EExec | ERefreshInline, ERefreshInline | ERefreshStarted, ERefreshStarted => true | _, _ => false end.

(* one call; o = what the function does if it is executed inside this call *)
Definition early_call (m : tmap) (now : Z) (k : key) (ttl ettl : Z) (background : bool) (o : xout) : tmap * cres * eact :=
  match s_get m now k with
  | None => (early_store m now k ttl ettl o, of_x o, EExec)
  | Some v =>
      match unpack v with
      | None => (m, RRaise 99, ENone)                                  (* not a pair: cannot happen for stored entries *)
      | Some (ee, res) =>
          if (now <=? ee)%Z then (m, RVal res, ENone)                  (* early_expire_at >= now *)
          else if isSome (s_look m now (lock_key k)) then (m, RVal res, ENone)   (* set(lock, exist=False) failed *)
          else
            let m1 := s_write m now (lock_key k) (VStr "1") ettl in
            if background then (m1, RVal res, ERefreshStarted)
            else (early_refresh_done m1 now k ttl ettl o,
                  match o with XOk _ => RVal res | XExc e => RRaise e end,   (* await task re-raises *)
                  ERefreshInline)
      end
  end.

(* ---------------- soft ---------------- *)
Definition soft_call (m : tmap) (now : Z) (k : key) (ttl sttl : Z) (o : xout) : tmap * cres * bool :=
  let cached := match s_get m now k with Some v => unpack v | None => None end in
  match cached with
  | Some (sd, res) =>
      if (now <? sd)%Z then (m, RVal res, false)                        (* soft_expire_at > now *)
      else match o with
           | XOk id => (s_write m now k (pack (now + sttl) id) ttl, RVal id, true)
           | XExc e => (m, if listed e then RVal res else RRaise e, true)
           end
  | None => match o with
            | XOk id => (s_write m now k (pack (now + sttl) id) ttl, RVal id, true)
            | XExc e => (m, RRaise e, true)
            end
  end.

(* ---------------- failover ---------------- *)
Definition as_int (v : val) : option Z := match v with VInt z => Some z | _ => None end.
Definition fail_call (m : tmap) (now : Z) (k : key) (ttl : Z) (o : xout) : tmap * cres * bool :=
  match o with
  | XOk id => (s_write m now k (VInt id) ttl, RVal id, true)
  | XExc e =>
      (m, (if listed e
           then match s_get m now k with
                | Some v => match as_int v with Some id => RVal id | None => RRaise 99 end
                | None => RRaise e end
           else RRaise e), true)
  end.

(* failover with a store condition that raises the listed exception on some results (here: odd identifiers): the function
   succeeded, so the exception of the condition goes to the caller - it is not a reason to hand out the stored result *)
Definition failc_call (m : tmap) (now : Z) (k : key) (ttl : Z) (o : xout) : tmap * cres * bool :=
  match o with
  | XOk id => if Z.odd id then (m, RRaise 1, true) else fail_call m now k ttl o
  | XExc _ => fail_call m now k ttl o
  end.

(* ---------------- hit ---------------- *)
(* incr(counter, expire=ttl): the TTL is set only when the result is 1 *)
Definition counter_incr (m : tmap) (now : Z) (k : key) (ttl : Z) : tmap * Z :=
  let n := match s_get m now (counter_key k) with Some (VInt z) => z + 1 | _ => 1 end in
  (s_write m now (counter_key k) (VInt n) (if (n =? 1)%Z then ttl else 0), n).
(* _get_and_save: on success delete the counter and store the result *)
Definition hit_save (m : tmap) (now : Z) (k : key) (ttl : Z) (o : xout) : tmap :=
  match o with XOk id => s_write (s_del m (counter_key k)) now k (VInt id) ttl | XExc _ => m end.
Definition hit_call (m : tmap) (now : Z) (k : key) (ttl cache_hits update_after : Z) (background : bool) (o : xout)
  : tmap * cres * eact :=
  let cached := match s_get m now k with Some v => as_int v | None => None end in
  let '(m1, hits) := counter_incr m now k ttl in
  match cached with
  | Some res =>
      if (hits <=? cache_hits)%Z then
        if (0 <? update_after)%Z && (hits =? update_after)%Z then
          if background then (m1, RVal res, ERefreshStarted)
          else (hit_save m1 now k ttl o, match o with XOk _ => RVal res | XExc e => RRaise e end, ERefreshInline)
        else (m1, RVal res, ENone)
      else (hit_save m1 now k ttl o, of_x o, EExec)
  | None => (hit_save m1 now k ttl o, of_x o, EExec)
  end.

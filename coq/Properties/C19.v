(* C19 - the Redis backend translates commands faithfully and degrades safely when the server is down. Statements only. *)
From Cashews Require Import Base.Prelude Spec.Glob Model.Redis Spec.RedisRef Proofs.RedisProofs.
Open Scope Z_scope.

(* every cache command, at every instant and on every keyspace, has on the server exactly the effect and the result the
   reference TTL map with Redis's policies gives it: the translation into SET PX NX/XX, MGET, UNLINK, SCAN MATCH,
   PEXPIRE, TTL, INCRBY, the three scripts, SADD + PEXPIRE pipelines ... and the conversion of replies lose nothing *)
Theorem C19_refines_reference : forall U s now c, up_step true U s now c = r_step U s now c.
Proof. exact redis_refines_ref. Qed.
Print Assumptions C19_refines_reference.

(* ... hence for every history with time advances *)
Theorem C19_history_refines : forall U h s,
  run_b true U s (map (fun tc => (fst tc, false, snd tc)) h) = run_ref U s h.
Proof. exact redis_history_refines. Qed.
Print Assumptions C19_history_refines.

(* suppression off: the same, unless the command ends in the documented interaction error *)
Theorem C19_strict_same : forall U s now c, snd (up_step false U s now c) <> BRaise -> up_step false U s now c = up_step true U s now c.
Proof. exact redis_strict_same. Qed.
Print Assumptions C19_strict_same.

(* server unreachable, suppression on: the keyspace is not touched; only ping raises; every other command answers with
   "nothing there / not done" (default for reads, False / None for writes, empty for scans) *)
Theorem C19_down_safe : forall U s now c,
  b_step true U true s now c = (s, if touches_server c then down_res c else BVals []) /\
  (down_res c = BRaise <-> c = CPing) /\ down_res c <> BOther /\ (c <> CPing -> falsy (down_res c) = true).
Proof. exact redis_down_safe. Qed.
Print Assumptions C19_down_safe.

(* suppression off: exactly CacheBackendInteractionError *)
Theorem C19_down_strict : forall U s now c, touches_server c = true -> b_step false U true s now c = (s, BRaise).
Proof. exact redis_down_strict. Qed.
Print Assumptions C19_down_strict.

(* over any history, with the server going down and coming back at any positions: no command ends in any other exception,
   and with suppression on the interaction error comes only from ping *)
Theorem C19_history_safe : forall U h s,
  Forall (fun r => r <> BOther) (run_b true U s h) /\
  Forall2 (fun x r => r = BRaise -> cmd_of x = CPing) h (run_b true U s h).
Proof. exact redis_history_safe. Qed.
Print Assumptions C19_history_safe.

(* a read-through decorator over an unreachable backend hands back the function's own result and stores nothing *)
Theorem C19_read_through_survives_down : forall U s now k ttl f, read_through U s now true k ttl f = (s, f).
Proof. exact read_through_survives_down. Qed.
Print Assumptions C19_read_through_survives_down.

(* is_locked(key, wait, step) on a server nobody else writes to, for every wait and step > 0: the answer is what the reference's
   `exists` says at the instant the call returns, `rounds wait step` sleeps after it started (F42: the unrepaired code answered
   True there without asking) *)
Theorem C19_is_locked_wait : forall U s k st fuel now w b, 0 < st ->
  b_is_locked fuel U s now k w st = Some b -> b = present s (now + rounds w st * st) k.
Proof. exact b_is_locked_spec. Qed.
Print Assumptions C19_is_locked_wait.
Example C19_is_locked_example :
  let s := fst (up_step true [] (fun _ => None) 0 (CSetLock "L"%string (VStr "me"%string) 500)) in
  (b_is_locked 9 [] s 0 "L"%string 500 250, b_is_locked 9 [] s 0 "L"%string 250 125, rounds 500 250) = (Some false, Some true, 2).
Proof. vm_compute. reflexivity. Qed.

(* non-vacuity: a counter created by incr with a TTL, an integer written by set and incremented, an owner-checked unlock *)
Open Scope string_scope.
Example C19_example :
  run_b true ["n"; "L"] (fun _ => None)
    [(0, false, CIncr "n" 1 500); (100, false, CGetExpire "n"); (600, false, CGet "n");
     (600, false, CSet "n" (VInt 4) 0 None); (600, false, CIncr "n" 2 0); (600, true, CIncr "n" 2 0);
     (700, false, CSetLock "L" (VStr "me") 1000); (700, false, CUnlock "L" (VStr "you")); (700, false, CUnlock "L" (VStr "me"))]
  = [BInt 1; BInt 0; BVal None; BBool true; BInt 6; BNone; BBool true; BInt 0; BInt 1].
Proof. vm_compute. reflexivity. Qed.

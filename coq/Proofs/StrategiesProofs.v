From Cashews Require Import Base.Prelude Spec.TTLMap Model.DecorStrategies Proofs.DecorSimpleProofs.
Open Scope string_scope.
Open Scope Z_scope.

(* ---------- keys ---------- *)
Lemma app_length_str (a b : string) : String.length (a ++ b) = (String.length a + String.length b)%nat.
Proof. induction a; cbn; [reflexivity|]. f_equal. exact IHa. Qed.
Lemma lock_neq k : lock_key k <> k.
Proof. unfold lock_key. intro E. apply (f_equal String.length) in E. rewrite app_length_str in E. cbn in E. lia. Qed.
Lemma counter_neq k : counter_key k <> k.
Proof. unfold counter_key. intro E. apply (f_equal String.length) in E. rewrite app_length_str in E. cbn in E. lia. Qed.

Lemma s_write_other m now k v ttl k' : k' <> k -> s_write m now k v ttl k' = m k'.
Proof. intro H. unfold s_write, upd. destruct (String.eqb_spec k' k); [congruence|reflexivity]. Qed.
Lemma s_del_other m k k' : k' <> k -> s_del m k k' = m k'.
Proof. intro H. unfold s_del, upd. destruct (String.eqb_spec k' k); [congruence|reflexivity]. Qed.
Lemma s_write_absent' m now k v ttl : s_look m now k = None -> s_write m now k v ttl k = Some (deadline now ttl, v).
Proof. intro H. rewrite (s_write_absent m now k v ttl H k), String.eqb_refl. reflexivity. Qed.

(* ================= early / soft: the stored pair ================= *)
(* every entry of key k is [t0 + inner, id] with the deadline of a store made at t0 (log L of stores) *)
Definition PInv (k : key) (ttl inner : Z) (m : tmap) (L : list (Z * Z)) : Prop :=
  forall d v, m k = Some (d, v) -> exists t0 id, In (t0, id) L /\ v = pack (t0 + inner) id /\ d = deadline t0 ttl.

Lemma PInv_log k ttl inner m L e : PInv k ttl inner m L -> PInv k ttl inner m (e :: L).
Proof. intros H d v E. destruct (H d v E) as (t0 & id & Hin & R). exists t0, id. split; [right; exact Hin|exact R]. Qed.

Lemma PInv_store k ttl inner m L now id : 0 < ttl -> PInv k ttl inner m L ->
  PInv k ttl inner (s_write m now k (pack (now + inner) id) ttl) ((now, id) :: L).
Proof.
  intros Hp H d v E. rewrite s_write_pos in E by exact Hp. rewrite String.eqb_refl in E. injection E as <- <-.
  exists now, id. split; [left; reflexivity|]. split; [reflexivity|]. unfold deadline. destruct (Z.ltb_spec 0 ttl); [reflexivity|lia].
Qed.

Definition log_after (now : Z) (o : xout) (L : list (Z * Z)) := match o with XOk id => (now, id) :: L | XExc _ => L end.

Lemma early_store_inv k ttl ettl m L now o : 0 < ttl -> PInv k ttl ettl m L ->
  PInv k ttl ettl (early_store m now k ttl ettl o) (log_after now o L).
Proof. intros Hp H. destruct o; cbn; [apply PInv_store; assumption|exact H]. Qed.

Lemma PInv_frame k ttl inner m m' L : m' k = m k -> PInv k ttl inner m L -> PInv k ttl inner m' L.
Proof. intros E H d v E'. rewrite E in E'. exact (H d v E'). Qed.

(* what a live entry tells: the result was stored at t0, still within ttl *)
Lemma PInv_live k ttl inner m L now v : 0 < ttl -> PInv k ttl inner m L -> s_get m now k = Some v ->
  exists t0 id, In (t0, id) L /\ v = pack (t0 + inner) id /\ now < t0 + ttl.
Proof.
  intros Hp H. unfold s_get, s_look. destruct (m k) as [[d v0]|] eqn:E; [|discriminate].
  destruct (live now d) eqn:Lv; [|discriminate]. cbn. intros [= <-].
  destruct (H d v0 E) as (t0 & id & Hin & -> & ->). exists t0, id. repeat split; auto.
  unfold deadline in Lv. destruct (Z.ltb_spec 0 ttl); [|lia]. cbn in Lv. apply Z.ltb_lt in Lv. exact Lv.
Qed.

(* ---- early ---- *)
Theorem early_step k ttl ettl bg m L now o : 0 < ttl -> PInv k ttl ettl m L ->
  let '(m', r, a) := early_call m now k ttl ettl bg o in
  (* the invariant is kept (the log grows by the store made inside the call, if any) *)
  PInv k ttl ettl m' (match a with EExec | ERefreshInline => log_after now o L | _ => L end) /\
  match s_get m now k with
  | None => a = EExec /\ r = of_x o                                   (* nothing alive: run the function *)
  | Some v =>
      exists t0 id, In (t0, id) L /\ v = pack (t0 + ettl) id /\ now < t0 + ttl /\   (* never older than ttl *)
        (now <= t0 + ettl -> a = ENone /\ r = RVal id /\ m' = m) /\                  (* young: served, nothing runs *)
        (t0 + ettl < now ->
           (* stale: a refresh starts only when the lock is free, and then the lock is taken for early_ttl *)
           (a = ENone -> r = RVal id /\ m' = m /\ s_look m now (lock_key k) <> None) /\
           (a = ERefreshStarted -> r = RVal id /\ s_look m now (lock_key k) = None /\
                                   s_look m' now (lock_key k) <> None) /\
           (a = ERefreshInline -> s_look m now (lock_key k) = None /\
                                  r = match o with XOk _ => RVal id | XExc e => RRaise e end) /\
           a <> EExec)
  end.
Proof.
  intros Hp HI. unfold early_call. destruct (s_get m now k) as [v|] eqn:G.
  - destruct (PInv_live k ttl ettl m L now v Hp HI G) as (t0 & id & Hin & -> & Hlt).
    cbn [unpack pack].
    destruct (Z.leb_spec now (t0 + ettl)) as [Hy|Hs].
    + split; [exact HI|]. exists t0, id. repeat split; auto; try lia; try discriminate.
    + destruct (s_look m now (lock_key k)) as [e|] eqn:Lk; cbn [isSome].
      * split; [exact HI|]. exists t0, id. repeat split; auto; try lia; try discriminate; try congruence.
      * destruct bg.
        -- split; [apply (PInv_frame k ttl ettl m); [apply s_write_other; intro E; symmetry in E; exact (lock_neq k E)|exact HI]|].
           exists t0, id. repeat split; auto; try lia; try discriminate.
           unfold s_look. rewrite s_write_absent' by exact Lk.
           destruct (deadline now ettl) as [d|] eqn:D; cbn; [|discriminate].
           unfold deadline in D. destruct (Z.ltb_spec 0 ettl); [|discriminate]. injection D as <-.
           destruct (Z.ltb_spec now (now + ettl)); [discriminate|lia].
        -- split.
           ++ unfold early_refresh_done. apply (PInv_frame k ttl ettl (early_store (s_write m now (lock_key k) (VStr "1") ettl) now k ttl ettl o)).
              ** apply s_del_other. intro E. symmetry in E. exact (lock_neq k E).
              ** apply early_store_inv; [exact Hp|]. apply (PInv_frame k ttl ettl m); [|exact HI].
                 apply s_write_other. intro E. symmetry in E. exact (lock_neq k E).
           ++ exists t0, id. repeat split; auto; try lia; try discriminate.
  - split; [apply early_store_inv; assumption|]. split; reflexivity.
Qed.

Theorem early_refresh_inv k ttl ettl m L now o : 0 < ttl -> PInv k ttl ettl m L ->
  PInv k ttl ettl (early_refresh_done m now k ttl ettl o) (log_after now o L) /\
  early_refresh_done m now k ttl ettl o (lock_key k) = None.
Proof.
  intros Hp HI. unfold early_refresh_done. split.
  - apply (PInv_frame k ttl ettl (early_store m now k ttl ettl o)); [|apply early_store_inv; assumption].
    apply s_del_other. intro E. symmetry in E. exact (lock_neq k E).
  - unfold s_del, upd. rewrite String.eqb_refl. reflexivity.
Qed.

(* ---- soft ---- *)
Theorem soft_step k ttl sttl m L now o : 0 < ttl -> PInv k ttl sttl m L ->
  let '(m', r, ex) := soft_call m now k ttl sttl o in
  PInv k ttl sttl m' (if ex then log_after now o L else L) /\
  match s_get m now k with
  | Some v => exists t0 id, In (t0, id) L /\ v = pack (t0 + sttl) id /\ now < t0 + ttl /\
      (now < t0 + sttl -> ex = false /\ r = RVal id) /\
      (t0 + sttl <= now -> ex = true /\
         r = match o with XOk i => RVal i | XExc e => if listed e then RVal id else RRaise e end)
  | None => ex = true /\ r = of_x o
  end.
Proof.
  intros Hp HI. unfold soft_call. destruct (s_get m now k) as [v|] eqn:G.
  - destruct (PInv_live k ttl sttl m L now v Hp HI G) as (t0 & id & Hin & -> & Hlt). cbn [unpack pack].
    destruct (Z.ltb_spec now (t0 + sttl)) as [Hy|Hs].
    + split; [exact HI|]. exists t0, id. repeat split; auto; lia.
    + destruct o as [i|e]; (split; [cbn; try (apply PInv_store; assumption); exact HI|]);
        exists t0, id; repeat split; auto; lia.
  - destruct o as [i|e]; (split; [cbn; try (apply PInv_store; assumption); exact HI|split; reflexivity]).
Qed.

(* ================= failover ================= *)
Definition FInv (k : key) (ttl : Z) (m : tmap) (L : list (Z * Z)) : Prop :=
  forall d v, m k = Some (d, v) -> exists t0 id, In (t0, id) L /\ v = VInt id /\ d = deadline t0 ttl.

Theorem fail_step k ttl m L now o : 0 < ttl -> FInv k ttl m L ->
  let '(m', r, ex) := fail_call m now k ttl o in
  FInv k ttl m' (log_after now o L) /\ ex = true /\                       (* the function runs on every call *)
  match o with
  | XOk i => r = RVal i
  | XExc e => if listed e
              then match s_get m now k with
                   | Some _ => exists t0 id, In (t0, id) L /\ now < t0 + ttl /\ r = RVal id   (* fallback: stored and younger than ttl *)
                   | None => r = RRaise e
                   end
              else r = RRaise e                                          (* unlisted exceptions are never masked *)
  end.
Proof.
  intros Hp HI. unfold fail_call. destruct o as [i|e].
  - split; [|split; reflexivity]. intros d v E. rewrite s_write_pos in E by exact Hp. rewrite String.eqb_refl in E.
    injection E as <- <-. exists now, i. split; [left; reflexivity|]. split; [reflexivity|].
    unfold deadline. destruct (Z.ltb_spec 0 ttl); [reflexivity|lia].
  - split; [exact HI|]. split; [reflexivity|]. destruct (listed e); [|reflexivity].
    unfold s_get, s_look. destruct (m k) as [[d v]|] eqn:E; [|reflexivity].
    destruct (live now d) eqn:Lv; [|reflexivity]. cbn [option_map snd].
    destruct (HI d v E) as (t0 & id & Hin & -> & ->). exists t0, id. repeat split; auto.
    unfold deadline in Lv. destruct (Z.ltb_spec 0 ttl); [|lia]. cbn in Lv. apply Z.ltb_lt in Lv. exact Lv.
Qed.

(* ================= hit ================= *)
(* served = calls answered from the store since the last store of key k.  The counter entry, whenever the stored
   result can still be alive, is an integer at least `served`, and it never lapses before the result does. *)
Definition CntOk (k : key) (m : tmap) : Prop :=
  forall dc vc, m (counter_key k) = Some (dc, vc) -> exists dcv n, dc = Some dcv /\ vc = VInt n /\ 1 <= n.
Definition HInv (k : key) (ttl : Z) (m : tmap) (tcur served : Z) : Prop :=
  0 <= served /\
  (forall d v, m k = Some (d, v) -> exists t0 id, t0 <= tcur /\ d = Some (t0 + ttl) /\ v = VInt id) /\
  CntOk k m /\
  (forall dk vk dcv vc, m k = Some (Some dk, vk) -> m (counter_key k) = Some (Some dcv, vc) -> dk <= dcv) /\
  (forall dk vk, m k = Some (Some dk, vk) -> tcur < dk ->
     served = 0 \/ exists dc n, m (counter_key k) = Some (dc, VInt n) /\ served <= n).

Lemma HInv_empty k ttl t : HInv k ttl empty t 0.
Proof. unfold HInv, CntOk. repeat split; try lia; intros; discriminate. Qed.

Definition served_after (a : eact) (o : xout) (served : Z) : Z :=
  match a, o with
  | EExec, XOk _ | ERefreshInline, XOk _ => 0
  | EExec, XExc _ => served
  | _, _ => served + 1
  end.

Lemma s_look_entry m now key e : s_look m now key = Some e -> m key = Some e /\ live now (fst e) = true.
Proof.
  unfold s_look. destruct (m key) as [[d v]|]; [|discriminate]. destruct (live now d) eqn:L; [|discriminate].
  intros [= <-]. auto.
Qed.

(* incr(counter, expire=ttl) *)
Lemma counter_incr_spec k ttl m now : 0 < ttl -> CntOk k m ->
  let '(m1, n') := counter_incr m now k ttl in
  (forall k', k' <> counter_key k -> m1 k' = m k') /\
  match s_look m now (counter_key k) with
  | Some (dc, vc) => exists n, vc = VInt n /\ n' = n + 1 /\ 1 <= n /\ m1 (counter_key k) = Some (dc, VInt n')
  | None => n' = 1 /\ m1 (counter_key k) = Some (Some (now + ttl), VInt 1)
  end.
Proof.
  intros Hp Hc. unfold counter_incr, s_get.
  destruct (s_look m now (counter_key k)) as [[dc vc]|] eqn:Lk; cbn [option_map snd].
  - destruct (s_look_entry _ _ _ _ Lk) as [Hm _]. destruct (Hc dc vc Hm) as (dcv & n & -> & -> & Hn).
    split; [intros k' Hk'; apply s_write_other; exact Hk'|]. exists n. repeat split; auto.
    destruct (Z.eqb_spec (n + 1) 1) as [E|E]; [lia|].
    unfold s_write, upd. rewrite String.eqb_refl. cbn [deadline Z.ltb]. rewrite Lk. reflexivity.
  - split; [intros k' Hk'; apply s_write_other; exact Hk'|]. split; [reflexivity|].
    change (1 =? 1) with true. cbn iota. rewrite s_write_absent' by exact Lk. unfold deadline. destruct (Z.ltb_spec 0 ttl); [reflexivity|lia].
Qed.

Lemma hit_save_inv k ttl m tcur served now o : 0 < ttl -> tcur <= now -> HInv k ttl m now served ->
  HInv k ttl (hit_save m now k ttl o) now (match o with XOk _ => 0 | XExc _ => served end).
Proof.
  intros Hp Hle HI. destruct o as [id|e]; [|exact HI]. unfold hit_save.
  assert (Ek : forall x : unit, s_write (s_del m (counter_key k)) now k (VInt id) ttl k = Some (Some (now + ttl), VInt id)).
  { intros _. rewrite s_write_pos by exact Hp. rewrite String.eqb_refl. reflexivity. }
  assert (Ec : s_write (s_del m (counter_key k)) now k (VInt id) ttl (counter_key k) = None).
  { rewrite s_write_other by apply counter_neq. unfold s_del, upd. rewrite String.eqb_refl. reflexivity. }
  unfold HInv, CntOk. rewrite Ec. split; [lia|]. split; [|split; [intros; discriminate|split; [intros; discriminate|auto]]].
  intros d v E. rewrite (Ek tt) in E. injection E as <- <-. exists now, id. repeat split; lia.
Qed.

(* one call: whenever it is answered from the store, fewer than cache_hits calls were answered from that
   stored result before; the invariant is kept with the served count updated *)
Theorem hit_step k ttl hits upd bg m tcur served now o : 0 < ttl -> tcur <= now -> HInv k ttl m tcur served ->
  let '(m', r, a) := hit_call m now k ttl hits upd bg o in
  HInv k ttl m' now (served_after a o served) /\
  (a <> EExec -> served + 1 <= hits /\ exists id, s_get m now k = Some (VInt id) /\
                 r = match a, o with ERefreshInline, XExc e => RRaise e | _, _ => RVal id end) /\
  (a = EExec -> r = of_x o).
Proof.
  intros Hp Hle (Hs0 & Hkey & Hcnt & Hord & Hsv). unfold hit_call.
  pose proof (counter_incr_spec k ttl m now Hp Hcnt) as CI.
  destruct (counter_incr m now k ttl) as [m1 n'] eqn:Ecnt. destruct CI as [Hfr Hce].
  assert (Hk1 : m1 k = m k) by (apply Hfr; intro E; symmetry in E; exact (counter_neq k E)).
  (* the invariant of m1 with a given served count s1, provided the counter covers it *)
  assert (Mid : forall s1, 0 <= s1 ->
            (forall dk vk, m k = Some (Some dk, vk) -> now < dk -> s1 = 0 \/ s1 <= n') ->
            HInv k ttl m1 now s1).
  { intros s1 Hs1 Hcov. unfold HInv, CntOk. split; [exact Hs1|]. split; [|split; [|split]].
    - intros d v E. rewrite Hk1 in E. destruct (Hkey d v E) as (t0 & id & Ht & R). exists t0, id. split; [lia|exact R].
    - intros dc vc E. destruct (s_look m now (counter_key k)) as [[dc0 vc0]|] eqn:Lk.
      + destruct Hce as (n & -> & -> & Hn & Em1). rewrite Em1 in E. injection E as <- <-.
        destruct (s_look_entry _ _ _ _ Lk) as [Hm _]. destruct (Hcnt dc0 (VInt n) Hm) as (dcv & n0 & -> & _ & _).
        exists dcv, (n + 1). repeat split; auto. lia.
      + destruct Hce as [-> Em1]. rewrite Em1 in E. injection E as <- <-. exists (now + ttl), 1. repeat split; auto. lia.
    - intros dk vk dcv vc Ek E. rewrite Hk1 in Ek. destruct (Hkey _ _ Ek) as (t0 & id & Ht & Ed & _). injection Ed as ->.
      destruct (s_look m now (counter_key k)) as [[dc0 vc0]|] eqn:Lk.
      + destruct Hce as (n & -> & -> & Hn & Em1). rewrite Em1 in E. injection E as -> _.
        destruct (s_look_entry _ _ _ _ Lk) as [Hm _]. exact (Hord _ _ _ _ Ek Hm).
      + destruct Hce as [-> Em1]. rewrite Em1 in E. injection E as <- _. lia.
    - intros dk vk Ek Hlt. rewrite Hk1 in Ek. destruct (Hcov dk vk Ek Hlt) as [->|Hle']; [left; reflexivity|]. right.
      destruct (s_look m now (counter_key k)) as [[dc0 vc0]|] eqn:Lk.
      + destruct Hce as (n & -> & -> & Hn & Em1). eauto.
      + destruct Hce as [-> Em1]. eauto. }
  (* when the result is alive, the counter read by this call covers `served` *)
  assert (Cov : forall v, s_get m now k = Some v -> exists id, v = VInt id /\ served + 1 <= n' /\
                  exists dk, m k = Some (Some dk, VInt id) /\ now < dk).
  { intros v G. unfold s_get in G. destruct (s_look m now k) as [[d v0]|] eqn:Lk; [|discriminate]. cbn in G. injection G as ->.
    destruct (s_look_entry _ _ _ _ Lk) as [Hm Hlv]. cbn in Hlv. destruct (Hkey d v Hm) as (t0 & id & Ht & -> & ->).
    cbn in Hlv. apply Z.ltb_lt in Hlv. exists id. split; [reflexivity|]. split; [|eauto].
    destruct (Hsv _ _ Hm ltac:(lia)) as [->|(dc & n & Ec & Hn)].
    - destruct (s_look m now (counter_key k)) as [[dc0 vc0]|]; [destruct Hce as (n & _ & -> & Hn & _); lia|destruct Hce as [-> _]; lia].
    - destruct (Hcnt _ _ Ec) as (dcv & n0 & -> & _ & _). pose proof (Hord _ _ _ _ Hm Ec) as Ho.
      assert (Lc : s_look m now (counter_key k) = Some (Some dcv, VInt n)).
      { unfold s_look. rewrite Ec. cbn. destruct (Z.ltb_spec now dcv); [reflexivity|lia]. }
      rewrite Lc in Hce. destruct Hce as (n1 & E1 & -> & _ & _). injection E1 as <-. lia. }
  destruct (s_get m now k) as [v|] eqn:G.
  - destruct (Cov v eq_refl) as (id & -> & Hn' & dk & Hmk & Hdk). cbn [as_int].
    destruct (Z.leb_spec n' hits) as [Hh|Hh].
    + destruct ((0 <? upd) && (n' =? upd)) eqn:U.
      * destruct bg.
        -- split; [cbn [served_after]; apply Mid; [lia|intros; right; lia]|]. split; [intros _; split; [lia|eauto]|discriminate].
        -- split; [|split; [intros _; split; [lia|exists id; split; [reflexivity|destruct o; reflexivity]]|discriminate]].
           unfold served_after. destruct o as [i|e].
           ++ apply (hit_save_inv k ttl m1 now (served + 1) now (XOk i) Hp ltac:(lia)). apply Mid; [lia|intros; right; lia].
           ++ cbn [hit_save]. apply Mid; [lia|intros; right; lia].
      * split; [cbn [served_after]; apply Mid; [lia|intros; right; lia]|]. split; [intros _; split; [lia|eauto]|discriminate].
    + split; [|split; [congruence|reflexivity]]. unfold served_after. destruct o as [i|e].
      * apply (hit_save_inv k ttl m1 now served now (XOk i) Hp ltac:(lia)). apply Mid; [lia|intros; right; lia].
      * cbn [hit_save]. apply Mid; [lia|intros; right; lia].
  - (* nothing alive *)
    split; [|split; [congruence|reflexivity]]. unfold served_after. destruct o as [i|e].
    + apply (hit_save_inv k ttl m1 now 0 now (XOk i) Hp ltac:(lia)). apply Mid; [lia|auto].
    + cbn [hit_save]. apply Mid; [lia|].
      intros dk vk Ek Hlt. exfalso. unfold s_get, s_look in G. rewrite Ek in G. cbn in G.
      destruct (Z.ltb_spec now dk); [discriminate|lia].
Qed.

(* the store condition raising after a successful execution: the exception goes to the caller, nothing is stored, and
   in particular the stored result is not handed out *)
Lemma failc_cond_raises m now k ttl id : Z.odd id = true -> failc_call m now k ttl (XOk id) = (m, RRaise 1, true).
Proof. intro H. unfold failc_call. rewrite H. reflexivity. Qed.
Lemma failc_otherwise m now k ttl o : (forall id, o = XOk id -> Z.odd id = false) -> failc_call m now k ttl o = fail_call m now k ttl o.
Proof. intro H. destruct o as [id|e]; [|reflexivity]. unfold failc_call. rewrite (H id eq_refl). reflexivity. Qed.

"""C13: pattern commands (scan / get_match / delete_match / invalidate) are glob matches."""
import asyncio
import itertools

from harness import vclock
from harness.core import C, S, Some

ID = "C13"
RUN_MODULE = "Run.C13"
EXPLAIN = "explain"
ALPHA = ["a", "b", ":", "*", ".", "+", "(", ")", "|", "^", "$", "{", "}", "A", "\n", " ", "-", "#", "~"]     # + upper case (no case folding), newline ('*' spans lines), more characters re.escape treats specially
KALPHA = [c for c in ALPHA]  # keys may contain a literal '*' too
RULE = ("key sets (3-9 keys of length 1-3, some written with a TTL that has expired and not been purged) and patterns (length 1-4) over "
        "the alphabet a b : * . + ( ) | ^ $ { } A newline space - # ~ ; commands scan / get_match / delete_match / @invalidate on Memory directly and through the "
        "facade, and scan / get_match / delete_match inside a transaction (FAST and LOCKED) with the keys split between store, overlay and "
        "pending deletes. non-trivial: the pattern contains a regular-expression metacharacter or the key set contains an expired entry, "
        "and at least one key matches and one does not")
TRUSTED_BASE = ["Coq 8.16.1 kernel + vm_compute", "hand-written model coq/Model/Scan.v (re.escape table, str.replace, regex fragment) tied by this run",
                "Python's re for the fragment {escaped literal, plain literal, '.*'} with DOTALL is modelled, not verified"]
ASSUMPTIONS = ["patterns do not reach reserved ':'-prefixed keys (lock keys are filtered out of transaction observations)",
               "glob characters ? [ ] \\ are excluded from the generated alphabet (they are literal for the in-memory backend)"]
EXHAUSTIVE = {"quick": False, "thorough": True}


def _word(rng, alpha, lo, hi):
    return "".join(rng.choice(alpha) for _ in range(rng.randint(lo, hi)))


def gen_cases(rng, tier):
    cases = []
    n = 1500 if tier == "quick" else 8000
    for _ in range(n):
        keys = sorted({_word(rng, KALPHA, 1, 3) for _ in range(rng.randint(3, 9))})
        keys = [k for k in keys if not k.startswith(":")]
        if not keys:
            continue
        if rng.random() < 0.5:
            pat = _word(rng, ALPHA, 1, 4)
        else:  # derive from a key so that matches are frequent
            k = rng.choice(keys)
            i = rng.randrange(len(k) + 1)
            pat = k[:i] + "*" + k[i + rng.choice([0, 1]):] if rng.random() < 0.7 else k
        kind = rng.choice(["scan", "get_match", "delete_match", "invalidate", "tx_scan", "tx_get_match", "tx_delete_match"])
        c = {"kind": kind, "keys": keys, "pattern": pat, "facade": rng.random() < 0.5,
             "expired": [k for k in keys if rng.random() < 0.2]}
        # some keys hold a bit field (created with incr_bits): ordinary keys for scan / delete_match, never a (key, value) of get_match
        c["bits"] = [k for k in keys if k not in c["expired"] and rng.random() < 0.15] if kind != "invalidate" else []
        if kind.startswith("tx_"):
            roles = {k: ("B" if k in c["bits"] else rng.choice(["B", "L", "D", "BL", "BD"])) for k in keys}
            c["roles"] = roles
            c["mode"] = rng.choice(["fast", "locked"])
            c["expired"] = []
        cases.append(c)
    # one '*' with literal text on both sides that OVERLAPS in a key of the set: head and tail each fit, the whole pattern does not
    for c in list(cases)[:300]:
        k = max(c["keys"], key=len)
        if len(k) >= 2 and "*" not in k:
            i = 1 + len(c["keys"]) % (len(k) - 1) if len(k) > 2 else 1
            cases.append({"kind": ["scan", "delete_match", "get_match"][len(c["keys"]) % 3], "keys": c["keys"], "pattern": k[:i + 1] + "*" + k[i:] if i < len(k) else k + "*" + k,
                          "facade": bool(len(k) % 2), "expired": [], "bits": []})
    if tier == "thorough":  # every pattern of length <= 3 against every key of length <= 2 (8-letter sub-alphabet)
        sub = ["a", ":", "*", ".", "+", "(", "|", "$"]
        keys = [k for n_ in (1, 2) for k in map("".join, itertools.product(sub, repeat=n_)) if not k.startswith(":")]
        for n_ in (1, 2, 3):
            for p in map("".join, itertools.product(sub, repeat=n_)):
                cases.append({"kind": "scan", "keys": keys, "pattern": p, "facade": False, "expired": []})
    return cases


def run_impl(case):
    kind = case["kind"]

    async def go():
        from cashews import Cache
        from cashews.wrapper.transaction import TransactionMode
        cache = Cache()
        mem = cache.setup("mem://?check_interval=0&size=100000")
        await cache.init()
        target = cache if case["facade"] or kind.startswith("tx_") or kind == "invalidate" else mem
        try:
            if not kind.startswith("tx_"):
                for k in case["keys"]:
                    if k in case.get("bits", ()): await mem.incr_bits(k, 0)
                    else: await mem.set(k, "v:" + k, expire=1 if k in case["expired"] else None)
                await asyncio.sleep(2)
                live = [k for k in case["keys"] if k not in case["expired"]]
                if kind == "scan":
                    out = [k async for k in target.scan(case["pattern"])]
                elif kind == "get_match":
                    out = [k if v == "v:" + k else k + "!wrong-value" async for k, v in target.get_match(case["pattern"])]
                elif kind == "delete_match":
                    await target.delete_match(case["pattern"])
                    out = [k for k in live if await mem.exists(k)]
                elif len(case["pattern"]) % 2:
                    @cache.invalidate("{x}")
                    async def f(x):
                        return 1
                    await f(x=case["pattern"])
                    out = [k for k in live if await mem.exists(k)]
                elif len(case["keys"]) % 3 == 0:
                    # the whole pattern is literal text of the template (braces written doubled), no field at all
                    @cache.invalidate(case["pattern"].replace("{", "{{").replace("}", "}}"))
                    async def lit():
                        return 1
                    await lit()
                    out = [k for k in live if await mem.exists(k)]
                elif len(case["keys"]) % 3 == 1 and len(case["pattern"]) % 2 == 0:
                    # the pattern is the DECLARED default of a parameter: an earlier keyword call with another value must not leave it behind
                    ns = {}
                    exec("async def dflt(uid='u', x=%r):\n    return 1\n" % case["pattern"], ns)
                    dflt = cache.invalidate("{x}")(ns["dflt"])
                    await dflt(uid="1", x="zz-no-such-key-\x00")
                    await dflt(uid="1")
                    out = [k for k in live if await mem.exists(k)]
                elif len(case["pattern"]) % 4 == 0:
                    # the template field is filled through args_map from a differently named parameter, and has a fallback in defaults
                    @cache.invalidate("{x}", args_map={"x": "pat"}, defaults={"x": "*"})
                    async def h(pat, other=None):
                        return 1
                    await h(case["pattern"])
                    out = [k for k in live if await mem.exists(k)]
                else:       # the pattern field has a default ('*') and is passed by keyword after another keyword argument
                    @cache.invalidate("{x}")
                    async def g(uid, x="*"):
                        return 1
                    await g(uid="1", x=case["pattern"])
                    out = [k for k in live if await mem.exists(k)]
                return {"out": sorted(out), "err": None}
            roles = case["roles"]
            for k, r in roles.items():
                if k in case.get("bits", ()): await mem.incr_bits(k, 0)
                elif "B" in r:
                    await mem.set(k, ("old:" if "L" in r else "v:") + k)      # a key that is overwritten in the block holds another value in the store
            mode = TransactionMode.FAST if case["mode"] == "fast" else TransactionMode.LOCKED
            async with cache.transaction(mode=mode):
                for k, r in roles.items():
                    if "D" in r:
                        if r == "BD" and len(k) % 2 == 0:      # the stored key is first overwritten in the block, then removed with delete_many
                            await cache.set(k, "tmp:" + k)
                            await cache.delete_many(k)
                        else:
                            await cache.delete(k)
                for k, r in roles.items():
                    if "L" in r:
                        await cache.set(k, "v:" + k)
                if kind == "tx_scan":
                    out = [k async for k in cache.scan(case["pattern"])]
                elif kind == "tx_get_match":
                    out = [k if v == "v:" + k else k + "!wrong-value" async for k, v in cache.get_match(case["pattern"])]
                else:
                    await cache.delete_match(case["pattern"])
                    out = [k for k in case["keys"] if await cache.exists(k)]
                out = [k for k in out if not k.startswith(":")]
                dup = len(out) != len(set(out))
                res = {"out": sorted(set(out)) + (["!duplicate"] if dup else []), "err": None}
                raise _Rollback(res)
        except _Rollback as r:
            return r.res
        except Exception as e:  # noqa
            return {"out": None, "err": type(e).__name__}
        finally:
            await cache.close()
    return vclock.run(go)


class _Rollback(Exception):
    def __init__(self, res):
        self.res = res


def _ks(l):
    return [S(k) for k in l]


def to_coq(case, obs):
    out = None if obs["out"] is None else Some(_ks(obs["out"]))
    kind = case["kind"]
    p = S(case["pattern"])
    hidden = set(case.get("bits", ())) if kind in ("get_match", "tx_get_match") else set()     # a bit field is not a value
    if kind.startswith("tx_"):
        roles = case["roles"]
        L = [k for k in case["keys"] if "L" in roles[k]]
        B = [k for k in case["keys"] if "B" in roles[k] and k not in hidden]
        D = [k for k in case["keys"] if "D" in roles[k]]
        return C("CTxDel" if kind == "tx_delete_match" else "CTx", _ks(L), _ks(B), _ks(D), p, out)
    live = [k for k in case["keys"] if k not in case["expired"] and k not in hidden]
    return C("CDel" if kind in ("delete_match", "invalidate") else "CScan", _ks(live), p, out)


META = set(".+()|^${}")


def nontrivial(case, obs):
    if obs["out"] is None:
        return True
    interesting = bool(set(case["pattern"]) & META) or bool(case["expired"]) or case["kind"].startswith("tx_")
    n = len(obs["out"])
    return interesting and 0 < n < len(case["keys"])


def classify(case, obs):
    return {"kind_" + case["kind"]: 1, "raised": int(obs["out"] is None), "pattern_has_meta": int(bool(set(case["pattern"]) & META)),
            "pattern_has_star": int("*" in case["pattern"]), "expired_entries": len(case["expired"]), "bit_field_keys": len(case.get("bits", ())),
            "selected": len(obs["out"] or [])}


def shrink(case):
    ks = case["keys"]
    for i in range(len(ks)):
        c = dict(case); c["keys"] = ks[:i] + ks[i + 1:]
        c["expired"] = [k for k in case["expired"] if k in c["keys"]]
        c["bits"] = [k for k in case.get("bits", ()) if k in c["keys"]]
        if "roles" in case: c["roles"] = {k: v for k, v in case["roles"].items() if k in c["keys"]}
        if c["keys"]: yield c
    p = case["pattern"]
    for i in range(len(p)):
        c = dict(case); c["pattern"] = p[:i] + p[i + 1:]
        if c["pattern"]: yield c
    if case["expired"]:
        c = dict(case); c["expired"] = []; yield c
    if case.get("facade"):
        c = dict(case); c["facade"] = False; yield c


def neighbours(case, rng):
    out = list(shrink(case))
    for kind in ("scan", "get_match", "delete_match"):
        if not case["kind"].startswith("tx_"):
            c = dict(case); c["kind"] = kind; out.append(c)
    for ch in ALPHA:
        c = dict(case); c["pattern"] = case["pattern"] + ch; out.append(c)
    return out

(* C12, second sentence (precision), the part that survives F21: in a history without TTLs in which every tag given to a
   key is registered for that key's template, delete_tags(t) leaves untouched every key that has not carried t since its
   last removal - keys that never carried t, and keys deleted after carrying t and re-created without it.
   Any registry, any order of writes, any number of keys. *)
From Cashews Require Import Base.Prelude Spec.TTLMap Model.Tags Proofs.StrategiesProofs Proofs.TagsProofs Proofs.TagsCompleteProofs.
Open Scope string_scope.
Open Scope list_scope.
Open Scope Z_scope.

(* ghost: the tags carried by the writes of a key since it was last removed (by delete, delete_match or delete_tags) *)
Definition jstep (keys : list key) (m : tmap) (now : Z) (j : info) (e : tev) : info :=
  match e with
  | TSet k _ _ tags => iupd j k (tags ++ j k)
  | TIncr k _ _ tags => match s_get m now k with Some (VInt _) | None => iupd j k (tags ++ j k) | Some _ => j end
  | TDel k => iupd j k []
  | TDelPrefix p => fun k => if mems k keys && isSome (drop_prefix p k) then [] else j k
  | TDeleteTags t => fun k => if mems k (set_of m now (tag_key t)) then [] else j k
  end.
Definition ev_reg (reg : registry) (e : tev) : Prop :=
  match e with
  | TSet k _ ttl tags | TIncr k _ ttl tags => ttl = 0 /\ not_tagkey k /\ forall t, In t tags -> In t (key_tags reg k)
  | TDel k => not_tagkey k
  | _ => True
  end.

Section Precise.
Variable reg : registry.

Definition Inv2 (m : tmap) (j : info) : Prop :=
  NoTTL m /\
  (forall t x, In x (set_of m 0 (tag_key t)) -> not_tagkey x /\ m x <> None /\ In t (j x)) /\
  (forall x t, not_tagkey x -> In t (j x) -> In t (key_tags reg x)) /\
  (forall x, not_tagkey x -> m x = None -> j x = []).

Lemma inv2_empty : Inv2 empty (fun _ => []).
Proof.
  split; [intros k d v H; discriminate|]. split; [intros t x H; unfold set_of in H; cbn in H; destruct H|].
  split; [intros x t _ []|reflexivity].
Qed.

(* ---- what the set operations do to membership ---- *)
Lemma set_add_members m now tk x y tk' : In y (set_of (set_add m now tk x 0) now tk') -> In y (set_of m now tk') \/ (y = x /\ tk' = tk).
Proof.
  destruct (String.eqb_spec tk' tk) as [->|Hd].
  - unfold set_add. rewrite set_of_write. destruct (mems x (set_of m now tk)); [left; assumption|].
    intro H. apply in_app_iff in H as [H|[<-|[]]]; [left; exact H|right; split; reflexivity].
  - rewrite set_add_other by exact Hd. left. assumption.
Qed.
Lemma add_tags_members m now k tags y tk : In y (set_of (add_tags m now k 0 tags) now tk) ->
  In y (set_of m now tk) \/ (y = k /\ exists t, In t tags /\ tk = tag_key t).
Proof.
  unfold add_tags. revert m. induction tags as [|t tags IH]; intros m H; cbn [fold_left] in H; [left; exact H|].
  destruct (IH _ H) as [H1|(-> & t' & Ht' & ->)].
  - destruct (set_add_members _ _ _ _ _ _ H1) as [H2|[-> ->]]; [left; exact H2|right; split; [reflexivity|exists t; split; [left; reflexivity|reflexivity]]].
  - right. split; [reflexivity|]. exists t'. split; [right; exact Ht'|reflexivity].
Qed.
Lemma set_remove_members m now tk x y tk' : In y (set_of (set_remove m now tk x) now tk') -> In y (set_of m now tk') /\ (tk' = tk -> y <> x).
Proof.
  destruct (String.eqb_spec tk' tk) as [->|Hd].
  - unfold set_remove. rewrite set_of_write. intro H. apply filter_In in H as [H1 H2]. split; [exact H1|].
    intros _ E. subst y. rewrite String.eqb_refl in H2. discriminate.
  - rewrite set_remove_other by exact Hd. intro H. split; [exact H|]. intro E. contradiction.
Qed.
Lemma on_remove_members m now k y tk : In y (set_of (on_remove reg m now k) now tk) ->
  In y (set_of m now tk) /\ (forall t, In t (key_tags reg k) -> tk = tag_key t -> y <> k).
Proof.
  unfold on_remove. generalize (key_tags reg k). intro ts. revert m. induction ts as [|t ts IH]; intros m H; cbn [fold_left] in H.
  - split; [exact H|]. intros t [].
  - destruct (IH _ H) as [H1 H2]. destruct (set_remove_members _ _ _ _ _ _ H1) as [H3 H4]. split; [exact H3|].
    intros t' [<-|Ht'] E; [apply H4; exact E|apply (H2 t' Ht' E)].
Qed.
Lemma raw_delete_members m now k y tk : not_tagkey k -> (exists t, tk = tag_key t) -> In y (set_of (raw_delete reg m now k) now tk) ->
  In y (set_of m now tk) /\ (m k <> None -> forall t, In t (key_tags reg k) -> tk = tag_key t -> y <> k).
Proof.
  intros Hk (t0 & ->) H. unfold raw_delete in H. destruct (m k) eqn:E.
  - destruct (on_remove_members _ _ _ _ _ H) as [H1 H2]. rewrite set_of_upd_none in H1 by (intro E1; apply (Hk t0); symmetry; exact E1).
    split; [exact H1|]. intros _. exact H2.
  - split; [exact H|]. intro C. contradiction.
Qed.

(* ---- one write ---- *)
Lemma inv2_write m j now k v tags : Inv2 m j -> not_tagkey k -> (forall t, In t tags -> In t (key_tags reg k)) ->
  Inv2 (add_tags (s_write m now k v 0) now k 0 tags) (iupd j k (tags ++ j k)).
Proof.
  intros (N & B & R & J0) Hk Hreg.
  assert (N1 : NoTTL (s_write m now k v 0)) by (apply nottl_write; exact N).
  assert (N2 : NoTTL (add_tags (s_write m now k v 0) now k 0 tags)) by (apply nottl_add_tags; exact N1).
  assert (Pk : add_tags (s_write m now k v 0) now k 0 tags k <> None).
  { rewrite add_tags_data by exact Hk. unfold s_write, upd. rewrite String.eqb_refl. discriminate. }
  split; [exact N2|]. split; [|split].
  - intros t x Hx. rewrite (set_of_now _ 0 now) in Hx by exact N2.
    destruct (add_tags_members _ _ _ _ _ _ Hx) as [H1|(-> & t' & Ht' & E)].
    + rewrite set_of_data_write in H1; [|exact Hk|eauto]. rewrite (set_of_now _ now 0) in H1 by exact N.
      destruct (B t x H1) as (Hxd & Hp & Hin). split; [exact Hxd|]. unfold iupd. destruct (String.eqb_spec x k) as [->|Hne].
      * split; [exact Pk|apply in_or_app; right; exact Hin].
      * split; [|exact Hin]. rewrite add_tags_data by exact Hxd. rewrite s_write_other by exact Hne. exact Hp.
    + apply tag_key_inj in E. subst t'. split; [exact Hk|]. split; [exact Pk|]. unfold iupd. rewrite String.eqb_refl. apply in_or_app. left. exact Ht'.
  - intros x t Hx Hin. unfold iupd in Hin. destruct (String.eqb_spec x k) as [->|]; [|eauto].
    apply in_app_iff in Hin as [H|H]; [apply Hreg; exact H|eauto].
  - intros x Hx E. unfold iupd. destruct (String.eqb_spec x k) as [->|Hne]; [contradiction|].
    apply J0; [exact Hx|]. rewrite add_tags_data in E by exact Hx. rewrite s_write_other in E by exact Hne. exact E.
Qed.

(* ---- one removal ---- *)
Lemma inv2_delete m j now k : Inv2 m j -> not_tagkey k -> Inv2 (raw_delete reg m now k) (iupd j k []).
Proof.
  intros (N & B & R & J0) Hk. assert (N1 : NoTTL (raw_delete reg m now k)) by (apply nottl_raw_delete; exact N).
  split; [exact N1|]. split; [|split].
  - intros t x Hx. rewrite (set_of_now _ 0 now) in Hx by exact N1.
    destruct (raw_delete_members _ _ _ _ _ Hk (ex_intro _ t eq_refl) Hx) as [H1 H2]. rewrite (set_of_now _ now 0) in H1 by exact N.
    destruct (B t x H1) as (Hxd & Hp & Hin). split; [exact Hxd|].
    destruct (String.eqb_spec x k) as [->|Hne].
    + (* k itself cannot still be a member: it was present, and t is one of its registered tags *)
      exfalso. apply (H2 Hp t (R _ _ Hxd Hin) eq_refl). reflexivity.
    + split; [rewrite raw_delete_other by assumption; exact Hp|]. unfold iupd. destruct (String.eqb_spec x k); [contradiction|exact Hin].
  - intros x t Hx Hin. unfold iupd in Hin. destruct (String.eqb_spec x k); [destruct Hin|eauto].
  - intros x Hx E. unfold iupd. destruct (String.eqb_spec x k) as [->|Hne]; [reflexivity|].
    apply J0; [exact Hx|]. rewrite raw_delete_other in E by assumption. exact E.
Qed.

Lemma inv2_agree m (j j' : info) : Inv2 m j -> (forall k, m k <> None -> j' k = j k) -> (forall k, not_tagkey k -> m k = None -> j' k = []) -> Inv2 m j'.
Proof.
  intros (N & B & R & J0) H H0. split; [exact N|]. split; [|split].
  - intros t x Hx. destruct (B t x Hx) as (Hxd & Hp & Hin). split; [exact Hxd|]. split; [exact Hp|]. rewrite (H x Hp). exact Hin.
  - intros x t Hx Hin. destruct (m x) eqn:E.
    + rewrite H in Hin by congruence. eauto.
    + rewrite (H0 x Hx E) in Hin. destruct Hin.
  - exact H0.
Qed.

(* deleting some of the keys of a list: the ghost is cleared exactly for keys that are gone afterwards *)
Lemma inv2_delete_some now (test : tmap -> key -> bool) : forall l m j, Forall not_tagkey l -> Inv2 m j ->
  let m' := fold_left (fun m' k => if test m' k then raw_delete reg m' now k else m') l m in
  exists j', Inv2 m' j' /\ (forall k, j' k = j k \/ (j' k = [] /\ m' k = None /\ In k l /\ exists m0, test m0 k = true)).
Proof.
  induction l as [|k l IH]; intros m j Hl HI; cbn [fold_left].
  - exists j. split; [exact HI|]. intros; left; reflexivity.
  - inversion Hl as [|? ? Hk Hl']; subst. destruct (test m k) eqn:T.
    + destruct (IH (raw_delete reg m now k) (iupd j k []) Hl' (inv2_delete m j now k HI Hk)) as (j' & HI' & Hor).
      exists j'. split; [exact HI'|]. intro x. destruct (Hor x) as [E|(E1 & E2 & E3 & E4)]; [|right; repeat split; try assumption; right; exact E3].
      unfold iupd in E. destruct (String.eqb_spec x k) as [Ex|]; [|left; exact E]. subst x.
      right. split; [exact E|]. split; [apply absent_stays; [exact Hl'|exact Hk|apply raw_delete_self; exact Hk]|].
      split; [left; reflexivity|exists m; exact T].
    + destruct (IH m j Hl' HI) as (j' & HI' & Hor). exists j'. split; [exact HI'|].
      intro x. destruct (Hor x) as [E|(E1 & E2 & E3 & E4)]; [left; exact E|right; repeat split; try assumption; right; exact E3].
Qed.

(* one event keeps the invariant, with the ghost updated as jstep says *)
Lemma inv2_step keys m j now e : Forall not_tagkey keys -> ev_reg reg e -> Inv2 m j -> Inv2 (tag_step reg keys m now e) (jstep keys m now j e).
Proof.
  intros Hkeys He HI. pose proof HI as (N & B & R & J0). unfold tag_step. rewrite purge_id by exact N.
  destruct e as [k v ttl tags|k by_ ttl tags|k|p|t]; cbn [jstep].
  - destruct He as (-> & Hk & Hr). apply inv2_write; assumption.
  - destruct He as (-> & Hk & Hr). destruct (s_get m now k) as [[z| | | | | | |]|] eqn:G; try exact HI.
    + assert (E : (if z + by_ =? 1 then 0 else 0) = 0) by (destruct (z + by_ =? 1); reflexivity). rewrite E. apply inv2_write; assumption.
    + assert (E : (if by_ =? 1 then 0 else 0) = 0) by (destruct (by_ =? 1); reflexivity). rewrite E. apply inv2_write; assumption.
  - cbn in He. destruct (s_look m now k) eqn:L; [apply inv2_delete; assumption|].
    rewrite s_look_nottl in L by exact N. eapply inv2_agree; [exact HI| |].
    + intros x Hp. unfold iupd. destruct (String.eqb_spec x k); [congruence|reflexivity].
    + intros x Hx E. unfold iupd. destruct (String.eqb_spec x k); [reflexivity|apply J0; assumption].
  - assert (Eq : fold_left (fun m' k => match drop_prefix p k with
                                        | Some _ => match s_look m' now k with Some _ => raw_delete reg m' now k | None => m' end
                                        | None => m' end) keys m =
                 fold_left (fun m' k => if match drop_prefix p k with Some _ => isSome (s_look m' now k) | None => false end then raw_delete reg m' now k else m') keys m).
    { clear. revert m. induction keys as [|k keys IH]; intro m; cbn [fold_left]; [reflexivity|]. rewrite <- IH. f_equal.
      destruct (drop_prefix p k); [destruct (s_look m now k); reflexivity|reflexivity]. }
    rewrite Eq.
    pose proof (inv2_delete_some now (fun m' k => match drop_prefix p k with Some _ => isSome (s_look m' now k) | None => false end) keys m j Hkeys HI) as D.
    cbv zeta in D. destruct D as (j' & HI' & Hor). pose proof HI' as (N' & _ & _ & J0').
    eapply inv2_agree; [exact HI'| |].
    + intros x Hp. destruct (Hor x) as [E|(_ & E & _)]; [|contradiction]. rewrite E.
      destruct (mems x keys && isSome (drop_prefix p x)) eqn:Bx; [|reflexivity].
      (* a key of the list with the prefix that is still present: impossible *)
      exfalso. apply andb_true_iff in Bx as [Bk Bp]. apply mems_in in Bk.
      assert (G : forall l m0, Forall not_tagkey l -> NoTTL m0 -> In x l ->
                 fold_left (fun m' k => if match drop_prefix p k with Some _ => isSome (s_look m' now k) | None => false end then raw_delete reg m' now k else m') l m0 x = None).
      { induction l as [|k0 l IH]; intros m0 Hl N0 Hin; [destruct Hin|]. cbn [fold_left]. inversion Hl as [|? ? Hk0 Hl']; subst.
        destruct (in_dec string_dec x l) as [Hi|Hni].
        - apply IH; [exact Hl'| |exact Hi]. destruct (match drop_prefix p k0 with Some _ => isSome (s_look m0 now k0) | None => false end); [apply nottl_raw_delete|]; exact N0.
        - destruct Hin as [->|Hin]; [|contradiction]. destruct (drop_prefix p x) as [r|]; [|discriminate].
          apply absent_stays; [exact Hl'|exact Hk0|]. destruct (isSome (s_look m0 now x)) eqn:Lx; [apply raw_delete_self; exact Hk0|].
          rewrite s_look_nottl in Lx by exact N0. destruct (m0 x); [discriminate|reflexivity]. }
      apply Hp. apply G; [exact Hkeys|exact N|exact Bk].
    + intros x Hx E. destruct (mems x keys && isSome (drop_prefix p x)) eqn:Bx; [reflexivity|].
      destruct (Hor x) as [E1|(_ & _ & Hin & m0 & Ht)]; [rewrite <- E1; apply J0'; assumption|].
      exfalso. apply mems_in in Hin. rewrite Hin in Bx. destruct (drop_prefix p x); [discriminate|discriminate].
  - (* delete_tags *)
    unfold delete_tag. set (members := set_of m now (tag_key t)).
    assert (Hm0 : members = set_of m 0 (tag_key t)) by (unfold members; apply set_of_now; exact N).
    assert (Mnt : Forall not_tagkey members) by (apply Forall_forall; intros x Hx; rewrite Hm0 in Hx; apply (B t x Hx)).
    set (m1 := s_write m now (tag_key t) (VSet []) 0).
    assert (I1 : Inv2 m1 j).
    { assert (N1 : NoTTL m1) by (apply nottl_write; exact N). split; [exact N1|]. split; [|split; [exact R|]].
      - intros t' x Hx. rewrite (set_of_now _ 0 now) in Hx by exact N1. unfold m1 in Hx.
        destruct (String.eqb_spec (tag_key t') (tag_key t)) as [E|Hne].
        + rewrite E, set_of_write in Hx. destruct Hx.
        + rewrite set_of_other in Hx by exact Hne. rewrite (set_of_now _ now 0) in Hx by exact N.
          destruct (B t' x Hx) as (Hxd & Hp & Hin). split; [exact Hxd|]. split; [|exact Hin].
          unfold m1. rewrite s_write_other by apply Hxd. exact Hp.
      - intros x Hx E. apply J0; [exact Hx|]. unfold m1 in E. rewrite s_write_other in E by apply Hx. exact E. }
    assert (Fin : forall m2, Inv2 m2 j -> members <> [] \/ True ->
              let m' := fold_left (fun m' k => raw_delete reg m' now k) members m2 in
              Inv2 m' (fun k => if mems k members then [] else j k)).
    { intros m2 I2 _. pose proof (inv2_delete_some now (fun _ _ => true) members m2 j Mnt I2) as D. cbv zeta in D.
      destruct D as (j' & HI' & Hor). pose proof HI' as (_ & _ & _ & J0').
      eapply inv2_agree; [exact HI'| |].
      - intros x Hp. destruct (Hor x) as [E|(_ & E & _)]; [|contradiction]. rewrite E.
        destruct (mems x members) eqn:Mx; [|reflexivity]. exfalso. apply Hp. apply mems_in in Mx.
        apply fold_delete_none; [exact Mnt|left; exact Mx].
      - intros x Hx E. destruct (mems x members) eqn:Mx; [reflexivity|]. destruct (Hor x) as [E1|(_ & _ & Hin & _)]; [rewrite <- E1; apply J0'; assumption|].
        apply mems_in in Hin. congruence. }
    destruct members as [|y l] eqn:Em.
    + (* nothing to pop: the (empty) set is rewritten *)
      assert (I0 : Inv2 m1 (fun k => if mems k [] then [] else j k)) by (eapply inv2_agree; [exact I1|reflexivity|intros x Hx E; cbn; pose proof I1 as (_ & _ & _ & J1); apply J1; assumption]).
      destruct (s_get m now (tag_key t)); exact I0.
    + apply (Fin m1 I1). left. discriminate.
Qed.

(* ---- precision of delete_tags ---- *)
Theorem delete_tags_precise keys m j now t : Inv2 m j ->
  forall k, not_tagkey k -> ~ In t (j k) -> tag_step reg keys m now (TDeleteTags t) k = m k.
Proof.
  intros (N & B & R & J0) k Hk Hnin. unfold tag_step. rewrite purge_id by exact N. unfold delete_tag.
  set (members := set_of m now (tag_key t)).
  assert (Hm0 : members = set_of m 0 (tag_key t)) by (unfold members; apply set_of_now; exact N).
  assert (Knm : ~ In k members) by (intro H; rewrite Hm0 in H; apply Hnin; apply (B t k H)).
  assert (Mnt : Forall not_tagkey members) by (apply Forall_forall; intros x Hx; rewrite Hm0 in Hx; apply (B t x Hx)).
  assert (G : forall l m0, ~ In k l -> fold_left (fun m' k0 => raw_delete reg m' now k0) l m0 k = m0 k).
  { induction l as [|k0 l IH]; intros m0 Hn; cbn [fold_left]; [reflexivity|].
    rewrite IH by (intro H; apply Hn; right; exact H). apply raw_delete_other; [exact Hk|]. intro E. apply Hn. left. symmetry. exact E. }
  destruct members as [|y l] eqn:Em.
  - destruct (s_get m now (tag_key t)); apply s_write_other; apply Hk.
  - rewrite G by exact Knm. apply s_write_other. apply Hk.
Qed.

(* whole histories *)
Fixpoint run_j (keys : list key) (m : tmap) (j : info) (h : list (Z * tev)) : tmap * info :=
  match h with
  | [] => (m, j)
  | (t, e) :: r => run_j keys (tag_step reg keys m t e) (jstep keys m t j e) r
  end.

Theorem tags_precise_nottl keys h : Forall not_tagkey keys -> Forall (fun te => ev_reg reg (snd te)) h ->
  let '(m, j) := run_j keys empty (fun _ => []) h in
  Inv2 m j /\
  forall now t k, not_tagkey k -> ~ In t (j k) -> tag_step reg keys m now (TDeleteTags t) k = m k.
Proof.
  intros Hkeys Hh.
  assert (G : forall h m j, Forall (fun te => ev_reg reg (snd te)) h -> Inv2 m j -> Inv2 (fst (run_j keys m j h)) (snd (run_j keys m j h))).
  { clear h Hh. induction h as [|[t e] h IH]; intros m j Hh HI; cbn [run_j]; [exact HI|].
    inversion Hh as [|? ? He Hh']; subst. apply IH; [exact Hh'|]. apply inv2_step; assumption. }
  specialize (G h empty (fun _ => []) Hh inv2_empty). destruct (run_j keys empty (fun _ => []) h) as [m j]. cbn [fst snd] in G.
  split; [exact G|]. intros now t k Hk Hn. apply (delete_tags_precise keys m j now t G k Hk Hn).
Qed.
End Precise.

(* Executable image of cache-key derivation:
     key.py        get_cache_key (incl. the keyword-only fast path), _get_call_values, generate_key_template
     formatter.py  default_format / _FuncFormatter.vformat (fast str.format path vs fallback), value rendering per type
   inspect.Signature.bind + apply_defaults is modelled (Python call binding).  Definitions only. *)
From Coq Require Import Ascii DecimalString DecimalZ Decimal.
From Cashews Require Import Base.Prelude Model.Router.
Open Scope string_scope.
Open Scope list_scope.

Inductive atom := AStr (s : string) | AInt (z : Z) | ABool (b : bool) | ANone | ABytes (s : string).
Inductive kval := KA (a : atom) | KTuple (l : list atom) | KDict (d : list (string * atom)).
Inductive pkind := PK | KO | VP | VK.     (* positional-or-keyword, keyword-only, var-positional, var-keyword *)
Record param := { pname : string; pk : pkind; pdefault : option kval }.
Definition sig := list param.

Definition ARGS := "__args__".
Definition KWARGS := "__kwargs__".
Definition kvmap := list (string * kval).

Fixpoint kv_find (m : kvmap) (n : string) : option kval :=
  match m with [] => None | (n', v) :: r => if String.eqb n n' then Some v else kv_find r n end.
Fixpoint kv_set (m : kvmap) (n : string) (v : kval) : kvmap :=
  match m with
  | [] => [(n, v)]
  | (n', v') :: r => if String.eqb n n' then (n', v) :: r else (n', v') :: kv_set r n v
  end.
Definition kv_merge (a b : kvmap) : kvmap := fold_left (fun m e => kv_set m (fst e) (snd e)) b a.   (* {**a, **b} *)
Definition kv_has (m : kvmap) (n : string) : bool := isSome (kv_find m n).

(* ---- signature helpers ---- *)
Definition is_named (p : param) : bool := match pk p with PK | KO => true | _ => false end.
Definition named (s : sig) : list string := map pname (filter is_named s).
Definition has_kind (s : sig) (k : pkind) : bool :=
  existsb (fun p => match pk p, k with VP, VP | VK, VK => true | _, _ => false end) s.
Definition non_vk_names (s : sig) : list string :=
  map pname (filter (fun p => match pk p with VK => false | _ => true end) s).
Definition mems (n : string) (l : list string) : bool := existsb (String.eqb n) l.
Definition to_atom (v : kval) : atom := match v with KA a => a | _ => ANone end.

(* key._get_func_defaults: defaults of the plain parameters; the var-positional parameter defaults to the empty tuple *)
Definition defaults (s : sig) : kvmap :=
  flat_map (fun p => match pk p, pdefault p with
                     | (PK | KO), Some d => [(pname p, d)]
                     | VP, _ => [(ARGS, KTuple [])]
                     | _, _ => []
                     end) s.
(* kwargs that name no parameter (what the var-keyword parameter collects) *)
Definition extras (s : sig) (kwargs : kvmap) : list (string * atom) :=
  map (fun e => (fst e, to_atom (snd e))) (filter (fun e => negb (mems (fst e) (non_vk_names s))) kwargs).

(* ---- inspect.Signature.bind + apply_defaults, as _get_call_values consumes it ---- *)
Fixpoint bind_pos (ps : list param) (args : list kval) (acc : kvmap) {struct args} : option (kvmap * list kval) :=
  match args with
  | [] => Some (acc, [])
  | a :: ar =>
      match ps with
      | [] => Some (acc, args)                         (* surplus, for the var-positional parameter *)
      | p :: pr => match pk p with
                   | PK => bind_pos pr ar (acc ++ [(pname p, a)])
                   | _ => Some (acc, args)             (* first non-positional parameter ends the phase *)
                   end
      end
  end.
(* value a named parameter ends up with: positional, else keyword, else default *)
Definition bound_val (filled kwargs : kvmap) (p : param) : option kval :=
  match kv_find filled (pname p) with
  | Some v => Some v
  | None => match kv_find kwargs (pname p) with Some v => Some v | None => pdefault p end
  end.
(* BoundArguments.arguments after apply_defaults, as the dict _get_call_values builds from it *)
Definition bound_map (s : sig) (filled kwargs : kvmap) (surplus : list kval) : kvmap :=
  flat_map (fun p => match pk p with
                     | PK | KO => match bound_val filled kwargs p with Some v => [(pname p, v)] | None => [] end
                     | VP => [(ARGS, KTuple (map to_atom surplus))]
                     | VK => (KWARGS, KDict (extras s kwargs)) :: map (fun e => (fst e, KA (snd e))) (extras s kwargs)
                     end) s.
Definition bind (s : sig) (args : list kval) (kwargs : kvmap) : option kvmap :=
  match bind_pos s args [] with
  | None => None
  | Some (filled, surplus) =>
      if negb (has_kind s VP) && negb (match surplus with [] => true | _ => false end) then None   (* too many positional *)
      else if existsb (fun e => kv_has filled (fst e)) kwargs then None                              (* multiple values *)
      else if negb (has_kind s VK) && negb (forallb (fun e => mems (fst e) (named s)) kwargs) then None  (* unexpected keyword *)
      else if negb (forallb (fun p => negb (is_named p) || isSome (bound_val filled kwargs p)) s) then None  (* missing argument *)
      else Some (bound_map s filled kwargs surplus)
  end.

(* ---- key._get_call_values / get_cache_key: the dict handed to the formatter ---- *)
Definition call_values (s : sig) (args : list kval) (kwargs : kvmap) : option kvmap :=
  match args with
  | [] => Some (kv_set (kv_merge (defaults s) kwargs) KWARGS (KDict (extras s kwargs)))
  | _ => bind s args kwargs
  end.

Inductive seg := Lit (s : string) | Fld (n : string).
Definition template := list seg.
Definition fields (t : template) : list string := flat_map (fun g => match g with Fld n => [n] | Lit _ => [] end) t.

Definition key_values (s : sig) (t : template) (tmpl_given : bool) (args : list kval) (kwargs : kvmap) : option kvmap :=
  match args with
  | [] => if tmpl_given && negb (mems KWARGS (fields t)) && negb (mems ARGS (fields t))
          then Some (kv_merge (defaults s) kwargs)
          else call_values s args kwargs
  | _ => call_values s args kwargs
  end.

(* ---- rendering (formatter.py) ---- *)
Definition dec (z : Z) : string := NilEmpty.string_of_int (Z.to_int z).
Definition r_atom (a : atom) : string :=        (* _type_format on a top-level value *)
  match a with
  | AStr s => s | AInt z => dec z | ABool b => if b then "true" else "false" | ANone => "None" | ABytes s => s
  end.
Definition r_atom_in (a : atom) : string :=     (* _format_field: None renders as "" *)
  match a with ANone => "" | _ => r_atom a end.
Fixpoint join (sep : string) (l : list string) : string :=
  match l with [] => "" | [x] => x | x :: r => (x ++ sep ++ join sep r)%string end.
Fixpoint insert_kv (e : string * atom) (l : list (string * atom)) : list (string * atom) :=
  match l with [] => [e] | y :: r => if sleb (fst e) (fst y) then e :: l else y :: insert_kv e r end.
Definition sort_kv (l : list (string * atom)) := fold_right insert_kv [] l.
Definition r_val (fast : bool) (v : kval) : string :=
  match v with
  | KA a => if fast then r_atom a else r_atom_in a
  | KTuple l => join ":" (map r_atom_in l)
  | KDict d => join ":" (map (fun e => (fst e ++ ":" ++ r_atom_in (snd e))%string) (sort_kv d))
  end.
(* vformat: str.format fast path when every field is present, Formatter fallback otherwise *)
Definition render (t : template) (kv : kvmap) : string :=
  let fast := forallb (kv_has kv) (fields t) in
  String.concat "" (map (fun g => match g with
                                  | Lit s => s
                                  | Fld n => match kv_find kv n with Some v => r_val fast v | None => "" end
                                  end) t).

(* generate_key_template *)
Definition auto_template (prefix : string) (s : sig) : template :=
  Lit prefix :: flat_map (fun p => match pk p with
                                   | VP => [Lit ":"; Fld ARGS]
                                   | VK => [Lit ":"; Fld KWARGS]
                                   | _ => [Lit (":" ++ pname p ++ ":")%string; Fld (pname p)]
                                   end) s.

(* get_cache_key; None = binding raised TypeError *)
Definition cache_key (s : sig) (t : template) (tmpl_given : bool) (args : list kval) (kwargs : kvmap) : option string :=
  option_map (render t) (key_values s t tmpl_given args kwargs).

#!/bin/sh
# tools/try_refactor.sh <dir with patch.diff> [props...]: a behaviour-preserving rewrite must not raise any alarm.
# Applies the patch on a scratch worktree under /tmp and runs the quick checks (all claimed ones by default) against it.
D="$1"; shift
WT="/tmp/trialr_$$"
git -C /repo worktree add -q --detach "$WT" HEAD || exit 2
trap 'git -C /repo worktree remove --force "$WT" >/dev/null 2>&1; rm -rf "$WT"; git -C /repo worktree prune' EXIT
git -C "$WT" apply "$D/patch.diff" || { echo "patch does not apply"; exit 2; }
cd "$(dirname "$0")/.."
PROPS="$*"
[ -n "$PROPS" ] || PROPS=$(python3 -c "import json; print(' '.join(c['property_id'] for c in json.load(open('MANIFEST.json'))['checks']))")
for P in $PROPS; do
  OUT=$(VERIF_REPO="$WT" ./check "$P" --no-obligations 2>&1); 
  if echo "$OUT" | grep -q "VIOLATION\|Traceback"; then echo "ALARM $P :: $(echo "$OUT" | tail -1)"; echo "$OUT" | grep -m2 "VIOLATION\|Error"; else echo "ok $P"; fi
done

From Cashews Require Import Base.Prelude Spec.TTLMap Model.Tags Model.Txn Run.TxnCase.
Open Scope Z_scope.

Definition judge (c : case) : verdict :=
  match c with
  | CTxn U t0 init h e tend res outside final =>
      let b0 := init_store t0 init in
      let '(t, _, msnaps) := run_tx U (tx_begin b0) h in
      let mfinal := snapshot U (finish U t e tend) tend in
      (list_eqb snap_eqb msnaps outside && snap_eqb mfinal final,
       (* invisible until commit: every outside view equals the untouched store at that instant *)
       forallb (fun ts => snap_eqb (snapshot U b0 (fst ts)) (snd ts)) (combine (map fst h) outside) &&
       match e with
       | ECommit =>
           (* exactly the keys and values of direct application; TTL'd keys keep a deadline not later than given *)
           let direct := snapshot U (fst (run_direct U b0 h)) tend in
           values_eqb direct final &&
           (* a key that direct application leaves with a deadline keeps one, not later *)
           forallb (fun df => match fst df, snd df with
                              | Some (_, Some d), Some (_, Some d') => d' <=? d
                              | Some (_, Some _), Some (_, None) => false
                              | _, _ => true end) (combine direct final)
       | _ => snap_eqb (snapshot U b0 tend) final
       end, [])
  end.
Definition explain (c : case) :=
  match c with CTxn U t0 init h e tend _ _ _ =>
    let b0 := init_store t0 init in
    let '(t, _, _) := run_tx U (tx_begin b0) h in (snapshot U (finish U t e tend) tend, snapshot U (fst (run_direct U b0 h)) tend) end.

(* Correspondence + oracle for C19: the real cashews Redis backend on the in-process server stand-in. *)
From Cashews Require Import Base.Prelude Spec.Glob Model.Redis Spec.RedisRef.
Open Scope Z_scope.

Definition dump := list (option (rval * option Z)).
Inductive case :=
| CRedis (sup : bool) (U : list key) (h : list (Z * bool * ccmd)) (results : list bres) (dumps : list dump)
| CDecor (pairs : list (val * val)) (raised : bool).     (* decorated calls over a dead server: (returned, the function's own result) *)

Fixpoint insert_z (x : Z) (l : list Z) : list Z := match l with [] => [x] | y :: r => if x <=? y then x :: l else y :: insert_z x r end.
Definition sort_z (l : list Z) := fold_right insert_z [] l.

Definition rval_eqb (a b : rval) : bool :=
  match a, b with
  | RStr x, RStr y => val_eqb x y
  | RNum x, RNum y => x =? y
  | RTok x, RTok y => val_eqb x y
  | RBits x, RBits y => list_eqb Bool.eqb x y
  | RSet x, RSet y => list_eqb String.eqb x y
  | RZSet x, RZSet y => list_eqb Z.eqb (sort_z x) (sort_z y)
  | _, _ => false
  end.
Definition entry_eqb (a b : rval * option Z) := rval_eqb (fst a) (fst b) && option_eqb Z.eqb (snd a) (snd b).
Definition dump_eqb (a b : dump) := list_eqb (option_eqb entry_eqb) a b.
Definition dump_of (s : server) (now : Z) (U : list key) : dump := map (look s now) U.

Definition ov_eqb := option_eqb val_eqb.
Definition bres_eqb (a b : bres) : bool :=
  match a, b with
  | BVal x, BVal y => ov_eqb x y
  | BVals x, BVals y => list_eqb ov_eqb x y
  | BBool x, BBool y => Bool.eqb x y
  | BInt x, BInt y => x =? y
  | BInts x, BInts y => list_eqb Z.eqb x y
  | BKeys x, BKeys y => list_eqb String.eqb x y
  | BPairs x, BPairs y => list_eqb (fun p q => String.eqb (fst p) (fst q) && val_eqb (snd p) (snd q)) x y
  | BNone, BNone | BUnit, BUnit | BRaise, BRaise | BOther, BOther => true
  | _, _ => false
  end.

Fixpoint replay (sup : bool) (U : list key) (s : server) (h : list (Z * bool * ccmd)) (rs : list bres) (ds : list dump) : bool :=
  match h, rs, ds with
  | [], [], [] => true
  | (t, down, c) :: h', r :: rs', d :: ds' =>
      let '(s', o) := b_step sup U down s t c in
      bres_eqb o r && dump_eqb (dump_of s' t U) d && replay sup U s' h' rs' ds'
  | _, _, _ => false
  end.

(* the oracle: the reference map when the server answers; "nothing raised, nothing changed, a falsy answer" when it does not *)
Definition falsy (r : bres) : bool :=
  match r with
  | BBool false | BNone | BUnit | BVal None | BInt 0 => true
  | BVals l => forallb (fun x => match x with None => true | _ => false end) l
  | BInts [] | BKeys [] | BPairs [] => true
  | _ => false
  end.
Definition is_ping (c : ccmd) := match c with CPing => true | _ => false end.
Definition raises (r : bres) := match r with BRaise => true | _ => false end.

Fixpoint ok_hist (sup : bool) (U : list key) (m : server) (h : list (Z * bool * ccmd)) (rs : list bres) (ds : list dump) : bool :=
  match h, rs, ds with
  | [], [], [] => true
  | (t, down, c) :: h', r :: rs', d :: ds' =>
      if down then
        (match c with
         | CGetMany [] => bres_eqb r (BVals [])
         | _ => if sup then (if is_ping c then raises r else falsy r) else raises r
         end) && dump_eqb (dump_of m t U) d && ok_hist sup U m h' rs' ds'
      else
        let '(m', o) := r_step U m t c in
        (* without suppression a refused command may end in the interaction error instead of None *)
        (bres_eqb o r || (negb sup && raises r && falsy o)) && dump_eqb (dump_of m' t U) d && ok_hist sup U m' h' rs' ds'
  | _, _, _ => false
  end.

Definition judge (c : case) : verdict :=
  match c with
  | CRedis sup U h rs ds => (replay sup U (fun _ => None) h rs ds, ok_hist sup U (fun _ => None) h rs ds, [])
  | CDecor pairs raised => (true, negb raised && forallb (fun p => val_eqb (fst p) (snd p)) pairs, [])
  end.

Definition explain (c : case) :=
  match c with
  | CRedis sup U h rs ds =>
      (fix go (s : server) (h : list (Z * bool * ccmd)) : list (bres * dump) :=
         match h with [] => [] | (t, down, c) :: h' => let '(s', o) := b_step sup U down s t c in (o, dump_of s' t U) :: go s' h' end) (fun _ => None) h
  | CDecor _ _ => []
  end.

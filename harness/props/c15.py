"""C15: rate limiters and circuit breaker."""
import asyncio

from harness import vclock
from harness.core import C, Z
from harness.memrun import TICK

ID = "C15"
RUN_MODULE = "Spec.TTLMap Model.Rate Run.C15"
EXPLAIN = "explain"
RULE = ("cache.rate_limit(limit 1-4, period 1-3 s, ttl none/1-4 s), cache.slice_rate_limit(limit 1-4, period 1-3 s) and cache.circuit_breaker("
        "errors_rate 34/50/67, period 1-3 s, ttl 1-3 s, min_calls 1-3) through the facade, 3-24 calls at strictly increasing instants on a 1/16 s "
        "grid with bursts and gaps that straddle window boundaries (exactly period / ttl apart included), scripted success / listed failure / "
        "unlisted failure (the breaker's function taking 0 - period+1 ticks before it returns or raises), default error and custom action, the default key or a key template with a placeholder (calls for a second host interleaved); plus concurrent bursts: 2-6 rounds of 1-4 callers started at one instant with every incr / expire / "
        "slice_incr of the limiter and the function body gated and scheduled (judged as the sequence of their counting commands). non-trivial: at least one call was rejected / the breaker opened, and a later call ran again")
TRUSTED_BASE = ["Coq 8.16.1 kernel + vm_compute", "hand-written model coq/Model/Rate.v over the TTL-map spec, tied by this differential run",
                "float timestamps exact on the 1/16 s grid; errors_rate comparison modelled in integers (fails*100 >= rate*total)"]
ASSUMPTIONS = ["the circuit breaker is exercised sequentially only (a call that passed the open check before the breaker opened still runs: not judged)",
               "on the Redis backend calls sharing one clock reading collapse into one sorted-set member (the window script is covered by C19's reference, not by this check)",
               "half_open_ttl=None (the half-open branch is random)", "fewer than 9999 calls per breaker window"]
EXHAUSTIVE = {"quick": False, "thorough": False}


class ExcA(Exception):
    pass


class ExcB(Exception):
    pass


def _times(rng, n, period, ttl):
    out = []
    for _ in range(n):
        out.append(rng.choice([1, 1, 2, 2, 4, period - 1, period, period + 1, ttl - 1, ttl, ttl + 1, 2 * period, 8]))
    return [max(1, a) for a in out]


def gen_cases(rng, tier):
    cases = []
    n = 900 if tier == "quick" else 12000
    for _ in range(n):
        kind = rng.choice(["rate", "slide", "breaker"])
        period = rng.choice([16, 32, 48, 24, 40])      # 1, 2, 3 s and 1.5, 2.5 s (a timedelta spelling then has a sub-second part)
        ttl = rng.choice([0, 0, 16, 32, 48, 64, period])
        c = {"kind": kind, "limit": rng.randint(1, 4), "period": period, "ttl": ttl, "action": rng.random() < 0.3,
             "rate": rng.choice([34, 50, 67]), "min_calls": rng.randint(1, 3),
             "advs": _times(rng, rng.randint(3, 24), period, ttl or period), "keyed": rng.random() < 0.4,
             "spell": rng.choice(["float", "float", "int", "timedelta", "str", "callable"]), "exc_tuple": rng.random() < 0.4}
        if kind == "breaker":
            c["ttl"] = 16 * rng.choice([1, 2, 3])
        c["script"] = [rng.choice(["ok", "ok", "A", "A", "B"]) for _ in c["advs"]]
        cases.append(c)
    # concurrent bursts: several callers started at the same instant, every backend command of the limiter gated and scheduled
    for _ in range(n // 6):
        kind = rng.choice(["rate_conc", "slide_conc"])
        period = 16 * rng.choice([1, 2, 3])
        ttl = rng.choice([0, 0, 16, 32, 48, 64, period])
        rounds = [[a, rng.randint(1, 4)] for a in _times(rng, rng.randint(2, 6), period, ttl or period)]
        cases.append({"kind": kind, "limit": rng.randint(1, 4), "period": period, "ttl": ttl, "action": rng.random() < 0.3,
                      "rounds": rounds, "schedule": [rng.randrange(8) for _ in range(40)]})
    return cases


def _fdur(case, i):
    """how long the i-th execution of the breaker's function takes (ticks) before it returns or raises: mostly nothing, sometimes
    long enough for its start and its failure to lie on opposite sides of a window boundary"""
    if case["kind"] != "breaker":
        return 0
    p = case["period"]
    return [0, 0, 2, 0, p // 2, 0, p + 1, 0, p - 1][(case["advs"][i] + 3 * i) % 9]


def _run_conc(case):
    from harness import sched

    def main_factory(drv):
        async def main():
            from cashews import Cache
            from cashews.exceptions import RateLimitError
            cache = Cache()
            mem = cache.setup("mem://?check_interval=0&size=100000")
            await cache.init()
            kind = case["kind"]
            period, ttl = case["period"] * TICK, case["ttl"] * TICK
            action = (lambda *a, **k: "rejected") if case["action"] else None
            deco = cache.rate_limit(limit=case["limit"], period=period, ttl=ttl or None, action=action) if kind == "rate_conc" \
                else cache.slice_rate_limit(limit=case["limit"], period=period, action=action)
            decided = []           # callers in the order their counting command executed
            ran = set()
            for name in ("incr", "expire", "slice_incr"):
                orig = getattr(mem, name)

                def mk(orig, name):
                    async def w(*a, **kw):
                        tname = asyncio.current_task().get_name()
                        if tname.startswith("W"):
                            await drv.gate(name)
                            if name in ("incr", "slice_incr"):
                                decided.append([tname, round((vclock.Clock.now - vclock.BASE) / TICK)])
                        return await orig(*a, **kw)
                    return w
                setattr(mem, name, mk(orig, name))

            @deco
            async def f():
                tname = asyncio.current_task().get_name()
                ran.add(tname)
                await drv.gate("body")
                return "done"
            outcomes = {}

            async def caller(name):
                try:
                    r = await f()
                    outcomes[name] = "rejected" if r == "rejected" else "done"
                except RateLimitError:
                    outcomes[name] = "rejected"
                except Exception as e:  # noqa
                    outcomes[name] = "anomaly:" + type(e).__name__
            n = 0
            for adv, k in case["rounds"]:
                await asyncio.sleep(adv * TICK)
                ts = []
                for _ in range(k):
                    nm = f"W{n}"; n += 1
                    ts.append(asyncio.get_running_loop().create_task(caller(nm), name=nm))
                await asyncio.gather(*ts)
            await cache.close()
            steps = []
            for nm, t in decided:
                out = outcomes.get(nm, "anomaly:missing")
                r = nm in ran
                if (out == "rejected") == r or out.startswith("anomaly"):
                    out = "anomaly:" + out
                steps.append([t, "ok", r, out, None])
            if len(decided) != n:
                steps.append([0, "ok", False, "anomaly:calls without a counting command", None])
            return {"steps": steps}
        return main()
    result, drv = sched.run(main_factory, case["schedule"])
    return result if isinstance(result, dict) and "steps" in result else {"steps": [[0, "ok", False, "anomaly:stuck", None]]}


def run_impl(case):
    if case["kind"].endswith("_conc"):
        return _run_conc(case)

    async def go():
        from cashews import Cache
        from cashews.exceptions import CircuitBreakerOpen, RateLimitError
        cache = Cache()
        mem = cache.setup("mem://?check_interval=0&size=100000")
        await cache.init()
        kind = case["kind"]
        st = {"ran": 0, "i": 0}
        from harness.props.c02 import ttl_py
        sp = case.get("spell", "float")
        period = ttl_py(sp, case["period"])          # period / ttl spellings: float / int / timedelta / '2s' / callable
        ttl = ttl_py(sp if sp != "callable" or kind == "rate" else "timedelta", case["ttl"]) if case["ttl"] else 0
        if kind == "breaker" and sp == "callable":
            period = ttl_py("str", case["period"])      # the breaker converts its period and ttl once, at decoration time

        def _action(*a, **k):
            # the configured action is called with the rejected call's own arguments
            return "rejected" if (not case.get("keyed") or k.get("host") == "h1" or a[:1] == ("h1",)) else "rejected-with-wrong-arguments"
        action = _action if case["action"] else None
        kw = {"key": "svc:{host}"} if case.get("keyed") else {}       # a key template with a placeholder: one window / breaker per host
        if kind == "rate": deco = cache.rate_limit(limit=case["limit"], period=period, ttl=ttl or None, action=action, **kw)
        elif kind == "slide": deco = cache.slice_rate_limit(limit=case["limit"], period=period, action=action, **kw)
        else: deco = cache.circuit_breaker(errors_rate=case["rate"], period=period, ttl=ttl, min_calls=case["min_calls"],
                                           exceptions=(KeyError, ExcA, asyncio.CancelledError) if case.get("exc_tuple") else ExcA, **kw)      # a listed class may be a BaseException (calls cut off by a timeout counted as failures)

        @deco
        async def f(host="h1"):
            if host != "h1":
                return "other"
            st["ran"] += 1
            s = case["script"][st["i"]]
            if _fdur(case, st["i"]):
                await asyncio.sleep(_fdur(case, st["i"]) * TICK)      # a slow call: the failure is stamped when it fails, not when the call began
            if kind == "breaker":
                if s == "A": raise (asyncio.CancelledError() if case.get("exc_tuple") and st["i"] % 4 == 3 else ExcA())
                if s == "B": raise ExcB()
            return "done"
        steps = []
        for i, adv in enumerate(case["advs"]):
            await asyncio.sleep(adv * TICK)
            st["i"] = i
            before = st["ran"]
            t = round((vclock.Clock.now - vclock.BASE) / TICK)
            try:
                if case.get("keyed") and i % 3 == 2:
                    try:
                        await f(host="h2")      # another host's calls are counted elsewhere: they never change what h1 sees
                    except Exception:  # noqa - h2's own limit / breaker
                        pass
                r = await (f(host="h1") if case.get("keyed") else f())
                out = "rejected" if r == "rejected" else "done"
            except RateLimitError: out = "rejected"
            except CircuitBreakerOpen: out = "open"
            except ExcA: out = "A"
            except asyncio.CancelledError: out = "A" if case.get("exc_tuple") and kind == "breaker" else "anomaly:CancelledError"
            except ExcB: out = "B"
            except Exception as e:  # noqa
                out = "anomaly:" + type(e).__name__
            ran = st["ran"] > before
            if (out in ("rejected", "open")) == ran or out.startswith("anomaly"):
                out = "anomaly:" + out
            op = None
            if kind == "breaker":
                op = False
                for k in list(mem.store):
                    if k.endswith(":open") and "h2" not in k and await mem.exists(k):
                        op = True
            steps.append([t, case["script"][i], ran, out, op])
        await cache.close()
        return {"steps": steps}
    return vclock.run(go)


def to_coq(case, obs):
    kind = case["kind"].replace("_conc", "")      # a concurrent burst is judged as the sequence of its counting commands
    bad = any(str(s[3]).startswith("anomaly") for s in obs["steps"])
    if kind in ("rate", "slide"):
        h = [Z(s[0]) for s in obs["steps"]]
        ran = [bool(s[2]) != bad for s in obs["steps"]] if bad else [bool(s[2]) for s in obs["steps"]]
        if kind == "rate":
            return C("CRate", Z(case["limit"]), Z(case["period"]), Z(case["ttl"] or case["period"]), h, ran)
        return C("CSlide", Z(case["limit"]), Z(case["period"]), h, ran)
    h = [((Z(s[0]), C({"ok": "BOk", "A": "BFailListed", "B": "BFailOther"}[s[1]])), Z(_fdur(case, i))) for i, s in enumerate(obs["steps"])]
    o = [(bool(s[2]) != bad, bool(s[4])) for s in obs["steps"]]
    return C("CBreaker", Z(case["rate"]), Z(case["period"]), Z(case["ttl"]), Z(case["min_calls"]), h, o)


def nontrivial(case, obs):
    ran = [s[2] for s in obs["steps"]]
    return (False in ran) and any(r and (False in ran[:i]) for i, r in enumerate(ran))


def classify(case, obs):
    d = {"kind_" + case["kind"]: 1, "calls": len(obs["steps"]), "rejected_or_open": sum(1 for s in obs["steps"] if not s[2])}
    if case["kind"] == "breaker":
        d["opened"] = sum(1 for s in obs["steps"] if s[4])
    return d


def shrink(case):
    if case["kind"].endswith("_conc"):
        r = case["rounds"]
        for i in range(len(r)):
            if len(r) > 1:
                c = dict(case); c["rounds"] = r[:i] + r[i + 1:]; yield c
            if r[i][1] > 1:
                c = dict(case); c["rounds"] = r[:i] + [[r[i][0], r[i][1] - 1]] + r[i + 1:]; yield c
        return
    a = case["advs"]
    for i in range(len(a)):
        c = dict(case); c["advs"] = a[:i] + a[i + 1:]; c["script"] = case["script"][:i] + case["script"][i + 1:]
        if i + 1 < len(a):
            c["advs"] = a[:i] + [a[i] + a[i + 1]] + a[i + 2:]
        if c["advs"]: yield c

"""Deterministic scheduler for real asyncio tasks on the virtual loop.

Tasks park on gates (futures) placed in front of chosen backend commands, or on timers (asyncio.sleep).  The driver
runs at the loop's idle point (nothing ready): it consumes the next schedule entry and either opens one parked task's
gate, advances the virtual clock to the next timer, or cancels a designated task.  A schedule is a list of small
integers indexing the sorted list of currently possible choices: every schedule is valid and replayable."""
import asyncio

from harness import vclock


class Driver:
    def __init__(self, schedule, cancellable=(), max_cancels=0, max_steps=4000):
        self.schedule = list(schedule)
        self.gates = {}            # task name -> (future, label)
        self.trace = []            # what the driver chose
        self.events = []           # what the tasks report (harness level)
        self.cancellable = set(cancellable)
        self.cancels_left = max_cancels
        self.loop = None
        self.steps = 0
        self.max_steps = max_steps
        self.deadlock = False
        self.tasks = {}            # name -> task (registered by the harness)
        self.bursts = set()        # step numbers at which a second gate is opened in the same loop iteration
        self.no_cancel_labels = set()   # a task parked on a gate with one of these labels is not cancelled there
                                        # (the gate is an artificial await: the real in-memory command cannot be interrupted)

    def tick(self):
        return round((vclock.Clock.now - vclock.BASE) / 0.0625)

    async def gate(self, label):
        name = asyncio.current_task().get_name()
        fut = self.loop.create_future()
        self.gates[name] = (fut, label)
        try:
            await fut
        finally:
            self.gates.pop(name, None)

    def on_idle(self, timeout):
        self.steps += 1
        if self.steps > self.max_steps:
            self.deadlock = True
            self.loop.stop()
            return
        choices = [("go", n) for n in sorted(self.gates)]
        if timeout:
            choices.append(("time", timeout))
        if self.cancels_left > 0:
            for n in sorted(self.cancellable):
                t = self.tasks.get(n)
                if t is not None and not t.done() and not (n in self.gates and self.gates[n][1] in self.no_cancel_labels):
                    choices.append(("cancel", n))
        if not choices:
            self.deadlock = True
            self.loop.stop()
            return
        # once the schedule is used up: rotate over the choices (fair: a spinning waiter cannot starve the clock)
        pick = self.schedule.pop(0) % len(choices) if self.schedule else self.steps % len(choices)
        kind, arg = choices[pick]
        self.trace.append([kind, arg if kind != "time" else round(arg / 0.0625, 3), self.tick(), len(choices), pick])
        if kind == "go":
            fut, _ = self.gates.pop(arg)
            if not fut.done():
                fut.set_result(None)
            if self.steps in self.bursts and self.gates:      # a second task becomes ready in the same iteration
                names = sorted(self.gates)
                n2 = names[(self.schedule.pop(0) if self.schedule else 0) % len(names)]
                self.trace.append(["go+", n2, self.tick(), len(names), names.index(n2)])
                fut2, _ = self.gates.pop(n2)
                if not fut2.done():
                    fut2.set_result(None)
        elif kind == "time":
            vclock.Clock.now += timeout
        else:
            self.cancels_left -= 1
            self.events.append(["cancel", arg])
            self.tasks[arg].cancel()


class SLoop(vclock.VLoop):
    task_hook = None

    def create_task(self, coro, **kw):
        t = super().create_task(coro, **kw)
        if self.task_hook is not None:
            self.task_hook(t)
        return t


def run(main_factory, schedule, cancellable=(), max_cancels=0, no_cancel_labels=(), bursts=(), task_hook=None):
    """main_factory(driver) -> coroutine.  Runs it to completion under the driver; returns (result, driver)."""
    drv = Driver(schedule, cancellable, max_cancels)
    drv.no_cancel_labels = set(no_cancel_labels)
    drv.bursts = set(bursts)
    vclock.install()
    vclock.Clock.now = vclock.BASE
    loop = SLoop(on_idle=drv.on_idle)
    loop.task_hook = task_hook
    drv.loop = loop
    asyncio.set_event_loop(loop)
    loop.set_exception_handler(lambda _l, _c: None)
    result = None
    try:
        main = loop.create_task(main_factory(drv), name="main")
        main.add_done_callback(lambda _t: loop.stop())
        loop.run_forever()
        if main.done() and not main.cancelled():
            result = main.result()
        else:
            result = {"deadlock": True}
            main.cancel()
            for t in asyncio.all_tasks(loop):
                t.cancel()
            drv.on_idle = None
            loop._selector.on_idle = None
            try:
                loop.run_until_complete(asyncio.sleep(0))
            except BaseException:  # noqa
                pass
    finally:
        asyncio.set_event_loop(None)
        try:
            loop.close()
        except Exception:  # noqa
            pass
    return result, drv


def gate_methods(drv, obj, names, only_tasks=None):
    """put a gate in front of the named coroutine methods of obj (an instance): attaches from outside"""
    for name in names:
        orig = getattr(obj, name)

        def mk(orig, name):
            async def w(*a, **k):
                tname = asyncio.current_task().get_name()
                if only_tasks is None or tname in only_tasks:
                    await drv.gate(name)
                return await orig(*a, **k)
            return w
        setattr(obj, name, mk(orig, name))


def enumerate_schedules(run_fn, max_leaves=20000):
    """every distinct complete schedule of a program: run_fn(prefix) -> driver (after a full run with that prefix and the
    default continuation).  Depth-first by first deviation point.  Returns (list of full pick lists, complete?)."""
    leaves, stack = [], [[]]
    while stack:
        if len(leaves) >= max_leaves:
            return leaves, False
        p = stack.pop()
        drv = run_fn(p)
        main = [t for t in drv.trace if t[0] != "go+"]
        picks = [t[4] for t in drv.trace]
        widths = [t[3] for t in drv.trace]
        leaves.append(picks)
        for d in range(len(p), len(picks)):
            for j in range(widths[d]):
                if j != picks[d]:
                    stack.append(picks[:d] + [j])
    return leaves, True

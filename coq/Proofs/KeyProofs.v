From Coq Require Import Ascii DecimalString DecimalZ Decimal.
From Cashews Require Import Base.Prelude Model.Router Model.Key.
Open Scope string_scope.
Open Scope list_scope.

(* ---------- association lists ---------- *)
Lemma kv_find_app a b n : kv_find (a ++ b) n = match kv_find a n with Some v => Some v | None => kv_find b n end.
Proof. induction a as [|[k v] a IH]; cbn; [reflexivity|]. destruct (String.eqb n k); auto. Qed.
Lemma kv_find_set m k v n : kv_find (kv_set m k v) n = if String.eqb n k then Some v else kv_find m n.
Proof.
  induction m as [|[k' v'] m IH]; cbn.
  - destruct (String.eqb n k); reflexivity.
  - destruct (String.eqb_spec k k') as [->|Hn]; cbn.
    + destruct (String.eqb n k'); reflexivity.
    + destruct (String.eqb_spec n k') as [->|]; [destruct (String.eqb_spec k' k); congruence|apply IH].
Qed.
Lemma kv_find_notin m n : ~ In n (map fst m) -> kv_find m n = None.
Proof.
  induction m as [|[k v] m IH]; cbn; [reflexivity|]. intro H.
  destruct (String.eqb_spec n k) as [->|]; [exfalso; apply H; left; reflexivity|]. apply IH. tauto.
Qed.
Lemma kv_find_merge K : forall D n, NoDup (map fst K) ->
  kv_find (kv_merge D K) n = match kv_find K n with Some v => Some v | None => kv_find D n end.
Proof.
  unfold kv_merge. induction K as [|[k v] K IH]; intros D n Hnd; cbn [fold_left kv_find]; [reflexivity|].
  cbn in Hnd. inversion Hnd as [|? ? Hnin Hnd']; subst. cbn [fst snd].
  rewrite IH by exact Hnd'. rewrite kv_find_set.
  destruct (String.eqb_spec n k) as [->|]; [rewrite (kv_find_notin K k Hnin); reflexivity|reflexivity].
Qed.

(* ---------- well-formedness ---------- *)
Definition special (n : string) : Prop := n = ARGS \/ n = KWARGS.
Definition wf_sig (s : sig) : Prop := NoDup (map pname s) /\ forall p, In p s -> ~ special (pname p).
Definition wf_kwargs (K : kvmap) : Prop := NoDup (map fst K) /\ forall e, In e K -> ~ special (fst e).
Definition ok_field (s : sig) (n : string) : Prop :=
  (exists p, In p s /\ is_named p = true /\ pname p = n) \/ (n = ARGS /\ has_kind s VP = true) \/ (n = KWARGS /\ has_kind s VK = true).

Lemma mems_In n l : mems n l = true <-> In n l.
Proof.
  unfold mems. rewrite existsb_exists. split.
  - intros (x & Hx & E). apply String.eqb_eq in E. subst. exact Hx.
  - intro H. exists n. split; [exact H|apply String.eqb_refl].
Qed.

Lemma extras_names s K n : In n (map fst (extras s K)) -> In n (map fst K) /\ ~ In n (non_vk_names s).
Proof.
  unfold extras. rewrite map_map. cbn. intro H. apply in_map_iff in H as (e & <- & He).
  apply filter_In in He as [He Hf]. split; [apply in_map; exact He|].
  intro Hin. apply mems_In in Hin. rewrite Hin in Hf. discriminate.
Qed.
Lemma named_in_non_vk s p : In p s -> is_named p = true -> In (pname p) (non_vk_names s).
Proof.
  intros Hp Hn. unfold non_vk_names. apply in_map. apply filter_In. split; [exact Hp|].
  unfold is_named in Hn. destruct (pk p); try discriminate; reflexivity.
Qed.

(* ---------- lookups in the bound arguments ---------- *)
Section Bound.
Variables (s : sig) (F K : kvmap) (sur : list kval).
Hypothesis Hwf : wf_sig s.
Hypothesis HK : wf_kwargs K.

Definition entries (p : param) : kvmap :=
  match pk p with
  | PK | KO => match bound_val F K p with Some v => [(pname p, v)] | None => [] end
  | VP => [(ARGS, KTuple (map to_atom sur))]
  | VK => (KWARGS, KDict (extras s K)) :: map (fun e => (fst e, KA (snd e))) (extras s K)
  end.
Lemma bound_map_flat : bound_map s F K sur = flat_map entries s.
Proof. reflexivity. Qed.

(* keys an entry block can contain *)
Lemma entries_keys p n : In n (map fst (entries p)) ->
  (is_named p = true /\ n = pname p) \/ (pk p = VP /\ n = ARGS) \/ (pk p = VK /\ (n = KWARGS \/ In n (map fst (extras s K)))).
Proof.
  unfold entries, is_named. destruct (pk p) eqn:E; cbn.
  - destruct (bound_val F K p); cbn; [intros [<-|[]]; auto|intros []].
  - destruct (bound_val F K p); cbn; [intros [<-|[]]; auto|intros []].
  - intros [<-|[]]. auto.
  - intros [<-|H]; [auto|]. right. right. split; [reflexivity|]. right.
    rewrite map_map in H. cbn in H. exact H.
Qed.

Lemma find_named l p v : incl l s -> NoDup (map pname l) -> In p l -> is_named p = true ->
  bound_val F K p = Some v -> kv_find (flat_map entries l) (pname p) = Some v.
Proof.
  induction l as [|q l IH]; intros Hincl Hnd Hin Hnamed Hv; [destruct Hin|]. cbn [flat_map].
  rewrite kv_find_app. cbn in Hnd. inversion Hnd as [|? ? Hq Hnd']; subst.
  destruct Hin as [->|Hin].
  - unfold entries at 1. unfold is_named in Hnamed. destruct (pk p); try discriminate; rewrite Hv; cbn; rewrite String.eqb_refl; reflexivity.
  - assert (Hne : pname q <> pname p) by (intro E; apply Hq; rewrite E; apply in_map; exact Hin).
    rewrite (kv_find_notin (entries q) (pname p)); [apply IH; auto; intros x Hx; apply Hincl; right; exact Hx|].
    intro Hk. apply entries_keys in Hk as [[_ E]|[[_ E]|[_ [E|E]]]].
    + congruence.
    + destruct Hwf as [_ Hsp]. apply (Hsp p); [apply Hincl; right; exact Hin|left; exact E].
    + destruct Hwf as [_ Hsp]. apply (Hsp p); [apply Hincl; right; exact Hin|right; exact E].
    + apply extras_names in E as [_ E]. apply E. apply named_in_non_vk; [apply Hincl; right; exact Hin|exact Hnamed].
Qed.

Lemma find_args l : incl l s -> existsb (fun p => match pk p with VP => true | _ => false end) l = true ->
  kv_find (flat_map entries l) ARGS = Some (KTuple (map to_atom sur)).
Proof.
  induction l as [|q l IH]; intros Hincl Hex; [discriminate|]. cbn [flat_map existsb] in *. rewrite kv_find_app.
  destruct (pk q) eqn:E.
  1,2: rewrite (kv_find_notin (entries q) ARGS); [apply IH; [intros x Hx; apply Hincl; right; exact Hx|exact Hex]|];
       intro Hk; apply entries_keys in Hk as [[_ Hk]|[[Hk _]|[Hk _]]]; try congruence;
       destruct Hwf as [_ Hsp]; apply (Hsp q); [apply Hincl; left; reflexivity|left; symmetry; exact Hk].
  - unfold entries. rewrite E. reflexivity.
  - rewrite (kv_find_notin (entries q) ARGS); [apply IH; [intros x Hx; apply Hincl; right; exact Hx|exact Hex]|].
    intro Hk. apply entries_keys in Hk as [[Hn _]|[[Hk _]|[_ [Hk|Hk]]]].
    + unfold is_named in Hn. rewrite E in Hn. discriminate.
    + congruence.
    + discriminate.
    + apply extras_names in Hk as [Hk _]. destruct HK as [_ Hsp]. apply in_map_iff in Hk as (e & Ee & He).
      apply (Hsp e He). left. exact Ee.
Qed.

Lemma find_kwargs l : incl l s -> existsb (fun p => match pk p with VK => true | _ => false end) l = true ->
  kv_find (flat_map entries l) KWARGS = Some (KDict (extras s K)).
Proof.
  induction l as [|q l IH]; intros Hincl Hex; [discriminate|]. cbn [flat_map existsb] in *. rewrite kv_find_app.
  destruct (pk q) eqn:E.
  1,2,3: rewrite (kv_find_notin (entries q) KWARGS); [apply IH; [intros x Hx; apply Hincl; right; exact Hx|exact Hex]|];
       intro Hk; apply entries_keys in Hk as [[_ Hk]|[[_ Hk]|[Hk _]]]; try congruence; try discriminate;
       destruct Hwf as [_ Hsp]; apply (Hsp q); [apply Hincl; left; reflexivity|right; symmetry; exact Hk].
  - unfold entries. rewrite E. reflexivity.
Qed.
End Bound.

Lemma has_kind_VP s : has_kind s VP = existsb (fun p => match pk p with VP => true | _ => false end) s.
Proof. unfold has_kind. induction s as [|p s IH]; cbn; [reflexivity|]. destruct (pk p); cbn; try reflexivity; exact IH. Qed.
Lemma has_kind_VK s : has_kind s VK = existsb (fun p => match pk p with VK => true | _ => false end) s.
Proof. unfold has_kind. induction s as [|p s IH]; cbn; [reflexivity|]. destruct (pk p); cbn; try reflexivity; exact IH. Qed.

(* ---------- defaults ---------- *)
Definition dent (p : param) : kvmap :=
  match pk p, pdefault p with
  | (PK | KO), Some d => [(pname p, d)]
  | VP, _ => [(ARGS, KTuple [])]
  | _, _ => []
  end.
Lemma defaults_flat l : defaults l = flat_map dent l.
Proof. reflexivity. Qed.
Lemma dent_keys q n : In n (map fst (dent q)) -> n = pname q \/ n = ARGS.
Proof. unfold dent. destruct (pk q), (pdefault q); cbn; intuition. Qed.
Lemma defaults_keys l n : In n (map fst (flat_map dent l)) -> In n (map pname l) \/ n = ARGS.
Proof.
  induction l as [|q l IH]; cbn; [tauto|]. rewrite map_app, in_app_iff. intros [H|H].
  - apply dent_keys in H as [-> | ->]; auto.
  - destruct (IH H); auto.
Qed.

Lemma find_defaults_named l p : NoDup (map pname l) -> In p l -> is_named p = true -> pname p <> ARGS ->
  kv_find (defaults l) (pname p) = pdefault p.
Proof.
  rewrite defaults_flat. induction l as [|q l IH]; intros Hnd Hin Hnamed Hna; [destruct Hin|].
  cbn [flat_map]. rewrite kv_find_app. cbn in Hnd. inversion Hnd as [|? ? Hq Hnd']; subst.
  destruct Hin as [->|Hin].
  - unfold dent at 1. unfold is_named in Hnamed.
    destruct (pk p); try discriminate; destruct (pdefault p) as [d|]; cbn [kv_find]; rewrite ?String.eqb_refl; try reflexivity;
      (apply kv_find_notin; intro Hk; apply defaults_keys in Hk as [Hk|Hk]; [exact (Hq Hk)|exact (Hna Hk)]).
  - assert (Hne : pname q <> pname p) by (intro E; apply Hq; rewrite E; apply in_map; exact Hin).
    rewrite (kv_find_notin (dent q) (pname p)); [apply IH; assumption|].
    intro Hk. apply dent_keys in Hk as [Hk|Hk]; congruence.
Qed.

Lemma find_defaults_args l : (forall p, In p l -> pname p <> ARGS) ->
  kv_find (defaults l) ARGS = if existsb (fun p => match pk p with VP => true | _ => false end) l then Some (KTuple []) else None.
Proof.
  rewrite defaults_flat. induction l as [|q l IH]; intro Hn; [reflexivity|]. cbn [flat_map existsb]. rewrite kv_find_app.
  assert (Hq : pname q <> ARGS) by (apply Hn; left; reflexivity).
  specialize (IH (fun p Hp => Hn p (or_intror Hp))).
  unfold dent at 1. destruct (pk q) eqn:E; destruct (pdefault q); cbn [kv_find orb]; try exact IH; try reflexivity;
    (destruct (String.eqb_spec ARGS (pname q)); [congruence|exact IH]).
Qed.

(* C12 with TTLs.  F20 shows that completeness of delete_tags fails when a tagged write re-times a tag set so that it
   lapses before one of its live members.  This file proves that this is the ONLY way TTLs break completeness: for every
   history (any TTLs, any registry, any order, lazy expiry at every step) in which no tagged write leaves a tag set with
   a deadline earlier than that of one of its live members (the computable side condition `excl_f20 = false`, the same
   predicate the check uses to classify F20), after delete_tags(t) no key whose latest write carried t is readable. *)
From Cashews Require Import Base.Prelude Spec.TTLMap Model.Tags Run.C12 Proofs.StrategiesProofs Proofs.TagsProofs Proofs.TagsCompleteProofs.
Open Scope string_scope.
Open Scope list_scope.
Open Scope Z_scope.

(* the invariant at time `now`: a live key is a member of the (live) set of every tag of its latest write, and that set
   does not lapse before the key; members of tag sets are data keys *)
Definition InvT (m : tmap) (i : info) (now : Z) : Prop :=
  (forall k t dk, not_tagkey k -> entry_deadline m now k = Some dk -> In t (i k) ->
     In k (set_of m now (tag_key t)) /\ exists D, entry_deadline m now (tag_key t) = Some D /\ dle dk D = true) /\
  (forall t x, In x (set_of m now (tag_key t)) -> not_tagkey x).

(* ---------- deadlines ---------- *)
Lemma ed_some m now k d : entry_deadline m now k = Some d <-> exists v, m k = Some (d, v) /\ live now d = true.
Proof.
  unfold entry_deadline, s_look. destruct (m k) as [[d0 v0]|]; cbn; [|split; [discriminate|intros (v & E & _); discriminate]].
  destruct (live now d0) eqn:L; cbn; split.
  - intros [= <-]. eauto.
  - intros (v & [= <- <-] & _). reflexivity.
  - discriminate.
  - intros (v & [= <- <-] & L'). congruence.
Qed.
Lemma ed_of_map m m' now k : m' k = m k -> entry_deadline m' now k = entry_deadline m now k.
Proof. intro E. unfold entry_deadline, s_look. rewrite E. reflexivity. Qed.
Lemma set_of_of_map m m' now k : m' k = m k -> set_of m' now k = set_of m now k.
Proof. intro E. unfold set_of, s_get, s_look. rewrite E. reflexivity. Qed.
Lemma set_of_in_live m now tk x : In x (set_of m now tk) -> exists D, entry_deadline m now tk = Some D.
Proof.
  unfold set_of, s_get, entry_deadline. destruct (s_look m now tk) as [[d v]|]; cbn; [eauto|intros []].
Qed.
Lemma live_mono now now' d : now <= now' -> live now' d = true -> live now d = true.
Proof. unfold live. destruct d; [|reflexivity]. intros H L. apply Z.ltb_lt in L. apply Z.ltb_lt. lia. Qed.
Lemma dle_live dk D now : dle dk D = true -> live now dk = true -> live now D = true.
Proof.
  unfold dle, live. destruct D as [D|]; [|reflexivity]. destruct dk as [dk|]; [|discriminate].
  intros H L. apply Z.leb_le in H. apply Z.ltb_lt in L. apply Z.ltb_lt. lia.
Qed.
Lemma look_same m now now' k d v : m k = Some (d, v) -> live now d = true -> live now' d = true -> s_look m now' k = s_look m now k.
Proof. intros E L L'. unfold s_look. rewrite E, L, L'. reflexivity. Qed.

Lemma invT_mono m i now now' : now <= now' -> InvT m i now -> InvT m i now'.
Proof.
  intros Hle (A & C). split.
  - intros k t dk Hk Hd Hin. apply ed_some in Hd as (v & E & L').
    assert (L : live now dk = true) by (eapply live_mono; eassumption).
    assert (Hd0 : entry_deadline m now k = Some dk) by (apply ed_some; eauto).
    destruct (A k t dk Hk Hd0 Hin) as (Hmem & D & HD & Hdle).
    apply ed_some in HD as (vs & Es & Ls).
    assert (Ls' : live now' D = true) by (eapply dle_live; eassumption).
    assert (S : s_look m now' (tag_key t) = s_look m now (tag_key t)) by (eapply look_same; eassumption).
    split.
    + unfold set_of, s_get. rewrite S. exact Hmem.
    + exists D. split; [|exact Hdle]. unfold entry_deadline. rewrite S. unfold s_look. rewrite Es, Ls. reflexivity.
  - intros t x Hx. destruct (set_of_in_live _ _ _ _ Hx) as (D & HD). apply ed_some in HD as (vs & Es & Ls').
    assert (Ls : live now D = true) by (eapply live_mono; eassumption).
    assert (S : s_look m now' (tag_key t) = s_look m now (tag_key t)) by (eapply look_same; eassumption).
    apply (C t). unfold set_of, s_get in *. rewrite <- S. exact Hx.
Qed.

Lemma ed_write_other m now k v ttl k' : k' <> k -> entry_deadline (s_write m now k v ttl) now k' = entry_deadline m now k'.
Proof. intro H. apply ed_of_map. apply s_write_other. exact H. Qed.
Lemma ed_write_inherit m now k v D : entry_deadline m now k = Some D -> entry_deadline (s_write m now k v 0) now k = Some D.
Proof.
  intro H. pose proof H as H0. apply ed_some in H as (v0 & E & L). apply ed_some. exists v. split; [|exact L].
  unfold s_write, deadline. cbn. unfold s_look. rewrite E, L. unfold upd. rewrite String.eqb_refl. reflexivity.
Qed.
Lemma ed_set_remove m now tk y tk' D : entry_deadline m now tk' = Some D -> entry_deadline (set_remove m now tk y) now tk' = Some D.
Proof.
  intro H. unfold set_remove. destruct (String.eqb_spec tk' tk) as [->|Hn]; [apply ed_write_inherit; exact H|].
  rewrite ed_write_other by exact Hn. exact H.
Qed.
Lemma ed_on_remove reg m now k tk D : entry_deadline m now tk = Some D -> entry_deadline (on_remove reg m now k) now tk = Some D.
Proof.
  unfold on_remove. generalize (key_tags reg k). intro ts. revert m. induction ts as [|t ts IH]; intros m H; cbn [fold_left]; [exact H|].
  apply IH. apply ed_set_remove. exact H.
Qed.
Lemma ed_raw_delete_tag reg m now k t D : not_tagkey k -> entry_deadline m now (tag_key t) = Some D ->
  entry_deadline (raw_delete reg m now k) now (tag_key t) = Some D.
Proof.
  intros Hk H. unfold raw_delete. destruct (m k); [|exact H]. apply ed_on_remove.
  rewrite (ed_of_map m); [exact H|]. unfold upd. destruct (String.eqb_spec (tag_key t) k) as [E|]; [|reflexivity].
  exfalso. apply (Hk t). symmetry. exact E.
Qed.

(* ---------- sets only shrink under deletes ---------- *)
Lemma set_remove_subset m now tk y tk' x : In x (set_of (set_remove m now tk y) now tk') -> In x (set_of m now tk').
Proof.
  unfold set_remove. destruct (String.eqb_spec tk' tk) as [->|Hn].
  - rewrite set_of_write. intro H. apply filter_In in H as [H _]. exact H.
  - rewrite set_of_other by exact Hn. auto.
Qed.
Lemma on_remove_subset reg m now k tk x : In x (set_of (on_remove reg m now k) now tk) -> In x (set_of m now tk).
Proof.
  unfold on_remove. generalize (key_tags reg k). intro ts. revert m. induction ts as [|t ts IH]; intros m H; cbn [fold_left] in H; [exact H|].
  apply IH in H. eapply set_remove_subset. exact H.
Qed.
Lemma raw_delete_subset reg m now k t x : not_tagkey k -> In x (set_of (raw_delete reg m now k) now (tag_key t)) -> In x (set_of m now (tag_key t)).
Proof.
  intros Hk H. unfold raw_delete in H. destruct (m k); [|exact H]. apply on_remove_subset in H.
  rewrite set_of_upd_none in H; [exact H|]. intro E. apply (Hk t). symmetry. exact E.
Qed.

(* ---------- deleting a data key keeps the invariant (ghost untouched: the key is gone) ---------- *)
Lemma raw_delete_invT reg m i now x : not_tagkey x -> InvT m i now -> InvT (raw_delete reg m now x) i now.
Proof.
  intros Hx (A & C). split.
  - intros k t dk Hk Hd Hin. destruct (String.eqb_spec k x) as [->|Hne].
    + apply ed_some in Hd as (v & E & _). rewrite raw_delete_self in E by exact Hx. discriminate.
    + rewrite (ed_of_map m) in Hd by (apply raw_delete_other; assumption).
      destruct (A k t dk Hk Hd Hin) as (Hmem & D & HD & Hdle). split.
      * apply raw_delete_keeps; assumption.
      * exists D. split; [|exact Hdle]. apply ed_raw_delete_tag; assumption.
  - intros t y Hy. apply raw_delete_subset in Hy; [|exact Hx]. eapply C; exact Hy.
Qed.
Lemma fold_rd_invT reg now (test : tmap -> key -> bool) : forall l m i, Forall not_tagkey l -> InvT m i now ->
  InvT (fold_left (fun m' k => if test m' k then raw_delete reg m' now k else m') l m) i now.
Proof.
  induction l as [|k l IH]; intros m i Hl HI; cbn [fold_left]; [exact HI|]. inversion Hl as [|? ? Hk Hl']; subst.
  apply IH; [exact Hl'|]. destruct (test m k); [apply raw_delete_invT; assumption|exact HI].
Qed.

Definition ptest (now : Z) (m : tmap) (k : key) : bool := match m k with Some (d, _) => negb (live now d) | None => false end.
Lemma purge_as_fold reg keys m now :
  purge reg keys m now = fold_left (fun m' k => if ptest now m' k then raw_delete reg m' now k else m') keys m.
Proof.
  unfold purge. revert m. induction keys as [|k keys IH]; intro m; cbn [fold_left]; [reflexivity|]. rewrite <- IH. f_equal.
  unfold ptest. destruct (m k) as [[d v]|]; [destruct (live now d); reflexivity|reflexivity].
Qed.
Lemma purge_invT reg keys m i now : Forall not_tagkey keys -> InvT m i now -> InvT (purge reg keys m now) i now.
Proof. intros Hk HI. rewrite purge_as_fold. apply fold_rd_invT; assumption. Qed.

(* ---------- tagged writes, any TTLs ---------- *)
Lemma add_tags_keeps_g m now k ttl tags x tk : In x (set_of m now tk) -> In x (set_of (add_tags m now k ttl tags) now tk).
Proof.
  unfold add_tags. revert m. induction tags as [|t tags IH]; intros m H; cbn [fold_left]; [exact H|]. apply IH.
  destruct (String.eqb_spec tk (tag_key t)) as [->|Hd]; [apply set_add_keeps; exact H|rewrite set_add_other by exact Hd; exact H].
Qed.
Lemma add_tags_data_g m now k ttl tags x : not_tagkey x -> add_tags m now k ttl tags x = m x.
Proof.
  intro Hx. unfold add_tags. revert m. induction tags as [|t tags IH]; intro m; cbn [fold_left]; [reflexivity|].
  rewrite IH. unfold set_add. apply s_write_other. apply Hx.
Qed.
Lemma add_tags_untouched m now k ttl tags t : ~ In t tags -> add_tags m now k ttl tags (tag_key t) = m (tag_key t).
Proof.
  unfold add_tags. revert m. induction tags as [|t1 tags IH]; intros m H; cbn [fold_left]; [reflexivity|].
  rewrite IH by (intro; apply H; right; assumption). unfold set_add. apply s_write_other.
  intro E. apply H. left. symmetry. apply tag_key_inj. exact E.
Qed.
Lemma members_data_g m now k ttl tags t x : not_tagkey k -> (forall t0 y, In y (set_of m now (tag_key t0)) -> not_tagkey y) ->
  In x (set_of (add_tags m now k ttl tags) now (tag_key t)) -> not_tagkey x.
Proof.
  intros Hk. unfold add_tags. revert m. induction tags as [|t1 tags IH]; intros m Hm H; cbn [fold_left] in H; [eauto|].
  eapply IH; [|exact H]. intros t0 y Hy. destruct (String.eqb_spec (tag_key t0) (tag_key t1)) as [E|Hd].
  - rewrite E in Hy. unfold set_add in Hy. rewrite set_of_write in Hy. destruct (mems k (set_of m now (tag_key t1))); [eapply Hm; exact Hy|].
    apply in_app_iff in Hy as [Hy|[<-|[]]]; [eapply Hm; exact Hy|exact Hk].
  - rewrite set_add_other in Hy by exact Hd. eapply Hm; exact Hy.
Qed.
Lemma f20_false m now tags t D x dx : f20_after m now tags = false -> In t tags ->
  entry_deadline m now (tag_key t) = Some D -> In x (set_of m now (tag_key t)) -> entry_deadline m now x = Some dx -> dle dx D = true.
Proof.
  intros F Ht HD Hx Hdx. destruct (dle dx D) eqn:E; [reflexivity|]. exfalso.
  assert (T : f20_after m now tags = true); [|congruence].
  unfold f20_after. apply existsb_exists. exists t. split; [exact Ht|]. rewrite HD.
  apply existsb_exists. exists x. split; [exact Hx|]. rewrite Hdx, E. reflexivity.
Qed.

Lemma write_invT m i now k v ttlk ttlt tags : not_tagkey k -> InvT m i now ->
  f20_after (add_tags (s_write m now k v ttlk) now k ttlt tags) now tags = false ->
  InvT (add_tags (s_write m now k v ttlk) now k ttlt tags) (iupd i k tags) now.
Proof.
  intros Hk (A & C) F. set (m' := add_tags (s_write m now k v ttlk) now k ttlt tags) in *. split.
  - intros x t dx Hx Hd Hin. unfold iupd in Hin. destruct (String.eqb_spec x k) as [->|Hne].
    + assert (Hmem : In k (set_of m' now (tag_key t))) by (apply tagged_write_joins; exact Hin).
      split; [exact Hmem|]. destruct (set_of_in_live _ _ _ _ Hmem) as (D & HD). exists D. split; [exact HD|].
      eapply f20_false; eassumption.
    + assert (Ex : m' x = m x) by (unfold m'; rewrite add_tags_data_g by exact Hx; apply s_write_other; exact Hne).
      rewrite (ed_of_map m) in Hd by exact Ex.
      destruct (A x t dx Hx Hd Hin) as (Hmem & D0 & HD0 & Hdle).
      assert (Hmem' : In x (set_of m' now (tag_key t))).
      { unfold m'. apply add_tags_keeps_g. rewrite set_of_other; [exact Hmem|]. intro E. apply (Hk t). symmetry. exact E. }
      split; [exact Hmem'|]. destruct (in_dec string_dec t tags) as [Ht|Hnt].
      * destruct (set_of_in_live _ _ _ _ Hmem') as (D & HD). exists D. split; [exact HD|].
        eapply f20_false; try eassumption. rewrite (ed_of_map m); [exact Hd|exact Ex].
      * exists D0. split; [|exact Hdle]. rewrite (ed_of_map m); [exact HD0|].
        unfold m'. rewrite add_tags_untouched by exact Hnt. apply s_write_other. intro E. apply (Hk t). symmetry. exact E.
  - intros t x Hx. unfold m' in Hx. eapply members_data_g; [exact Hk| |exact Hx].
    intros t0 y Hy. rewrite set_of_other in Hy; [eapply C; exact Hy|]. intro E. apply (Hk t0). symmetry. exact E.
Qed.

(* ---------- delete_tags ---------- *)
Lemma empty_set_invT m i now t : InvT m i now ->
  InvT (s_write m now (tag_key t) (VSet []) 0) (fun k => if mems k (set_of m now (tag_key t)) then [] else i k) now.
Proof.
  intros (A & C). split.
  - intros x t' dx Hx Hd Hin. destruct (mems x (set_of m now (tag_key t))) eqn:Mx; [destruct Hin|].
    rewrite ed_write_other in Hd by apply Hx.
    destruct (A x t' dx Hx Hd Hin) as (Hmem & D & HD & Hdle). destruct (String.eqb_spec t' t) as [->|Hne].
    + exfalso. apply mems_in in Hmem. congruence.
    + assert (Hk : tag_key t' <> tag_key t) by (intro E; apply Hne; apply tag_key_inj; exact E).
      split; [rewrite set_of_other by exact Hk; exact Hmem|]. exists D. split; [|exact Hdle]. rewrite ed_write_other by exact Hk. exact HD.
  - intros t' x Hx. destruct (String.eqb_spec (tag_key t') (tag_key t)) as [E|Hne].
    + rewrite E, set_of_write in Hx. destruct Hx.
    + rewrite set_of_other in Hx by exact Hne. eapply C; exact Hx.
Qed.
Lemma fold_rd_plain reg now l m : fold_left (fun m' k => raw_delete reg m' now k) l m =
  fold_left (fun m' k => if (fun _ _ => true) m' k then raw_delete reg m' now k else m') l m.
Proof. reflexivity. Qed.
Lemma delete_tag_invT reg m i now t : InvT m i now ->
  InvT (delete_tag reg m now t) (fun k => if mems k (set_of m now (tag_key t)) then [] else i k) now.
Proof.
  intro HI. pose proof (empty_set_invT m i now t HI) as H1. unfold delete_tag.
  destruct (set_of m now (tag_key t)) as [|y l] eqn:Es.
  - destruct (s_get m now (tag_key t)); exact H1.
  - apply (fold_rd_invT reg now (fun _ _ => true)); [|exact H1].
    apply Forall_forall. intros x Hx. destruct HI as (_ & C). apply (C t). rewrite Es. exact Hx.
Qed.

(* ---------- histories ---------- *)
Definition tstep (reg : registry) (keys : list key) (m : tmap) (now : Z) (i : info) (e : tev) : info :=
  let m1 := purge reg keys m now in
  match e with
  | TSet k _ _ tags => iupd i k tags
  | TIncr k _ _ tags => match s_get m1 now k with Some (VInt _) | None => iupd i k tags | Some _ => i end
  | TDel _ | TDelPrefix _ => i                 (* the deleted keys are absent: what the ghost says of them is irrelevant *)
  | TDeleteTags t => fun k => if mems k (set_of m1 now (tag_key t)) then [] else i k
  end.
Definition ev_okT (e : tev) : Prop :=
  match e with TSet k _ _ _ | TIncr k _ _ _ | TDel k => not_tagkey k | _ => True end.
Definition f20_step (reg : registry) (keys : list key) (m : tmap) (now : Z) (e : tev) : bool :=
  match e with TSet _ _ _ tags | TIncr _ _ _ tags => f20_after (tag_step reg keys m now e) now tags | _ => false end.

Lemma step_invT reg keys m i t0 t e : Forall not_tagkey keys -> ev_okT e -> t0 <= t -> InvT m i t0 ->
  f20_step reg keys m t e = false -> InvT (tag_step reg keys m t e) (tstep reg keys m t i e) t.
Proof.
  intros Hkeys He Hle HI F.
  assert (H1 : InvT (purge reg keys m t) i t) by (apply purge_invT; [exact Hkeys|eapply invT_mono; eassumption]).
  unfold f20_step in F. unfold tag_step in *. unfold tstep. cbv zeta. revert H1 F. generalize (purge reg keys m t). intros m1 H1 F.
  destruct e as [k v ttl tags|k by_ ttl tags|k|p|tg].
  - apply write_invT; assumption.
  - cbn in He. destruct (s_get m1 t k) as [[z| | | | | | |]|]; try exact H1; apply write_invT; assumption.
  - cbn in He. destruct (s_look m1 t k); [apply raw_delete_invT; assumption|exact H1].
  - assert (Eq : fold_left (fun m' k => match drop_prefix p k with
                                        | Some _ => match s_look m' t k with Some _ => raw_delete reg m' t k | None => m' end
                                        | None => m' end) keys m1 =
                 fold_left (fun m' k => if match drop_prefix p k with Some _ => isSome (s_look m' t k) | None => false end then raw_delete reg m' t k else m') keys m1).
    { clear. revert m1. induction keys as [|k keys IH]; intro m1; cbn [fold_left]; [reflexivity|]. rewrite <- IH. f_equal.
      destruct (drop_prefix p k); [destruct (s_look m1 t k); reflexivity|reflexivity]. }
    rewrite Eq. apply (fold_rd_invT reg t (fun m' k => match drop_prefix p k with Some _ => isSome (s_look m' t k) | None => false end)); assumption.
  - apply delete_tag_invT. exact H1.
Qed.

Lemma fold_rd_look reg now k : not_tagkey k -> forall l m, Forall not_tagkey l -> s_look m now k = None ->
  s_look (fold_left (fun m' x => raw_delete reg m' now x) l m) now k = None.
Proof.
  intros Hk. induction l as [|x l IH]; intros m Hl E; cbn [fold_left]; [exact E|]. inversion Hl as [|? ? Hx Hl']; subst.
  apply IH; [exact Hl'|]. unfold s_look. destruct (String.eqb_spec k x) as [->|Hne].
  - rewrite raw_delete_self by exact Hx. reflexivity.
  - rewrite raw_delete_other by assumption. exact E.
Qed.

Theorem delete_tags_complete_ttl reg keys m i t0 now t : Forall not_tagkey keys -> t0 <= now -> InvT m i t0 ->
  forall k, not_tagkey k -> In t (i k) -> s_look (tag_step reg keys m now (TDeleteTags t)) now k = None.
Proof.
  intros Hkeys Hle HI k Hk Hin.
  assert (H1 : InvT (purge reg keys m now) i now) by (apply purge_invT; [exact Hkeys|eapply invT_mono; eassumption]).
  unfold tag_step. revert H1. generalize (purge reg keys m now). intros m1 (A & C).
  assert (Mnt : Forall not_tagkey (set_of m1 now (tag_key t))) by (apply Forall_forall; intros x Hx; eapply C; exact Hx).
  destruct (entry_deadline m1 now k) as [dk|] eqn:Ed.
  - apply delete_tag_removes_every_member; [exact Mnt|]. destruct (A k t dk Hk Ed Hin) as (Hmem & _). exact Hmem.
  - assert (L : s_look m1 now k = None) by (unfold entry_deadline in Ed; destruct (s_look m1 now k); [discriminate|reflexivity]).
    unfold delete_tag. assert (L1 : s_look (s_write m1 now (tag_key t) (VSet []) 0) now k = None).
    { unfold s_look. rewrite s_write_other by apply Hk. exact L. }
    destruct (set_of m1 now (tag_key t)) as [|y l] eqn:Es.
    + destruct (s_get m1 now (tag_key t)); exact L1.
    + apply fold_rd_look; assumption.
Qed.

Fixpoint run_t (reg : registry) (keys : list key) (m : tmap) (i : info) (h : list (Z * tev)) : tmap * info :=
  match h with
  | [] => (m, i)
  | (t, e) :: r => run_t reg keys (tag_step reg keys m t e) (tstep reg keys m t i e) r
  end.
Fixpoint mono (t0 : Z) (h : list (Z * tev)) : Prop := match h with [] => True | (t, _) :: r => t0 <= t /\ mono t r end.
Fixpoint lastt (t0 : Z) (h : list (Z * tev)) : Z := match h with [] => t0 | (t, _) :: r => lastt t r end.

Lemma invT_empty t0 : InvT empty (fun _ => []) t0.
Proof. split; [intros k t dk _ _ []|]. intros t x H. unfold set_of in H. cbn in H. destruct H. Qed.

Theorem tags_complete_ttl reg keys h t0 : Forall not_tagkey keys -> Forall (fun te => ev_okT (snd te)) h -> mono t0 h ->
  excl_f20 reg keys empty h = false ->
  let '(m, i) := run_t reg keys empty (fun _ => []) h in
  forall now t k, lastt t0 h <= now -> not_tagkey k -> In t (i k) -> s_look (tag_step reg keys m now (TDeleteTags t)) now k = None.
Proof.
  intros Hkeys Hh Hm F.
  assert (G : forall h m i t0, Forall (fun te => ev_okT (snd te)) h -> mono t0 h -> excl_f20 reg keys m h = false -> InvT m i t0 ->
              InvT (fst (run_t reg keys m i h)) (snd (run_t reg keys m i h)) (lastt t0 h)).
  { clear - Hkeys. intros h. induction h as [|[t e] h IH]; intros m i t0 Hh Hm F HI; cbn [run_t lastt]; [exact HI|].
    inversion Hh as [|? ? He Hh']; subst. cbn [snd] in He. destruct Hm as [Hle Hm]. cbn [excl_f20] in F. apply orb_false_iff in F as [F1 F2].
    apply IH; [exact Hh'|exact Hm|exact F2|]. eapply step_invT; try eassumption. }
  specialize (G h empty (fun _ => []) t0 Hh Hm F (invT_empty t0)).
  destruct (run_t reg keys empty (fun _ => []) h) as [m i]. cbn [fst snd] in G.
  intros now t k Hle Hk Hin. eapply delete_tags_complete_ttl; eassumption.
Qed.

From Cashews Require Import Base.Prelude Spec.TTLMap Model.Tags Model.Txn Run.TxnCase.
Open Scope Z_scope.
Fixpoint like_all (h : list (Z * tcmd)) (a b : list tres) : bool :=
  match h, a, b with
  | [], [], [] => true
  | (_, c) :: h', x :: a', y :: b' => tres_like c x y && like_all h' a' b'
  | _, _, _ => false
  end.
Definition judge (c : case) : verdict :=
  match c with
  | CTxn U t0 init h e tend res outside final =>
      let b0 := init_store t0 init in
      let '(t, mres, _) := run_tx U (tx_begin b0) h in
      (list_eqb tres_eqb mres res,
       like_all h res (snd (run_direct U b0 h)), [])
  end.
Definition explain (c : case) :=
  match c with CTxn U t0 init h e tend _ _ _ =>
    let b0 := init_store t0 init in (snd (fst (run_tx U (tx_begin b0) h)), snd (run_direct U b0 h)) end.

(* Executable image of thunder_protection (decorators/locked.py:87-110) around a cached function, for any number of
   callers and keys.  A call either joins the task registered under its key or creates, registers and awaits one; the
   task's done-callback unregisters it on a later loop iteration; the task body is the cache decorator: look the key up,
   on a miss run the wrapped function (which yields a number of times, then returns or raises) and store a returned
   value.  [sh] says whether callers await the shared task through asyncio.shield (true: the code as it is now) or
   directly (false: cancellation of an awaiting caller is forwarded to the shared task - asyncio's rule).
   Events are finer than what the event loop can produce (each loop callback is its own event).  Definitions only. *)
From Cashews Require Import Base.Prelude.
Open Scope nat_scope.

Inductive outcome := Ret (v : Z) | Raise (e : Z) | Cancelled.
Inductive phase := Pending | Running (more : nat) | Done (o : outcome).
Record flight := { fkey : nat; fyields : nat; fout : outcome; fphase : phase }.
Inductive cstate := Idle | Waiting (f : nat) | Got (f : option nat) (o : outcome) | Gone.
Record cfg := { table : nat -> option nat;       (* key -> registered flight *)
                flights : nat -> option flight;  (* flight id -> flight *)
                nfl : nat;                       (* ids handed out so far *)
                cache : nat -> option Z;
                callers : nat -> cstate;
                running : nat -> nat;            (* bodies executing right now, per key *)
                started : nat -> nat }.          (* bodies ever started, per key *)
Inductive event :=
| Call (i k : nat) (yields : nat) (o : outcome)   (* caller i calls with key k; (yields, o) is what the body would do *)
| Start (f : nat)                                (* first step of the flight's task *)
| Step (f : nat)                                 (* the body resumes from one yield *)
| Unreg (f : nat)                                (* done-callback + wake-up of the waiters *)
| Cancel (i : nat).

Definition upd {A} (t : nat -> A) (k : nat) (v : A) := fun x => if Nat.eqb x k then v else t x.
Definition set_phase (fl : flight) (p : phase) := {| fkey := fkey fl; fyields := fyields fl; fout := fout fl; fphase := p |}.
Definition is_done (p : phase) := match p with Done _ => true | _ => false end.
Definition is_running (p : phase) := match p with Running _ => true | _ => false end.

(* the body of flight f ends with outcome o: store a returned value, one body fewer is executing *)
Definition finish (c : cfg) (f : nat) (fl : flight) (o : outcome) (was_running : bool) : cfg :=
  {| table := table c; flights := upd (flights c) f (Some (set_phase fl (Done o))); nfl := nfl c;
     cache := match o with Ret v => upd (cache c) (fkey fl) (Some v) | _ => cache c end;
     callers := callers c;
     running := if was_running then upd (running c) (fkey fl) (pred (running c (fkey fl))) else running c;
     started := started c |}.

Definition deliver (cs : nat -> cstate) (f : nat) (o : outcome) : nat -> cstate :=
  fun j => match cs j with Waiting f' => if Nat.eqb f' f then Got (Some f) o else Waiting f' | s => s end.

(* second component: what can be seen from outside when the event happens
   Call: a new task was created;  Start: the body began executing;  Step: the body ended *)
Definition step (sh : bool) (c : cfg) (e : event) : cfg * bool :=
  match e with
  | Call i k n o =>
      match callers c i with
      | Idle =>
          match table c k with
          | Some f =>
              match flights c f with
              | Some fl =>
                  ({| table := table c; flights := flights c; nfl := nfl c; cache := cache c;
                      callers := upd (callers c) i (match fphase fl with Done o' => Got (Some f) o' | _ => Waiting f end);
                      running := running c; started := started c |}, false)
              | None => (c, false)
              end
          | None =>
              let f := nfl c in
              ({| table := upd (table c) k (Some f);
                  flights := upd (flights c) f (Some {| fkey := k; fyields := n; fout := o; fphase := Pending |}); nfl := S f;
                  cache := cache c; callers := upd (callers c) i (Waiting f);
                  running := running c; started := started c |}, true)
          end
      | _ => (c, false)
      end
  | Start f =>
      match flights c f with
      | Some fl =>
          match fphase fl with
          | Pending =>
              match cache c (fkey fl) with
              | Some v => (finish c f fl (Ret v) false, false)                   (* hit: the body is not called *)
              | None =>
                  let c1 := {| table := table c; flights := flights c; nfl := nfl c; cache := cache c; callers := callers c;
                               running := running c; started := upd (started c) (fkey fl) (S (started c (fkey fl))) |} in
                  match fyields fl with
                  | O => (finish c1 f fl (fout fl) false, true)                  (* starts and ends without yielding *)
                  | S m => ({| table := table c; flights := upd (flights c) f (Some (set_phase fl (Running m))); nfl := nfl c;
                               cache := cache c; callers := callers c;
                               running := upd (running c) (fkey fl) (S (running c (fkey fl)));
                               started := started c1 |}, true)
                  end
              end
          | _ => (c, false)
          end
      | None => (c, false)
      end
  | Step f =>
      match flights c f with
      | Some fl =>
          match fphase fl with
          | Running O => (finish c f fl (fout fl) true, true)
          | Running (S m) => ({| table := table c; flights := upd (flights c) f (Some (set_phase fl (Running m))); nfl := nfl c;
                                 cache := cache c; callers := callers c; running := running c; started := started c |}, false)
          | _ => (c, false)
          end
      | None => (c, false)
      end
  | Unreg f =>
      match flights c f with
      | Some fl =>
          match fphase fl, table c (fkey fl) with
          | Done o, Some f' =>
              if Nat.eqb f' f then
                ({| table := upd (table c) (fkey fl) None; flights := flights c; nfl := nfl c; cache := cache c;
                    callers := deliver (callers c) f o; running := running c; started := started c |}, true)
              else (c, false)
          | _, _ => (c, false)
          end
      | None => (c, false)
      end
  | Cancel i =>
      match callers c i with
      | Idle => ({| table := table c; flights := flights c; nfl := nfl c; cache := cache c; callers := upd (callers c) i Gone;
                    running := running c; started := started c |}, true)
      | Waiting f =>
          let c1 := {| table := table c; flights := flights c; nfl := nfl c; cache := cache c; callers := upd (callers c) i Gone;
                       running := running c; started := started c |} in
          if sh then (c1, true)
          else match flights c f with           (* the awaited task is cancelled too *)
               | Some fl => match fphase fl with
                            | Done _ => (c1, true)
                            | p => (finish c1 f fl Cancelled (is_running p), true)
                            end
               | None => (c1, true)
               end
      | _ => (c, false)
      end
  end.

Definition init : cfg := {| table := fun _ => None; flights := fun _ => None; nfl := O; cache := fun _ => None; callers := fun _ => Idle;
                            running := fun _ => O; started := fun _ => O |}.
Definition run_from (sh : bool) (c : cfg) (evs : list event) : cfg := fold_left (fun c e => fst (step sh c e)) evs c.
Definition run (sh : bool) (evs : list event) : cfg := run_from sh init evs.
Definition phase_of (c : cfg) (f : nat) : option phase := option_map fphase (flights c f).

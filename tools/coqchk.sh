#!/bin/sh
# independent re-check of every compiled property module and everything it depends on; prints the axioms relied on
cd "$(dirname "$0")/../coq" || exit 2
exec coqchk -silent -o -Q . Cashews $(for i in 01 02 03 04 05 06 07 08 09 10 11 12 13 14 15 16 17 18 19 20; do echo Cashews.Properties.C$i; done)

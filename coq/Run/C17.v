(* Correspondence + oracle for C17 (routing, multi-key re-assembly, disabling, task locality). *)
From Coq Require Import Ascii.
From Cashews Require Import Base.Prelude Base.OMap Model.Router.

Inductive ctlop :=
| ODisable (t : nat) (cmds : list nat) | OEnable (t : nat) (cmds : list nat)
| OSpawn (parent child : nat) | OQuery (t : nat) (cmds : list nat) | OFull (t : nat).

Inductive case :=
| CRoute (regs : list (string * nat)) (k : key) (out : option nat)
| CMany (regs : list (string * nat)) (stores : list (nat * list (key * val))) (ks : list key) (out : list (option val))
| CManyW (regs : list (string * nat)) (before : bstores) (dels : list key) (sets : list (key * val)) (after : bstores)
| CDisabled (kind : ckind) (disabled : bool) (res : cres) (called raised : bool)
| CDecor (full get_off set_off : bool) (calls execs : nat)
| CCtl (all : list nat) (ops : list ctlop) (outs : list bool).

(* independent spec of routing: the longest registered prefix of the key; its latest registration *)
Definition spec_route (regs : list (string * nat)) (k : key) : option nat :=
  let best := fold_left (fun (b : option string) e =>
                           if String.prefix (fst e) k
                           then match b with
                                | Some p => if (String.length p <? String.length (fst e))%nat then Some (fst e) else b
                                | None => Some (fst e)
                                end
                           else b) regs None in
  match best with
  | Some p => fold_left (fun (r : option nat) e => if String.eqb (fst e) p then Some (snd e) else r) regs None
  | None => None
  end.

Definition store_get (stores : list (nat * list (key * val))) (b : nat) (k : key) : option val :=
  match find (fun e => Nat.eqb (fst e) b) stores with
  | Some e => lookup (snd e) k
  | None => None
  end.

Fixpoint run_ctl (all : list nat) (c : ctl) (ops : list ctlop) : list bool :=
  match ops with
  | [] => []
  | ODisable t cmds :: r => run_ctl all (c_disable all c t cmds) r
  | OEnable t cmds :: r => run_ctl all (c_enable c t cmds) r
  | OSpawn p ch :: r => run_ctl all (c_spawn c p ch) r
  | OQuery t cmds :: r => c_is_disable all c t cmds :: run_ctl all c r
  | OFull t :: r => c_is_full_disable all c t :: run_ctl all c r
  end.

(* spec of task locality: every task has its own set, a child starts with a copy *)
Definition tsets := list (nat * list nat).
Definition ts_get (s : tsets) t := match find (fun e => Nat.eqb (fst e) t) s with Some e => snd e | None => [] end.
Fixpoint spec_ctl (all : list nat) (s : tsets) (ops : list ctlop) : list bool :=
  match ops with
  | [] => []
  | ODisable t cmds :: r => spec_ctl all ((t, match cmds with [] => all | _ => cmds ++ ts_get s t end) :: s) r
  | OEnable t cmds :: r => spec_ctl all ((t, match cmds with [] => [] | _ => filter (fun x => negb (memn x cmds)) (ts_get s t) end) :: s) r
  | OSpawn p ch :: r => spec_ctl all ((ch, ts_get s p) :: s) r
  | OQuery t cmds :: r =>
      (match cmds with [] => negb (match ts_get s t with [] => true | _ => false end)
                  | _ => existsb (fun x => memn x (ts_get s t)) cmds end) :: spec_ctl all s r
  | OFull t :: r => forallb (fun x => memn x (ts_get s t)) all :: spec_ctl all s r
  end.

Definition cres_eqb (a b : cres) : bool :=
  match a, b with
  | RDefault, RDefault | REmptyIter, REmptyIter | RNone, RNone | RZero, RZero | RBackend, RBackend => true
  | RDefaults n, RDefaults m => Nat.eqb n m
  | _, _ => false
  end.
Definition onat_eqb := option_eqb Nat.eqb.
Definition rt_of (regs : list (string * nat)) (k : key) : nat :=
  match route (registered regs) k with Some b => b | None => 0%nat end.

Definition judge (c : case) : verdict :=
  match c with
  | CRoute regs k out => (onat_eqb (route (registered regs) k) out, onat_eqb (spec_route regs k) out, [])
  | CMany regs stores ks out =>
      let rt := rt_of regs in
      (list_eqb (option_eqb val_eqb) (facade_get_many rt (fun b l => map (store_get stores b) l) ks) out,
       list_eqb (option_eqb val_eqb)
         (map (fun k => store_get stores (match spec_route regs k with Some b => b | None => 0%nat end) k) ks) out, [])
  | CManyW regs before dels sets after =>
      let rt := rt_of regs in
      let m := facade_set_many rt (facade_delete_many rt before dels) sets in
      let ks := dels ++ map fst sets ++ flat_map (fun e => map fst (snd e)) before ++ flat_map (fun e => map fst (snd e)) after in
      let bs := map snd regs in
      let same (x y : bstores) := forallb (fun b => forallb (fun k => option_eqb val_eqb (kv_get (bs_get x b) k) (kv_get (bs_get y b) k)) ks) bs in
      let srt k := match spec_route regs k with Some b => b | None => 0%nat end in
      let expect b k := match kv_get sets k with
                        | Some v => if Nat.eqb (srt k) b then Some v else kv_get (bs_get before b) k
                        | None => if existsb (String.eqb k) dels && Nat.eqb (srt k) b then None else kv_get (bs_get before b) k
                        end in
      (same m after,
       forallb (fun b => forallb (fun k => option_eqb val_eqb (expect b k) (kv_get (bs_get after b) k)) ks) bs, [])
  | CDisabled kind disabled res called raised =>
      let '(mres, mcalled) := middleware disabled kind in
      (cres_eqb mres res && Bool.eqb mcalled called && negb raised,
       if disabled then negb called && negb raised && cres_eqb (disabled_result kind) res else called && negb raised, [])
  | CDecor full get_off set_off calls execs =>
      let expected := if full || get_off || set_off then calls else Nat.min calls 1 in
      (Nat.eqb expected execs, if full then Nat.eqb execs calls else true, [])
  | CCtl all ops outs =>
      (list_eqb Bool.eqb (run_ctl all {| control_set := false; ctxs := [] |} ops) outs,
       list_eqb Bool.eqb (spec_ctl all [] ops) outs, [])
  end.

Definition explain (c : case) : option nat * list (option val) * list bool :=
  match c with
  | CRoute regs k _ => (route (registered regs) k, [], [])
  | CMany regs stores ks _ => (None, facade_get_many (rt_of regs) (fun b l => map (store_get stores b) l) ks, [])
  | CCtl all ops _ => (None, [], run_ctl all {| control_set := false; ctxs := [] |} ops)
  | _ => (None, [], [])
  end.

From Cashews Require Import Base.Prelude Model.SingleFlight.
Open Scope nat_scope.

Definition run1 (c : cfg) k : nat :=
  match table c k with
  | Some f => match flights c f with Some fl => if is_running (fphase fl) then 1 else 0 | None => 0 end
  | None => 0
  end.

(* produced c k v : some body specified for key k returns v *)
Definition produced (c : cfg) (k : nat) (v : Z) : Prop := exists g gl, flights c g = Some gl /\ fkey gl = k /\ fout gl = Ret v.

Definition Inv (sh : bool) (c : cfg) : Prop :=
  (forall f, nfl c <= f -> flights c f = None) /\
  (forall f fl, flights c f = Some fl -> is_done (fphase fl) = false -> table c (fkey fl) = Some f) /\
  (forall k f, table c k = Some f -> exists fl, flights c f = Some fl /\ fkey fl = k) /\
  (forall k, running c k = run1 c k) /\
  (forall i f o, callers c i = Got (Some f) o -> exists fl, flights c f = Some fl /\ fphase fl = Done o) /\
  (forall i f, callers c i = Waiting f -> exists fl, flights c f = Some fl /\ table c (fkey fl) = Some f) /\
  (forall f fl o, flights c f = Some fl -> fphase fl = Done o ->
      o = fout fl \/ (exists v, o = Ret v /\ produced c (fkey fl) v) \/ (sh = false /\ o = Cancelled)) /\
  (forall k v, cache c k = Some v -> produced c k v).

Ltac u := unfold upd in *; cbn [fkey fphase fout fyields set_phase] in *;
  repeat match goal with
  | |- context[Nat.eqb ?a ?b] => destruct (Nat.eqb_spec a b)
  | H : context[Nat.eqb ?a ?b] |- _ => destruct (Nat.eqb_spec a b)
  end; subst.

Lemma inv_init sh : Inv sh init.
Proof. unfold Inv, init, run1, produced; cbn. repeat (split; [intros; try discriminate; reflexivity|]). intros; discriminate. Qed.

Lemma produced_mono c c' k v :
  (forall g gl, flights c g = Some gl -> exists gl', flights c' g = Some gl' /\ fkey gl' = fkey gl /\ fout gl' = fout gl) ->
  produced c k v -> produced c' k v.
Proof. intros H (g & gl & G & K & O). destruct (H _ _ G) as (gl' & G' & K' & O'). exists g, gl'. repeat split; congruence. Qed.

Lemma inv_call sh c i k n o : Inv sh c -> Inv sh (fst (step sh c (Call i k n o))).
Proof.
  intros (I0 & I1 & I2 & I3 & I4 & I5 & I6 & I7). cbn [step].
  destruct (callers c i) eqn:Ci; cbn [fst]; try exact (conj I0 (conj I1 (conj I2 (conj I3 (conj I4 (conj I5 (conj I6 I7))))))).
  destruct (table c k) as [f|] eqn:Tk.
  - destruct (flights c f) as [fl|] eqn:Ff; cbn [fst]; [|exact (conj I0 (conj I1 (conj I2 (conj I3 (conj I4 (conj I5 (conj I6 I7)))))))].
    destruct (I2 _ _ Tk) as (fl0 & Ff0 & Kf). rewrite Ff in Ff0. injection Ff0 as <-.
    refine (conj I0 (conj I1 (conj I2 (conj I3 (conj _ (conj _ (conj I6 I7))))))); cbn.
    + intros j g o0 Hj. unfold upd in Hj. destruct (Nat.eqb_spec j i); [|eauto].
      destruct (fphase fl) eqn:P; try discriminate. injection Hj as <- <-. eauto.
    + intros j g Hj. unfold upd in Hj. destruct (Nat.eqb_spec j i); [|eauto].
      destruct (fphase fl) eqn:P; try discriminate; injection Hj as <-; exists fl; split; congruence.
  - cbn [fst]. assert (Fn : flights c (nfl c) = None) by (apply I0; lia).
    assert (Mono : forall g gl, flights c g = Some gl -> upd (flights c) (nfl c) (Some {| fkey := k; fyields := n; fout := o; fphase := Pending |}) g = Some gl).
    { intros g gl G. unfold upd. destruct (Nat.eqb_spec g (nfl c)); [congruence|assumption]. }
    assert (PM : forall k0 v, produced c k0 v -> produced {| table := upd (table c) k (Some (nfl c));
                flights := upd (flights c) (nfl c) (Some {| fkey := k; fyields := n; fout := o; fphase := Pending |}); nfl := S (nfl c);
                cache := cache c; callers := upd (callers c) i (Waiting (nfl c)); running := running c; started := started c |} k0 v).
    { intros k0 v. apply produced_mono. cbn. intros g gl G. exists gl. split; [apply Mono; assumption|split; reflexivity]. }
    refine (conj _ (conj _ (conj _ (conj _ (conj _ (conj _ (conj _ _))))))); cbn.
    + intros g Hg. unfold upd. destruct (Nat.eqb_spec g (nfl c)); [lia|]. apply I0. lia.
    + intros g gl G D. unfold upd in *. destruct (Nat.eqb_spec g (nfl c)).
      * injection G as <-. cbn. rewrite Nat.eqb_refl. congruence.
      * specialize (I1 _ _ G D). destruct (Nat.eqb_spec (fkey gl) k); [congruence|assumption].
    + intros k0 g T. unfold upd in *. destruct (Nat.eqb_spec k0 k).
      * injection T as <-. rewrite Nat.eqb_refl. eexists; split; [reflexivity|]. cbn. congruence.
      * destruct (I2 _ _ T) as (gl & G & K). destruct (Nat.eqb_spec g (nfl c)); [congruence|eauto].
    + intros k0. rewrite I3. unfold run1; cbn. unfold upd. destruct (Nat.eqb_spec k0 k).
      * subst. rewrite Tk, Nat.eqb_refl. reflexivity.
      * destruct (table c k0) as [g|] eqn:T; [|reflexivity]. destruct (I2 _ _ T) as (gl & G & K).
        destruct (Nat.eqb_spec g (nfl c)); [congruence|reflexivity].
    + intros j g o0 Hj. unfold upd in Hj. destruct (Nat.eqb_spec j i); [discriminate|].
      destruct (I4 _ _ _ Hj) as (gl & G & P). exists gl. split; [apply Mono|]; assumption.
    + intros j g Hj. unfold upd in Hj. destruct (Nat.eqb_spec j i).
      * injection Hj as <-. eexists. unfold upd. rewrite Nat.eqb_refl. split; [reflexivity|]. cbn. rewrite Nat.eqb_refl. reflexivity.
      * destruct (I5 _ _ Hj) as (gl & G & T). exists gl. split; [apply Mono; assumption|].
        unfold upd. destruct (Nat.eqb_spec (fkey gl) k); [congruence|assumption].
    + intros g gl o0 G P. unfold upd in G. destruct (Nat.eqb_spec g (nfl c)).
      * injection G as <-. discriminate.
      * destruct (I6 _ _ _ G P) as [H|[(v & -> & H)|H]]; [left; assumption| |right; right; assumption].
        right; left. exists v. split; [reflexivity|]. apply PM. assumption.
    + intros k0 v Hc. apply PM. apply I7. assumption.
Qed.

Lemma inv_finish sh c f fl o :
  Inv sh c -> flights c f = Some fl -> is_done (fphase fl) = false ->
  (o = fout fl \/ (exists v, o = Ret v /\ produced c (fkey fl) v) \/ (sh = false /\ o = Cancelled)) ->
  Inv sh (finish c f fl o (is_running (fphase fl))).
Proof.
  intros (I0 & I1 & I2 & I3 & I4 & I5 & I6 & I7) Ff ND Prov.
  assert (Tf : table c (fkey fl) = Some f) by (apply I1; assumption).
  assert (Mono : forall g gl, flights c g = Some gl -> exists gl', upd (flights c) f (Some (set_phase fl (Done o))) g = Some gl' /\ fkey gl' = fkey gl /\ fout gl' = fout gl).
  { intros g gl G. unfold upd. destruct (Nat.eqb_spec g f).
    - subst. rewrite Ff in G. injection G as <-. eexists; split; [reflexivity|]. split; reflexivity.
    - exists gl. auto. }
  assert (PM : forall k0 v, produced c k0 v -> produced (finish c f fl o (is_running (fphase fl))) k0 v).
  { intros k0 v. apply produced_mono. exact Mono. }
  unfold finish. refine (conj _ (conj _ (conj _ (conj _ (conj _ (conj _ (conj _ _))))))); cbn.
  - intros g Hg. unfold upd. destruct (Nat.eqb_spec g f); [|apply I0; assumption]. subst. rewrite (I0 _ Hg) in Ff. discriminate.
  - intros g gl G D. unfold upd in G. destruct (Nat.eqb_spec g f).
    + injection G as <-. discriminate.
    + apply I1; assumption.
  - intros k0 g T. destruct (I2 _ _ T) as (gl & G & K). unfold upd. destruct (Nat.eqb_spec g f).
    + subst g. rewrite Ff in G. injection G as <-. eexists; split; [reflexivity|exact K].
    + eauto.
  - intros k0. unfold run1; cbn. destruct (Nat.eq_dec k0 (fkey fl)) as [->|Hk].
    + rewrite Tf. unfold upd at 2. rewrite Nat.eqb_refl. cbn.
      specialize (I3 (fkey fl)). unfold run1 in I3. rewrite Tf, Ff in I3.
      destruct (is_running (fphase fl)); [unfold upd; rewrite Nat.eqb_refl; rewrite I3; reflexivity|exact I3].
    + assert (R : (if is_running (fphase fl) then upd (running c) (fkey fl) (Nat.pred (running c (fkey fl))) else running c) k0 = running c k0).
      { destruct (is_running (fphase fl)); [|reflexivity]. unfold upd. destruct (Nat.eqb_spec k0 (fkey fl)); [contradiction|reflexivity]. }
      rewrite R, I3. unfold run1. destruct (table c k0) as [g|] eqn:T; [|reflexivity].
      destruct (I2 _ _ T) as (gl & G & K). unfold upd. destruct (Nat.eqb_spec g f); [|reflexivity].
      subst g. rewrite Ff in G. injection G as <-. congruence.
  - intros j g o0 Hj. destruct (I4 _ _ _ Hj) as (gl & G & P). unfold upd. destruct (Nat.eqb_spec g f).
    + subst g. rewrite Ff in G. injection G as <-. rewrite P in ND. discriminate.
    + eauto.
  - intros j g Hj. destruct (I5 _ _ Hj) as (gl & G & T). unfold upd. destruct (Nat.eqb_spec g f).
    + subst g. rewrite Ff in G. injection G as <-. eexists; split; [reflexivity|exact T].
    + eauto.
  - intros g gl o0 G P. unfold upd in G. destruct (Nat.eqb_spec g f).
    + injection G as <-. cbn in P. injection P as <-. cbn.
      destruct Prov as [H|[(v & -> & H)|H]]; [left; assumption| |right; right; assumption].
      right; left. exists v. split; [reflexivity|]. apply PM in H. exact H.
    + destruct (I6 _ _ _ G P) as [H|[(v & -> & H)|H]]; [left; assumption| |right; right; assumption].
      right; left. exists v. split; [reflexivity|]. apply PM in H. exact H.
  - intros k0 v Hc.
    assert (Old : cache c k0 = Some v -> produced (finish c f fl o (is_running (fphase fl))) k0 v) by (intro H; apply PM, I7; exact H).
    destruct o as [v0|e|]; try (apply Old; exact Hc).
    unfold upd in Hc. destruct (Nat.eqb_spec k0 (fkey fl)); [|apply Old; exact Hc]. injection Hc as ->. subst k0.
    destruct Prov as [H|[(v' & E & H)|(_ & E)]]; [| |discriminate].
    + exists f, (set_phase fl (Done (Ret v))). cbn. unfold upd. rewrite Nat.eqb_refl. auto.
    + injection E as ->. apply PM. exact H.
Qed.

Lemma inv_rephase sh c f fl p r' :
  Inv sh c -> flights c f = Some fl -> is_done (fphase fl) = false -> is_done p = false ->
  (forall k0, r' k0 = if Nat.eqb k0 (fkey fl) then (if is_running p then 1 else 0) else running c k0) ->
  forall st, Inv sh {| table := table c; flights := upd (flights c) f (Some (set_phase fl p)); nfl := nfl c; cache := cache c;
               callers := callers c; running := r'; started := st |}.
Proof.
  intros (I0 & I1 & I2 & I3 & I4 & I5 & I6 & I7) Ff ND NDp Hr st.
  assert (Tf : table c (fkey fl) = Some f) by (apply I1; assumption).
  assert (Mono : forall g gl, flights c g = Some gl -> exists gl', upd (flights c) f (Some (set_phase fl p)) g = Some gl' /\ fkey gl' = fkey gl /\ fout gl' = fout gl).
  { intros g gl G. unfold upd. destruct (Nat.eqb_spec g f).
    - subst. rewrite Ff in G. injection G as <-. eexists; split; [reflexivity|]. split; reflexivity.
    - exists gl. auto. }
  set (c' := {| table := table c; flights := upd (flights c) f (Some (set_phase fl p)); nfl := nfl c; cache := cache c;
               callers := callers c; running := r'; started := st |}).
  assert (PM : forall k0 v, produced c k0 v -> produced c' k0 v) by (intros k0 v; apply produced_mono; exact Mono).
  refine (conj _ (conj _ (conj _ (conj _ (conj _ (conj _ (conj _ _))))))); cbn.
  - intros g Hg. unfold upd. destruct (Nat.eqb_spec g f); [|apply I0; assumption]. subst. rewrite (I0 _ Hg) in Ff. discriminate.
  - intros g gl G D. unfold upd in G. destruct (Nat.eqb_spec g f).
    + injection G as <-. subst g. exact Tf.
    + apply I1; assumption.
  - intros k0 g T. destruct (I2 _ _ T) as (gl & G & K). unfold upd. destruct (Nat.eqb_spec g f).
    + subst g. rewrite Ff in G. injection G as <-. eexists; split; [reflexivity|exact K].
    + eauto.
  - intros k0. rewrite Hr. unfold run1; cbn. destruct (Nat.eqb_spec k0 (fkey fl)) as [->|Hk].
    + rewrite Tf. unfold upd. rewrite Nat.eqb_refl. reflexivity.
    + rewrite I3. unfold run1. destruct (table c k0) as [g|] eqn:T; [|reflexivity].
      destruct (I2 _ _ T) as (gl & G & K). unfold upd. destruct (Nat.eqb_spec g f); [|reflexivity].
      subst g. rewrite Ff in G. injection G as <-. congruence.
  - intros j g o0 Hj. destruct (I4 _ _ _ Hj) as (gl & G & P). unfold upd. destruct (Nat.eqb_spec g f).
    + subst g. rewrite Ff in G. injection G as <-. rewrite P in ND. discriminate.
    + eauto.
  - intros j g Hj. destruct (I5 _ _ Hj) as (gl & G & T). unfold upd. destruct (Nat.eqb_spec g f).
    + subst g. rewrite Ff in G. injection G as <-. eexists; split; [reflexivity|exact T].
    + eauto.
  - intros g gl o0 G P. unfold upd in G. destruct (Nat.eqb_spec g f).
    + injection G as <-. cbn in P. rewrite P in NDp. discriminate.
    + destruct (I6 _ _ _ G P) as [H|[(v & -> & H)|H]]; [left; assumption| |right; right; assumption].
      right; left. exists v. split; [reflexivity|]. apply PM in H. exact H.
  - intros k0 v Hc. apply PM, I7. exact Hc.
Qed.

Lemma inv_gone sh c i : Inv sh c ->
  Inv sh {| table := table c; flights := flights c; nfl := nfl c; cache := cache c; callers := upd (callers c) i Gone;
            running := running c; started := started c |}.
Proof.
  intros (I0 & I1 & I2 & I3 & I4 & I5 & I6 & I7).
  refine (conj I0 (conj I1 (conj I2 (conj I3 (conj _ (conj _ (conj I6 I7))))))); cbn.
  - intros j g o0 Hj. unfold upd in Hj. destruct (Nat.eqb_spec j i); [discriminate|eauto].
  - intros j g Hj. unfold upd in Hj. destruct (Nat.eqb_spec j i); [discriminate|eauto].
Qed.

Lemma inv_start sh c f : Inv sh c -> Inv sh (fst (step sh c (Start f))).
Proof.
  intros I. cbn [step]. destruct (flights c f) as [fl|] eqn:Ff; [|exact I].
  destruct (fphase fl) eqn:P; try exact I.
  assert (ND : is_done (fphase fl) = false) by (rewrite P; reflexivity).
  assert (NR : is_running (fphase fl) = false) by (rewrite P; reflexivity).
  destruct (cache c (fkey fl)) as [v|] eqn:Ck; cbn [fst].
  - rewrite <- NR. apply inv_finish; try assumption. right; left. exists v. split; [reflexivity|].
    destruct I as (_ & _ & _ & _ & _ & _ & _ & I7). apply I7. exact Ck.
  - destruct (fyields fl) as [|m] eqn:Y; cbn [fst].
    + rewrite <- NR.
      apply (inv_finish sh {| table := table c; flights := flights c; nfl := nfl c; cache := cache c; callers := callers c;
                              running := running c; started := upd (started c) (fkey fl) (S (started c (fkey fl))) |}); try assumption.
      left; reflexivity.
    + apply inv_rephase; try assumption; try reflexivity.
      intros k0. unfold upd. destruct (Nat.eqb_spec k0 (fkey fl)); [|reflexivity]. cbn.
      destruct I as (_ & I1 & _ & I3 & _). rewrite I3. unfold run1. rewrite (I1 _ _ Ff ND), Ff, NR. reflexivity.
Qed.

Lemma inv_stepb sh c f : Inv sh c -> Inv sh (fst (step sh c (Step f))).
Proof.
  intros I. cbn [step]. destruct (flights c f) as [fl|] eqn:Ff; [|exact I].
  destruct (fphase fl) as [|[|m]|] eqn:P; try exact I; cbn [fst].
  - change true with (is_running (Running 0)). rewrite <- P. apply inv_finish; try assumption.
    + rewrite P; reflexivity.
    + left; reflexivity.
  - apply inv_rephase; try assumption; try reflexivity; [rewrite P; reflexivity|].
    intros k0. destruct (Nat.eqb_spec k0 (fkey fl)) as [->|]; [|reflexivity]. cbn.
    destruct I as (_ & I1 & _ & I3 & _). rewrite I3. unfold run1.
    assert (ND : is_done (fphase fl) = false) by (rewrite P; reflexivity).
    rewrite (I1 _ _ Ff ND), Ff, P. reflexivity.
Qed.

Lemma inv_unreg sh c f : Inv sh c -> Inv sh (fst (step sh c (Unreg f))).
Proof.
  intros I. cbn [step]. destruct (flights c f) as [fl|] eqn:Ff; [|exact I].
  destruct (fphase fl) as [| |o] eqn:P; try exact I.
  destruct (table c (fkey fl)) as [f'|] eqn:Tk; [|exact I].
  destruct (Nat.eqb_spec f' f) as [->|]; [|exact I]. cbn [fst].
  destruct I as (I0 & I1 & I2 & I3 & I4 & I5 & I6 & I7).
  refine (conj I0 (conj _ (conj _ (conj _ (conj _ (conj _ (conj I6 I7))))))); cbn.
  - intros g gl G D. specialize (I1 _ _ G D). unfold upd. destruct (Nat.eqb_spec (fkey gl) (fkey fl)) as [E|]; [|assumption].
    rewrite E, Tk in I1. injection I1 as <-. rewrite Ff in G. injection G as <-. rewrite P in D. discriminate.
  - intros k0 g T. unfold upd in T. destruct (Nat.eqb_spec k0 (fkey fl)); [discriminate|eauto].
  - intros k0. rewrite I3. unfold run1; cbn. unfold upd. destruct (Nat.eqb_spec k0 (fkey fl)) as [->|]; [|reflexivity].
    rewrite Tk, Ff, P. reflexivity.
  - intros j g o0 Hj. unfold deliver in Hj. destruct (callers c j) as [|f0|g0 o1|] eqn:Cj; try discriminate.
    + destruct (Nat.eqb_spec f0 f); [|discriminate]. injection Hj as <- <-. eauto.
    + injection Hj as -> ->. eauto.
  - intros j g Hj. unfold deliver in Hj. destruct (callers c j) as [|f0|g0 o1|] eqn:Cj; try discriminate.
    destruct (Nat.eqb_spec f0 f); [discriminate|]. injection Hj as ->. destruct (I5 _ _ Cj) as (gl & G & T).
    exists gl. split; [assumption|]. unfold upd. destruct (Nat.eqb_spec (fkey gl) (fkey fl)) as [E|]; [|assumption].
    rewrite E, Tk in T. congruence.
Qed.

Lemma inv_cancel sh c i : Inv sh c -> Inv sh (fst (step sh c (Cancel i))).
Proof.
  intros I. cbn [step]. destruct (callers c i) as [|f|g o|] eqn:Ci; try exact I; cbn [fst].
  - apply inv_gone; assumption.
  - destruct sh; cbn [fst]; [apply inv_gone; assumption|].
    destruct (flights c f) as [fl|] eqn:Ff; cbn [fst]; [|apply inv_gone; assumption].
    destruct (fphase fl) eqn:P; cbn [fst]; try (apply inv_gone; assumption).
    + rewrite <- P. apply inv_finish; [apply inv_gone; assumption|exact Ff|rewrite P; reflexivity|right; right; auto].
    + rewrite <- P. apply inv_finish; [apply inv_gone; assumption|exact Ff|rewrite P; reflexivity|right; right; auto].
Qed.

Lemma inv_step sh c e : Inv sh c -> Inv sh (fst (step sh c e)).
Proof. destruct e; [apply inv_call|apply inv_start|apply inv_stepb|apply inv_unreg|apply inv_cancel]. Qed.

Lemma inv_run_from sh evs : forall c, Inv sh c -> Inv sh (run_from sh c evs).
Proof. induction evs as [|e evs IH]; intros c I; cbn; [exact I|]. apply IH, inv_step, I. Qed.

Theorem inv_reachable sh evs : Inv sh (run sh evs).
Proof. apply inv_run_from, inv_init. Qed.

(* ---------- 1. never two bodies of one key at a time ---------- *)
Theorem sf_one_body sh evs k : running (run sh evs) k <= 1.
Proof.
  destruct (inv_reachable sh evs) as (_ & _ & _ & I3 & _). rewrite I3. unfold run1.
  destruct (table _ k); [|lia]. destruct (flights _ _); [|lia]. destruct (is_running _); lia.
Qed.

(* a call made while a task is registered for its key creates nothing and starts nothing: it waits for that task
   (or takes its outcome at once when the task has just finished) *)
Theorem sf_join sh evs i k n o f : let c := run sh evs in
  table c k = Some f -> callers c i = Idle ->
  let c' := fst (step sh c (Call i k n o)) in
  snd (step sh c (Call i k n o)) = false /\ flights c' = flights c /\ started c' = started c /\ running c' = running c /\
  (callers c' i = Waiting f \/ exists o', callers c' i = Got (Some f) o' /\ phase_of c f = Some (Done o')).
Proof.
  intros c T Ci. destruct (inv_reachable sh evs) as (_ & _ & I2 & _). fold c in I2.
  destruct (I2 _ _ T) as (fl & Ff & _). cbn [step]. rewrite Ci, T, Ff. cbn.
  repeat (split; [reflexivity|]). unfold upd. rewrite Nat.eqb_refl.
  destruct (fphase fl) eqn:P; [left; reflexivity|left; reflexivity|right]. exists o0. split; [reflexivity|].
  unfold phase_of. rewrite Ff. cbn. congruence.
Qed.

(* ---------- 2. the outcome a caller receives is the outcome of the task it joined ---------- *)
Theorem sf_shared_outcome sh evs i f o : callers (run sh evs) i = Got (Some f) o -> phase_of (run sh evs) f = Some (Done o).
Proof.
  intros H. destruct (inv_reachable sh evs) as (_ & _ & _ & _ & I4 & _). destruct (I4 _ _ _ H) as (fl & Ff & P).
  unfold phase_of. rewrite Ff. cbn. congruence.
Qed.

(* a waiting caller's task is registered: its done-callback will find and wake the caller *)
Theorem sf_no_orphan sh evs i f : callers (run sh evs) i = Waiting f ->
  exists fl, flights (run sh evs) f = Some fl /\ table (run sh evs) (fkey fl) = Some f.
Proof. intros H. destruct (inv_reachable sh evs) as (_ & _ & _ & _ & _ & I5 & _). eauto. Qed.

Theorem sf_delivered sh c f fl o : flights c f = Some fl -> fphase fl = Done o -> table c (fkey fl) = Some f ->
  let c' := fst (step sh c (Unreg f)) in
  forall j, callers c j = Waiting f -> callers c' j = Got (Some f) o.
Proof. intros Ff P T c' j Cj. unfold c'. cbn [step]. rewrite Ff, P, T, Nat.eqb_refl. cbn. unfold deliver. rewrite Cj, Nat.eqb_refl. reflexivity. Qed.

(* what a finished task holds: what its own body did, or a value some body for that key returned earlier *)
Theorem sf_outcome_provenance evs f fl o : let c := run true evs in
  flights c f = Some fl -> fphase fl = Done o -> o = fout fl \/ exists v, o = Ret v /\ produced c (fkey fl) v.
Proof.
  intros c Ff P. destruct (inv_reachable true evs) as (_ & _ & _ & _ & _ & _ & I6 & _).
  destruct (I6 _ _ _ Ff P) as [H|[H|(H & _)]]; [left; assumption|right; assumption|discriminate].
Qed.

(* bodies never produce CancelledError by themselves *)
Definition good_event (e : event) := match e with Call _ _ _ Cancelled => False | _ => True end.
Definition NoCancelSpec (c : cfg) := forall f fl, flights c f = Some fl -> fout fl <> Cancelled.

Lemma ncs_upd c f fl p (F : nat -> option flight) :
  NoCancelSpec c -> flights c f = Some fl -> (forall g, F g = upd (flights c) f (Some (set_phase fl p)) g) ->
  forall g gl, F g = Some gl -> fout gl <> Cancelled.
Proof.
  intros N Ff HF g gl G. rewrite HF in G. unfold upd in G. destruct (Nat.eqb_spec g f).
  - injection G as <-. cbn. eapply N; eauto.
  - eapply N; eauto.
Qed.

Lemma ncs_step sh c e : good_event e -> NoCancelSpec c -> NoCancelSpec (fst (step sh c e)).
Proof.
  intros Hg N. destruct e as [i k n o|f|f|f|i]; cbn [step].
  - destruct (callers c i); try exact N. destruct (table c k) as [f|].
    + destruct (flights c f); exact N.
    + intros g gl G. cbn in G. unfold upd in G. destruct (Nat.eqb_spec g (nfl c)); [|eapply N; eauto].
      injection G as <-. cbn. destruct o; cbn in Hg; [discriminate|discriminate|contradiction].
  - destruct (flights c f) as [fl|] eqn:Ff; [|exact N]. destruct (fphase fl); try exact N.
    destruct (cache c (fkey fl)); [unfold NoCancelSpec; cbn; eapply (ncs_upd c); eauto; reflexivity|].
    destruct (fyields fl); unfold NoCancelSpec; cbn; eapply (ncs_upd c); eauto; reflexivity.
  - destruct (flights c f) as [fl|] eqn:Ff; [|exact N]. destruct (fphase fl) as [|[|m]|]; try exact N; unfold NoCancelSpec; cbn; eapply (ncs_upd c); eauto; reflexivity.
  - destruct (flights c f) as [fl|] eqn:Ff; [|exact N]. destruct (fphase fl); try exact N.
    destruct (table c (fkey fl)) as [f'|]; [|exact N]. destruct (Nat.eqb f' f); exact N.
  - destruct (callers c i) as [|f|g o|]; try exact N. destruct sh; [exact N|].
    destruct (flights c f) as [fl|] eqn:Ff; [|exact N]. destruct (fphase fl); try exact N; unfold NoCancelSpec; cbn; eapply (ncs_upd c); eauto; reflexivity.
Qed.

Lemma ncs_run sh evs : Forall good_event evs -> NoCancelSpec (run sh evs).
Proof.
  unfold run. assert (H : NoCancelSpec init) by (intros f fl; discriminate). revert H. generalize init.
  induction evs as [|e evs IH]; intros c N Hg; cbn; [exact N|]. inversion Hg; subst. apply IH; [apply ncs_step; assumption|assumption].
Qed.

(* with callers awaiting through shield, nobody is ever handed a CancelledError produced by someone else's cancellation *)
Theorem sf_no_foreign_cancel evs i f o : Forall good_event evs -> callers (run true evs) i = Got f o -> o <> Cancelled.
Proof.
  intros Hg H. destruct f as [f|].
  - destruct (inv_reachable true evs) as (_ & _ & _ & _ & I4 & _). destruct (I4 _ _ _ H) as (fl & Ff & P).
    destruct (sf_outcome_provenance evs f fl o Ff P) as [->|(v & -> & _)]; [|discriminate]. eapply ncs_run; eauto.
  - (* Got None is never produced *)
    exfalso. revert H. unfold run. assert (H0 : forall j o, callers init j <> Got None o) by (intros; discriminate).
    revert H0. generalize init. clear Hg. induction evs as [|e evs IH]; intros c H0 H; cbn in H; [eapply H0; eauto|].
    eapply IH; [|exact H]. clear H IH. intros j o'. destruct e as [i0 k n o0|f0|f0|f0|i0]; cbn [step].
    + destruct (callers c i0) eqn:E; try apply H0. destruct (table c k) as [f1|].
      * destruct (flights c f1) as [fl|]; [|apply H0]. cbn. unfold upd. destruct (Nat.eqb_spec j i0); [|apply H0].
        destruct (fphase fl); discriminate.
      * cbn. unfold upd. destruct (Nat.eqb_spec j i0); [discriminate|apply H0].
    + destruct (flights c f0) as [fl|]; [|apply H0]. destruct (fphase fl); try apply H0.
      destruct (cache c (fkey fl)); [apply H0|]. destruct (fyields fl); apply H0.
    + destruct (flights c f0) as [fl|]; [|apply H0]. destruct (fphase fl) as [|[|m]|]; apply H0.
    + destruct (flights c f0) as [fl|]; [|apply H0]. destruct (fphase fl); try apply H0.
      destruct (table c (fkey fl)) as [f'|]; [|apply H0]. destruct (Nat.eqb f' f0); [|apply H0].
      cbn. unfold deliver. specialize (H0 j). destruct (callers c j); try apply H0; try discriminate.
      destruct (Nat.eqb f f0); discriminate.
    + destruct (callers c i0) eqn:E; try apply H0; cbn; unfold upd; destruct (Nat.eqb_spec j i0); try discriminate; apply H0.
Qed.

(* ---------- 3. cancelling a waiting caller changes nothing for anybody else ---------- *)
Definition same_but (i : nat) (c c' : cfg) : Prop :=
  table c = table c' /\ flights c = flights c' /\ nfl c = nfl c' /\ cache c = cache c' /\ running c = running c' /\
  started c = started c' /\ (forall j, j <> i -> callers c j = callers c' j) /\ callers c i <> Idle /\ callers c' i <> Idle.

Lemma deliver_not_idle cs f o i : cs i <> Idle -> deliver cs f o i <> Idle.
Proof. unfold deliver. destruct (cs i); try congruence. destruct (Nat.eqb f0 f); congruence. Qed.

Lemma same_step i c c' e : same_but i c c' ->
  same_but i (fst (step true c e)) (fst (step true c' e)) /\
  (match e with Call j _ _ _ | Cancel j => j <> i | _ => True end -> snd (step true c e) = snd (step true c' e)).
Proof.
  destruct c as [t fs n ca cs r st], c' as [t' fs' n' ca' cs' r' st']. unfold same_but. cbn.
  intros (<- & <- & <- & <- & <- & <- & Hc & Hi & Hi').
  destruct e as [j k m o|f|f|f|j]; cbn.
  - destruct (Nat.eq_dec j i) as [->|Hj].
    + destruct (cs i) eqn:E, (cs' i) eqn:E'; try congruence; cbn; (split; [repeat split; try assumption; congruence|intro; congruence]).
    + rewrite <- (Hc _ Hj). destruct (cs j) eqn:E; cbn; try (split; [repeat split; assumption|reflexivity]).
      destruct (t k) as [f|].
      * destruct (fs f) as [fl|]; cbn; [|split; [repeat split; assumption|reflexivity]].
        split; [|reflexivity]. repeat split; unfold upd; try reflexivity.
        -- intros j0 Hj0. destruct (Nat.eqb j0 j); [reflexivity|auto].
        -- destruct (Nat.eqb_spec i j); [congruence|assumption].
        -- destruct (Nat.eqb_spec i j); [congruence|assumption].
      * cbn. split; [|reflexivity]. repeat split; unfold upd; try reflexivity.
        -- intros j0 Hj0. destruct (Nat.eqb j0 j); [reflexivity|auto].
        -- destruct (Nat.eqb_spec i j); [congruence|assumption].
        -- destruct (Nat.eqb_spec i j); [congruence|assumption].
  - destruct (fs f) as [fl|]; [|split; [repeat split; assumption|reflexivity]].
    destruct (fphase fl); try (split; [repeat split; assumption|reflexivity]).
    destruct (ca (fkey fl)); [cbn; split; [repeat split; assumption|reflexivity]|].
    destruct (fyields fl); cbn; (split; [repeat split; assumption|reflexivity]).
  - destruct (fs f) as [fl|]; [|split; [repeat split; assumption|reflexivity]].
    destruct (fphase fl) as [|[|m0]|]; cbn; (split; [repeat split; assumption|reflexivity]).
  - destruct (fs f) as [fl|]; [|split; [repeat split; assumption|reflexivity]].
    destruct (fphase fl); try (split; [repeat split; assumption|reflexivity]).
    destruct (t (fkey fl)) as [f'|]; [|split; [repeat split; assumption|reflexivity]].
    destruct (Nat.eqb f' f); cbn; [|split; [repeat split; assumption|reflexivity]].
    split; [|reflexivity]. repeat split; try reflexivity.
    + intros j0 Hj0. unfold deliver. rewrite (Hc _ Hj0). reflexivity.
    + apply deliver_not_idle; assumption.
    + apply deliver_not_idle; assumption.
  - destruct (Nat.eq_dec j i) as [->|Hj].
    + destruct (cs i) eqn:E, (cs' i) eqn:E'; try congruence; cbn;
        (split; [repeat split; unfold upd; try reflexivity; try assumption; try congruence;
                 try (intros j0 Hj0; destruct (Nat.eqb_spec j0 i); [congruence|auto]);
                 try (rewrite Nat.eqb_refl; discriminate)|intro; congruence]).
    + rewrite <- (Hc _ Hj). destruct (cs j) eqn:E; cbn; try (split; [repeat split; assumption|reflexivity]);
        (split; [|reflexivity]); repeat split; unfold upd; try reflexivity;
        try (intros j0 Hj0; destruct (Nat.eqb j0 j); [reflexivity|auto]);
        try (destruct (Nat.eqb_spec i j); [congruence|assumption]).
Qed.

Lemma same_run i evs : forall c c', same_but i c c' -> same_but i (run_from true c evs) (run_from true c' evs).
Proof. induction evs as [|e evs IH]; intros c c' H; cbn; [exact H|]. apply IH. apply same_step. exact H. Qed.

Theorem sf_cancel_local c i f evs : callers c i = Waiting f ->
  same_but i (run_from true (fst (step true c (Cancel i))) evs) (run_from true c evs).
Proof.
  intros Ci. apply same_run. cbn [step]. rewrite Ci. cbn. unfold same_but; cbn. repeat split; try reflexivity.
  - intros j Hj. unfold upd. destruct (Nat.eqb_spec j i); [contradiction|reflexivity].
  - unfold upd. rewrite Nat.eqb_refl. discriminate.
  - rewrite Ci. discriminate.
Qed.

Corollary sf_cancel_local_others c i f evs j : callers c i = Waiting f -> j <> i ->
  callers (run_from true (fst (step true c (Cancel i))) evs) j = callers (run_from true c evs) j.
Proof. intros Ci Hj. destruct (sf_cancel_local c i f evs Ci) as (_ & _ & _ & _ & _ & _ & H & _). apply H, Hj. Qed.

(* awaiting the shared task directly (no shield) does not have this property: one waiter of three is cancelled,
   the other two receive CancelledError instead of the body's result *)
Definition refute_pre := [Call 0 0 2 (Ret 5); Call 1 0 0 (Ret 6); Call 2 0 0 (Ret 7); Start 0].
Definition refute_post := [Step 0; Step 0; Unreg 0].
Theorem sf_cancel_local_unshielded_refuted :
  let c := run false refute_pre in
  callers c 1 = Waiting 0 /\
  callers (run_from false c refute_post) 0 = Got (Some 0) (Ret 5%Z) /\
  callers (run_from false (fst (step false c (Cancel 1))) (Unreg 0 :: refute_post)) 0 = Got (Some 0) Cancelled /\
  callers (run_from true (fst (step true c (Cancel 1))) refute_post) 0 = Got (Some 0) (Ret 5%Z).
Proof. vm_compute. repeat split. Qed.

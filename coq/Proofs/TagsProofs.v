From Cashews Require Import Base.Prelude Spec.TTLMap Model.Tags Run.C12 Proofs.DecorSimpleProofs Proofs.StrategiesProofs Proofs.KeyProofs.
Open Scope string_scope.
Open Scope list_scope.
Open Scope Z_scope.

Definition not_tagkey (x : key) : Prop := forall t, x <> tag_key t.
Lemma tag_key_inj a b : tag_key a = tag_key b -> a = b.
Proof. unfold tag_key. apply append_inj_l. Qed.

(* ---------- set primitives ---------- *)
Lemma s_get_write m now k v ttl : s_get (s_write m now k v ttl) now k = Some v.
Proof. apply Proofs.TTLMapFacts.spec_write_readable. Qed.
Lemma set_of_write m now k l ttl : set_of (s_write m now k (VSet l) ttl) now k = l.
Proof. unfold set_of. rewrite s_get_write. reflexivity. Qed.
Lemma set_of_other m now k v ttl k' : k' <> k -> set_of (s_write m now k v ttl) now k' = set_of m now k'.
Proof. intro H. unfold set_of, s_get, s_look. rewrite s_write_other by exact H. reflexivity. Qed.

Lemma set_add_member m now tk x ttl : In x (set_of (set_add m now tk x ttl) now tk).
Proof.
  unfold set_add. rewrite set_of_write. destruct (mems x (set_of m now tk)) eqn:E.
  - unfold mems in E. apply existsb_exists in E as (y & Hy & Ey). apply String.eqb_eq in Ey. subst. exact Hy.
  - apply in_app_iff. right. left. reflexivity.
Qed.
Lemma set_add_keeps m now tk x ttl y : In y (set_of m now tk) -> In y (set_of (set_add m now tk x ttl) now tk).
Proof.
  intro H. unfold set_add. rewrite set_of_write. destruct (mems x (set_of m now tk)); [exact H|apply in_app_iff; left; exact H].
Qed.
Lemma set_add_other m now tk x ttl tk' : tk' <> tk -> set_of (set_add m now tk x ttl) now tk' = set_of m now tk'.
Proof. intro H. unfold set_add. apply set_of_other. exact H. Qed.

(* a tagged write makes the key a member of every tag set it names, whatever the TTL *)
Theorem tagged_write_joins m now k ttl tags : forall t, In t tags ->
  In k (set_of (add_tags m now k ttl tags) now (tag_key t)).
Proof.
  unfold add_tags. revert m. induction tags as [|t0 tags IH]; intros m t Hin; [destruct Hin|]. cbn [fold_left].
  destruct Hin as [->|Hin]; [|apply IH; exact Hin].
  (* t0 = t: added now, kept by the later adds *)
  clear IH. assert (H : In k (set_of (set_add m now (tag_key t) k ttl) now (tag_key t))) by apply set_add_member.
  revert H. generalize (set_add m now (tag_key t) k ttl). induction tags as [|t1 tags IH]; intros m' H; [exact H|]. cbn [fold_left].
  apply IH. destruct (String.eqb_spec (tag_key t1) (tag_key t)) as [E|Hn].
  - rewrite E. apply set_add_keeps. exact H.
  - rewrite set_add_other by (intro E; apply Hn; symmetry; exact E). exact H.
Qed.

(* ---------- deleting ---------- *)
Lemma on_remove_other reg m now k x : not_tagkey x -> on_remove reg m now k x = m x.
Proof.
  intro Hx. unfold on_remove. generalize (key_tags reg k). intro ts. revert m.
  induction ts as [|t ts IH]; intro m; cbn [fold_left]; [reflexivity|].
  rewrite IH. unfold set_remove. apply s_write_other. apply Hx.
Qed.
Lemma raw_delete_self reg m now k : not_tagkey k -> raw_delete reg m now k k = None.
Proof.
  intro Hk. unfold raw_delete. destruct (m k) eqn:E; [|exact E].
  rewrite on_remove_other by exact Hk. unfold upd. rewrite String.eqb_refl. reflexivity.
Qed.
Lemma raw_delete_other reg m now k x : not_tagkey x -> x <> k -> raw_delete reg m now k x = m x.
Proof.
  intros Hx Hn. unfold raw_delete. destruct (m k); [|reflexivity].
  rewrite on_remove_other by exact Hx. unfold upd. destruct (String.eqb_spec x k); [congruence|reflexivity].
Qed.
Lemma fold_delete_none reg now l : Forall not_tagkey l -> forall m x, (In x l \/ (not_tagkey x /\ m x = None)) ->
  fold_left (fun m' k => raw_delete reg m' now k) l m x = None.
Proof.
  induction 1 as [|k l Hk Hl IH]; intros m x Hx; cbn [fold_left].
  - destruct Hx as [[]|[_ E]]. exact E.
  - apply IH. destruct Hx as [[<-|Hin]|[Hnt E]].
    + right. split; [exact Hk|apply raw_delete_self; exact Hk].
    + left. exact Hin.
    + right. split; [exact Hnt|]. destruct (String.eqb_spec x k) as [->|Hn]; [apply raw_delete_self; exact Hk|].
      rewrite raw_delete_other by assumption. exact E.
Qed.

(* delete_tags(t) leaves no member of t's (live) set readable *)
Theorem delete_tag_removes_every_member reg m now t :
  Forall not_tagkey (set_of m now (tag_key t)) ->
  forall x, In x (set_of m now (tag_key t)) -> s_look (delete_tag reg m now t) now x = None.
Proof.
  intros Hnt x Hx. unfold delete_tag. destruct (set_of m now (tag_key t)) as [|y l] eqn:E; [destruct Hx|].
  unfold s_look. rewrite fold_delete_none; [reflexivity|exact Hnt|left; exact Hx].
Qed.

(* ---------- the recorded findings, as theorems about the faithful model ---------- *)
Definition REG : registry := [ {| rtag := TPlain "ta"; rkey_prefix := "a:" |}; {| rtag := TTempl "g:"; rkey_prefix := "b:" |} ].
Definition KEYS : list key := ["a:1"; "a:2"; "b:1"; "b:2"; "c"].

(* F20: long-lived member, then a short-lived add: the set lapses, delete_tags misses the long-lived key *)
Definition h_F20 : list (Z * tev) :=
  [(1, TSet "a:1" (VInt 1) 1600 ["ta"]); (1, TSet "a:2" (VInt 1) 4 ["ta"]); (9, TDeleteTags "ta")].
Theorem tags_complete_refuted :
  ok_tags KEYS [] (lift h_F20) (run_tags REG KEYS empty (lift h_F20)) = false /\ excl_f20 REG KEYS empty h_F20 = true.
Proof. vm_compute. split; reflexivity. Qed.

(* F21: unregistered tag: delete does not prune; the re-created, untagged key is deleted by delete_tags *)
Definition h_F21 : list (Z * tev) :=
  [(1, TSet "c" (VInt 1) 0 ["u"]); (1, TDel "c"); (1, TSet "c" (VInt 5) 0 []); (1, TDeleteTags "u")].
Theorem tags_precise_refuted :
  ok_tags KEYS [] (lift h_F21) (run_tags REG KEYS empty (lift h_F21)) = false /\ excl_f21 REG KEYS [] h_F21 = true.
Proof. vm_compute. split; reflexivity. Qed.

(* the same situations with registered tag / equal TTLs satisfy the oracle (non-vacuity of the oracle itself) *)
Example tags_ok_example :
  let h := [(1, TSet "a:1" (VInt 1) 1600 ["ta"]); (1, TSet "a:2" (VInt 1) 1600 ["ta"]); (1, TSet "c" (VInt 2) 0 []);
            (1, TDel "a:2"); (1, TSet "a:2" (VInt 3) 0 []); (9, TDeleteTags "ta")] in
  ok_tags KEYS [] (lift h) (run_tags REG KEYS empty (lift h)) = true /\ excl_f20 REG KEYS empty h = false /\ excl_f21 REG KEYS [] h = false /\
  snd (last (run_tags REG KEYS empty (lift h)) ([], [])) = [false; true; false; false; true].
Proof. vm_compute. repeat split; reflexivity. Qed.

"""C12: delete_tags removes every live key carrying the tag."""
import asyncio

from harness import vclock
from harness.core import C, S, Z
from harness.memrun import TICK, val_to_coq

ID = "C12"
RUN_MODULE = "Spec.TTLMap Model.Tags Run.C12"
EXPLAIN = "explain"
KEYS = ["a:1", "a:2", "b:1", "b:2", "c", "b:"]      # "b:" is the key of the templated function called with an empty field
# registry: tag "ta" registered for key template "a:{x}" and, second, for the key "c"; templated tag "g:{x}" attached by a decorator to "b:{x}"; "u" is never registered
REG = [("plain", "ta", "a:"), ("templ", "g:", "b:"), ("plain", "ta", "c"), ("plain", "tb", "a:")]      # "ta" is registered for two key templates; "a:{x}" has two registered tags
RULE = ("histories (2-14 events) of tagged / untagged set and incr (by 1, 2, 0, -1, -5: counters reaching 0 included; direct cache.set(..., tags=) and through a decorated function whose tags= "
        "registers a templated tag), delete, delete_match, delete_tags (one tag, or 2-3 tags in one call, incl. a tag nobody carries) over 6 keys (one of them the templated "
        "function's key for an empty field), tags {ta (registered), g:<x> (templated, registered by decorator), u (never registered)}, TTL in {none, 0.25 s, 100 s}, advances 0-0.5 s; every key probed before and after each event; plus "
        "one family with 101-150 members in one tag (batches of 100). non-trivial: a delete_tags was issued on a tag with at least one live "
        "member and at least one non-member key alive")
TRUSTED_BASE = ["Coq 8.16.1 kernel + vm_compute", "hand-written model coq/Model/Tags.v over the TTL-map spec, tied by this differential run",
                "template -> regular expression is modelled for 'prefix{field}' templates only"]
ASSUMPTIONS = ["store within capacity", "lazy expiry made deterministic: the harness probes every key before and after each event",
               "data keys never start with '_tag:'"]
EXHAUSTIVE = {"quick": False, "thorough": False}
TAGS_FOR = {"a:1": ["ta", "u"], "a:2": ["ta", "u"], "b:1": ["g:1", "u"], "b:2": ["g:2", "u"], "c": ["u", "ta"], "b:": ["g:", "u"]}
ALLTAGS = ["ta", "u", "g:1", "g:2", "g:", "nobody"]       # "nobody" never has a member


def gen_cases(rng, tier):
    cases = []
    n = 700 if tier == "quick" else 9000
    for _ in range(n):
        ev = []
        for _ in range(rng.randint(2, 14)):
            adv = rng.choice([0, 0, 0, 2, 4, 6, 8])
            k = rng.choice(KEYS)
            r = rng.random()
            ttl = rng.choice([0, 0, 4, 1600])
            if r < 0.45:
                tags = [t for t in TAGS_FOR[k] if rng.random() < 0.5]
                via = "decor" if k.startswith("b:") and tags == ["g:" + k[2:]] and ttl and rng.random() < 0.5 else "set"
                ev.append([adv, ["set", k, rng.choice([1, 5]), ttl, tags, via]])
            elif r < 0.55:
                ev.append([adv, ["incr", k, ttl, [t for t in TAGS_FOR[k] if rng.random() < 0.5], rng.choice([1, 1, 1, -1, -1, 0, 2])]])
            elif r < 0.68: ev.append([adv, ["del", k]])
            elif r < 0.74: ev.append([adv, ["delp", rng.choice(["a:", "b:", "c"])]])
            elif r < 0.92: ev.append([adv, ["dtags", rng.choice(ALLTAGS)]])
            else: ev.append([adv, ["dtags", rng.sample(ALLTAGS, rng.randint(2, 3))]])      # one call with several tags
        cases.append({"keys": KEYS, "events": ev})
    # structured stream: tagged write, some removal, re-creation with / without the tag, delete_tags
    for _ in range(n // 2):
        k = rng.choice(KEYS)
        t = rng.choice(TAGS_FOR[k])
        ev = [[0, [rng.choice(["set", "set", "incr"]), k] + ([rng.choice([1, 5]), rng.choice([0, 4, 1600]), [t], "set"] if True else [])]]
        if ev[0][1][0] == "incr":
            ev[0][1] = ["incr", k, rng.choice([0, 4, 1600]), [t], rng.choice([1, 1, 0, -1])]
        other = rng.choice([x for x in KEYS if x != k])
        if rng.random() < 0.5:
            ev.append([0, ["set", other, 1, rng.choice([0, 1600]), [x for x in TAGS_FOR[other] if rng.random() < 0.5], "set"]])
        rm = rng.choice(["del", "delp", "expire", "none", "dtags_other"])
        if rm == "del": ev.append([rng.choice([0, 2]), ["del", k]])
        elif rm == "delp": ev.append([rng.choice([0, 2]), ["delp", k[:2] if ":" in k else k]])
        elif rm == "expire": ev.append([8, ["set", other, 5, 0, [], "set"]])
        elif rm == "dtags_other": ev.append([0, ["dtags", rng.choice([x for x in ALLTAGS if x != t])]])
        rc = rng.choice(["untagged", "same", "incr_tagged", "incr_untagged", "none", "extend", "extend"])
        if rc == "untagged": ev.append([0, ["set", k, 5, rng.choice([0, 1600]), [], "set"]])
        elif rc == "same": ev.append([0, ["set", k, 5, rng.choice([0, 1600]), [t], "set"]])
        elif rc == "incr_tagged": ev.append([0, ["incr", k, 0, [t], rng.choice([1, -1, -1, 0, -5])]])     # a counter coming down to 0 is still a tagged write
        elif rc == "incr_untagged": ev.append([0, ["incr", k, 0, []]])
        elif rc == "extend":        # the same key written again under the same tag with a longer life, then time passes beyond the first deadline
            ev = [[0, ["set", k, 1, 4, [t], "set"]], [2, ["set", k, 5, 1600, [t], "set"]], [6, ["set", other, 5, 0, [], "set"]]]
        ev.append([rng.choice([0, 2]), ["dtags", t if rng.random() < 0.7 else rng.sample([x for x in ALLTAGS if x != t], rng.randint(1, 2)) + [t]]])
        cases.append({"keys": KEYS, "events": ev})
    # lazily expired keys: some keys are only WATCHED between the commands (raw store, no read that would purge them), so they stay
    # in the store past their deadline until a command meets them
    for i, c in enumerate(list(cases)):
        if i % 3 == 0:
            cases.append({"keys": c["keys"], "events": c["events"], "unprobed": [KEYS[i % len(KEYS)]] + ([KEYS[(i // 2) % len(KEYS)]] if i % 2 else [])})
    for k, other, t in (("a:1", "a:2", "ta"), ("a:2", "a:1", "ta"), ("b:1", "a:1", "g:1")):
        for rm in ("del", "delp", "incr", "set", "dtags", "incr_tagged"):
            for gap in (8, 2):
                ev = [[0, ["set", k, 1, 4, [t], "set"]], [0, ["set", other, 2, 1600, [x for x in TAGS_FOR[other] if x == t], "set"]],
                      [gap, ["set", "c", 1, 0, [], "set"]]]
                if rm == "del": ev.append([0, ["del", k]])
                elif rm == "delp": ev.append([0, ["delp", k[:2]]])
                elif rm == "incr": ev.append([0, ["incr", k, 0, [], 1]])
                elif rm == "dtags": ev.append([0, ["dtags", "u"]])
                if rm == "incr_tagged":      # the expired entry is met by a tagged incr: the counter's latest write carries the tag
                    ev += [[0, ["incr", k, 0, [t], 1]], [0, ["dtags", t]]]
                else:
                    ev += [[0, ["set", k, 5, 0, [], "set"]], [0, ["dtags", t]]]
                for unp in ([k], [k, other], []):
                    cases.append({"keys": KEYS, "events": ev, "unprobed": unp})
    # a key carrying BOTH tags registered for its template: removed (delete / delete_match / delete_tags of one tag), re-created
    # without tags, then delete_tags of one of the two - it must stay
    for k in ("a:1", "a:2"):
        for rm in (["del", k], ["delp", "a:"], ["dtags", "ta"], ["dtags", "tb"]):
            for last in ("ta", "tb"):
                cases.append({"keys": KEYS, "events": [[0, ["set", k, 1, 0, ["ta", "tb"], "set"]], [0, ["set", "c", 1, 0, [], "set"]], [0, rm],
                                                       [0, ["set", k, 5, 0, [], "set"]], [0, ["dtags", last]]]})
    # the plain decorator as the writer (value or cached exception, positional or keyword call), then delete_tags of its templated tag
    for k in [x for x in KEYS if x.startswith("b:")]:
        for first in (0, 1, 2, 3, 4, 5):
            for life in (4, 1600):
                cases.append({"keys": KEYS, "events": [[first, ["set", k, 5, life, ["g:" + k[2:]], "decor"]], [0, ["set", "c", 1, 0, [], "set"]],
                                                       [2, ["dtags", "g:" + k[2:]]]]})
    for nmem in ([101, 150] if tier == "quick" else [100, 101, 150, 199, 200, 201, 250]):
        keys = ["a:%d" % i for i in range(nmem)] + ["c"]
        ev = [[0, ["set", k, 1, 0, ["ta"] if k != "c" else [], "set"]] for k in keys] + [[0, ["dtags", "ta"]]]
        cases.append({"keys": keys, "events": ev})
    return cases


def run_impl(case):
    keys = case["keys"]

    async def go():
        from cashews import Cache
        cache = Cache()
        mem = cache.setup("mem://?check_interval=0&size=100000")
        await cache.init()
        cache.register_tag("ta", "a:{x}")
        cache.register_tag("ta", "c")
        cache.register_tag("tb", "a:{x}")

        @cache(ttl=lambda x, value=None, life=None, result=None: life, key="b:{x}", tags=["g:{x}"])
        async def fb(x, value=None, life=None):
            return value

        from cashews import with_exceptions

        class Boom(Exception):
            pass

        @cache(ttl=lambda x, value=None, life=None, result=None: life, key="b:{x}", tags=["g:{x}"], condition=with_exceptions(Boom))
        async def fbx(x, value=None, life=None):
            raise Boom(value)      # the raised exception is what gets stored - under the same key, with the same tags

        unprobed = set(case.get("unprobed", ()))

        def watched(k):
            e = mem.store.get(k)
            return e is not None and (e[0] is None or e[0] > vclock.Clock.now)

        async def probe():
            # a key that is only watched is never read (a read would purge it once expired); what a read WOULD answer is taken from the raw store
            return [watched(k) if k in unprobed else bool(await cache.exists(k)) for k in keys]
        steps = []
        incr_keys = {e[1] for _, e in case["events"] if e[0] == "incr"}
        await asyncio.sleep(TICK)
        for adv, e in case["events"]:
            if adv: await asyncio.sleep(adv * TICK)
            t = round((vclock.Clock.now - vclock.BASE) / TICK)
            before = await probe()
            op = e[0]
            try:
                if op == "set":
                    _, k, v, ttl, tags, via = e
                    if via == "decor" and not await cache.exists(k):
                        if t % 3 == 0 and k not in incr_keys:      # (a key that is incremented later must hold a number)
                            try:
                                await fbx(k[2:], value=v, life=ttl * TICK)
                            except Boom:
                                pass
                        elif (t + len(case["events"])) % 2:      # the templated field is passed positionally or by keyword: same key, same tag
                            await fb(k[2:], value=v, life=ttl * TICK)      # the decorator stores (key b:<x>, tags [g:<x>])
                        else:
                            await fb(x=k[2:], value=v, life=ttl * TICK)
                    else:
                        await cache.set(k, v, expire=ttl * TICK if ttl else None, tags=tags)
                elif op == "incr":
                    await cache.incr(e[1], e[4] if len(e) > 4 else 1, expire=e[2] * TICK if e[2] else None, tags=e[3])
                elif op == "del": await cache.delete(e[1])
                elif op == "delp": await cache.delete_match(e[1] + "*")
                elif op == "dtags": await cache.delete_tags(*([e[1]] if isinstance(e[1], str) else e[1]))
                err = None
            except Exception as ex:  # noqa
                err = type(ex).__name__
            after = await probe()
            if err:
                after = [not x for x in after]
            steps.append([t, before, after])
        await cache.close()
        return {"steps": steps}
    return vclock.run(go)


def to_coq(case, obs):
    reg = [C("Build_regent", C("TPlain", S(t)) if kind == "plain" else C("TTempl", S(t)), S(p)) for kind, t, p in REG]
    h, o = [], []
    for (adv, e), (t, before, after) in zip(case["events"], obs["steps"]):
        op = e[0]
        if op == "set": ev = C("One", C("TSet", S(e[1]), val_to_coq(e[2]), Z(e[3]), [S(x) for x in e[4]]))
        elif op == "incr": ev = C("One", C("TIncr", S(e[1]), Z(e[4] if len(e) > 4 else 1), Z(e[2]), [S(x) for x in e[3]]))
        elif op == "del": ev = C("One", C("TDel", S(e[1])))
        elif op == "delp": ev = C("One", C("TDelPrefix", S(e[1])))
        elif isinstance(e[1], str): ev = C("One", C("TDeleteTags", S(e[1])))
        else: ev = C("ManyTags", [S(x) for x in e[1]])
        h.append((Z(t), ev))
        o.append((list(before), list(after)))
    if case.get("unprobed") is not None:
        return C("CTagsLazy", reg, [S(k) for k in case["keys"] if k not in case["unprobed"]], [S(k) for k in case["keys"]], h, o)
    return C("CTags", reg, [S(k) for k in case["keys"]], h, o)


def nontrivial(case, obs):
    for (adv, e), (t, before, after) in zip(case["events"], obs["steps"]):
        if e[0] == "dtags" and any(b and not a for b, a in zip(before, after)) and any(a for a in after):
            return True
    return False


def classify(case, obs):
    d = {"events": len(case["events"]), "keys": len(case["keys"])}
    for (adv, e), (t, before, after) in zip(case["events"], obs["steps"]):
        d["op_" + e[0]] = d.get("op_" + e[0], 0) + 1
        if e[0] == "dtags":
            d["keys_removed_by_delete_tags"] = d.get("keys_removed_by_delete_tags", 0) + sum(1 for b, a in zip(before, after) if b and not a)
    return d


def shrink(case):
    ev = case["events"]
    if len(case["keys"]) > 10:
        return
    for i in range(len(ev)):
        c = dict(case); c["events"] = ev[:i] + ev[i + 1:]
        if i + 1 < len(ev):
            c["events"] = ev[:i] + [[ev[i][0] + ev[i + 1][0], ev[i + 1][1]]] + ev[i + 2:]
        if c["events"]: yield c
    for i, (adv, e) in enumerate(ev):
        if e[0] in ("set", "incr"):
            tags = e[4] if e[0] == "set" else e[3]
            for j in range(len(tags)):
                e2 = list(e)
                if e[0] == "set": e2[4] = tags[:j] + tags[j + 1:]
                else: e2[3] = tags[:j] + tags[j + 1:]
                c = dict(case); c["events"] = ev[:i] + [[adv, e2]] + ev[i + 1:]; yield c

From Coq Require Import Ascii.
From Cashews Require Import Base.Prelude Model.Serializer.
Open Scope string_scope.

(* ---------- byte-string lemmas ---------- *)
Lemma append_assoc (a b c : string) : a ++ (b ++ c) = (a ++ b) ++ c.
Proof. induction a as [|x a IH]; cbn; [reflexivity|]. f_equal. exact IH. Qed.

Lemma contains_app c a b : contains c (a ++ b) = contains c a || contains c b.
Proof. induction a as [|d a IH]; cbn; [reflexivity|]. rewrite IH. apply orb_assoc. Qed.

Lemma split_first_app c a b : contains c a = false -> split_first c (a ++ String c b) = Some (a, b).
Proof.
  induction a as [|d a IH]; cbn; intro H.
  - rewrite Ascii.eqb_refl. reflexivity.
  - apply orb_false_iff in H as [H1 H2]. rewrite H1, (IH H2). reflexivity.
Qed.

Lemma isdigit_app_nondigit x r b : is_digit x = false -> isdigit (String x r ++ b) = false.
Proof. intro H. cbn. rewrite H. reflexivity. Qed.

Lemma split_first_verified c s a b : split_first c s = Some (a, b) -> s = a ++ String c b.
Proof.
  revert a b. induction s as [|d s IH]; cbn; intros a b; [discriminate|].
  destruct (Ascii.eqb_spec c d) as [->|Hn].
  - intros [= <- <-]. reflexivity.
  - destruct (split_first c s) as [[a' b']|]; [|discriminate]. intros [= <- <-]. cbn. f_equal. apply IH. reflexivity.
Qed.

(* ---------- labels ---------- *)
Lemma label_cases dg : is_label dg = true -> dg = "sha1" \/ dg = "md5" \/ dg = "sha256" \/ dg = "sum".
Proof.
  unfold is_label, labels. cbn [existsb]. rewrite !orb_true_iff, !String.eqb_eq. intuition discriminate.
Qed.
Lemma label_shape dg : is_label dg = true ->
  contains "_" dg = false /\ contains ":" dg = false /\ exists x r, dg = String x r /\ is_digit x = false.
Proof.
  intro H. destruct (label_cases dg H) as [-> | [-> | [-> | ->]]]; (split; [reflexivity|split; [reflexivity|]]);
    eexists; eexists; (split; [reflexivity|reflexivity]).
Qed.

Section SerProofs.
Variable dumps : val -> option string.
Variable loads : string -> lres.
Variable mac : string -> string -> string -> string.
Variable cenc : val -> option (string * string).
Variable cdec : string -> string -> option val.

Definition cfg_ok (c : cfg) : Prop := match signer c with None => True | Some (dg, _) => is_label dg = true end.

(* the contract of the pickler and of the MAC (C09) *)
Hypothesis H_rt : forall v p, dumps v = Some p -> loads p = LOk v.
Hypothesis H_nd : forall v p, dumps v = Some p -> isdigit p = false.
Hypothesis H_c1 : forall v ty e, cenc v = Some (ty, e) -> cdec ty e = Some v.
Hypothesis H_c2 : forall v ty e, cenc v = Some (ty, e) -> contains ":" ty = false.
Hypothesis H_c3 : forall v ty e, cenc v = Some (ty, e) ->
  loads (ty ++ ":" ++ e) = LUnpick \/ loads (ty ++ ":" ++ e) = LOk (VBytes (ty ++ ":" ++ e)).
Hypothesis H_hex : forall dg s m, contains "_" (mac dg s m) = false /\ contains ":" (mac dg s m) = false.
Hypothesis H_bytes : forall b, cenc (VBytes b) <> None.      (* bytes stay registered *)

Lemma check_sign_sign c key p : cfg_ok c -> check_sign mac c key (sign mac c key p) = CSOk p.
Proof.
  unfold cfg_ok, check_sign, sign. destruct (signer c) as [[dg secret]|]; [|reflexivity]. intro Hl.
  destruct (label_shape dg Hl) as (Hu & Hc & _). destruct (H_hex dg secret (key ++ p)) as [Mu Mc].
  set (h := mac dg secret (key ++ p)) in *.
  replace (dg ++ ":" ++ h ++ "_" ++ p) with ((dg ++ ":" ++ h) ++ String "_" p)
    by (rewrite <- !append_assoc; reflexivity).
  rewrite split_first_app by (rewrite !contains_app, Hu, Mu; reflexivity).
  rewrite !contains_app. cbn [contains]. rewrite Ascii.eqb_refl, orb_true_r. cbn [orb].
  change (dg ++ ":" ++ h) with (dg ++ String ":" h). rewrite (split_first_app ":" dg h Hc).
  rewrite Hl. cbn [negb]. fold h. rewrite String.eqb_refl. reflexivity.
Qed.

Lemma isdigit_sign c key p : cfg_ok c -> isdigit p = false -> isdigit (sign mac c key p) = false.
Proof.
  unfold cfg_ok, sign. destruct (signer c) as [[dg secret]|]; [|auto]. intros Hl _.
  destruct (label_shape dg Hl) as (_ & _ & x & r & -> & Hx). apply isdigit_app_nondigit. exact Hx.
Qed.

Lemma all_digits_no_colon s : contains ":" s = true -> all_digits s = false.
Proof.
  induction s as [|x r IH]; cbn [contains all_digits]; [discriminate|].
  destruct (Ascii.eqb_spec ":" x) as [<-|]; cbn [orb]; [intros _; reflexivity|].
  intro H. rewrite (IH H). apply andb_false_r.
Qed.
Lemma isdigit_contains_colon s : contains ":" s = true -> isdigit s = false.
Proof. destruct s; [discriminate|]. apply all_digits_no_colon. Qed.

Theorem ser_roundtrip c key v : cfg_ok c ->
  fst (decode loads mac cdec c key (encode dumps mac cenc c key v)) = DVal v.
Proof.
  intro Hc. unfold encode.
  assert (Pickled : forall p, dumps v = Some p -> (forall b, v <> VBytes b) ->
            fst (decode loads mac cdec c key (SBytes (sign mac c key p))) = DVal v).
  { intros p Hd Hnb. unfold decode. rewrite (isdigit_sign c key p Hc (H_nd v p Hd)), (check_sign_sign c key p Hc), (H_rt v p Hd).
    destruct v; try reflexivity. exfalso. eapply Hnb. reflexivity. }
  assert (Custom : forall ty e, cenc v = Some (ty, e) ->
            fst (decode loads mac cdec c key (SBytes (sign mac c key (ty ++ ":" ++ e)))) = DVal v).
  { intros ty e He. unfold decode.
    assert (Hcol : contains ":" (ty ++ ":" ++ e) = true).
    { rewrite contains_app. cbn [append contains]. rewrite Ascii.eqb_refl. cbn [orb]. apply orb_true_r. }
    rewrite (isdigit_sign c key _ Hc (isdigit_contains_colon _ Hcol)), (check_sign_sign c key _ Hc).
    assert (CD : custom_decode cdec (ty ++ ":" ++ e) = DVal v).
    { unfold custom_decode. change (ty ++ ":" ++ e) with (ty ++ String ":" e).
      rewrite (split_first_app ":" ty e (H_c2 v ty e He)), (H_c1 v ty e He). reflexivity. }
    destruct (H_c3 v ty e He) as [-> | ->]; cbn [fst]; exact CD. }
  destruct v as [z|s|b|b0| |l|l|n]; try reflexivity;
    (destruct (cenc _) as [[ty e]|] eqn:Hce; [apply Custom; reflexivity|]);
    try (destruct (dumps _) as [p|] eqn:Hd; [apply Pickled; [reflexivity|discriminate]|reflexivity]).
  (* bytes value with no registered encoder: pickled like anything else would need v <> VBytes; the shipped
     registry always encodes bytes, so this case is excluded by hypothesis H_bytes below *)
  exfalso. exact (H_bytes b Hce).
Qed.

(* ---------- C10 ---------- *)
Lemma check_sign_ok_verified c key blob p dg secret : signer c = Some (dg, secret) ->
  check_sign mac c key blob = CSOk p -> verified mac c key blob p.
Proof.
  intros Hs. unfold check_sign, verified. rewrite Hs.
  destruct (split_first "_" blob) as [[sg payload]|]; [|discriminate].
  destruct (if contains ":" sg then _ else _) as [dm sg'] eqn:E.
  destruct (is_label dm) eqn:L; cbn [negb]; [|discriminate].
  destruct (String.eqb_spec (mac dm secret (key ++ payload)) sg'); [|discriminate].
  intros [= <-]. exists sg. split; [reflexivity|]. rewrite E. auto.
Qed.

Theorem unpickle_only_verified c key blob dg secret : signer c = Some (dg, secret) ->
  forall p, In p (snd (decode loads mac cdec c key (SBytes blob))) -> verified mac c key blob p.
Proof.
  intros Hs p. unfold decode. destruct (isdigit blob); [intros []|].
  destruct (check_sign mac c key blob) as [q| |] eqn:E; try (intros []).
  intro Hin. assert (p = q) as ->.
  { destruct (loads q) as [[]| | |]; destruct Hin as [<-|[]]; reflexivity. }
  eapply check_sign_ok_verified; eauto.
Qed.

Theorem decode_outcomes c key blob dg secret : signer c = Some (dg, secret) -> isdigit blob = false ->
  (forall p, ~ verified mac c key blob p) ->
  fst (decode loads mac cdec c key (SBytes blob)) = DDefault \/ fst (decode loads mac cdec c key (SBytes blob)) = DUnsecure.
Proof.
  intros Hs Hd Hnv. unfold decode. rewrite Hd.
  destruct (check_sign mac c key blob) as [q| |] eqn:E; [|left; reflexivity|right; reflexivity].
  exfalso. eapply Hnv. eapply check_sign_ok_verified; eauto.
Qed.

(* with an injective MAC (idealised HMAC), swapping the payload under an intact signature never verifies *)
Hypothesis H_inj : forall dg s m1 m2, mac dg s m1 = mac dg s m2 -> m1 = m2.
Lemma append_inj_l a : forall b c, a ++ b = a ++ c -> b = c.
Proof. induction a as [|x a IH]; cbn; intros b c H; [exact H|]. injection H as H. apply IH, H. Qed.

Corollary tampered_payload_never_verifies c key dg secret p p' :
  signer c = Some (dg, secret) -> is_label dg = true -> p' <> p ->
  forall q, ~ verified mac c key (dg ++ ":" ++ mac dg secret (key ++ p) ++ "_" ++ p') q.
Proof.
  intros Hs Hl Hne q. unfold verified. rewrite Hs. intros (sg & Hsp & Hrest).
  destruct (label_shape dg Hl) as (Hu & Hc & _). destruct (H_hex dg secret (key ++ p)) as [Mu Mc].
  set (h := mac dg secret (key ++ p)) in *.
  replace (dg ++ ":" ++ h ++ "_" ++ p') with ((dg ++ ":" ++ h) ++ String "_" p') in Hsp
    by (rewrite <- !append_assoc; reflexivity).
  rewrite split_first_app in Hsp by (rewrite !contains_app, Hu, Mu; reflexivity).
  injection Hsp as <- <-.
  rewrite !contains_app in Hrest. cbn [contains] in Hrest. rewrite Ascii.eqb_refl, orb_true_r in Hrest. cbn [orb] in Hrest.
  change (dg ++ ":" ++ h) with (dg ++ String ":" h) in Hrest. rewrite (split_first_app ":" dg h Hc) in Hrest.
  destruct Hrest as [_ Hm]. unfold h in Hm. apply H_inj in Hm. apply append_inj_l in Hm. congruence.
Qed.
End SerProofs.

Lemma default_registry_ok :
  (forall v ty e, default_cenc v = Some (ty, e) -> default_cdec ty e = Some v) /\
  (forall v ty e, default_cenc v = Some (ty, e) -> contains ":" ty = false) /\
  (forall b, default_cenc (VBytes b) <> None).
Proof.
  repeat split.
  - intros v ty e. destruct v; cbn; try discriminate. intros [= <- <-]. reflexivity.
  - intros v ty e. destruct v; cbn; try discriminate. intros [= <- _]. reflexivity.
  - intros b. discriminate.
Qed.

(* Executable image of
     decorators/rate.py (50-62)            fixed-window rate limit over incr / expire
     decorators/rate_slide.py (48-65)      sliding window over slice_incr
     backends/memory.py slice_incr         the window log
     decorators/circuit_breaker.py (49-78) open check, totals / fails windows, trip rule (half_open_ttl = None)
   over the TTL-map spec.  Instants are ticks; the implementation's float timestamps BASE + t/16 compare alike.
   Definitions only. *)
From Cashews Require Import Base.Prelude Spec.TTLMap.
Open Scope string_scope.
Open Scope Z_scope.

(* Backend.incr(key, expire=ttl): TTL only when the counter becomes 1; None = the stored value is not a number *)
Definition t_incr (m : tmap) (now : Z) (k : key) (ttl : Z) : option (tmap * Z) :=
  match s_get m now k with
  | Some (VInt z) => Some (s_write m now k (VInt (z + 1)) (if z + 1 =? 1 then ttl else 0), z + 1)
  | None => Some (s_write m now k (VInt 1) ttl, 1)
  | Some _ => None
  end.
(* Backend.expire(key, ttl): re-time a live key *)
Definition t_expire (m : tmap) (now : Z) (k : key) (ttl : Z) : tmap :=
  match s_look m now k with Some (_, v) => s_write m now k v ttl | None => m end.

(* ---- rate_limit: returns (map, executed?) ---- *)
Definition rate_call (m : tmap) (now : Z) (k : key) (limit period ttl : Z) : tmap * bool :=
  match t_incr m now k period with
  | None => (m, false)
  | Some (m1, n) =>
      if limit <? n
      then ((if (0 <? ttl) && (n =? limit + 1) then t_expire m1 now k ttl else m1), false)
      else (m1, true)
  end.

(* ---- Memory.slice_incr(key, start, end, maxvalue, expire) ---- *)
Definition in_window (start end_ v : Z) : bool := (start <=? v) && (v <=? end_).
Definition slice_incr (m : tmap) (now : Z) (k : key) (start end_ maxv ttl : Z) : tmap * Z :=
  let l := match s_get m now k with Some (VZs l) => l | _ => [] end in
  let kept := filter (in_window start end_) l in
  let count := Z.of_nat (length kept) in
  if count <? maxv
  then (s_write m now k (VZs (kept ++ [end_])) ttl, count + 1)
  else (s_write m now k (VZs kept) ttl, count).

(* ---- slice_rate_limit ---- *)
Definition slide_call (m : tmap) (now : Z) (k : key) (limit period : Z) : tmap * bool :=
  let '(m1, count) := slice_incr m now k (now - period) now (limit + 1) period in
  (m1, negb (limit <? count)).

(* ---- circuit_breaker (half_open_ttl = None) ---- *)
Inductive bout := BOk | BFailListed | BFailOther.            (* what the function does if it runs *)
Inductive bres := BRan (o : bout) | BOpen.                   (* ran with that outcome / CircuitBreakerOpen raised, not run *)
Definition open_key (k : key) := k ++ ":open".
Definition total_key (k : key) := k ++ ":total".
Definition fails_key (k : key) := k ++ ":fails".
(* the call starts at `now` (open check, count in the totals window); the wrapped function's outcome is known at `fin` >= now
   (the failure is counted, the rule evaluated and the breaker opened at that instant) *)
Definition breaker_call_at (m : tmap) (now fin : Z) (k : key) (rate period ttl min_calls : Z) (o : bout) : tmap * bres * bool (* tripped *) :=
  if isSome (s_look m now (open_key k)) then (m, BOpen, false)
  else
    let '(m1, total) := slice_incr m now (total_key k) (now - period) now 9999 period in
    match o with
    | BFailListed =>
        let '(m2, fails) := slice_incr m1 fin (fails_key k) (fin - period) fin 9999 period in
        if negb (total =? 0) && negb (total <? min_calls) && (rate * total <=? fails * 100)
        then ((if isSome (s_look m2 fin (open_key k)) then m2 else s_write m2 fin (open_key k) (VInt 1) ttl), BRan o, true)
        else (m2, BRan o, false)
    | _ => (m1, BRan o, false)
    end.
(* an instantaneous call *)
Definition breaker_call (m : tmap) (now : Z) := breaker_call_at m now now.

(* ---- rate_limit at backend-command granularity: the commands of concurrent calls, in the order the backend executes them.
   A call is one RIncr (its admission is decided by the count that command returns) and, when that count is limit+1 and a
   ban ttl is set, one RExpire issued later - possibly after commands of other calls and after any delay. ---- *)
Inductive rcmd := RIncr | RExpire.
Definition rate_cmd (m : tmap) (now : Z) (k : key) (limit period ttl : Z) (c : rcmd) : tmap * option bool :=
  match c with
  | RIncr => match t_incr m now k period with None => (m, Some false) | Some (m1, n) => (m1, Some (negb (limit <? n))) end
  | RExpire => (t_expire m now k ttl, None)
  end.
Fixpoint rate_cmds (m : tmap) (k : key) (limit period ttl : Z) (h : list (Z * rcmd)) : list (option bool) :=
  match h with
  | [] => []
  | (t, c) :: r => snd (rate_cmd m t k limit period ttl c) :: rate_cmds (fst (rate_cmd m t k limit period ttl c)) k limit period ttl r
  end.

(* C12: the lazy-expiry variant of the tags model (only some keys are read between the commands, the others stay in the store
   past their deadline until a command meets them) coincides with the model the C12 theorems are about when every key is read
   between the commands - as in every history those theorems quantify over. *)
From Cashews Require Import Base.Prelude Spec.TTLMap Model.Tags Proofs.StrategiesProofs Proofs.TagsProofs.
Open Scope string_scope.
Open Scope list_scope.
Open Scope Z_scope.

(* a key is settled: absent, or present and live *)
Definition settled (m : tmap) (now : Z) (k : key) : Prop := m k = None \/ exists d v, m k = Some (d, v) /\ live now d = true.

Lemma raw_delete_settled reg m now k x : not_tagkey k -> not_tagkey x -> settled m now x -> settled (raw_delete reg m now k) now x.
Proof.
  intros Hk Hx S. destruct (String.eqb_spec x k) as [->|Hne].
  - left. apply raw_delete_self. exact Hk.
  - unfold settled. rewrite raw_delete_other by assumption. exact S.
Qed.

Definition pstep (reg : registry) (now : Z) (m' : tmap) (k : key) : tmap :=
  match m' k with Some (d, _) => if live now d then m' else raw_delete reg m' now k | None => m' end.
Lemma pstep_settled reg now m k x : not_tagkey k -> not_tagkey x -> settled m now x -> settled (pstep reg now m k) now x.
Proof.
  intros Hk Hx S. unfold pstep. destruct (m k) as [[d v]|]; [|exact S]. destruct (live now d); [exact S|].
  apply raw_delete_settled; assumption.
Qed.
Lemma pstep_self reg now m k : not_tagkey k -> settled (pstep reg now m k) now k.
Proof.
  intro Hk. unfold pstep. destruct (m k) as [[d v]|] eqn:E; [|left; exact E]. destruct (live now d) eqn:L.
  - right. exists d, v. split; assumption.
  - left. apply raw_delete_self. exact Hk.
Qed.

Lemma purge_settles reg now : forall l m, Forall not_tagkey l ->
  (forall x, not_tagkey x -> settled m now x -> settled (purge reg l m now) now x) /\
  (forall k, In k l -> settled (purge reg l m now) now k).
Proof.
  unfold purge. induction l as [|k l IH]; intros m Hl; cbn [fold_left]; [split; [auto|intros k []]|].
  inversion Hl as [|? ? Hk Hl']; subst. change (match m k with Some (d, _) => if live now d then m else raw_delete reg m now k | None => m end) with (pstep reg now m k).
  destruct (IH (pstep reg now m k) Hl') as [A B]. split.
  - intros x Hx S. apply A; [exact Hx|]. apply pstep_settled; assumption.
  - intros k' [<-|Hin]; [|apply B; exact Hin]. apply A; [exact Hk|]. apply pstep_self. exact Hk.
Qed.

Lemma purge_one_settled reg now m k : settled m now k -> purge reg [k] m now = m.
Proof.
  intro S. unfold purge. cbn [fold_left]. destruct S as [E|(d & v & E & L)]; rewrite E; [reflexivity|]. rewrite L. reflexivity.
Qed.
Lemma del_settled reg now m k : settled m now k ->
  raw_delete reg m now k = match s_look m now k with Some _ => raw_delete reg m now k | None => m end.
Proof.
  intros [E|(d & v & E & L)]; unfold s_look; rewrite E; [|rewrite L; reflexivity]. unfold raw_delete. rewrite E. reflexivity.
Qed.

Definition ev_in (keys : list key) (e : tev) : Prop :=
  match e with TIncr k _ _ _ | TDel k => In k keys | _ => True end.

Theorem lazy_all_probed reg keys m now e : Forall not_tagkey keys -> ev_in keys e ->
  tag_step_lazy reg keys keys m now e = tag_step reg keys m now e.
Proof.
  intros Hkeys He. unfold tag_step_lazy, tag_step.
  destruct (purge_settles reg now keys m Hkeys) as [_ S]. revert S. generalize (purge reg keys m now). intros m1 S.
  destruct e as [k v ttl tags|k by_ ttl tags|k|p|t]; try reflexivity.
  - cbn in He. rewrite purge_one_settled by (apply S; exact He). reflexivity.
  - cbn in He. apply del_settled. apply S. exact He.
  - assert (G : forall l m', Forall not_tagkey l -> (forall k, In k l -> settled m' now k) ->
               fold_left (fun m0 k => match drop_prefix p k with Some _ => raw_delete reg m0 now k | None => m0 end) l m' =
               fold_left (fun m0 k => match drop_prefix p k with
                                      | Some _ => match s_look m0 now k with Some _ => raw_delete reg m0 now k | None => m0 end
                                      | None => m0 end) l m').
    { induction l as [|k l IH]; intros m' Hl Sl; cbn [fold_left]; [reflexivity|]. inversion Hl as [|? ? Hk Hl']; subst.
      assert (E : match drop_prefix p k with Some _ => raw_delete reg m' now k | None => m' end =
                  match drop_prefix p k with Some _ => match s_look m' now k with Some _ => raw_delete reg m' now k | None => m' end | None => m' end).
      { destruct (drop_prefix p k); [apply del_settled; apply Sl; left; reflexivity|reflexivity]. }
      rewrite <- E. apply IH; [exact Hl'|]. intros k' Hin.
      assert (Hk' : not_tagkey k') by (rewrite Forall_forall in Hl'; apply Hl'; exact Hin).
      destruct (drop_prefix p k); [apply raw_delete_settled; [exact Hk|exact Hk'|apply Sl; right; exact Hin]|apply Sl; right; exact Hin]. }
    apply G; assumption.
Qed.

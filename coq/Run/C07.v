(* Correspondence + oracle for C07: what real callers of a protected cached function did under the scheduler. *)
From Cashews Require Import Base.Prelude Model.SingleFlight.
Open Scope nat_scope.

(* the harness's log, in execution order: model events with what was seen when they happened; outcomes handed to callers *)
Inductive oev := OE (e : event) (out : bool) | OGot (i : nat) (o : outcome) | OBad.
(* the same log in raw form, for the oracle *)
Inductive raw := RCall (i k : nat) | RBStart (c k : nat) | RBEnd (c : nat) (o : outcome) | RCancel (i : nat) | RGot (i : nat) (o : outcome).
(* specs : per caller (key, yields, outcome of the body if this caller's call executes it) *)
Inductive case := CSF (specs : list (nat * nat * outcome)) (log : list oev) (rawlog : list raw).

Definition outcome_eqb (a b : outcome) : bool :=
  match a, b with Ret x, Ret y => Z.eqb x y | Raise x, Raise y => Z.eqb x y | Cancelled, Cancelled => true | _, _ => false end.

Fixpoint replay (c : cfg) (log : list oev) : bool :=
  match log with
  | [] => true
  | OE e out :: rest => let '(c', out') := step true c e in Bool.eqb out out' && replay c' rest
  | OGot i o :: rest =>
      (match callers c i with
       | Got _ o' => outcome_eqb o o'
       | Gone => outcome_eqb o Cancelled
       | _ => false
       end) && replay c rest
  | OBad :: _ => false
  end.

(* ---------- oracle: only the property's words, on the raw log ---------- *)
Record ost := { o_running : list (nat * nat);          (* (key, creator) of bodies executing *)
                o_joined : list (nat * nat);           (* (caller, creator): called while that body was executing *)
                o_ended : list (nat * outcome);        (* creator, how its body ended *)
                o_cancelled : list nat;
                o_got : list nat }.
Definition key_of (specs : list (nat * nat * outcome)) (i : nat) : nat := match nth_error specs i with Some (k, _, _) => k | None => 0 end.
Definition out_of (specs : list (nat * nat * outcome)) (i : nat) : outcome := match nth_error specs i with Some (_, _, o) => o | None => Cancelled end.
Definition mem_nat (x : nat) (l : list nat) := existsb (Nat.eqb x) l.

Fixpoint ok_sf (specs : list (nat * nat * outcome)) (s : ost) (l : list raw) : bool :=
  match l with
  | [] => match o_running s with [] => true | _ => false end &&
          forallb (fun i => mem_nat i (o_got s)) (seq 0 (length specs))          (* every caller got an answer *)
  | RCall i k :: rest =>
      let j := match find (fun kc => Nat.eqb (fst kc) k) (o_running s) with Some (_, c) => [(i, c)] | None => [] end in
      ok_sf specs {| o_running := o_running s; o_joined := j ++ o_joined s; o_ended := o_ended s; o_cancelled := o_cancelled s; o_got := o_got s |} rest
  | RBStart c k :: rest =>
      negb (existsb (fun kc => Nat.eqb (fst kc) k) (o_running s)) &&              (* never two bodies of one key at a time *)
      ok_sf specs {| o_running := (k, c) :: o_running s; o_joined := o_joined s; o_ended := o_ended s; o_cancelled := o_cancelled s; o_got := o_got s |} rest
  | RBEnd c o :: rest =>
      (outcome_eqb o (out_of specs c) || outcome_eqb o Cancelled) &&             (* (a cancelled execution is judged by what the callers then receive) *)
      ok_sf specs {| o_running := filter (fun kc => negb (Nat.eqb (snd kc) c)) (o_running s); o_joined := o_joined s;
                     o_ended := (c, o) :: o_ended s; o_cancelled := o_cancelled s; o_got := o_got s |} rest
  | RCancel i :: rest =>
      ok_sf specs {| o_running := o_running s; o_joined := o_joined s; o_ended := o_ended s; o_cancelled := i :: o_cancelled s; o_got := o_got s |} rest
  | RGot i o :: rest =>
      (if mem_nat i (o_cancelled s) then true
       else match find (fun ic => Nat.eqb (fst ic) i) (o_joined s) with
            | Some (_, c) => outcome_eqb o (out_of specs c)                       (* joined a running execution: its result or exception *)
            | None =>                                                             (* otherwise: what some finished body of that key produced *)
                existsb (fun co => Nat.eqb (key_of specs (fst co)) (key_of specs i) && outcome_eqb o (snd co)) (o_ended s)
            end) &&
      negb (mem_nat i (o_got s)) &&
      ok_sf specs {| o_running := o_running s; o_joined := o_joined s; o_ended := o_ended s; o_cancelled := o_cancelled s; o_got := i :: o_got s |} rest
  end.

Definition judge (c : case) : verdict :=
  match c with
  | CSF specs log rawlog => (replay init log, ok_sf specs {| o_running := []; o_joined := []; o_ended := []; o_cancelled := []; o_got := [] |} rawlog, [])
  end.
Definition explain (c : case) :=
  match c with CSF specs log rawlog =>
    snd (fold_left (fun cr e => let '(c, rs) := cr in
                       match e with OE ev out => let '(c', o) := step true c ev in (c', rs ++ [(o, None)])
                                  | OGot i _ => (c, rs ++ [(true, Some (callers c i))]) | OBad => (c, rs) end) log (init, []))
  end.

(* Correspondence + oracle for C11 (capacity, LRU eviction).  The oracle works from
   observations only: the command history, and list(store) before and after each command. *)
From Cashews Require Import Base.Prelude Base.OMap Spec.TTLMap Model.Memory Run.C01.

Inductive case := CLru (size : nat) (h : list (Z * cmd)) (o : list obs) (before : list (option (list key))).

Definition memk (k : key) (l : list key) : bool := existsb (String.eqb k) l.
Definition is_write (c : cmd) : bool :=
  match c with Set_ _ _ _ _ | SetMany _ _ | Incr _ _ _ | Expire _ _ => true | _ => false end.
(* commands whose naming of a key counts as a use when the key is there afterwards *)
Definition use_keys (c : cmd) : list key :=
  match c with
  | Get k | Exists k | Set_ k _ _ _ | Incr k _ _ | Expire k _ => [k]
  | GetMany ks => ks
  | SetMany kvs _ => map fst kvs
  | _ => []
  end.

Definition stamps := list (key * nat).
Definition stamp_of (st : stamps) (k : key) : nat :=
  match find (fun e => String.eqb (fst e) k) st with Some e => snd e | None => 0%nat end.
Fixpoint restamp (st : stamps) (ks : list key) (after : list key) (base pos : nat) : stamps :=
  match ks with
  | [] => st
  | k :: r => restamp (if memk k after then (k, (base + pos)%nat) :: st else st) r after base (S pos)
  end.
Fixpoint dedupk (l : list key) : list key :=
  match l with [] => [] | k :: r => if memk k r then dedupk r else k :: dedupk r end.
(* number of distinct keys other than k whose last use is more recent than k's *)
Definition more_recent (st : stamps) (k : key) : nat :=
  length (filter (fun k' => negb (String.eqb k' k) && (stamp_of st k <? stamp_of st k')%nat) (dedupk (map fst st))).

Fixpoint ok_lru (size : nat) (st : stamps) (i : nat) (h : list (Z * cmd)) (o : list obs)
         (before : list (option (list key))) : bool :=
  match h, o, before with
  | [], [], [] => true
  | (_, c) :: h', (_, after) :: o', bef :: before' =>
      match after, bef with
      | Some la, Some lb =>
          let st' := restamp st (use_keys c) la (i * 64) 1 in
          let lost := filter (fun k => negb (memk k la) && negb (memk k (cmd_keys c))) lb in
          let cap_ok := (length la <=? size)%nat in
          let lost_ok :=
            match c with
            | Clear => true
            | _ => if is_write c
                   then forallb (fun k => (size <=? more_recent st' k)%nat) lost
                   else match lost with [] => true | _ => false end
            end in
          cap_ok && lost_ok && ok_lru size st' (S i) h' o' before'
      | _, _ => ok_lru size st (S i) h' o' before'
      end
  | _, _, _ => false
  end.

Definition judge (c : case) : verdict :=
  match c with
  | CLru size h o before => (agree_run (run_m size [] h) o, ok_lru size [] 1 h o before, [])
  end.
Definition explain (c : case) := match c with CLru size h _ _ => run_m size [] h end.

(* C12, the part of the full statement that survives F20: when no write carries a TTL, delete_tags(t) is complete -
   after it no key whose latest write carried t is readable - for every history, registry and order of writes. *)
From Cashews Require Import Base.Prelude Spec.TTLMap Model.Tags Proofs.StrategiesProofs Proofs.TagsProofs.
Open Scope string_scope.
Open Scope list_scope.
Open Scope Z_scope.

Definition NoTTL (m : tmap) : Prop := forall k d v, m k = Some (d, v) -> d = None.
Definition info := key -> list string.
Definition iupd (i : info) (k : key) (v : list string) : info := fun k' => if String.eqb k' k then v else i k'.

Lemma s_look_nottl m now k : NoTTL m -> s_look m now k = m k.
Proof. intro H. unfold s_look. destruct (m k) as [[d v]|] eqn:E; [|reflexivity]. rewrite (H _ _ _ E). reflexivity. Qed.
Lemma set_of_now m now now' k : NoTTL m -> set_of m now k = set_of m now' k.
Proof. intro H. unfold set_of, s_get. rewrite !s_look_nottl by exact H. reflexivity. Qed.

Lemma nottl_write m now k v : NoTTL m -> NoTTL (s_write m now k v 0).
Proof.
  intros H k' d' v' E. unfold s_write, upd in E. destruct (String.eqb_spec k' k) as [->|]; [|eauto].
  cbn in E. injection E as <- _. rewrite s_look_nottl by exact H. destruct (m k) as [[d0 v0]|] eqn:E0; [|reflexivity]. exact (H _ _ _ E0).
Qed.
Lemma nottl_upd_none m k : NoTTL m -> NoTTL (upd m k None).
Proof. intros H k' d v E. unfold upd in E. destruct (String.eqb k' k); [discriminate|eauto]. Qed.
Lemma nottl_set_add m now tk x : NoTTL m -> NoTTL (set_add m now tk x 0).
Proof. intro H. unfold set_add. apply nottl_write. exact H. Qed.
Lemma nottl_set_remove m now tk x : NoTTL m -> NoTTL (set_remove m now tk x).
Proof. intro H. unfold set_remove. apply nottl_write. exact H. Qed.
Lemma nottl_on_remove reg m now k : NoTTL m -> NoTTL (on_remove reg m now k).
Proof.
  unfold on_remove. generalize (key_tags reg k). intro ts. revert m. induction ts as [|t ts IH]; intros m H; cbn [fold_left]; [exact H|].
  apply IH. apply nottl_set_remove. exact H.
Qed.
Lemma nottl_raw_delete reg m now k : NoTTL m -> NoTTL (raw_delete reg m now k).
Proof. intro H. unfold raw_delete. destruct (m k); [|exact H]. apply nottl_on_remove. apply nottl_upd_none. exact H. Qed.
Lemma nottl_add_tags m now k tags : NoTTL m -> NoTTL (add_tags m now k 0 tags).
Proof.
  unfold add_tags. revert m. induction tags as [|t tags IH]; intros m H; cbn [fold_left]; [exact H|]. apply IH. apply nottl_set_add. exact H.
Qed.

Lemma purge_id reg keys m now : NoTTL m -> purge reg keys m now = m.
Proof.
  intro H. unfold purge. induction keys as [|k keys IH]; cbn [fold_left]; [reflexivity|].
  destruct (m k) as [[d v]|] eqn:E; [|exact IH]. rewrite (H _ _ _ E). cbn. exact IH.
Qed.

(* membership of x in a tag set survives everything that is not about x *)
Lemma set_remove_keeps m now tk y x : x <> y -> In x (set_of m now tk) -> In x (set_of (set_remove m now tk y) now tk).
Proof.
  intros Hn H. unfold set_remove. rewrite set_of_write. apply filter_In. split; [exact H|].
  destruct (String.eqb_spec x y); [contradiction|reflexivity].
Qed.
Lemma set_remove_other m now tk y tk' : tk' <> tk -> set_of (set_remove m now tk y) now tk' = set_of m now tk'.
Proof. intro H. unfold set_remove. apply set_of_other. exact H. Qed.
Lemma on_remove_keeps reg m now k x tk : x <> k -> In x (set_of m now tk) -> In x (set_of (on_remove reg m now k) now tk).
Proof.
  intros Hn. unfold on_remove. generalize (key_tags reg k). intro ts. revert m. induction ts as [|t ts IH]; intros m H; cbn [fold_left]; [exact H|].
  apply IH. destruct (String.eqb_spec tk (tag_key t)) as [->|Hd]; [apply set_remove_keeps; assumption|rewrite set_remove_other by exact Hd; exact H].
Qed.
Lemma set_of_upd_none m now k tk : tk <> k -> set_of (upd m k None) now tk = set_of m now tk.
Proof. intro H. unfold set_of, s_get, s_look, upd. destruct (String.eqb_spec tk k); [contradiction|reflexivity]. Qed.
Lemma raw_delete_keeps reg m now k x t : not_tagkey k -> x <> k -> In x (set_of m now (tag_key t)) -> In x (set_of (raw_delete reg m now k) now (tag_key t)).
Proof.
  intros Hk Hn H. unfold raw_delete. destruct (m k); [|exact H]. apply on_remove_keeps; [exact Hn|].
  rewrite set_of_upd_none; [exact H|]. intro E. apply (Hk t). symmetry. exact E.
Qed.
Lemma add_tags_keeps m now k tags x tk : In x (set_of m now tk) -> In x (set_of (add_tags m now k 0 tags) now tk).
Proof.
  unfold add_tags. revert m. induction tags as [|t tags IH]; intros m H; cbn [fold_left]; [exact H|]. apply IH.
  destruct (String.eqb_spec tk (tag_key t)) as [->|Hd]; [apply set_add_keeps; exact H|rewrite set_add_other by exact Hd; exact H].
Qed.
Lemma add_tags_data m now k tags x : not_tagkey x -> add_tags m now k 0 tags x = m x.
Proof.
  intro Hx. unfold add_tags. revert m. induction tags as [|t tags IH]; intro m; cbn [fold_left]; [reflexivity|].
  rewrite IH. unfold set_add. apply s_write_other. apply Hx.
Qed.

(* ghost: the tags the latest write of each key carried ([] once the key has been deleted) *)
Definition istep (keys : list key) (m : tmap) (now : Z) (i : info) (e : tev) : info :=
  match e with
  | TSet k _ _ tags => iupd i k tags
  | TIncr k _ _ tags => match s_get m now k with Some (VInt _) | None => iupd i k tags | Some _ => i end
  | TDel k => iupd i k []
  | TDelPrefix p => fun k => if mems k keys && isSome (drop_prefix p k) then [] else i k
  | TDeleteTags t => fun k => if mems k (set_of m now (tag_key t)) then [] else i k
  end.
Definition ev_ok (e : tev) : Prop :=
  match e with
  | TSet k _ ttl _ | TIncr k _ ttl _ => ttl = 0 /\ not_tagkey k
  | TDel k => not_tagkey k
  | _ => True
  end.

Definition Inv (m : tmap) (i : info) : Prop :=
  NoTTL m /\
  (forall k t, not_tagkey k -> m k <> None -> In t (i k) -> In k (set_of m 0 (tag_key t))) /\
  (forall t x, In x (set_of m 0 (tag_key t)) -> not_tagkey x).

Lemma inv_empty : Inv empty (fun _ => []).
Proof.
  split; [intros k d v H; discriminate|]. split; [intros k t _ H; contradiction|].
  intros t x H. unfold set_of in H. cbn in H. destruct H.
Qed.

Lemma members_data m now k tags t x : not_tagkey k -> (forall t0 y, In y (set_of m now (tag_key t0)) -> not_tagkey y) ->
  In x (set_of (add_tags m now k 0 tags) now (tag_key t)) -> not_tagkey x.
Proof.
  intros Hk. unfold add_tags. revert m. induction tags as [|t1 tags IH]; intros m Hm H; cbn [fold_left] in H; [eauto|].
  eapply IH; [|exact H]. intros t0 y Hy. destruct (String.eqb_spec (tag_key t0) (tag_key t1)) as [E|Hd].
  - rewrite E in Hy. unfold set_add in Hy. rewrite set_of_write in Hy. destruct (mems k (set_of m now (tag_key t1))); [eapply Hm; exact Hy|].
    apply in_app_iff in Hy as [Hy|[<-|[]]]; [eapply Hm; exact Hy|exact Hk].
  - rewrite set_add_other in Hy by exact Hd. eapply Hm; exact Hy.
Qed.

Lemma set_of_data_write m now k v tk : (forall t, k <> tag_key t) -> (exists t, tk = tag_key t) -> set_of (s_write m now k v 0) now tk = set_of m now tk.
Proof. intros Hk (t & ->). apply set_of_other. intro E. apply (Hk t). symmetry. exact E. Qed.

(* a write of key k (to value v, tags tags) *)
Lemma inv_write m i now k v tags : Inv m i -> not_tagkey k ->
  Inv (add_tags (s_write m now k v 0) now k 0 tags) (iupd i k tags).
Proof.
  intros (N & A & C) Hk.
  assert (N1 : NoTTL (s_write m now k v 0)) by (apply nottl_write; exact N).
  assert (N2 : NoTTL (add_tags (s_write m now k v 0) now k 0 tags)) by (apply nottl_add_tags; exact N1).
  split; [exact N2|]. split.
  - intros x t Hx Hpres Hin. rewrite (set_of_now _ 0 now) by exact N2. unfold iupd in Hin. destruct (String.eqb_spec x k) as [->|Hne].
    + apply tagged_write_joins. exact Hin.
    + apply add_tags_keeps. rewrite set_of_data_write; [|exact Hk|eauto]. rewrite (set_of_now _ now 0) by exact N.
      apply A; [exact Hx| |exact Hin]. rewrite add_tags_data in Hpres by exact Hx. rewrite s_write_other in Hpres by exact Hne. exact Hpres.
  - intros t x Hx. rewrite (set_of_now _ 0 now) in Hx by exact N2. eapply members_data; [exact Hk| |exact Hx].
    intros t0 y Hy. rewrite set_of_data_write in Hy; [|exact Hk|eauto]. rewrite (set_of_now _ now 0) in Hy by exact N. eapply C; exact Hy.
Qed.

(* deleting key k (present or not) *)
Lemma inv_delete reg m i now k : Inv m i -> not_tagkey k -> Inv (raw_delete reg m now k) (iupd i k []).
Proof.
  intros (N & A & C) Hk. assert (N1 : NoTTL (raw_delete reg m now k)) by (apply nottl_raw_delete; exact N).
  split; [exact N1|]. split.
  - intros x t Hx Hpres Hin. unfold iupd in Hin. destruct (String.eqb_spec x k) as [->|Hne]; [destruct Hin|].
    rewrite (set_of_now _ 0 now) by exact N1. apply raw_delete_keeps; [exact Hk|exact Hne|]. rewrite (set_of_now _ now 0) by exact N.
    apply A; [exact Hx| |exact Hin]. rewrite raw_delete_other in Hpres by assumption. exact Hpres.
  - intros t x Hx. rewrite (set_of_now _ 0 now) in Hx by exact N1. unfold raw_delete in Hx. destruct (m k) eqn:E.
    + assert (G : forall ts m0, (forall t0 y, In y (set_of m0 now (tag_key t0)) -> not_tagkey y) ->
                 In x (set_of (fold_left (fun m' t1 => set_remove m' now (tag_key t1) k) ts m0) now (tag_key t)) -> not_tagkey x).
      { induction ts as [|t1 ts IH]; intros m0 Hm H; cbn [fold_left] in H; [eauto|]. eapply IH; [|exact H].
        intros t0 y Hy. destruct (String.eqb_spec (tag_key t0) (tag_key t1)) as [E1|Hd].
        - rewrite E1 in Hy. unfold set_remove in Hy. rewrite set_of_write in Hy. apply filter_In in Hy as [Hy _]. eapply Hm; exact Hy.
        - rewrite set_remove_other in Hy by exact Hd. eapply Hm; exact Hy. }
      eapply G; [|exact Hx]. intros t0 y Hy. rewrite set_of_upd_none in Hy by (intro E1; apply (Hk t0); symmetry; exact E1).
      rewrite (set_of_now _ now 0) in Hy by exact N. eapply C; exact Hy.
    + rewrite (set_of_now _ now 0) in Hx by exact N. eapply C; exact Hx.
Qed.

Lemma iupd_ext (i i' : info) m : (forall k, i k = i' k) -> Inv m i -> Inv m i'.
Proof. intros E (N & A & C). split; [exact N|]. split; [|exact C]. intros k t Hk Hp Hin. rewrite <- E in Hin. eauto. Qed.

Lemma inv_forget_absent m i k : Inv m i -> m k = None -> Inv m (iupd i k []).
Proof.
  intros (N & A & C) E. split; [exact N|]. split; [|exact C]. intros x t Hx Hp Hin. unfold iupd in Hin.
  destruct (String.eqb_spec x k) as [->|]; [destruct Hin|eauto].
Qed.

Lemma absent_stays reg now (test : tmap -> key -> bool) : forall l m k, Forall not_tagkey l -> not_tagkey k -> m k = None ->
  fold_left (fun m' k0 => if test m' k0 then raw_delete reg m' now k0 else m') l m k = None.
Proof.
  induction l as [|k0 l IH]; intros m k Hl Hk E; cbn [fold_left]; [exact E|]. inversion Hl as [|? ? Hk0 Hl']; subst.
  apply IH; [exact Hl'|exact Hk|]. destruct (test m k0); [|exact E].
  destruct (String.eqb_spec k k0) as [->|Hne]; [apply raw_delete_self; exact Hk0|rewrite raw_delete_other by assumption; exact E].
Qed.

(* deleting some of the keys of a list (each one if a test on the current store says so): the ghost is cleared only for
   keys that are gone afterwards *)
Lemma inv_delete_some reg now (test : tmap -> key -> bool) : forall l m i, Forall not_tagkey l -> Inv m i ->
  let m' := fold_left (fun m' k => if test m' k then raw_delete reg m' now k else m') l m in
  exists i', Inv m' i' /\ (forall k, i' k = i k \/ (i' k = [] /\ m' k = None)).
Proof.
  induction l as [|k l IH]; intros m i Hl HI; cbn [fold_left].
  - exists i. split; [exact HI|]. intros; left; reflexivity.
  - inversion Hl as [|? ? Hk Hl']; subst. destruct (test m k) eqn:T.
    + destruct (IH (raw_delete reg m now k) (iupd i k []) Hl' (inv_delete reg m i now k HI Hk)) as (i' & HI' & Hor).
      exists i'. split; [exact HI'|]. intro x. destruct (Hor x) as [E|E]; [|right; exact E].
      unfold iupd in E. destruct (String.eqb_spec x k) as [Ex|]; [|left; exact E]. subst x.
      right. split; [exact E|]. apply absent_stays; [exact Hl'|exact Hk|apply raw_delete_self; exact Hk].
    + destruct (IH m i Hl' HI) as (i' & HI' & Hor). exists i'. split; [exact HI'|exact Hor].
Qed.

Lemma inv_agree m (i i' : info) : Inv m i -> (forall k, m k <> None -> i' k = i k) -> Inv m i'.
Proof.
  intros (N & A & C) H. split; [exact N|]. split; [|exact C]. intros k t Hk Hp Hin. rewrite (H k Hp) in Hin. eauto.
Qed.

Lemma mems_in x l : mems x l = true <-> In x l.
Proof.
  unfold mems. rewrite existsb_exists. split.
  - intros (y & Hy & E). apply String.eqb_eq in E. subst. exact Hy.
  - intro H. exists x. split; [exact H|apply String.eqb_refl].
Qed.

(* one event of a TTL-free history keeps the invariant, with the ghost updated as istep says *)
Lemma inv_step reg keys m i now e : Forall not_tagkey keys -> ev_ok e -> Inv m i -> Inv (tag_step reg keys m now e) (istep keys m now i e).
Proof.
  intros Hkeys He HI. pose proof HI as (N & A & C). unfold tag_step. rewrite purge_id by exact N.
  destruct e as [k v ttl tags|k by_ ttl tags|k|p|t]; cbn [istep].
  - destruct He as [-> Hk]. apply inv_write; assumption.
  - destruct He as [-> Hk]. destruct (s_get m now k) as [[z| | | | | | |]|] eqn:G; try exact HI.
    + assert (E : (if z + by_ =? 1 then 0 else 0) = 0) by (destruct (z + by_ =? 1); reflexivity). rewrite E. apply inv_write; assumption.
    + assert (E : (if by_ =? 1 then 0 else 0) = 0) by (destruct (by_ =? 1); reflexivity). rewrite E. apply inv_write; assumption.
  - cbn in He. destruct (s_look m now k) eqn:L; [apply inv_delete; assumption|].
    apply inv_forget_absent; [exact HI|]. rewrite s_look_nottl in L by exact N. exact L.
  - assert (Eq : fold_left (fun m' k => match drop_prefix p k with
                                        | Some _ => match s_look m' now k with Some _ => raw_delete reg m' now k | None => m' end
                                        | None => m' end) keys m =
                 fold_left (fun m' k => if match drop_prefix p k with Some _ => isSome (s_look m' now k) | None => false end then raw_delete reg m' now k else m') keys m).
    { clear. revert m. induction keys as [|k keys IH]; intro m; cbn [fold_left]; [reflexivity|]. rewrite <- IH. f_equal.
      destruct (drop_prefix p k); [destruct (s_look m now k); reflexivity|reflexivity]. }
    rewrite Eq.
    pose proof (inv_delete_some reg now (fun m' k => match drop_prefix p k with Some _ => isSome (s_look m' now k) | None => false end) keys m i Hkeys HI) as D.
    cbv zeta in D. destruct D as (i' & HI' & Hor).
    eapply inv_agree; [exact HI'|]. intros x Hp. destruct (Hor x) as [E|[_ E]]; [|contradiction].
    rewrite E. destruct (mems x keys && isSome (drop_prefix p x)) eqn:B; [|reflexivity].
    (* a key of the list with the prefix that is still present: impossible *)
    exfalso. apply andb_true_iff in B as [Bk Bp]. apply mems_in in Bk.
    revert Hp. generalize (fun k0 => match drop_prefix p k0 with Some _ => true | None => false end). intros _.
    assert (G : forall l m0, Forall not_tagkey l -> NoTTL m0 -> In x l ->
               fold_left (fun m' k => if match drop_prefix p k with Some _ => isSome (s_look m' now k) | None => false end then raw_delete reg m' now k else m') l m0 x = None).
    { induction l as [|k0 l IH]; intros m0 Hl N0 Hin; [destruct Hin|]. cbn [fold_left]. inversion Hl as [|? ? Hk0 Hl']; subst.
      destruct (in_dec string_dec x l) as [Hi|Hni].
      - apply IH; [exact Hl'| |exact Hi]. destruct (match drop_prefix p k0 with Some _ => isSome (s_look m0 now k0) | None => false end); [apply nottl_raw_delete|]; exact N0.
      - destruct Hin as [->|Hin]; [|contradiction]. destruct (drop_prefix p x) as [r|]; [|discriminate].
        apply absent_stays; [exact Hl'|exact Hk0|]. destruct (isSome (s_look m0 now x)) eqn:Lx; [apply raw_delete_self; exact Hk0|].
        rewrite s_look_nottl in Lx by exact N0. destruct (m0 x); [discriminate|reflexivity]. }
    intro Hp. apply Hp. apply G; [exact Hkeys|exact N|exact Bk].
  - (* delete_tags *)
    unfold delete_tag. set (members := set_of m now (tag_key t)).
    assert (Hm0 : members = set_of m 0 (tag_key t)) by (unfold members; apply set_of_now; exact N).
    assert (Mnt : Forall not_tagkey members) by (apply Forall_forall; intros x Hx; rewrite Hm0 in Hx; eapply C; exact Hx).
    set (i1 := fun k => if mems k members then [] else i k).
    set (m1 := s_write m now (tag_key t) (VSet []) 0).
    assert (I1 : Inv m1 i1).
    { assert (N1 : NoTTL m1) by (apply nottl_write; exact N). split; [exact N1|]. split.
      - intros x t' Hx Hp Hin. unfold i1 in Hin. destruct (mems x members) eqn:Mx; [destruct Hin|].
        assert (Hpm : m x <> None) by (unfold m1 in Hp; rewrite s_write_other in Hp by apply Hx; exact Hp).
        pose proof (A x t' Hx Hpm Hin) as Hmem. destruct (String.eqb_spec t' t) as [->|Hne].
        + exfalso. rewrite <- Hm0 in Hmem. apply mems_in in Hmem. congruence.
        + rewrite (set_of_now _ 0 now) by exact N1. unfold m1. rewrite set_of_other by (intro E; apply Hne; apply tag_key_inj; exact E).
          rewrite (set_of_now _ now 0) by exact N. exact Hmem.
      - intros t' x Hx. rewrite (set_of_now _ 0 now) in Hx by exact N1. unfold m1 in Hx. destruct (String.eqb_spec (tag_key t') (tag_key t)) as [E|Hne].
        + rewrite E, set_of_write in Hx. destruct Hx.
        + rewrite set_of_other in Hx by exact Hne. rewrite (set_of_now _ now 0) in Hx by exact N. eapply C; exact Hx. }
    destruct members as [|y l] eqn:Em.
    + destruct (s_get m now (tag_key t)); exact I1.
    + pose proof (inv_delete_some reg now (fun _ _ => true) (y :: l) m1 i1 Mnt I1) as D. cbv zeta in D. destruct D as (i' & HI' & Hor).
      eapply inv_agree; [exact HI'|]. intros x Hp. destruct (Hor x) as [E|[_ E]]; [|contradiction].
      rewrite E. reflexivity.
Qed.

(* ---------- completeness of delete_tags ---------- *)
Lemma delete_tag_keeps_absent reg m now t k : not_tagkey k -> Forall not_tagkey (set_of m now (tag_key t)) -> m k = None ->
  delete_tag reg m now t k = None.
Proof.
  intros Hk Hm E. unfold delete_tag. destruct (set_of m now (tag_key t)) as [|y l] eqn:Es.
  - destruct (s_get m now (tag_key t)); rewrite s_write_other by apply Hk; exact E.
  - apply fold_delete_none; [exact Hm|]. right. split; [exact Hk|]. rewrite s_write_other by apply Hk. exact E.
Qed.

Theorem delete_tags_complete reg keys m i now t : Inv m i ->
  forall k, not_tagkey k -> In t (i k) -> s_look (tag_step reg keys m now (TDeleteTags t)) now k = None.
Proof.
  intros (N & A & C) k Hk Hin. unfold tag_step. rewrite purge_id by exact N.
  assert (Mnt : Forall not_tagkey (set_of m now (tag_key t))).
  { apply Forall_forall. intros x Hx. rewrite (set_of_now _ now 0) in Hx by exact N. eapply C; exact Hx. }
  destruct (m k) as [e|] eqn:E.
  - apply delete_tag_removes_every_member; [exact Mnt|]. rewrite (set_of_now _ now 0) by exact N. apply A; [exact Hk|congruence|exact Hin].
  - unfold s_look. rewrite delete_tag_keeps_absent; [reflexivity|exact Hk|exact Mnt|exact E].
Qed.

(* whole histories: the store, and for every key the tags its latest write carried (istep) *)
Fixpoint run_i (reg : registry) (keys : list key) (m : tmap) (i : info) (h : list (Z * tev)) : tmap * info :=
  match h with
  | [] => (m, i)
  | (t, e) :: r => run_i reg keys (tag_step reg keys m t e) (istep keys m t i e) r
  end.

(* for every history without TTLs, every registry (tags registered or not), every order of writes: after delete_tags(t)
   no key whose latest write carried t is readable *)
Theorem tags_complete_nottl reg keys h : Forall not_tagkey keys -> Forall (fun te => ev_ok (snd te)) h ->
  let '(m, i) := run_i reg keys empty (fun _ => []) h in
  Inv m i /\
  forall now t k, not_tagkey k -> In t (i k) -> s_look (tag_step reg keys m now (TDeleteTags t)) now k = None.
Proof.
  intros Hkeys Hh.
  assert (G : forall h m i, Forall (fun te => ev_ok (snd te)) h -> Inv m i -> Inv (fst (run_i reg keys m i h)) (snd (run_i reg keys m i h))).
  { clear h Hh. induction h as [|[t e] h IH]; intros m i Hh HI; cbn [run_i]; [exact HI|].
    inversion Hh as [|? ? He Hh']; subst. apply IH; [exact Hh'|]. apply inv_step; assumption. }
  specialize (G h empty (fun _ => []) Hh inv_empty). destruct (run_i reg keys empty (fun _ => []) h) as [m i]. cbn [fst snd] in G.
  split; [exact G|]. intros now t k Hk Hin. apply (delete_tags_complete reg keys m i now t G k Hk Hin).
Qed.

(* Correspondence + oracle for C14 (early / soft / failover / hit). One key per case. *)
From Cashews Require Import Base.Prelude Spec.TTLMap Model.DecorStrategies.
Open Scope string_scope.
Open Scope Z_scope.

Inductive ev :=
| EvCall (now : Z) (o : xout)        (* o = what the function does if it is executed for this call *)
| EvDone (now : Z) (o : xout).       (* the pending background refresh completes, having done o *)
Inductive deco :=
| DEarly (ttl ettl : Z) (bg : bool) | DSoft (ttl sttl : Z) | DFail (ttl : Z) | DHit (ttl hits upd : Z) (bg : bool)
| DFailC (ttl : Z).     (* failover whose store condition raises the listed exception on odd results *)
(* observation per event: what the caller got, what happened to the function (EvDone: RVal 0, ENone) *)
Definition obs := (cres * eact)%type.
(* CStratActs: the wrapped function returns None on success, so the results tell nothing apart: only what every call did with
   the function (executed it, started a refresh, served from the store) is compared *)
Inductive case := CStrat (d : deco) (h : list ev) (o : list obs) | CStratActs (d : deco) (h : list ev) (acts : list eact).

Definition K : key := "k".
Definition b2act (b : bool) : eact := if b then EExec else ENone.

Definition step (d : deco) (m : tmap) (e : ev) : tmap * obs :=
  match d, e with
  | DEarly ttl ettl bg, EvCall now o => let '(m', r, a) := early_call m now K ttl ettl bg o in (m', (r, a))
  | DEarly ttl ettl _, EvDone now o => (early_refresh_done m now K ttl ettl o, (RVal 0, ENone))
  | DSoft ttl sttl, EvCall now o => let '(m', r, ex) := soft_call m now K ttl sttl o in (m', (r, b2act ex))
  | DFail ttl, EvCall now o => let '(m', r, ex) := fail_call m now K ttl o in (m', (r, b2act ex))
  | DFailC ttl, EvCall now o => let '(m', r, ex) := failc_call m now K ttl o in (m', (r, b2act ex))
  | DHit ttl hits upd bg, EvCall now o => let '(m', r, a) := hit_call m now K ttl hits upd bg o in (m', (r, a))
  | DHit ttl _ _ _, EvDone now o => (hit_save m now K ttl o, (RVal 0, ENone))
  | _, EvDone _ _ => (m, (RVal 0, ENone))
  end.
Fixpoint run (d : deco) (m : tmap) (h : list ev) : list obs :=
  match h with [] => [] | e :: r => let '(m', o) := step d m e in o :: run d m' r end.

(* observable action: no body started / a body ran to completion inside the call / a body was still running when
   the call returned.  An inline refresh and a plain execution look the same from outside. *)
Definition collapse (a : eact) : eact := match a with ERefreshInline => EExec | x => x end.
Definition obs_eqb (a b : obs) : bool := cres_eqb (fst a) (fst b) && eact_eqb (collapse (snd a)) (collapse (snd b)).

(* ---------- oracles from observations ---------- *)
(* st = last successful store (instant, id); pend = instant a refresh was started and not completed yet *)
Definition stored_live (ttl now : Z) (st : option (Z * Z)) : option (Z * Z) :=
  match st with Some (t0, id) => if now <? t0 + ttl then Some (t0, id) else None | None => None end.
Definition st_after (now : Z) (o : xout) (st : option (Z * Z)) : option (Z * Z) :=
  match o with XOk id => Some (now, id) | XExc _ => st end.

Fixpoint ok_early ttl ettl (st : option (Z * Z)) (pend : option Z) (h : list ev) (o : list obs) : bool :=
  match h, o with
  | [], [] => true
  | EvDone now x :: h', _ :: o' => ok_early ttl ettl (st_after now x st) None h' o'
  | EvCall now x :: h', (r, a) :: o' =>
      match stored_live ttl now st with
      | None => (* nothing servable: the function must run and the caller gets its outcome *)
          eact_eqb a EExec && cres_eqb r (of_x x) && ok_early ttl ettl (st_after now x st) pend h' o'
      | Some (t0, id) =>
          if now <=? t0 + ettl
          then eact_eqb a ENone && cres_eqb r (RVal id) && ok_early ttl ettl st pend h' o'
          else
            (* stale but alive: answered from the store (unless an inline refresh raised); at most one refresh per early_ttl *)
            match a with
            | ENone => cres_eqb r (RVal id) && ok_early ttl ettl st pend h' o'
            | ERefreshStarted =>
                cres_eqb r (RVal id) &&
                match pend with Some p => p + ettl <=? now | None => true end &&
                ok_early ttl ettl st (Some now) h' o'
            | EExec | ERefreshInline =>          (* a refresh ran inside the call (background=False) *)
                match pend with Some p => p + ettl <=? now | None => true end &&
                cres_eqb r (match x with XOk _ => RVal id | XExc e => RRaise e end) &&
                ok_early ttl ettl (st_after now x st) pend h' o'
            end
      end
  | _, _ => false
  end.

Fixpoint ok_soft ttl sttl (st : option (Z * Z)) (h : list ev) (o : list obs) : bool :=
  match h, o with
  | [], [] => true
  | EvDone _ _ :: h', _ :: o' => ok_soft ttl sttl st h' o'
  | EvCall now x :: h', (r, a) :: o' =>
      match stored_live ttl now st with
      | Some (t0, id) =>
          if now <? t0 + sttl then eact_eqb a ENone && cres_eqb r (RVal id) && ok_soft ttl sttl st h' o'
          else eact_eqb a EExec &&
               cres_eqb r (match x with XOk i => RVal i | XExc e => if listed e then RVal id else RRaise e end) &&
               ok_soft ttl sttl (st_after now x st) h' o'
      | None => eact_eqb a EExec && cres_eqb r (of_x x) && ok_soft ttl sttl (st_after now x st) h' o'
      end
  | _, _ => false
  end.

Fixpoint ok_fail ttl (st : option (Z * Z)) (h : list ev) (o : list obs) : bool :=
  match h, o with
  | [], [] => true
  | EvDone _ _ :: h', _ :: o' => ok_fail ttl st h' o'
  | EvCall now x :: h', (r, a) :: o' =>
      eact_eqb a EExec &&
      cres_eqb r (match x with
                  | XOk i => RVal i
                  | XExc e => if listed e then match stored_live ttl now st with Some (_, id) => RVal id | None => RRaise e end
                              else RRaise e
                  end) &&
      ok_fail ttl (st_after now x st) h' o'
  | _, _ => false
  end.

(* the function returned but the store condition raised: the caller sees that exception, never the stored result *)
Definition cond_raises (x : xout) : bool := match x with XOk i => Z.odd i | _ => false end.
Fixpoint ok_failc ttl (st : option (Z * Z)) (h : list ev) (o : list obs) : bool :=
  match h, o with
  | [], [] => true
  | EvDone _ _ :: h', _ :: o' => ok_failc ttl st h' o'
  | EvCall now x :: h', (r, a) :: o' =>
      eact_eqb a EExec &&
      (if cond_raises x then cres_eqb r (RRaise 1) && ok_failc ttl st h' o'
       else cres_eqb r (match x with
                        | XOk i => RVal i
                        | XExc e => if listed e then match stored_live ttl now st with Some (_, id) => RVal id | None => RRaise e end
                                    else RRaise e
                        end) && ok_failc ttl (st_after now x st) h' o')
  | _, _ => false
  end.

(* served = number of calls answered from the store since the last store *)
Fixpoint ok_hit ttl hits upd (st : option (Z * Z)) (served : Z) (h : list ev) (o : list obs) : bool :=
  match h, o with
  | [], [] => true
  | EvDone now x :: h', _ :: o' => ok_hit ttl hits upd (st_after now x st) (match x with XOk _ => 0 | _ => served end) h' o'
  | EvCall now x :: h', (r, a) :: o' =>
      let live := stored_live ttl now st in
      let may_serve := match live with Some _ => served + 1 <=? hits | None => false end in
      match a with
      | EExec | ERefreshInline =>
          (* the function ran inside the call: the caller got its outcome, or (inline refresh) the stored result *)
          (cres_eqb r (of_x x) ||
           (may_serve && (0 <? upd) && match live, x with Some (_, id), XOk _ => cres_eqb r (RVal id) | _, _ => false end)) &&
          ok_hit ttl hits upd (st_after now x st) (match x with XOk _ => 0 | _ => served + 1 end) h' o'
      | ENone | ERefreshStarted =>
          may_serve && (match a with ENone => true | _ => (0 <? upd) end) &&
          match live with Some (_, id) => cres_eqb r (RVal id) | None => false end &&
          ok_hit ttl hits upd st (served + 1) h' o'
      end
  | _, _ => false
  end.

Definition judge (c : case) : verdict :=
  match c with
  | CStrat d h o =>
      (list_eqb obs_eqb (run d empty h) o,
       match d with
       | DEarly ttl ettl _ => ok_early ttl ettl None None h o
       | DSoft ttl sttl => ok_soft ttl sttl None h o
       | DFail ttl => ok_fail ttl None h o
       | DFailC ttl => ok_failc ttl None h o
       | DHit ttl hits upd _ => ok_hit ttl hits upd None 0 h o
       end, [])
  | CStratActs d h acts => (list_eqb eact_eqb (map (fun ob => collapse (snd ob)) (run d empty h)) (map collapse acts), true, [])
  end.
Definition explain (c : case) := match c with CStrat d h _ | CStratActs d h _ => run d empty h end.

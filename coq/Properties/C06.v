(* C06 - cache.lock / @locked give mutual exclusion with owner-only release. Statements only. *)
From Cashews Require Import Base.Prelude Model.Lock Proofs.LockProofs.
Open Scope Z_scope.

(* every schedule (any interleaving of tries, leaves, foreign unlocks and time advances), any number of tasks, any
   per-acquisition ttl: two tasks inside at once => one of them has been inside for at least its own ttl *)
Theorem C06_lock_mutex : forall evs i j tk a t tk' a' t', pos_ttls evs ->
  let c := run evs in
  tasks c i = Inside tk a t -> tasks c j = Inside tk' a' t' -> i <> j ->
  a + t <= now c \/ a' + t' <= now c.
Proof. exact lock_mutex. Qed.
Print Assumptions C06_lock_mutex.

Theorem C06_invariant : forall evs, pos_ttls evs -> Inv (run evs).
Proof. exact inv_reachable. Qed.
Print Assumptions C06_invariant.

(* an unlock presenting a token releases the entry iff the live entry holds exactly that token *)
Theorem C06_unlock_owner_only : forall c tk, snd (unlock c tk) = true <-> exists d, lock c = Some (tk, d) /\ now c < d.
Proof. exact unlock_owner_only. Qed.
Print Assumptions C06_unlock_owner_only.

(* leaving (normal exit, exception, cancellation all run the same release) removes the entry carrying the task's token *)
Theorem C06_lock_released : forall c i tk a t, tasks c i = Inside tk a t ->
  forall d, lock (fst (step c (Leave i))) <> Some (tk, d) \/ d <= now c.
Proof. exact lock_released. Qed.
Print Assumptions C06_lock_released.

(* once the ttl has elapsed or the holder has left, the next attempt succeeds; no purge, no other event is consulted *)
Theorem C06_lock_progress : forall c i ttl, tasks c i = Idle -> lock_live c = false -> snd (step c (Try i ttl)) = true.
Proof. exact lock_progress. Qed.
Print Assumptions C06_lock_progress.

(* is_locked reads liveness and changes nothing *)
Theorem C06_is_locked : forall c, (snd (step c Probe) = true <-> exists tk d, lock c = Some (tk, d) /\ now c < d) /\ fst (step c Probe) = c.
Proof. exact (fun c => conj (probe_spec c) (probe_pure c)). Qed.
Print Assumptions C06_is_locked.

(* is_locked(wait, step), alone on the key: the answer is the liveness ceil(wait/step) steps from now, for every wait and step > 0 *)
Theorem C06_is_locked_wait : forall fuel c w s b, 0 < s ->
  is_locked_wait fuel c w s = Some b -> b = lock_live (tick c (sleeps w s * s)).
Proof. exact is_locked_wait_spec. Qed.
Print Assumptions C06_is_locked_wait.
Theorem C06_is_locked_wait_total : forall fuel c w s, 0 < s -> sleeps w s < Z.of_nat fuel -> is_locked_wait fuel c w s <> None.
Proof. exact is_locked_wait_total. Qed.
Print Assumptions C06_is_locked_wait_total.
(* ... and it is the conjunction of what the polls Probe, Tick step, Probe, ... of the event language see *)
Theorem C06_is_locked_wait_polls : forall fuel c w s b, 0 < s ->
  is_locked_wait fuel c w s = Some b -> b = forallb (fun x => x) (polls c s (Z.to_nat (sleeps w s))).
Proof. exact is_locked_wait_polls. Qed.
Print Assumptions C06_is_locked_wait_polls.
Example C06_is_locked_wait_example :
  let c := run [Try 0 16] in (is_locked_wait 9 c 8 6, is_locked_wait 9 c 20 6, is_locked_wait 9 c 20 4, sleeps 20 6) = (Some true, Some false, Some false, 4).
Proof. vm_compute. reflexivity. Qed.

(* non-vacuity: A overstays, B acquires, A's late release does not free B's lock, C stays out *)
Example C06_example :
  let evs := [Try 0 16; Tick 20; Try 1 16; Leave 0; Try 2 16] in
  (lock (run evs), snd (step (run [Try 0 16; Tick 20; Try 1 16]) (Leave 0)), snd (step (run [Try 0 16; Tick 20; Try 1 16; Leave 0]) (Try 2 16)))
  = (Some (1%nat, 36), false, false).
Proof. vm_compute. reflexivity. Qed.

"""C11: capacity and LRU eviction of the in-memory backend."""
import itertools

from harness import memrun
from harness.props import c01

ID = "C11"
RUN_MODULE = "Spec.TTLMap Run.C01 Run.C11"
EXPLAIN = "explain"
RULE = ("random histories (<= 60 events) of set/set_many/get/get_many/exists/incr/expire/delete/get_expire over 2-10 keys on a Memory of "
        "size 1-6 with TTLs and advances (expired, unpurged entries occupy slots), purge task on/off (in 3 of 10 histories the commands share their instants with purge passes), serializer on/off, direct or via the "
        "facade; observed: results and list(store) before/after every command. non-trivial: at least one eviction happened (a key not "
        "named by a write command disappeared)")
TRUSTED_BASE = c01.TRUSTED_BASE
ASSUMPTIONS = ["clock non-decreasing", "set_raw excluded", "values immutable",
               "the oracle's notion of 'use' is: a get/get_many/exists/incr/expire/set/set_many names the key and the key is present afterwards"]
EXHAUSTIVE = {"quick": False, "thorough": False}


def gen_cases(rng, tier):
    n = 800 if tier == "quick" else 10000
    cases = []
    for _ in range(n):
        size = rng.choice([1, 2, 2, 3, 3, 4, 5, 6])
        nk = rng.randint(max(2, size), min(10, size + 4))
        cases.append({"size": size, "purge": rng.random() < 0.4, "align": rng.random() < 0.3, "serializer": rng.choice(["none", "none", "secret"]),
                      "facade": rng.random() < 0.25, "events": memrun.gen_history(rng, nk, rng.randint(3, 60))})
    if tier == "thorough":  # all histories of 4 events over 3 keys, size 1-2, from a small alphabet
        cmds = [["set", k, 1, 0, None] for k in "abc"] + [["get", k] for k in "ab"] + [["exists", "a"], ["incr", "b", 1, 0], ["expire", "a", 16], ["get_expire", "a"], ["set", "a", 2, 0, False]]
        for size in (1, 2):
            for cs in itertools.product(cmds, repeat=4):
                cases.append({"size": size, "purge": False, "serializer": "none", "facade": False, "events": [[0, list(c)] for c in cs] + [[0, ["get_many", ["a", "b", "c"]]]]})
    return cases


run_impl = memrun.run_history
to_coq = memrun.to_coq_lru


def _evictions(case, obs):
    n = 0
    for st in obs["steps"]:
        t, c, r, after = st[:4]
        before = st[4] if len(st) > 4 else None
        if after is None or before is None or c[0] not in ("set", "set_many", "incr", "expire"):
            continue
        named = [c[1]] if c[0] != "set_many" else [k for k, _ in c[1]]
        n += sum(1 for k in before if k not in after and k not in named)
    return n


def nontrivial(case, obs):
    return _evictions(case, obs) > 0


def classify(case, obs):
    d = c01.classify(case, obs)
    d["evictions"] = _evictions(case, obs)
    d["size_%d" % case["size"]] = 1
    return d


shrink = c01.shrink
neighbours = c01.neighbours

(* Correspondence + oracle for C02 (simple cache decorator, iterator decorator, ttl spellings). *)
From Coq Require Import Ascii.
From Cashews Require Import Base.Prelude Spec.TTLMap Model.Key Model.DecorSimple.
Open Scope string_scope.

Definition run_eqb (a b : run) : bool :=
  list_eqb val_eqb (fst a) (fst b) && option_eqb Z.eqb (snd a) (snd b).

Inductive case :=
(* calls (instant, key, what the function does if executed now); observed (delivered outcome, executed?) *)
| CSimple (ttl : Z) (c : condk) (h : list (Z * key * outcome)) (obs : list (outcome * bool))
| CIter (ttl : Z) (c : condk) (h : list (Z * key * run * Z)) (obs : list (run * bool))
(* ttl_to_seconds(raw string); comps = the (amount, unit) components it was built from, if well-formed *)
| CTtl (raw : string) (comps : option (list (Z * ascii))) (out : option Z).

(* ---------- model runs ---------- *)
Fixpoint run_simple (m : tmap) ttl c (h : list (Z * key * outcome)) : list (outcome * bool) :=
  match h with
  | [] => []
  | (now, k, o) :: r => let '(m', res, ex) := simple_call m now k ttl c o in (res, ex) :: run_simple m' ttl c r
  end.
Definition fuel := 200%nat.
Fixpoint run_iter (m : tmap) ttl c (h : list (Z * key * run * Z)) : list (run * bool) :=
  match h with
  | [] => []
  | (now, k, r0, dur) :: r => let '(m', res, ex) := iter_call fuel m now k ttl c r0 dur in (res, ex) :: run_iter m' ttl c r
  end.

Definition lower (c : ascii) : ascii :=
  let n := N_of_ascii c in if (65 <=? n)%N && (n <=? 90)%N then ascii_of_N (n + 32) else c.
Definition is_space (c : ascii) : bool := let n := N_of_ascii c in (n =? 32)%N || ((9 <=? n)%N && (n <=? 13)%N).
Fixpoint lstrip (s : list ascii) := match s with c :: r => if is_space c then lstrip r else s | [] => [] end.
Definition strip (s : list ascii) := rev (lstrip (rev (lstrip s))).
Definition ttl_of_raw (raw : string) : option Z := ttl_from_str (map lower (strip (list_ascii_of_string raw))).

(* ---------- oracles, from observations only ---------- *)
(* per key: the last execution whose outcome the condition accepted (instant, outcome) *)
Definition accepted (c : condk) (o : outcome) : bool :=
  match eval_cond c o, o with CRTrue, OVal v => negb (is_excobj v) | CRExc, OExc _ => true | _, _ => false end.   (* an exception object handed back as a result is not stored *)
Definition fresh (ttl now t : Z) : bool := (ttl <=? 0)%Z || (now <? t + ttl)%Z.
Fixpoint find_last {A} (k : key) (l : list (key * A)) : option A :=   (* l: most recent first *)
  match l with [] => None | (k', a) :: r => if String.eqb k k' then Some a else find_last k r end.

Fixpoint ok_simple' ttl c (last : list (key * (Z * outcome))) (h : list (Z * key * outcome)) (obs : list (outcome * bool)) : bool :=
  match h, obs with
  | [], [] => true
  | (now, k, o) :: h', (res, ex) :: obs' =>
      let stored := match find_last k last with
                    | Some (t, so) => if fresh ttl now t then Some so else None
                    | None => None end in
      match stored with
      | Some so => negb ex && outcome_eqb res so && ok_simple' ttl c last h' obs'
      | None => ex && outcome_eqb res o && ok_simple' ttl c (if accepted c o then (k, (now, o)) :: last else last) h' obs'
      end
  | _, _ => false
  end.

(* for the oracle any run whose items were all accepted may be found in the cache later *)
Definition run_storable (c : condk) (r : run) : bool :=
  forallb (fun x => cond_truthy c (OVal x)) (fst r) &&
  match snd r with None => true | Some e => match eval_cond c (OExc e) with CRExc => true | _ => false end end.
Fixpoint ok_iter ttl c (last : list (key * (Z * run))) (h : list (Z * key * run * Z)) (obs : list (run * bool)) : bool :=
  match h, obs with
  | [], [] => true
  | (now, k, r0, _) :: h', (res, ex) :: obs' =>
      let stored := match find_last k last with
                    | Some (t, sr) => if fresh ttl now t then Some sr else None
                    | None => None end in
      (* a fresh execution is always a real run; a replay must be the stored run, still within ttl *)
      if ex then run_eqb res r0 && ok_iter ttl c (if run_storable c r0 then (k, (now, r0)) :: last else last) h' obs'
      else match stored with
           | Some sr => run_eqb res sr && ok_iter ttl c last h' obs'
           | None => false
           end
  | _, _ => false
  end.

Definition unit_secs_spec (c : ascii) : Z :=
  if Ascii.eqb c "d" then 86400 else if Ascii.eqb c "h" then 3600 else if Ascii.eqb c "m" then 60 else 1.

Definition oc_eqb (a b : outcome * bool) := outcome_eqb (fst a) (fst b) && Bool.eqb (snd a) (snd b).
Definition rn_eqb (a b : run * bool) := run_eqb (fst a) (fst b) && Bool.eqb (snd a) (snd b).

Definition judge (c : case) : verdict :=
  match c with
  | CSimple ttl cd h obs => (list_eqb oc_eqb (run_simple empty ttl cd h) obs, ok_simple' ttl cd [] h obs, [])
  | CIter ttl cd h obs => (list_eqb rn_eqb (run_iter empty ttl cd h) obs, ok_iter ttl cd [] h obs, [])
  | CTtl raw comps out =>
      (option_eqb Z.eqb (ttl_of_raw raw) out,
       match comps with
       | Some cs => option_eqb Z.eqb (Some (fold_left (fun a e => a + fst e * unit_secs_spec (snd e)) cs 0)%Z) out
       | None => true
       end, [])
  end.

Definition explain (c : case) :=
  match c with
  | CSimple ttl cd h _ => (run_simple empty ttl cd h, [], None)
  | CIter ttl cd h _ => ([], run_iter empty ttl cd h, None)
  | CTtl raw _ _ => ([], [], ttl_of_raw raw)
  end.

"""C14: early / soft / failover / hit staleness and reuse bounds."""
import asyncio

from harness import vclock
from harness.core import C, Z
from harness.memrun import TICK

ID = "C14"
RUN_MODULE = "Spec.TTLMap Model.DecorStrategies Run.C14"
EXPLAIN = "explain"
RULE = ("one decorated function per case (cache.early / soft / failover / hit through the facade, default protection and condition; in 4 of 10 cases calls for a second argument value are interleaved), parameter grid "
        "ttl in {1,2,4 s} spelled as float / int / timedelta / string / callable, early_ttl/soft_ttl in {0.5,1,2 s}, cache_hits 1-4, update_after 0-3, background on/off; 2-14 calls at instants on a "
        "1/16 s grid chosen below / exactly at / beyond the inner and hard TTLs; every execution of the function is scripted (for failover it may take 0 - ttl+ of virtual time; returns its "
        "execution number, raises the listed exception, raises an unlisted one); a background refresh is held on a harness gate and completes "
        "at a later scripted instant (possibly after further calls). non-trivial: at least one call was answered from the store after the "
        "inner TTL, or an execution failed while a stored result was alive")
TRUSTED_BASE = ["Coq 8.16.1 kernel + vm_compute", "hand-written model coq/Model/DecorStrategies.v over the TTL-map spec, tied by this differential run",
                "datetime.now / timedelta arithmetic exact on the 1/16 s grid"]
ASSUMPTIONS = ["sequential callers (concurrency: C07/C15)", "default condition; the default early_ttl/soft_ttl = 0.33*ttl is exercised with ttl = 6.25 s only (0.33*ttl is then exactly 33 ticks)",
               "an inline (background=False) refresh that raises propagates its exception to the caller: the model follows the code, the oracle accepts it"]
EXHAUSTIVE = {"quick": False, "thorough": False}


class ExcA(Exception):
    pass


class ExcB(Exception):
    pass


class ExcA1(ExcA):       # a proper subclass of the listed class: listed too
    pass


def gen_cases(rng, tier):
    cases = []
    n = 900 if tier == "quick" else 12000
    for _ in range(n):
        kind = rng.choice(["early", "early", "soft", "fail", "failc", "hit", "hit"])
        ttl = rng.choice([16, 32, 64])
        inner = rng.choice([t for t in (8, 16, 32) if t < ttl] or [8])
        d = {"kind": kind, "ttl": ttl, "inner": inner, "bg": rng.random() < 0.5, "hits": rng.randint(1, 4), "upd": rng.choice([0, 0, 1, 2, 3]),
             "other": rng.random() < 0.4, "spell": rng.choice(["float", "float", "int", "timedelta", "str", "callable"]),
             "spell_inner": rng.choice(["float", "float", "int", "timedelta", "str"])}
        if kind == "hit" and d["spell"] == "callable":
            d["spell"] = "timedelta"      # hit() hands a callable ttl unconverted to the counter's incr(expire=...): TypeError on every call - observed, outside the property (DESIGN 9.3)      # calls with a second argument value interleaved: they have their own key, lock and counter
        if kind in ("early", "soft") and rng.random() < 0.25:
            # early_ttl / soft_ttl left out: the code takes 0.33 * ttl; with ttl = 6.25 s that is exactly 33 ticks of 1/16 s
            ttl, inner = 100, 33
            d.update({"ttl": ttl, "inner": inner, "default_inner": True})
        ev = []
        for _ in range(rng.randint(2, 14)):
            adv = rng.choice([0, 0, 2, inner - 2, inner, inner + 2, ttl - inner, ttl - 2, ttl, ttl + 2, 4])
            adv = max(0, adv)
            if rng.random() < 0.22 and kind in ("early", "hit"):
                ev.append(["done", adv])
            else:
                ev.append(["call", adv])
        d["events"] = ev
        # failover only: an execution may take time (the stored result is looked up when it has failed, not when the call began)
        d["durs"] = [rng.choice([0, 0, 0, 2, inner, ttl - 2, ttl + 2]) if kind in ("fail", "failc") else 0 for _ in ev]
        d["script"] = [rng.choice(["ok", "ok", "ok", "A", "B", "A1"]) for _ in range(20)]
        d["exc_tuple"] = rng.random() < 0.4          # exceptions=(KeyError, ExcA) instead of exceptions=ExcA
        d["default_exc"] = len(ev) % 2 == 1          # failover: the list given through set_default_fail_exceptions
        if kind == "early" and not d.get("default_inner") and len(ev) % 5 == 0:
            d["inner"] = 0          # an explicit early_ttl of 0 (in every spelling): a stored result is past its early deadline at once, never replaced by the default 0.33 * ttl
        cases.append(d)
    return cases


def run_impl(case):
    async def go():
        from cashews import Cache
        cache = Cache()
        cache.setup("mem://?check_interval=0&size=100000")
        await cache.init()
        st = {"n": 0, "parked": [], "log": []}
        from harness.props.c02 import ttl_py
        ttl, inner = ttl_py(case.get("spell", "float"), case["ttl"]), ttl_py(case.get("spell_inner", "float"), case["inner"])     # TTL spellings: float / int / timedelta / '2s' / callable
        kind = case["kind"]
        listed = (KeyError, ExcA) if case.get("exc_tuple") else ExcA
        if kind == "early" and case.get("default_inner"): deco = cache.early(ttl=ttl, background=case["bg"])
        elif kind == "soft" and case.get("default_inner"): deco = cache.soft(ttl=ttl, exceptions=listed)
        elif kind == "early": deco = cache.early(ttl=ttl, early_ttl=inner, background=case["bg"])
        elif kind == "soft": deco = cache.soft(ttl=ttl, soft_ttl=inner, exceptions=listed)
        elif kind == "fail" and case.get("default_exc"):
            # the listed exceptions come from the facade's configured default, not from the call
            cache.set_default_fail_exceptions(*(listed if isinstance(listed, tuple) else (listed,)))
            deco = cache.failover(ttl=ttl)
        elif kind == "fail": deco = cache.failover(ttl=ttl, exceptions=listed)
        elif kind == "failc":
            def cond(result, args, kwargs, key=None):
                if result % 2 == 1:
                    raise ExcA()           # the store condition itself fails with a listed exception
                return True
            deco = cache.failover(ttl=ttl, exceptions=listed, condition=cond)
        else: deco = cache.hit(ttl=ttl, cache_hits=case["hits"], update_after=case["upd"], background=case["bg"])

        @deco
        async def f(x):
            if x != 1:
                return -x          # the other key: answered at once, never scripted
            i = st["n"]; st["n"] += 1
            what = case["script"][i % len(case["script"])]
            gate = asyncio.get_running_loop().create_future()
            rec = {"i": i, "what": what, "gate": gate, "done": False}
            st["parked"].append(rec)
            await gate
            rec["done"] = True
            rec["t"] = round((vclock.Clock.now - vclock.BASE) / TICK)
            if what == "A": raise ExcA()
            if what == "A1": raise ExcA1()
            if what == "B": raise ExcB()
            if _none_result(case):
                return None          # a function whose successful result is None (stored like any other result)
            return 1000 + i

        async def drain():
            for _ in range(12):
                await asyncio.sleep(0)

        def tick():
            return round((vclock.Clock.now - vclock.BASE) / TICK)

        steps = []
        await asyncio.sleep(TICK)
        for n_ev, (op, adv) in enumerate(case["events"]):
            if adv: await asyncio.sleep(adv * TICK)
            pending_bg = [r for r in st["parked"] if not r["done"]]
            if op == "done":
                if pending_bg:
                    r = pending_bg[0]
                    r["gate"].set_result(None)
                    await drain()
                    steps.append(["done", tick(), r["what"], r["i"], None, None])
                continue
            if case.get("other"):
                await f(2)
                await drain()
            before = len(st["parked"])
            task = asyncio.ensure_future(f(1))
            await drain()
            started = st["parked"][before:]
            act = "none"
            body = None
            if started:
                body = started[0]
                if not task.done():      # the caller is waiting for the body: inline execution
                    dur = (case.get("durs") or [0] * (n_ev + 1))[n_ev]
                    if dur:
                        await asyncio.sleep(dur * TICK)
                    body["gate"].set_result(None)
                    await drain()
                    act = "exec"
                else:
                    act = "started"
            try:
                r = await asyncio.wait_for(task, 1000)
                res = ["val", r if isinstance(r, int) and not isinstance(r, bool) else -777]      # anything but an execution number (e.g. an exception object handed back as a value)
            except ExcA: res = ["exc", 1]
            except ExcB: res = ["exc", 2]
            except Exception as e:  # noqa
                res = ["exc", 99]
            # script item that applies to this call: the body it started, else the next one (unused by the model)
            what = body["what"] if body else case["script"][st["n"] % len(case["script"])]
            idx = body["i"] if body else st["n"]
            steps.append(["call", tick(), what, idx, res, act])
        # let any held refresh finish so that the loop closes cleanly
        for r in st["parked"]:
            if not r["done"] and not r["gate"].done():
                r["gate"].set_result(None)
        await drain()
        await cache.close()
        return {"steps": steps}
    return vclock.run(go)


def _none_result(case):
    return case["kind"] in ("hit", "early", "soft") and (case["ttl"] + case["hits"] + len(case["events"])) % 7 == 0


def _x(what, i):
    return C("XOk", Z(1000 + i)) if what == "ok" else C("XExc", Z(1 if what in ("A", "A1") else 2))


def to_coq(case, obs):
    k = case["kind"]
    if k == "early": d = C("DEarly", Z(case["ttl"]), Z(case["inner"]), case["bg"])
    elif k == "soft": d = C("DSoft", Z(case["ttl"]), Z(case["inner"]))
    elif k == "fail": d = C("DFail", Z(case["ttl"]))
    elif k == "failc": d = C("DFailC", Z(case["ttl"]))
    else: d = C("DHit", Z(case["ttl"]), Z(case["hits"]), Z(case["upd"]), case["bg"])
    h, o = [], []
    for op, t, what, i, res, act in obs["steps"]:
        if op == "done":
            h.append(C("EvDone", Z(t), _x(what, i))); o.append((C("RVal", Z(0)), C("ENone")))
        else:
            h.append(C("EvCall", Z(t), _x(what, i)))
            r = C("RVal", Z(res[1])) if res[0] == "val" else C("RRaise", Z(res[1]))
            o.append((r, C({"none": "ENone", "exec": "EExec", "started": "ERefreshStarted"}[act])))
    if _none_result(case):
        return C("CStratActs", d, h, [a for _, a in o])
    return C("CStrat", d, h, o)


def nontrivial(case, obs):
    calls = [s for s in obs["steps"] if s[0] == "call"]
    return any(s[5] in ("started",) for s in calls) or (any(s[5] == "none" for s in calls) and any(s[2] != "ok" and s[5] == "exec" for s in calls))


def classify(case, obs):
    d = {"kind_" + case["kind"]: 1, "bg": int(case["bg"])}
    for s in obs["steps"]:
        if s[0] == "call":
            d["act_" + s[5]] = d.get("act_" + s[5], 0) + 1
            if s[4][0] == "exc": d["caller_raised"] = d.get("caller_raised", 0) + 1
        else:
            d["refresh_completions"] = d.get("refresh_completions", 0) + 1
    return d


def shrink(case):
    ev = case["events"]
    for i in range(len(ev)):
        c = dict(case); c["events"] = ev[:i] + ev[i + 1:]
        if i + 1 < len(ev):
            c["events"] = ev[:i] + [[ev[i + 1][0], ev[i + 1][1] + ev[i][1]]] + ev[i + 2:]
        if c["events"]: yield c
    if any(s != "ok" for s in case["script"]):
        c = dict(case); c["script"] = ["ok"] * len(case["script"]); yield c

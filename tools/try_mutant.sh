#!/bin/sh
# tools/try_mutant.sh <mutant dir with patch.diff demo.py meta.json> <PROP> [more props...]
# confirms demo passes clean / fails mutated, then runs the check(s) against the mutated /repo, then reverts.
D="$1"; shift
cd /repo || exit 2
git diff --quiet || { echo "/repo dirty"; exit 2; }
echo "== demo on clean tree"; PYTHONPATH=/repo /venv/bin/python "$D/demo.py" >/tmp/demo_clean.out 2>&1; echo "exit $?"; tail -2 /tmp/demo_clean.out
git apply "$D/patch.diff" || { echo "patch does not apply"; exit 2; }
echo "== demo on mutated tree"; PYTHONPATH=/repo /venv/bin/python "$D/demo.py" >/tmp/demo_mut.out 2>&1; echo "exit $?"; tail -2 /tmp/demo_mut.out
for P in "$@"; do
  echo "== check $P on mutated tree"; (cd /verif && ./check "$P" --no-obligations 2>&1 | tail -4); echo "check exit: $?"
done
git checkout -- . ; git status --short | head -3

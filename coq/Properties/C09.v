(* C09 - serialization round-trips every supported value under every configuration. Statements only. *)
From Coq Require Import Ascii.
From Cashews Require Import Base.Prelude Model.Serializer Proofs.SerializerProofs.
Open Scope string_scope.

(* For every pickler/MAC meeting the stated contract (round trip of dumps/loads, pickles are not
   digit-only, a "bytes:"-prefixed payload is rejected by the unpickler with its own error class or
   passed through, MAC output is hex), every configuration (no signer, or a HashSigner with one of
   the four digests and any secret), every key and every value: decode (encode v) = v. *)
Theorem C09_ser_roundtrip : forall dumps loads mac,
  (forall v p, dumps v = Some p -> loads p = LOk v) ->
  (forall v p, dumps v = Some p -> isdigit p = false) ->
  (forall b, loads ("bytes:" ++ b) = LUnpick \/ loads ("bytes:" ++ b) = LOk (VBytes ("bytes:" ++ b))) ->
  (forall dg s m, contains "_"%char (mac dg s m) = false /\ contains ":"%char (mac dg s m) = false) ->
  forall c key v, cfg_ok c -> fst (decode loads mac c key (encode dumps mac c key v)) = DVal v.
Proof. exact ser_roundtrip. Qed.
Print Assumptions C09_ser_roundtrip.

(* the framing itself: a signed blob always verifies and yields back exactly its payload *)
Theorem C09_check_sign_sign : forall mac,
  (forall dg s m, contains "_"%char (mac dg s m) = false /\ contains ":"%char (mac dg s m) = false) ->
  forall c key p, cfg_ok c -> check_sign mac c key (sign mac c key p) = CSOk p.
Proof. exact check_sign_sign. Qed.
Print Assumptions C09_check_sign_sign.

(* non-vacuity: digit-only bytes, separator-laden bytes and text under a signed configuration *)
Example C09_example :
  let dumps v := match v with VStr s => Some ("P" ++ s) | _ => None end in
  let loads b := match b with String "P"%char r => LOk (VStr r) | _ => LUnpick end in
  let mac (dg s m : string) := "abc123" in
  let c := {| signer := Some ("md5", "k") |} in
  map (fun v => fst (decode loads mac c "key" (encode dumps mac c "key" v))) [VBytes "123"; VBytes "md5:x_y"; VStr "_:"; VInt 5]
  = [DVal (VBytes "123"); DVal (VBytes "md5:x_y"); DVal (VStr "_:"); DVal (VInt 5)].
Proof. vm_compute. reflexivity. Qed.

(* C16 - a failing backend never leaves a task stuck in a transaction or locks held.  Statements only.
   Proved: context reset on every path; the release protocol for any fault set (every held lock gets its own release
   command, a key survives only if that very command failed), through rollback of any number of backends, through one
   backend's commit and through Transaction.commit over any number of backends (a failing commit rolls the rest back).
   And end to end (C16_block_releases): the body keeps the lock bookkeeping in step with the store whatever fails, so the
   hypotheses of the exit theorems hold after any body, and after the whole block no lock-shaped key is left in any involved
   store unless a command of the exit phase itself failed.
   Not modelled: which python exception class a failing command raises (any exception takes the same path). *)
From Cashews Require Import Base.Prelude Spec.TTLMap Model.Tags Model.Txn Model.TxnFault Proofs.TxnFaultProofs Proofs.TxnFaultBody.

(* any program, any mode, any fault set: when the block is over the task is no longer inside the transaction *)
Theorem C16_fault_ctx_reset : forall md U now w used cs, snd (block md U now w used cs) = false.
Proof. exact fault_ctx_reset. Qed.
Print Assumptions C16_fault_ctx_reset.

(* _unlock_updates under any fault set: the lock set is emptied; every lock it held is gone from the store unless a
   command of this very release phase failed; nothing else changes *)
Theorem C16_unlock_updates : forall w i, (i < length (bks w))%nat -> NoDup (bLocks (get_b w i)) -> NoDup (nth i (lorder w) []) ->
  let '(w', ok) := unlock_updates w i in
  faults w' = faults w /\ length (bks w') = length (bks w) /\ lorder w' = lorder w /\ (pos w <= pos w')%nat /\
  (forall j, j <> i -> get_b w' j = get_b w j) /\
  bLocks (get_b w' i) = [] /\ bL (get_b w' i) = bL (get_b w i) /\ bD (get_b w' i) = bD (get_b w i) /\
  (forall lk, In lk (bLocks (get_b w i)) ->
     bB (get_b w' i) lk = None \/ exists p, (pos w <= p < pos w')%nat /\ memn p (faults w) = true) /\
  (forall k, ~ In k (bLocks (get_b w i)) -> bB (get_b w' i) k = bB (get_b w i) k).
Proof. exact unlock_updates_spec. Qed.
Print Assumptions C16_unlock_updates.

(* precisely: the n-th release command is at position pos+n, and only its own failure keeps its key *)
Theorem C16_unlock_each : forall i ls, NoDup ls -> forall w, (i < length (bks w))%nat ->
  let '(w', ok) := unlock_each w i ls in
  pos w' = (pos w + length ls)%nat /\ faults w' = faults w /\ lorder w' = lorder w /\ length (bks w') = length (bks w) /\
  (forall j, j <> i -> get_b w' j = get_b w j) /\
  bLocks (get_b w' i) = bLocks (get_b w i) /\ bL (get_b w' i) = bL (get_b w i) /\ bD (get_b w' i) = bD (get_b w i) /\
  (forall n lk, nth_error ls n = Some lk -> bB (get_b w' i) lk = None \/ memn (pos w + n) (faults w) = true) /\
  (forall k, ~ In k ls -> bB (get_b w' i) k = bB (get_b w i) k).
Proof. exact unlock_each_spec. Qed.
Print Assumptions C16_unlock_each.

(* rollback over any number of backends (exception in the body, explicit rollback, or the tail of a failed commit):
   every backend's lock set is emptied, its locks released up to failed release commands, all other keys untouched *)
Theorem C16_rollback_releases : forall is_, NoDup is_ -> forall w, wfw w is_ ->
  let '(w', ok) := rollback_from w is_ in
  faults w' = faults w /\ length (bks w') = length (bks w) /\ lorder w' = lorder w /\ (pos w <= pos w')%nat /\
  (forall j, ~ In j is_ -> get_b w' j = get_b w j) /\
  (forall i, In i is_ ->
     bLocks (get_b w' i) = [] /\
     (forall lk, In lk (bLocks (get_b w i)) ->
        bB (get_b w' i) lk = None \/ exists p, (pos w <= p < pos w')%nat /\ memn p (faults w) = true) /\
     (forall k, ~ In k (bLocks (get_b w i)) -> bB (get_b w' i) k = bB (get_b w i) k)).
Proof. exact rollback_from_spec. Qed.
Print Assumptions C16_rollback_releases.

Theorem C16_commit_releases_partial : forall U now w i, (i < length (bks w))%nat -> NoDup (bLocks (get_b w i)) -> NoDup (nth i (lorder w) []) ->
  let '(w', ok) := backend_commit U now w i in
  faults w' = faults w /\ length (bks w') = length (bks w) /\ lorder w' = lorder w /\
  (forall j, j <> i -> get_b w' j = get_b w j) /\ bLocks (get_b w' i) = [].
Proof. exact backend_commit_releases. Qed.
Print Assumptions C16_commit_releases_partial.

(* one backend's commit, any fault set: lock set emptied, every lock key it held gone from its store unless a command of
   this very commit / release failed (lock keys are not data keys) *)
Theorem C16_backend_commit : forall U now w i, (i < length (bks w))%nat -> NoDup (bLocks (get_b w i)) -> NoDup (nth i (lorder w) []) ->
  (forall lk, In lk (bLocks (get_b w i)) -> ~ In lk U /\ ~ In lk (bD (get_b w i))) ->
  let '(w', ok) := backend_commit U now w i in
  faults w' = faults w /\ length (bks w') = length (bks w) /\ lorder w' = lorder w /\ (pos w <= pos w')%nat /\
  (forall j, j <> i -> get_b w' j = get_b w j) /\ bLocks (get_b w' i) = [] /\
  (forall lk, In lk (bLocks (get_b w i)) ->
     bB (get_b w' i) lk = None \/ exists p, (pos w <= p < pos w')%nat /\ memn p (faults w) = true).
Proof. exact backend_commit_spec. Qed.
Print Assumptions C16_backend_commit.

(* Transaction.commit over any number of backends, any fault set (a failing backend's successors are rolled back) *)
Theorem C16_commit_releases : forall U now is_, NoDup is_ -> forall w, wfw w is_ ->
  (forall i, In i is_ -> forall lk, In lk (bLocks (get_b w i)) -> ~ In lk U /\ ~ In lk (bD (get_b w i))) ->
  let '(w', ok) := commit_from U now w is_ in
  faults w' = faults w /\ length (bks w') = length (bks w) /\ lorder w' = lorder w /\ (pos w <= pos w')%nat /\
  (forall j, ~ In j is_ -> get_b w' j = get_b w j) /\
  (forall i, In i is_ ->
     bLocks (get_b w' i) = [] /\
     (forall lk, In lk (bLocks (get_b w i)) ->
        bB (get_b w' i) lk = None \/ exists p, (pos w <= p < pos w')%nat /\ memn p (faults w) = true)).
Proof. exact commit_from_spec. Qed.
Print Assumptions C16_commit_releases.

(* the whole block, any mode, any program over data keys (keys not starting with ':'), any fault set, any number of
   backends each starting with a consistent lock set: afterwards the task is outside, every involved backend's lock set is
   empty and no lock-shaped key is left in its store unless a command issued AFTER the body - a commit, rollback or
   release command - failed *)
Theorem C16_block_releases : forall md U now w used cs,
  NoDup used -> (forall i, In i used -> BI w i /\ NoDup (nth i (lorder w) [])) ->
  prog_ok (length (bks w)) cs -> (forall k, In k U -> lockish k = false) ->
  let w1 := fst (body md now w cs) in
  let '(w', exc, inside) := block md U now w used cs in
  inside = false /\
  forall i, In i used ->
    bLocks (get_b w' i) = [] /\
    forall lk, lockish lk = true ->
      bB (get_b w' i) lk = None \/ exists p, (pos w1 <= p < pos w')%nat /\ memn p (faults w) = true.
Proof. exact block_releases. Qed.
Print Assumptions C16_block_releases.

(* the body alone: the bookkeeping invariant of every backend survives any program and any fault set *)
Theorem C16_body_keeps_bookkeeping : forall md now cs w, prog_ok (length (bks w)) cs ->
  let '(w', ok) := body md now w cs in same_shape w w' /\ (forall j, BI w j -> BI w' j).
Proof. exact body_bi. Qed.
Print Assumptions C16_body_keeps_bookkeeping.

(* non-vacuity: two backends, LOCKED mode, the third underlying command (the second lock acquisition) fails: the premises
   hold, the caller sees an exception, and nothing lock-shaped is left although the body stopped half way *)
Definition ex_w : world := {| bks := [txb0 empty; txb0 empty]; pos := 0; faults := [2%nat]; lorder := [[]; []] |}.
Definition ex_cs : list (nat * bcmd) := [(0%nat, BSet "a" (VInt 1) 0); (1%nat, BIncr "n"); (0%nat, BDel "b")].
Example C16_example :
  (forall i, In i [0%nat; 1%nat] -> BI ex_w i /\ NoDup (nth i (lorder ex_w) [])) /\ prog_ok (length (bks ex_w)) ex_cs /\
  let '(w', exc, inside) := block MLocked ["a"; "b"; "n"] 0 ex_w [0%nat; 1%nat] ex_cs in
  (exc, inside, pos w', map (fun i => bLocks (get_b w' i)) [0%nat; 1%nat],
   map (fun i => map (fun k => isSome (bB (get_b w' i) k)) [":tx_lock:a"; ":tx_lock:n"; ":tx_lock:b"; "a"]) [0%nat; 1%nat])
  = (true, false, 5%nat, [[]; []], [[false; false; false; false]; [false; false; false; false]]).
Proof.
  split; [|split; [|vm_compute; reflexivity]].
  - intros i [<-|[<-|[]]]; (split; [|constructor]); unfold BI; cbn; (split; [lia|]); (split; [constructor|]);
      (split; [intros ? []|]); (split; [intros lk _ H; exfalso; apply H; reflexivity|intros ? []]).
  - repeat constructor; cbn; try lia; intros k [<-|[]]; reflexivity.
Qed.

(* non-vacuity with expire in the body: a lives in the store without a deadline; `expire a` alone in a LOCKED block gives it
   one at commit and releases the lock; when the block's read of the store (the second underlying command) fails, the caller
   sees the exception, a keeps no deadline and no lock is left *)
Definition ex_w2 (fl : list nat) : world :=
  {| bks := [txb0 (s_write empty 0 "a" (VInt 7) 0)]; pos := 0; faults := fl; lorder := [[]] |}.
Example C16_example_expire :
  prog_ok 1 [(0%nat, BExpire "a" 32)] /\
  map (fun fl => let '(w', exc, inside) := block MLocked ["a"] 0 (ex_w2 fl) [0%nat] [(0%nat, BExpire "a" 32)] in
                 (exc, inside, bLocks (get_b w' 0), bB (get_b w' 0) "a", isSome (bB (get_b w' 0) ":tx_lock:a"))) [[]; [1%nat]]
  = [(false, false, [], Some (Some 32, VInt 7), false); (true, false, [], Some (None, VInt 7), false)].
Proof. split; [repeat constructor; cbn; try lia; intros k [<-|[]]; reflexivity|vm_compute; reflexivity]. Qed.

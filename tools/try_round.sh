#!/bin/sh
# tools/try_round.sh <round> [props...]: run the property's own check against every seeded change of /tmp/mutout<round>_Cxx/mN (scratch worktrees only)
R="$1"; shift
PROPS="${*:-C01 C02 C03 C04 C05 C06 C07 C08 C09 C10 C11 C12 C13 C14 C15 C16 C17 C18 C19 C20}"
cd "$(dirname "$0")/.."
for P in $PROPS; do
  for M in m1 m2; do
    D="/tmp/mutout${R}_$P/$M"
    [ -f "$D/patch.diff" ] || { echo "$P $M : no output yet"; continue; }
    sed -i 's#/tmp/redis_standin#/verif/harness/fake_redis#' "$D/demo.py" 2>/dev/null
    OUT=$(timeout 1200 tools/try_mutant_wt.sh "$D" "$P" 2>&1 | grep -v KNOWN)
    DEMO=$(echo "$OUT" | grep -A1 "demo on mutated" | tail -1)
    LINE=$(echo "$OUT" | tail -1 | cut -c1-140)
    if echo "$OUT" | grep -q "VIOLATION"; then V="CAUGHT"; else V="MISSED"; fi
    echo "$P $M $V [demo: $DEMO] $LINE"
  done
done

#!/usr/bin/env python3
"""tools/fails.py Cxx [n] : list the failing cases of a property (debug aid): runs the generators+impl+model and prints failing cases"""
import sys, json, random, os
sys.path.insert(0, os.environ.get("VERIF_REPO", "/repo")); sys.path.insert(0, "/verif")
from harness import core
import importlib
pid = sys.argv[1]; n = int(sys.argv[2]) if len(sys.argv) > 2 else 10
prop = importlib.import_module("harness.props." + pid.lower())
cases = prop.gen_cases(random.Random(0), os.environ.get("VERIF_TIER", "quick"))
obs = [prop.run_impl(c) for c in cases]
fails, _ = core.eval_cases(pid, prop.RUN_MODULE, [prop.to_coq(c, o) for c, o in zip(cases, obs)], tag="dbg")
print(len(fails), "failing of", len(cases))
seen = set()
for i, ag, ok, ex in fails:
    key = json.dumps(cases[i])[:60]
    print(i, "agree" if ag else "DISAGREE", "ok" if ok else "SPECFAIL", ex, json.dumps(cases[i])[:300], "->", json.dumps(obs[i])[:300])
    n -= 1
    if n <= 0: break

(* C05 - concurrent transactions commit exactly their own writes; no lost increments. Statements only. *)
From Cashews Require Import Base.Prelude Model.TxnConc Proofs.TxnConcProofs Proofs.TxnConcCommit.
Open Scope Z_scope.

(* Everything below is for every number of tasks, every program and every schedule: an event is one task doing its next
   step (one backend command, or local work) or time passing; run_from folds any list of events. *)

(* (b) a task that is in no transaction acts on the store directly, and no task's transaction state changes *)
Theorem C05_no_capture : forall c i h cm rest,
  cur (tasks c i) = None -> items (tasks c i) = Direct cm :: rest -> wake (tasks c i) <= now c ->
  let c' := fst (run_task c i h) in
  store c' = direct_store (store c) cm /\ (forall j, cur (tasks c' j) = cur (tasks c j)) /\ items (tasks c' i) = rest.
Proof. exact tx_no_capture. Qed.
Print Assumptions C05_no_capture.

(* a step of task i leaves every other task's state alone *)
Theorem C05_frame : forall c i h j, j <> i -> tasks (fst (run_task c i h)) j = tasks c j.
Proof. exact run_task_frame. Qed.
Print Assumptions C05_frame.

(* (a) a task inside a block changes the store only at its commit, only if its body ended normally, and what it writes
   is the delete set / overlay obtained by applying in order the local effects of the block's own write commands *)
Theorem C05_own_writes : forall progs st tmo att evs i h x, let c := run_from (init progs st tmo att) evs in
  cur (tasks c i) = Some x ->
  let c' := fst (run_task c i h) in
  (store c' = store c) \/
  (tfail x = None /\ braise (tblock x) = false /\
   filter is_write (bcmds (tblock x)) = map lkind (texec x) /\
   let eff := fold_left lapply (texec x) ([], []) in
   ((tphase x = PCommitDel /\ store c' = (fun k => if memk k (snd eff) then None else store c k)) \/
    (tphase x = PCommitSet /\ store c' = (fun k => match lookup (fst eff) k with Some v => Some v | None => store c k end)))).
Proof. exact tx_own_writes. Qed.
Print Assumptions C05_own_writes.

Theorem C05_failed_writes_nothing : forall progs st tmo att evs i h x, let c := run_from (init progs st tmo att) evs in
  cur (tasks c i) = Some x -> (tfail x <> None \/ braise (tblock x) = true) -> store (fst (run_task c i h)) = store c.
Proof. exact tx_failed_writes_nothing. Qed.
Print Assumptions C05_failed_writes_nothing.

(* every commit recorded in the write log is the complete list of write effects of one normally-ended block *)
Theorem C05_log_is_own_writes : forall progs st tmo att evs, LogOk (run_from (init progs st tmo att) evs).
Proof. exact tx_log_is_own_writes. Qed.
Print Assumptions C05_log_is_own_writes.

(* ... and no transaction (token) ever issues more than one delete_many and one set_many: a block is committed at most once *)
Theorem C05_commit_at_most_once : forall progs st tmo att evs tk,
  let c := run_from (init progs st tmo att) evs in
  (cnt WDelMany tk (wlog c) <= 1)%nat /\ (cnt WSetMany tk (wlog c) <= 1)%nat.
Proof. exact tx_commit_at_most_once. Qed.
Print Assumptions C05_commit_at_most_once.

(* ... and at least once: a block that has not failed and has reached its release phase - from which it can only hand its body's
   results to the caller - has issued the delete_many of its whole delete set and the set_many of its whole overlay (when non-empty) *)
Theorem C05_commit_complete : forall progs st tmo att evs i x,
  let c := run_from (init progs st tmo att) evs in
  cur (tasks c i) = Some x -> tphase x = PUnlock -> tfail x = None ->
  (snd (fin x) <> [] -> In (i, ttoken x, WDelMany, texec x) (wlog c)) /\
  (fst (fin x) <> [] -> In (i, ttoken x, WSetMany, texec x) (wlog c)).
Proof. exact tx_commit_complete. Qed.
Print Assumptions C05_commit_complete.

(* locks: two tasks holding the same lock key, each within the timeout it took it with, are the same task *)
Theorem C05_lock_mutex : forall progs st tmo att evs i j x y lk d d',
  let c := run_from (init progs st tmo att) evs in
  cur (tasks c i) = Some x -> cur (tasks c j) = Some y -> In (lk, d) (theld x) -> In (lk, d') (theld y) ->
  now c < d -> now c < d' -> i = j.
Proof. exact tx_lock_mutex. Qed.
Print Assumptions C05_lock_mutex.

(* (c) locked / serializable, every block in that mode, the counter k written inside blocks only, by increments (and expire calls, which write back the value read under the lock), nobody
   inside a block beyond the timeout: the counter equals its initial value plus the increments of the committed blocks *)
Theorem C05_no_lost_incr : forall m k progs st tmo att evs, m <> Fast -> wf_progs m k progs ->
  safe (init progs st tmo att) evs ->
  let c := run_from (init progs st tmo att) evs in
  val (store c k) = val (st k) + committed k (wlog c).
Proof. exact tx_no_lost_incr. Qed.
Print Assumptions C05_no_lost_incr.

(* (d) serializable: two tasks that both have uncommitted or half-committed writes, neither past its timeout: impossible *)
Theorem C05_serial_phases : forall progs st tmo att evs i j x y k k', let c := run_from (init progs st tmo att) evs in
  cur (tasks c i) = Some x -> cur (tasks c j) = Some y -> tmode x = Serial -> tmode y = Serial ->
  touched x k = true -> touched y k' = true ->
  (forall d, In (O, d) (theld x) -> now c < d) -> (forall d, In (O, d) (theld y) -> now c < d) -> i = j.
Proof. exact tx_serial_phases. Qed.
Print Assumptions C05_serial_phases.

(* non-vacuity, and why the mode matters: the same interleaving of two incrementing blocks keeps both increments in
   LOCKED mode (the second task waits 0.1 s for the lock) and loses one in FAST mode *)
Definition ex_blk m d := Txn {| bmode := m; bcmds := [Incr 0 d]; braise := false |}.
Definition ex_evs := [Run 0 0; Run 1 0; Run 0 0; Run 1 0; Run 0 0; Run 1 0; Run 0 0; Run 0 0; Run 0 0; Run 0 0; Run 0 0; Tick 2;
                      Run 1 0; Run 1 0; Run 1 0; Run 1 0; Run 1 0; Run 1 0; Run 1 0]%nat.
Example C05_example :
  let cl := run_from (init [[ex_blk Locked 1]; [ex_blk Locked 2]] (fun _ => None) 11 6) ex_evs in
  let cf := run_from (init [[ex_blk Fast 1]; [ex_blk Fast 2]] (fun _ => None) 11 6) ex_evs in
  (store cl 0%nat, committed 0 (wlog cl), store cf 0%nat, committed 0 (wlog cf)) = (Some 3, 3, Some 2, 3).
Proof. vm_compute. reflexivity. Qed.
(* a counter that is also re-timed (expire) inside the blocks: the value read under the lock is written back unchanged *)
Definition ex_tblk m d := Txn {| bmode := m; bcmds := [Touch 0; Incr 0 d]; braise := false |}.
Definition ex_tevs := ([Run 0 0; Run 1 0; Run 0 0; Run 1 0; Run 0 0; Run 1 0] ++ repeat (Run 0 0) 10 ++ [Tick 2] ++ repeat (Run 1 0) 12)%nat.
Example C05_example_touch :
  let cl := run_from (init [[ex_tblk Locked 1]; [ex_tblk Locked 2]] (fun k => if Nat.eqb k 0 then Some 5 else None) 11 6) ex_tevs in
  (store cl 0%nat, committed 0 (wlog cl), map (fun i => outs (tasks cl i)) [0; 1]%nat) = (Some 8, 3, [[Ok [None; Some 6]]; [Ok [None; Some 8]]]) /\
  wf_progs Locked 0 [[ex_tblk Locked 1]; [ex_tblk Locked 2]].
Proof.
  split; [vm_compute; reflexivity|].
  assert (W : forall d, wf_item Locked 0 (ex_tblk Locked d)).
  { intro d. split; [reflexivity|]. constructor; [intros _ _; right; reflexivity|]. constructor; [intros _ _; left; eexists; reflexivity|constructor]. }
  repeat (constructor; try apply W).
Qed.
Example C05_example_commit_complete :
  let c := run_from (init [[ex_blk Locked 1]; [ex_blk Locked 2]] (fun _ => None) 11 6) (firstn 9 ex_evs) in
  match cur (tasks c 0%nat) with
  | Some x => tphase x = PUnlock /\ tfail x = None /\ fin x = ([(0%nat, 1)], []) /\ wlog c = [(0%nat, ttoken x, WSetMany, texec x)]
  | None => False
  end.
Proof. vm_compute. repeat split; reflexivity. Qed.
Example C05_example_safe : safe (init [[ex_blk Locked 1]; [ex_blk Locked 2]] (fun _ => None) 11 6) ex_evs /\ wf_progs Locked 0 [[ex_blk Locked 1]; [ex_blk Locked 2]].
Proof.
  split.
  - cbn [safe ex_evs]. repeat (split; [intros i x lk d Hc Hin; revert Hc; (destruct i as [|[|i]]; vm_compute; intro Hc; [| |discriminate]; try discriminate; injection Hc as <-; vm_compute in Hin; repeat (destruct Hin as [Hin|Hin]; [injection Hin as <- <-; vm_compute; reflexivity|]); try destruct Hin)|]). exact I.
  - assert (W : forall d, wf_item Locked 0 (ex_blk Locked d)).
    { intro d. split; [reflexivity|]. constructor; [intros _ _; left; eexists; reflexivity|constructor]. }
    repeat (constructor; try apply W).
Qed.

(* Correspondence + oracle + known-finding predicates for C12 (tags). *)
From Cashews Require Import Base.Prelude Spec.TTLMap Model.Tags.
Open Scope string_scope.
Open Scope list_scope.
Open Scope Z_scope.

(* obs per step: which probed keys are readable just before the event (after lazy expiry) and after it *)
(* one call of the facade: a single model event, or delete_tags with several tags = the single-tag steps one after the other *)
Inductive rev := One (e : tev) | ManyTags (ts : list string).
Inductive case :=
| CTags (reg : registry) (keys : list key) (h : list (Z * rev)) (o : list (list bool * list bool))
(* only the keys in `probed` are read between the commands (the others are watched without touching them: they stay in the
   store past their deadline until a command meets them) *)
| CTagsLazy (reg : registry) (probed keys : list key) (h : list (Z * rev)) (o : list (list bool * list bool)).

Definition rstep (reg : registry) (keys : list key) (m : tmap) (now : Z) (e : rev) : tmap :=
  match e with
  | One e => tag_step reg keys m now e
  | ManyTags ts => fold_left (fun m' t => tag_step reg keys m' now (TDeleteTags t)) ts (purge reg keys m now)
  end.
Definition lift (h : list (Z * tev)) : list (Z * rev) := map (fun te => (fst te, One (snd te))) h.
(* the same history with every multi-tag call spelled out *)
Definition expand (h : list (Z * rev)) : list (Z * tev) :=
  flat_map (fun te => match snd te with One e => [(fst te, e)] | ManyTags ts => map (fun t => (fst te, TDeleteTags t)) ts end) h.

Fixpoint run_tags (reg : registry) (keys : list key) (m : tmap) (h : list (Z * rev)) : list (list bool * list bool) :=
  match h with
  | [] => []
  | (t, e) :: r =>
      let before := readable keys (purge reg keys m t) t in
      let m' := rstep reg keys m t e in
      (before, readable keys m' t) :: run_tags reg keys m' r
  end.

Definition rstep_lazy (reg : registry) (probed keys : list key) (m : tmap) (now : Z) (e : rev) : tmap :=
  match e with
  | One e => tag_step_lazy reg probed keys m now e
  | ManyTags ts => fold_left (fun m' t => tag_step_lazy reg probed keys m' now (TDeleteTags t)) ts (purge reg probed m now)
  end.
Fixpoint run_tags_lazy (reg : registry) (probed keys : list key) (m : tmap) (h : list (Z * rev)) : list (list bool * list bool) :=
  match h with
  | [] => []
  | (t, e) :: r =>
      let before := readable keys (purge reg probed m t) t in
      let m' := rstep_lazy reg probed keys m t e in
      (before, readable keys m' t) :: run_tags_lazy reg probed keys m' r
  end.

(* ---------- oracle from observations ---------- *)
(* per key: tags of its latest write, tags carried by any write since its last explicit delete *)
Definition kinfo := (key * (list string * list string))%type.
Definition info_get (i : list kinfo) (k : key) : list string * list string :=
  match find (fun e => String.eqb (fst e) k) i with Some e => snd e | None => ([], []) end.
Definition info_set (i : list kinfo) (k : key) (v : list string * list string) : list kinfo :=
  (k, v) :: filter (fun e => negb (String.eqb (fst e) k)) i.
Definition bl_eqb := list_eqb Bool.eqb.

Definition deleted_tags (e : rev) : option (list string) :=
  match e with One (TDeleteTags t) => Some [t] | ManyTags ts => Some ts | _ => None end.
Fixpoint ok_tags (keys : list key) (i : list kinfo) (h : list (Z * rev)) (o : list (list bool * list bool)) : bool :=
  match h, o with
  | [], [] => true
  | (_, e) :: h', (before, after) :: o' =>
      (* a key that is not readable any more has lost its latest write *)
      let i := fold_left (fun i kb => if (snd kb : bool) then i else info_set i (fst kb) ([], snd (info_get i (fst kb)))) (combine keys before) i in
      match deleted_tags e with
      | Some ts =>
          forallb (fun kba => let '(k, (b, a)) := kba in
                     let '(latest, since) := info_get i k in
                     (if existsb (fun t => mems t latest) ts then negb a else true) &&          (* complete *)
                     (if existsb (fun t => mems t since) ts then true else Bool.eqb a b))       (* precise *)
                  (combine keys (combine before after)) &&
          ok_tags keys (fold_left (fun i ka => if (snd ka : bool) then i else info_set i (fst ka) ([], snd (info_get i (fst ka)))) (combine keys after) i) h' o'
      | None =>
          match e with
          | One (TSet k _ _ tags) | One (TIncr k _ _ tags) => ok_tags keys (info_set i k (tags, tags ++ snd (info_get i k))) h' o'
          | One (TDel k) => ok_tags keys (info_set i k ([], [])) h' o'
          | One (TDelPrefix p) => ok_tags keys (fold_left (fun i k => match drop_prefix p k with Some _ => info_set i k ([], []) | None => i end) keys i) h' o'
          | _ => ok_tags keys i h' o'
          end
      end
  | _, _ => false
  end.

(* ---------- known findings ---------- *)
Definition dle (a b : option Z) : bool :=     (* a <= b with None = never *)
  match a, b with _, None => true | None, Some _ => false | Some x, Some y => x <=? y end.
Definition entry_deadline (m : tmap) (now : Z) (k : key) : option (option Z) := option_map fst (s_look m now k).
(* F20: after a tagged write, the tag set lapses before one of its live members *)
Definition f20_after (m : tmap) (now : Z) (tags : list string) : bool :=
  existsb (fun t => match entry_deadline m now (tag_key t) with
                    | Some D => existsb (fun x => match entry_deadline m now x with Some dx => negb (dle dx D) | None => false end)
                                        (set_of m now (tag_key t))
                    | None => false end) tags.
Fixpoint excl_f20 (reg : registry) (keys : list key) (m : tmap) (h : list (Z * tev)) : bool :=
  match h with
  | [] => false
  | (t, e) :: r =>
      let m' := tag_step reg keys m t e in
      (match e with TSet _ _ _ tags | TIncr _ _ _ tags => f20_after m' t tags | _ => false end) || excl_f20 reg keys m' r
  end.
Fixpoint excl_f20_lazy (reg : registry) (probed keys : list key) (m : tmap) (h : list (Z * tev)) : bool :=
  match h with
  | [] => false
  | (t, e) :: r =>
      let m' := tag_step_lazy reg probed keys m t e in
      (match e with TSet _ _ _ tags | TIncr _ _ _ tags => f20_after m' t tags | _ => false end) || excl_f20_lazy reg probed keys m' r
  end.
(* F21: a key carrying a tag that the registry does not associate with it is explicitly deleted *)
Fixpoint excl_f21 (reg : registry) (keys : list key) (i : list kinfo) (h : list (Z * tev)) : bool :=
  match h with
  | [] => false
  | (_, e) :: r =>
      let unreg k := existsb (fun t => negb (mems t (key_tags reg k))) (snd (info_get i k)) in
      match e with
      | TSet k _ _ tags | TIncr k _ _ tags => excl_f21 reg keys (info_set i k (tags, tags ++ snd (info_get i k))) r
      | TDel k => unreg k || excl_f21 reg keys (info_set i k ([], [])) r
      | TDelPrefix p => existsb (fun k => match drop_prefix p k with Some _ => unreg k | None => false end) keys ||
                        excl_f21 reg keys (fold_left (fun i k => match drop_prefix p k with Some _ => info_set i k ([], []) | None => i end) keys i) r
      | TDeleteTags _ => excl_f21 reg keys i r
      end
  end.

Definition pair_eqb (a b : list bool * list bool) := bl_eqb (fst a) (fst b) && bl_eqb (snd a) (snd b).
Definition judge (c : case) : verdict :=
  match c with
  | CTags reg keys h o =>
      (list_eqb pair_eqb (run_tags reg keys empty h) o, ok_tags keys [] h o,
       (if excl_f20 reg keys empty (expand h) then [20%nat] else []) ++ (if excl_f21 reg keys [] (expand h) then [21%nat] else []))
  | CTagsLazy reg probed keys h o =>
      (list_eqb pair_eqb (run_tags_lazy reg probed keys empty h) o, ok_tags keys [] h o,
       (if excl_f20_lazy reg probed keys empty (expand h) then [20%nat] else []) ++ (if excl_f21 reg keys [] (expand h) then [21%nat] else []))
  end.
Definition explain (c : case) :=
  match c with CTags reg keys h _ => run_tags reg keys empty h | CTagsLazy reg probed keys h _ => run_tags_lazy reg probed keys empty h end.

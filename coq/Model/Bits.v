(* Executable image of cashews/utils/_bitarray.py (class Bitarray over a Python int),
   cashews/utils/split_hash.py:get_indexes and the filter logic of
   cashews/decorators/bloom.py:61-99.  Definitions only. *)
From Cashews Require Import Base.Prelude.
Open Scope N_scope.

(* Bitarray.get: for bit_index, i in enumerate(range(index*size, (index+1)*size)):
                   value |= ((self._value >> i) & 1) << bit_index *)
Fixpoint get_loop (v base : N) (n : nat) (j acc : N) : N :=
  match n with
  | O => acc
  | S n' => get_loop v base n' (j + 1) (N.lor acc (N.shiftl (N.b2n (N.testbit v (base + j))) j))
  end.
Definition bget (v index size : N) : N := get_loop v (index * size) (N.to_nat size) 0 0.

(* Bitarray.set: for i in range(size): _set_bit_1 / _set_bit_0 at index*size+i *)
Fixpoint set_loop (v base x : N) (n : nat) (i : N) : N :=
  match n with
  | O => v
  | S n' => set_loop (if N.testbit x i then N.setbit v (base + i) else N.clearbit v (base + i))
                     base x n' (i + 1)
  end.
Definition bset (v index x size : N) : N := set_loop v (index * size) x (N.to_nat size) 0.

(* Bitarray.incr:
     by = min(by, 2**size - 1) if by > 0 else max(by, -(2**size) - 1)
     value = self.get(index, size) + by ; value = min(max(0, value), 2**size - 1) ; set *)
Definition clamp_by (size : N) (by_ : Z) : Z :=
  let p := Z.of_N (2 ^ size) in
  if (0 <? by_)%Z then Z.min by_ (p - 1) else Z.max by_ (- p - 1).
Definition bincr (v index size : N) (by_ : Z) : N :=
  let p := Z.of_N (2 ^ size) in
  let value := (Z.of_N (bget v index size) + clamp_by size by_)%Z in
  let value := Z.min (Z.max 0 value) (p - 1) in
  bset v index (Z.to_N value) size.

(* Memory.get_bits / incr_bits on one key's array (Bitarray("0") when absent). *)
Definition get_bits (v : N) (idxs : list N) (size : N) : list N := map (fun i => bget v i size) idxs.
Fixpoint incr_bits (v : N) (idxs : list N) (size : N) (by_ : Z) : N * list N :=
  match idxs with
  | [] => (v, [])
  | i :: r => let v1 := bincr v i size by_ in
              let '(v2, outs) := incr_bits v1 r size by_ in (v2, bget v1 i size :: outs)
  end.

(* get_indexes.  [H ii i] stands for algorithms[ii](f"{key}_{i}".encode()) for the key at
   hand; the while loop gets explicit fuel (its termination depends on the hash). *)
Section Indexes.
Variable H : N -> N -> N.
Definition memN (x : N) (l : list N) : bool := existsb (N.eqb x) l.
Fixpoint probe (fuel : nat) (m ii i : N) (idx : list N) : option N :=
  match fuel with
  | O => None
  | S f => let v := H ii i mod m in if memN v idx then probe f m ii (i + 1) idx else Some v
  end.
Fixpoint indexes_loop (fuel : nat) (nalg m : N) (is_ : list N) (idx : list N) : option (list N) :=
  match is_ with
  | [] => Some idx
  | i :: r => match probe fuel m (i mod nalg) i idx with
              | None => None
              | Some v => indexes_loop fuel nalg m r (v :: idx)
              end
  end.
Fixpoint nseq (start : N) (len : nat) : list N :=
  match len with O => [] | S l => start :: nseq (start + 1) l end.
(* result: the set of indexes, most recently added first; None = fuel exhausted *)
Definition get_indexes (fuel : nat) (nalg k m : N) : option (list N) :=
  indexes_loop fuel nalg m (nseq 0 (N.to_nat k)) [].
End Indexes.

(* bloom.py: __set adds (incr_bits size=1 by=1 on every index) when the wrapped result is
   truthy; _wrap answers from get_bits. *)
Definition bloom_add (v : N) (idxs : list N) : N := fst (incr_bits v idxs 1 1%Z).
Definition all_set (vals : list N) : bool := forallb (fun x => negb (x =? 0)) vals.
(* answer of _wrap: Some b = filter decided b; None = wrapped function consulted *)
Definition bloom_query (v : N) (idxs : list N) (check_fp : bool) : option bool :=
  if all_set (get_bits v idxs 1) then (if check_fp then None else Some true) else Some false.

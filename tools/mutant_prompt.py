#!/usr/bin/env python3
"""prints the sub-agent prompt for a property id (property text only, nothing from /verif's machinery)"""
import json, sys
pid = sys.argv[1]
rnd = sys.argv[2] if len(sys.argv) > 2 else ""          # e.g. "2": a later round, told what was tried before
p = [json.loads(l) for l in open("/verif/properties.jsonl") if json.loads(l)["id"] == pid][0]
wt = f"/tmp/mut{rnd}_{pid}"
out = f"/tmp/mutout{rnd}_{pid}"
redis_note = "redis/diskcache are not installed, so only the in-memory backend (and code importable without redis) can be exercised, unless you write a stub."
if pid in ("C19", "C20"):
    redis_note = ("The real `redis` package is not installed and no server exists. An in-process stand-in has been copied to /tmp/redis_standin (a package named `redis` implementing the part of "
                  "redis-py's asyncio client that cashews uses, on an in-process server: SET/GET/MGET/UNLINK/EXISTS/SCAN/PEXPIRE/TTL/INCRBY/SADD/SREM/SPOP/ZADD/ZCOUNT/ZREMRANGEBYSCORE/BITFIELD/"
                  "DBSIZE/FLUSHDB/SCRIPT LOAD/EVALSHA with a small Lua interpreter, pub/sub with CLIENT TRACKING BCAST invalidation; `from redis.server import server_for; srv = server_for(url); "
                  "srv.down = True` makes every command raise ConnectionError, `srv.drop_connections()` closes the pub/sub connections, `srv.data` is the keyspace, time is time.time()). Put it FIRST on "
                  "sys.path in your demo (sys.path.insert(0, '/tmp/redis_standin')) and use e.g. `cashews.backends.redis.Redis('redis://x', suppress=True)` / `cache.setup('redis://x', client_side=True)`; "
                  "read its source freely. The pytest suite does not use it (its numbers stay as they are).")
earlier = ""
if rnd:
    import glob, os
    prev = []
    for d in sorted(glob.glob(f"/verif/seeded/{pid}_*")):
        prev.append("- " + json.load(open(os.path.join(d, "meta.json"))).get("summary", "")[:400].replace("\n", " "))
    if prev:
        earlier = "These changes were already tried in an earlier round - produce changes that differ from them in location AND kind, preferably in parts of the property they do not touch:\n" + "\n".join(prev) + "\n"
print(f"""You are helping test a verification tool by seeding realistic bugs. Work ONLY inside the git worktree {wt} (a checkout of the Python library Krukov/cashews, an async cache framework). Create it first with:  git -C /repo worktree add --detach {wt} HEAD   (if it already exists, reuse it). NEVER modify /repo itself, and do NOT read or list anything under /verif (that would spoil the experiment). Use /venv/bin/python (the library's deps are installed there; run things with PYTHONPATH={wt}). There is no network. {redis_note}

Here is a semantic property of the library that should hold:

ID: {p['id']} - {p['title']}
STATEMENT: {p['statement']}
QUANTIFIED OVER: {p['quantifier']['text']}
RELEVANT FILES: {', '.join(p['anchors']['files'])}
MECHANISMS: {'; '.join(m['name'] + ' @ ' + m['where'] for m in p['anchors']['mechanism'])}

TASK: produce TWO different, independent source changes (mutations) to the library, each of which BREAKS this property, while (1) the code still imports/compiles and (2) the existing test suite still passes exactly as before. The suite command is:
  cd {wt} && /venv/bin/python -m pytest -q -p no:cacheprovider --timeout=900 --continue-on-collection-errors -q tests 2>&1 | tail -5
On the unmodified tree it reports '14 failed, 761 passed, 6 xfailed, 4 xpassed, 766 errors' (the failures/errors are from missing redis/diskcache modules) - your mutated tree must report the same numbers of passed/failed.
Each mutation should be REALISTIC (the kind of slip a maintainer could make in a refactor: an off-by-one at a boundary, a dropped condition, a wrong variable, a reordered pair of statements, a missing await/cleanup, a wrong default) and SUBTLE: it should need something specific to manifest - a particular multi-step sequence of operations, a particular timing/interleaving, an unusual input, a boundary value, a fault at a particular point, or two cooperating sites that each look fine alone - NOT something ordinary use would expose at once. Make the two mutations differ in kind and location. Note the library may already contain some bugs related to this property; your mutation must introduce a NEW violation (behaviour that is correct on the unmodified tree and wrong on the mutated tree).

For each mutation i in (1, 2) write into the directory {out}/m<i>/ (create it):
  - patch.diff : output of `git -C {wt} diff` for that mutation alone (relative to the unmodified HEAD; apply-able with `git apply`)
  - demo.py    : a small self-contained program (run as `PYTHONPATH=<tree> /venv/bin/python demo.py`) that exits 0 and prints PASS on the unmodified tree and exits 1 and prints FAIL on the mutated tree, demonstrating the property violation through the public API. Use real short sleeps only if unavoidable (prefer monkeypatching time.time in cashews.backends.memory etc.).
  - meta.json  : {{"property": "{pid}", "summary": "...what was changed...", "needs": "...what is needed for the violation to manifest...", "suite_result": "...tail line of pytest on the mutated tree..."}}
Verify yourself: demo passes on clean tree (git stash or `git checkout -- .`), fails on the mutated tree, suite numbers unchanged for each mutation separately. {earlier}When done, leave the worktree CLEAN (git -C {wt} checkout -- .) but do not remove it. In your final answer, give a 3-line summary per mutation.""")

(* C04 - inside a transaction, commands see the store plus their own earlier writes. Statements only. *)
From Cashews Require Import Base.Prelude Spec.TTLMap Model.Tags Model.Txn Run.TxnCase Proofs.TxnProofs.
Open Scope Z_scope.

(* one command (any of get, get_many, exists, set +-exist, set_many, incr, delete, delete_many, expire, get_expire,
   delete_match, scan, get_match) in any state related to the direct store: same result (delete's boolean aside,
   get_expire as missing / not missing), and the relation - the transaction's view equals the direct store, key by key,
   and no pending delete coexists with a live overlay entry - is kept *)
Theorem C04_tx_step_sim : forall U t m now c, R t m now -> c <> TC Clear ->
  let '(t', r) := tx_step U t now c in
  let '(m', r') := d_step U m now c in
  tres_like c r r' = true /\ R t' m' now.
Proof. exact tx_step_sim. Qed.
Print Assumptions C04_tx_step_sim.

(* any initial store, any finite command sequence issued at one instant (so no deadline elapses inside) *)
Theorem C04_tx_view_eq_direct : forall U now h, Forall (fun e => fst e = now /\ snd e <> TC Clear) h ->
  forall t m, R t m now ->
  let '(t', res, _) := run_tx U t h in
  let '(m', res') := run_direct U m h in
  like_all h res res' = true /\ R t' m' now.
Proof. exact tx_view_eq_direct. Qed.
Print Assumptions C04_tx_view_eq_direct.

Theorem C04_begin_related : forall b now, R (tx_begin b) b now.
Proof. exact R_begin. Qed.
Print Assumptions C04_begin_related.

(* non-vacuity: the four reported cells - only-if-absent / only-if-present on a store-only key, failed only-if-present
   after delete, expire after set - behave as direct execution does *)
Example C04_example :
  let b := init_store 0 [("k", VInt 1, 0)]%string in
  let h := [(1, TC (Set_ "k" (VInt 2) 0 (Some false))); (1, TC (Set_ "k" (VInt 3) 0 (Some true))); (1, TC (Del "k"));
            (1, TC (Set_ "k" (VInt 4) 0 (Some true))); (1, TC (Get "k")); (1, TC (Set_ "k" (VInt 5) 0 None));
            (1, TC (Expire "k" 16)); (1, TC (Get "k"))]%string in
  snd (fst (run_tx ["k"%string] (tx_begin b) h)) = snd (run_direct ["k"%string] b h).
Proof. vm_compute. reflexivity. Qed.

"""C19: the Redis backend translates commands faithfully and degrades safely when the server is down."""
import asyncio
import logging
import os
import pickle
import sys

_FAKE = os.path.join(os.path.dirname(os.path.dirname(os.path.abspath(__file__))), "fake_redis")
if _FAKE not in sys.path:
    sys.path.insert(0, _FAKE)       # the stand-in for the missing `redis` package (see harness/fake_redis/redis/__init__.py)

from harness import vclock  # noqa: E402
from harness.core import C, Nat, S, Some, Z  # noqa: E402
from harness.memrun import dec, enc, val_to_coq  # noqa: E402

ID = "C19"
RUN_MODULE = "Spec.Glob Model.Redis Spec.RedisRef Run.C19"
EXPLAIN = "explain"
RULE = ("histories of 4-22 commands issued on a real cashews.backends.redis.Redis (suppress on / off, default pickling serializer) connected to the "
        "in-process server stand-in: set (plain / only-if-absent / only-if-present, with and without TTL), set_many, get, get_many, delete, delete_many, "
        "exists, expire, get_expire, incr with and without TTL, set_lock, unlock (owner / foreign token), is_locked (plain and with wait / step: the answer at the instant it returns and the time it took), scan, delete_match, get_match ('*' patterns), "
        "set_add (with / without TTL), set_remove, set_pop, get_bits, incr_bits (sizes 1-4, saturating), slice_incr, clear, get_keys_count, ping; virtual "
        "clock advances of 0-3 s in 1/8 s steps between commands (so TTLs lapse); the server is switched down / up at random positions - an outage shows as a redis ConnectionError, a redis TimeoutError, a bare OSError or asyncio.TimeoutError - (every "
        "position of short histories in the thorough tier); after every command the stand-in's whole keyspace is dumped. A tenth more histories drive one sliding window with one period at non-decreasing "
        "instants whose gaps are 0, 1, period-1, period, period+1 (earlier hits exactly on the window's edges). Second stream: every decorator "
        "(cache, early, soft, hit, failover, locked with and without waiting, thunder-protected, rate_limit, slice_rate_limit, circuit_breaker, bloom, iterator) stacked on the backend "
        "with the server down from the start or from the k-th call. non-trivial: the history contains a command while the server is down AND a TTL lapse "
        "or a rejected conditional write")
TRUSTED_BASE = ["Coq 8.16.1 kernel + vm_compute", "functional_extensionality_dep (Coq.Logic.FunctionalExtensionality; server states are functions)",
                "hand-written model coq/Model/Redis.v tied by this differential run (results and full keyspace after every command)",
                "harness/fake_redis: stand-in for redis-py AND the Redis server, written from the command reference, incl. an interpreter for the Lua subset of the three scripts; "
                "its fidelity to a real server is trusted (none is available offline)",
                "int(expire * 1000) is computed by the harness the way the code does and handed to the model as the TTL in ms"]
ASSUMPTIONS = ["is_locked(wait, step) is judged at the instant it returns (the model's exists there; C19_is_locked_wait ties the polling loop to that answer for a server nobody else writes to) and by the time it took; its individual polls are not observed",
               "keys of different value kinds are disjoint in generated histories (the model answers WRONGTYPE like the stand-in, but the reference is stated for well-typed use)",
               "the server goes down / comes back between commands, not between two server calls of one command",
               "SPOP returns the smallest members (the server may return any)"]
EXHAUSTIVE = {"quick": False, "thorough": False}
ALLOWED_AXIOMS = ["FunctionalExtensionality.functional_extensionality_dep"]   # named in TRUSTED_BASE
STR_KEYS = ["a", "b", "ab", "n", "m"]
U = sorted(["a", "b", "ab", "n", "m", "La", "sa", "sb", "za", "ba"])
VALUES = [1, 5, -3, "x", "hello", b"raw", None, 0, True, "123", "-7", b"42", "", False]      # numeric-looking text and bytes, empty and falsy values
DEFAULT = "<default>"
logging.getLogger("cashews.backends.redis.client").disabled = True
logging.getLogger("cashews.backends.redis.client_side").disabled = True


def _rand_cmd(rng):
    r = rng.random()
    k = rng.choice(["a", "b", "ab"])
    ttl = rng.choice([0, 0, 0.125, 0.5, 1.0, 1.1, 2.5, 0.3])
    if r < 0.14: return ["set", k, enc(rng.choice(VALUES)), ttl, rng.choice([None, None, True, False])]
    if r < 0.18: return ["set_many", [[kk, enc(rng.choice(VALUES))] for kk in rng.sample(["a", "b", "ab"], rng.randint(1, 2))], ttl]
    if r < 0.28: return ["get", rng.choice(STR_KEYS)]
    if r < 0.33: return ["get_many", [rng.choice(STR_KEYS) for _ in range(rng.randint(0, 3))]]
    if r < 0.38: return ["delete", rng.choice(U)]
    if r < 0.41: return ["delete_many", [rng.choice(U) for _ in range(rng.randint(1, 3))]]
    if r < 0.46: return ["exists", rng.choice(U)]
    if r < 0.51: return ["expire", rng.choice(U), rng.choice([0.125, 0.5, 1.0, 2.5])]
    if r < 0.58: return ["get_expire", rng.choice(U)]
    if r < 0.68: return ["incr", rng.choice(["n", "m"]), rng.choice([1, 1, 2, 3, -1, -2, 0]), rng.choice([0, 0, 0.5, 1.0])]
    if r < 0.72: return ["set_lock", "La", rng.choice(["t1", "t2"]), rng.choice([0.5, 1.0])]
    if r < 0.76:
        tok = rng.choice(["t1", "t2"])
        if r >= 0.745:      # (same draws as an unlock: the random stream of the histories is unchanged)
            return ["is_locked", "La", [None, 0.25, 0.5, 1.0][int(r * 1e4) % 4], [0.125, 0.25, 0.375][int(r * 1e5) % 3]]
        return ["unlock", "La", tok]
    if r < 0.79: return ["scan", rng.choice(["*", "a*", "*a", "s*", "b", "*b*"]), rng.choice([100, 1, 2, 3])]
    if r < 0.82: return ["delete_match", rng.choice(["a*", "*b", "n", "s*", "*"])]
    if r < 0.85: return ["get_match", rng.choice(["*", "a*", "*b", "n*", "m"]), rng.choice([100, 1, 2, 3])]
    if r < 0.89: return ["set_add", rng.choice(["sa", "sb"]), rng.sample(["x", "y", "z", "xa"], rng.randint(1, 3)), rng.choice([None, None, 0.5, 1.0])]
    if r < 0.91: return ["set_remove", rng.choice(["sa", "sb"]), rng.sample(["x", "y", "z"], rng.randint(1, 2))]
    if r < 0.93: return ["set_pop", rng.choice(["sa", "sb"]), rng.choice([1, 2, 100])]
    if r < 0.945: return ["get_bits", "ba", rng.choice([1, 2, 3, 4]), [rng.randint(0, 9) for _ in range(rng.randint(0, 3))]]
    if r < 0.96: return ["incr_bits", "ba", rng.choice([1, 2, 3, 4]), [rng.randint(0, 9) for _ in range(rng.randint(0, 3))], rng.choice([1, 1, 2, 7, -1, -3, 0])]
    if r < 0.985: return ["slice_incr", "za", rng.randint(0, 6), rng.choice([6, 6, 7, 9, 14]), rng.choice([1, 2, 3, 4]), rng.choice([0, 1.0, 2.5])]
    if r < 0.99: return ["count"]
    if r < 0.995: return ["clear"]
    return ["ping"]


def _rand_case(rng, maxlen=22):
    n = rng.randint(4, maxlen)
    hist, down = [], False
    p_switch = rng.choice([0.0, 0.1, 0.25])
    for _ in range(n):
        if rng.random() < p_switch: down = not down
        hist.append([rng.choice([0, 0, 0, 1, 2, 4, 8, 9, 20]), down, _rand_cmd(rng)])
    return {"kind": "history", "sup": rng.random() < 0.7, "hist": hist, "outage": rng.choice(["connection", "connection", "timeout", "oserror", "aio_timeout"])}


def _window_case(rng):
    """a sliding window driven the way slice_rate_limit drives it: one period, non-decreasing instants whose gaps hit the window edges exactly"""
    period = rng.choice([2, 5, 10])
    t = period + rng.randint(0, 3)
    maxv = rng.choice([2, 3, 4, 100])
    hist = []
    for _ in range(rng.randint(3, 10)):
        hist.append([0, False, ["slice_incr", "za", t - period, t, maxv, rng.choice([0, 0, 2.5])]])
        t += rng.choice([0, 1, 1, period - 1, period, period, period + 1])
        if rng.random() < 0.15: hist.append([rng.choice([0, 1]), False, _rand_cmd(rng)])
    return {"kind": "history", "sup": True, "hist": hist}


def _lock_cases():
    """take a lock, let part of its ttl pass, ask is_locked - plain, or waiting with a wait that ends before, at and after the
    lock's deadline and a step that does or does not divide the wait; then release or overstay and ask again (no random draws)"""
    out = []
    for ttl in (0.5, 1.0):
        for adv in (0, 2, 4):
            for wait in (None, 0.25, 0.5, 1.0):
                for step in (0.125, 0.25, 0.375):
                    if wait is None and step != 0.125: continue
                    hist = [[0, False, ["set_lock", "La", "t1", ttl]], [adv, False, ["is_locked", "La", wait, step]],
                            [0, False, ["set_lock", "La", "t2", 0.5]], [1, False, ["is_locked", "La", wait, step]],
                            [0, False, ["unlock", "La", "t2"]], [0, False, ["is_locked", "La", wait, step]]]
                    out.append({"kind": "history", "sup": (adv + int(ttl * 2)) % 3 != 0, "hist": hist})
    return out


def _bits_case(rng):
    """one bit-field key driven with one field width: increments / decrements of several fields, then reads of those and neighbouring fields"""
    size = rng.choice([2, 3, 4, 2, 4, 1])
    hist = []
    for _ in range(rng.randint(3, 9)):
        idx = [rng.randint(0, 6) for _ in range(rng.randint(1, 3))]
        if rng.random() < 0.55:
            hist.append([rng.choice([0, 0, 1]), False, ["incr_bits", "ba", size, idx, rng.choice([1, 1, 2, 3, 7, -1, -2])]])
        else:
            hist.append([rng.choice([0, 0, 1]), False, ["get_bits", "ba", size, sorted(set(idx + [max(0, idx[0] - 1), idx[0] + 1]))]])
    hist.append([0, False, ["get_bits", "ba", size, list(range(8))]])
    return {"kind": "history", "sup": True, "hist": hist}


DECORATORS = ["cache", "cache_lock", "early", "soft", "hit", "failover", "locked", "locked_nowait", "rate_limit", "slice_rate_limit", "circuit_breaker", "bloom", "dual_bloom", "iterator"]


def gen_cases(rng, tier):
    n = 500 if tier == "quick" else 6000
    cases = [_rand_case(rng) for _ in range(n)] + [_window_case(rng) for _ in range(n // 10)]
    cases += [_bits_case(rng) for _ in range(n // 12)]
    cases += _lock_cases()
    for d in DECORATORS:
        for down_from in (0, 1, 2):
            cases.append({"kind": "decor", "decorator": d, "down_from": down_from, "calls": 4})
    for shape in ("match_last_page", "match_first_page", "match_spread", "none"):
        for op in ("scan", "get_match", "delete_match"):
            cases.append({"kind": "bulk", "shape": shape, "op": op})
    if tier == "thorough":
        for _ in range(150):            # short histories: the server goes down at EVERY position (and stays down / comes back after two commands)
            base = _rand_case(rng, 8)
            for pos in range(len(base["hist"]) + 1):
                for back in (None, 2):
                    h = [[adv, (i >= pos and (back is None or i < pos + back)), c] for i, (adv, _, c) in enumerate(base["hist"])]
                    cases.append({"kind": "history", "sup": base["sup"], "hist": h})
    return cases


def _outage_exc(kind):
    """the exception class an unreachable server shows as: redis-py's ConnectionError / TimeoutError, a bare OSError, asyncio.TimeoutError"""
    import redis.exceptions as rx
    return {"timeout": rx.TimeoutError, "oserror": ConnectionResetError, "aio_timeout": asyncio.TimeoutError}.get(kind)


def _px(ttl):
    return int(ttl * 1000) if ttl else 0


async def _dump(server, be):
    out = []
    now = server.now()
    for k in U:
        e = server.data.get(k)
        if e is None or (e[2] is not None and e[2] <= now):
            out.append(None); continue
        kind, v, exp = e
        if kind == "string":
            if k.startswith("b") and k == "ba": val = ["bits", [(byte >> (7 - i)) & 1 for byte in v for i in range(8)]]
            elif v.isdigit() or (v[:1] == b"-" and v[1:].isdigit()): val = ["num", int(v)]
            elif k.startswith("L"): val = ["tok", v.decode()]
            else:
                try: val = ["val", enc(await be._serializer.decode(be, key=k, value=v, default=None))]
                except Exception: val = ["str", "<undecodable>"]  # noqa
        elif kind == "set": val = ["set", sorted(m.decode() for m in v)]
        else: val = ["zset", sorted(int(sc) for sc in v.values())]
        out.append([val, None if exp is None else exp - BASE_MS])
    return out


BASE_MS = int(vclock.BASE * 1000)


def _run_history(case):
    async def go():
        from redis.server import reset_servers, server_for
        reset_servers()
        from cashews.backends.redis import Redis
        from cashews.exceptions import CacheBackendInteractionError
        be = Redis("redis://c19", suppress=case["sup"])
        await be.init()
        srv = server_for("redis://c19")
        results, dumps, times = [], [], []
        for adv, down, c in case["hist"]:
            if adv: await asyncio.sleep(adv * 0.125)
            srv.down = bool(down)
            srv.down_exc = _outage_exc(case.get("outage"))
            op = c[0]
            try:
                if op == "set": r = ["bool", bool(await be.set(c[1], dec(c[2]), expire=c[3] or (0 if len(c[1]) % 2 else None), exist=c[4]))]
                elif op == "set_many": r = ["unit" if (await be.set_many({k: dec(v) for k, v in c[1]}, expire=c[2] or None)) is None else "odd"]
                elif op == "get":
                    v = await be.get(c[1], default=DEFAULT); r = ["val", None if isinstance(v, str) and v == DEFAULT else [enc(v)]]
                elif op == "get_many":
                    vs = await be.get_many(*c[1], default=DEFAULT); r = ["vals", [None if isinstance(v, str) and v == DEFAULT else [enc(v)] for v in vs]]
                elif op == "delete": r = ["bool", bool(await be.delete(c[1]))]
                elif op == "delete_many": r = ["unit" if (await be.delete_many(*c[1])) is None else "odd"]
                elif op == "exists": r = ["bool", bool(await be.exists(c[1]))]
                elif op == "expire":
                    v = await be.expire(c[1], c[2]); r = ["none"] if v is None else ["bool", bool(v)]
                elif op == "get_expire": r = ["int", int(await be.get_expire(c[1]))]
                elif op == "incr":
                    v = await be.incr(c[1], c[2], expire=c[3] or (0 if c[2] % 2 else None)); r = ["none"] if v is None else ["int", int(v)]
                elif op == "set_lock": r = ["bool", bool(await be.set_lock(c[1], c[2], c[3]))]
                elif op == "unlock":
                    v = await be.unlock(c[1], c[2]); r = ["none"] if v is None else ["int", int(v)]
                elif op == "is_locked":
                    t0 = srv.now()
                    v = bool(await (be.is_locked(c[1]) if c[2] is None else be.is_locked(c[1], wait=c[2], step=c[3])))
                    rounds = 0 if c[2] is None else -(-int(c[2] * 1000) // int(c[3] * 1000))
                    took = srv.now() - t0
                    # True only once the whole wait is used up; False at a poll instant no later than that
                    timely = took == rounds * int(c[3] * 1000) if v else (took <= rounds * int(c[3] * 1000) and took % int(c[3] * 1000) == 0)
                    r = ["bool", v] if timely else ["other", f"is_locked answered {v} after {took} ms"]
                elif op == "scan": r = ["keys", sorted([k async for k in be.scan(c[1], batch_size=c[2] if len(c) > 2 else 100)])]
                elif op == "delete_match": r = ["unit" if (await be.delete_match(c[1])) is None else "odd"]
                elif op == "get_match": r = ["pairs", sorted([[k, enc(v)] async for k, v in be.get_match(c[1], batch_size=c[2] if len(c) > 2 else 100) if k in STR_KEYS], key=lambda kv: kv[0])]   # reading a bit-field / lock key as a value is outside the property
                elif op == "set_add":
                    v = await be.set_add(c[1], *c[2], expire=c[3]); r = ["none"] if v is None else ["int", int(v)]
                elif op == "set_remove":
                    v = await be.set_remove(c[1], *c[2]); r = ["none"] if v is None else ["odd"]
                elif op == "set_pop": r = ["keys", sorted(await be.set_pop(c[1], c[2]))]
                elif op == "get_bits": r = ["ints", [int(x) for x in await be.get_bits(c[1], *c[3], size=c[2])]]
                elif op == "incr_bits": r = ["ints", [int(x) for x in await be.incr_bits(c[1], *c[3], size=c[2], by=c[4])]]
                elif op == "slice_incr":
                    v = await be.slice_incr(c[1], c[2], c[3], maxvalue=c[4], expire=c[5] or None); r = ["none"] if v is None else ["int", int(v)]
                elif op == "count":
                    v = await be.get_keys_count(); r = ["none"] if v is None else ["int", int(v)]
                elif op == "clear":
                    v = await be.clear(); r = ["none"] if v is None else ["bool", bool(v)]
                else:
                    v = await be.ping(); r = ["val", [enc(v)]]
            except CacheBackendInteractionError:
                r = ["raise"]
            except Exception as e:  # noqa
                r = ["other", type(e).__name__ + ": " + str(e)[:60]]
            results.append(r)
            was = srv.down; srv.down = False; srv.purge(); dumps.append(await _dump(srv, be)); srv.down = was
            times.append(srv.now() - BASE_MS)
        srv.down = False
        await be.close()
        return {"results": results, "dumps": dumps, "times": times}
    return vclock.run(go)


class Own(Exception):
    pass


def _run_decor(case):
    async def go():
        from redis.server import reset_servers, server_for
        reset_servers()
        from cashews import Cache
        cache = Cache()
        cache.setup("redis://c19d", suppress=True)
        await cache.init()
        srv = server_for("redis://c19d")
        d = case["decorator"]
        n = {"calls": 0}

        async def body(x):
            n["calls"] += 1
            return f"own-{x}-{n['calls']}"
        if d == "cache": f = cache(ttl=10)(body)
        elif d == "cache_lock": f = cache(ttl=10, lock=True)(body)
        elif d == "early": f = cache.early(ttl=10, early_ttl=5)(body)
        elif d == "soft": f = cache.soft(ttl=10, soft_ttl=5)(body)
        elif d == "hit": f = cache.hit(ttl=10, cache_hits=3)(body)
        elif d == "failover": f = cache.failover(ttl=10)(body)
        elif d == "locked": f = cache.locked(ttl=10)(body)
        elif d == "locked_nowait": f = cache.locked(ttl=10, wait=False)(body)
        elif d == "rate_limit": f = cache.rate_limit(limit=100, period=10)(body)
        elif d == "slice_rate_limit": f = cache.slice_rate_limit(limit=100, period=10)(body)
        elif d == "circuit_breaker": f = cache.circuit_breaker(errors_rate=50, period=10, ttl=5)(body)
        elif d == "bloom":
            async def pred(x):
                n["calls"] += 1
                return x % 2 == 0
            f = cache.bloom(capacity=100, false_positives=1)(pred)
        elif d == "dual_bloom":
            async def pred2(x):
                n["calls"] += 1
                return x % 2 == 0
            f = cache.dual_bloom(capacity=100, false=1)(pred2)
        else:
            async def gen(x):
                n["calls"] += 1
                for i in range(3):
                    yield f"own-{x}-{i}"
            g = cache.iterator(ttl=10)(gen)

            async def f(x):
                return [c async for c in g(x)]
        pairs, raised = [], None
        for i in range(case["calls"]):
            srv.down = i >= case["down_from"]
            srv.down_exc = _outage_exc(["connection", "timeout", "oserror", "aio_timeout"][(case["down_from"] + len(d)) % 4])
            x = i % 2 if d not in ("bloom", "dual_bloom") else i
            before = n["calls"]
            try:
                got = await f(x)
            except Exception as e:  # noqa
                raised = type(e).__name__ + ": " + str(e)[:80]
                break
            if d in ("bloom", "dual_bloom"): own = (x % 2 == 0) if srv.down else got      # an empty filter answers False by design: judged only while down
            elif d == "iterator": own = [f"own-{x}-{j}" for j in range(3)]
            else: own = f"own-{x}-{n['calls']}" if n["calls"] > before else got if not srv.down else "<function not called while the server is down>"
            pairs.append([got, own])
            await asyncio.sleep(0.25)
        srv.down = False
        await cache.close()
        return {"pairs": pairs, "raised": raised}
    return vclock.run(go)


def _run_bulk(case):
    """more keys than one SCAN page (count=100) holds: paging of scan / get_match / delete_match"""
    async def go():
        from redis.server import reset_servers, server_for
        reset_servers()
        from cashews.backends.redis import Redis
        be = Redis("redis://c19b", suppress=True)
        await be.init()
        srv = server_for("redis://c19b")
        shape = case["shape"]
        filler = [f"f{i:03d}" for i in range(230)]
        hits = {"match_last_page": ["z1", "z2"], "match_first_page": ["a1", "a2"], "match_spread": ["a1", "f1x", "z9"], "none": []}[shape]
        for k in filler + hits:
            await be.set(k, "v-" + k)
        pat = {"match_last_page": "z*", "match_first_page": "a*", "match_spread": "*1*", "none": "q*"}[shape]
        expect = sorted(k for k in filler + hits if _glob(pat, k))
        if case["op"] == "scan": got = sorted([k async for k in be.scan(pat)])
        elif case["op"] == "get_match":
            got = sorted([k async for k, v in be.get_match(pat) if v == "v-" + k])
        else:
            await be.delete_match(pat)
            left = sorted(k for k in srv.data)
            got, expect = left, sorted(k for k in filler + hits if k not in expect)
        await be.close()
        return {"pairs": [[got, expect]], "raised": None}
    return vclock.run(go)


def _glob(pat, k):
    import fnmatch
    return fnmatch.fnmatchcase(k, pat)


def run_impl(case):
    if case["kind"] == "history": return _run_history(case)
    return _run_decor(case) if case["kind"] == "decor" else _run_bulk(case)


def _cmd(c):
    op = c[0]
    if op == "set": return C("CSet", S(c[1]), val_to_coq(dec(c[2])), Z(_px(c[3])), None if c[4] is None else Some(c[4]))
    if op == "set_many": return C("CSetMany", [(S(k), val_to_coq(dec(v))) for k, v in c[1]], Z(_px(c[2])))
    if op == "get": return C("CGet", S(c[1]))
    if op == "get_many": return C("CGetMany", [S(k) for k in c[1]])
    if op == "delete": return C("CDel", S(c[1]))
    if op == "delete_many": return C("CDelMany", [S(k) for k in c[1]])
    if op == "exists": return C("CExists", S(c[1]))
    if op == "expire": return C("CExpire", S(c[1]), Z(_px(c[2])))
    if op == "get_expire": return C("CGetExpire", S(c[1]))
    if op == "incr": return C("CIncr", S(c[1]), Z(c[2]), Z(_px(c[3])))
    if op == "set_lock": return C("CSetLock", S(c[1]), C("VStr", S(c[2])), Z(_px(c[3])))
    if op == "unlock": return C("CUnlock", S(c[1]), C("VStr", S(c[2])))
    # is_locked, plain or waiting, answers whether the key is alive at the instant it returns (the history carries the instant
    # at which each command returned; nothing else touches the key during a wait, so Properties/C06.v: C06_is_locked_wait applies)
    if op == "is_locked": return C("CExists", S(c[1]))
    if op == "scan": return C("CScan", S(c[1]))
    if op == "delete_match": return C("CDelMatch", S(c[1]))
    if op == "get_match": return C("CGetMatch", S(c[1]))
    if op == "set_add": return C("CSetAdd", S(c[1]), [S(m) for m in c[2]], None if c[3] is None else Some(Z(_px(c[3]))))
    if op == "set_remove": return C("CSetRemove", S(c[1]), [S(m) for m in c[2]])
    if op == "set_pop": return C("CSetPop", S(c[1]), Nat(c[2]))
    if op == "get_bits": return C("CGetBits", S(c[1]), Nat(c[2]), [Nat(i) for i in c[3]])
    if op == "incr_bits": return C("CIncrBits", S(c[1]), Nat(c[2]), [Nat(i) for i in c[3]], Z(c[4]))
    if op == "slice_incr": return C("CSliceIncr", S(c[1]), Z(c[2]), Z(c[3]), Z(c[4]), Z(_px(c[5])))
    if op == "count": return C("CCount")
    if op == "clear": return C("CClear")
    return C("CPing")


def _ov(x):
    return None if x is None else Some(val_to_coq(dec(x[0])))


def _res(r):
    k = r[0]
    if k == "bool": return C("BBool", bool(r[1]))
    if k == "unit": return C("BUnit")
    if k == "none": return C("BNone")
    if k == "val": return C("BVal", _ov(r[1]))
    if k == "vals": return C("BVals", [_ov(x) for x in r[1]])
    if k == "int": return C("BInt", Z(r[1]))
    if k == "ints": return C("BInts", [Z(x) for x in r[1]])
    if k == "keys": return C("BKeys", [S(x) for x in r[1]])
    if k == "pairs": return C("BPairs", [(S(a), val_to_coq(dec(b))) for a, b in r[1]])
    if k == "raise": return C("BRaise")
    return C("BOther")


def _entry(e):
    if e is None: return None
    (kind, v), exp = e
    if kind == "bits": rv = C("RBits", [bool(b) for b in v])
    elif kind == "num": rv = C("RNum", Z(v))
    elif kind == "str": rv = C("RStr", C("VStr", S(v)))
    elif kind == "tok": rv = C("RTok", C("VStr", S(v)))
    elif kind == "val": rv = C("RStr", val_to_coq(dec(v)))
    elif kind == "set": rv = C("RSet", [S(m) for m in v])
    else: rv = C("RZSet", [Z(m) for m in v])
    return Some((rv, None if exp is None else Some(Z(exp))))


def to_coq(case, obs):
    if case["kind"] in ("decor", "bulk"):
        pairs = [(C("VStr", S(repr(a))), C("VStr", S(repr(b)))) for a, b in obs["pairs"]]
        return C("CDecor", pairs, obs["raised"] is not None)
    h = [((Z(t), bool(down)), _cmd(c)) for (adv, down, c), t in zip(case["hist"], obs["times"])]
    return C("CRedis", bool(case["sup"]), [S(k) for k in U], h, [_res(r) for r in obs["results"]], [[_entry(e) for e in d] for d in obs["dumps"]])


def nontrivial(case, obs):
    if case["kind"] in ("decor", "bulk"):
        return True
    down = any(d for _, d, _ in case["hist"])
    lapse = False
    for i in range(1, len(obs["dumps"])):
        for a, b, in zip(obs["dumps"][i - 1], obs["dumps"][i]):
            if a is not None and b is None and case["hist"][i][2][0] not in ("delete", "delete_many", "delete_match", "clear", "unlock", "set_pop", "set_remove", "expire", "slice_incr"):
                lapse = True
    rejected = any(c[0] in ("set", "set_lock") and r == ["bool", False] and not d for (_, d, c), r in zip(case["hist"], obs["results"]))
    return down and (lapse or rejected)


def classify(case, obs):
    if case["kind"] == "bulk":
        return {"bulk_paging_runs": 1, "bulk_" + case["op"]: 1}
    if case["kind"] == "decor":
        return {"decorator_runs": 1, "decor_" + case["decorator"]: 1, "decorated_calls": len(obs["pairs"]), "decorated_raised": int(obs["raised"] is not None)}
    d = {"histories": 1, "commands": len(case["hist"]), "suppress_on": int(case["sup"]), "commands_while_down": sum(1 for _, dn, _ in case["hist"] if dn)}
    for (_, dn, c), r in zip(case["hist"], obs["results"]):
        d["cmd_" + c[0]] = d.get("cmd_" + c[0], 0) + 1
        d["res_" + r[0] + ("_down" if dn else "")] = d.get("res_" + r[0] + ("_down" if dn else ""), 0) + 1
    return d


def shrink(case):
    if case["kind"] == "bulk":
        return
    if case["kind"] != "history":
        if case["calls"] > 1:
            c = dict(case); c["calls"] = case["calls"] - 1; yield c
        return
    h = case["hist"]
    for i in range(len(h)):
        if len(h) > 1:
            c = dict(case); c["hist"] = h[:i] + h[i + 1:]; yield c
    for i, (adv, dn, cm) in enumerate(h):
        if adv:
            c = dict(case); c["hist"] = h[:i] + [[0, dn, cm]] + h[i + 1:]; yield c
        if dn:
            c = dict(case); c["hist"] = h[:i] + [[adv, False, cm]] + h[i + 1:]; yield c

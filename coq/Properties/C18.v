(* C18 - Bloom filter: no false negatives; bit fields are independent saturating counters.
   Statements only; every proof is `exact <lemma>` from Proofs/BitsProofs.v. *)
From Cashews Require Import Base.Prelude Model.Bits Proofs.BitsProofs.
Open Scope N_scope.

(* incrementing field i changes no other field: every array, index pair, width, amount *)
Theorem C18_bits_frame : forall v i j sz by_, i <> j -> bget (bincr v i sz by_) j sz = bget v j sz.
Proof. exact bits_frame. Qed.
Print Assumptions C18_bits_frame.

(* the incremented field holds min(max(0, old+by), 2^size-1), for the caller's `by` *)
Theorem C18_bits_saturate : forall v i sz by_,
  bget (bincr v i sz by_) i sz
  = Z.to_N (Z.min (Z.max 0 (Z.of_N (bget v i sz) + by_)) (Z.of_N (2 ^ sz) - 1)).
Proof. exact bits_saturate. Qed.
Print Assumptions C18_bits_saturate.

Theorem C18_bits_range : forall v i sz, bget v i sz < 2 ^ sz.
Proof. exact bget_lt. Qed.
Print Assumptions C18_bits_range.

(* never-written fields read 0 *)
Theorem C18_bits_zero : forall i sz, bget 0 i sz = 0.
Proof. exact bits_zero. Qed.
Print Assumptions C18_bits_zero.

(* whenever get_indexes returns (the re-probe loop ended), the result has exactly k distinct
   members, all below m; being a Gallina function of (hash, k, m) it is deterministic *)
Theorem C18_indexes_spec : forall (H : N -> N -> N) fuel nalg k m out, m <> 0 ->
  get_indexes H fuel nalg k m = Some out ->
  NoDup out /\ (forall x, In x out -> x < m) /\ length out = N.to_nat k.
Proof. exact indexes_spec. Qed.
Print Assumptions C18_indexes_spec.

(* after adding any list of elements (their index lists `adds`), in any order, on any
   starting array, the filter never answers False for one of them *)
Theorem C18_bloom_no_false_negative : forall v adds idxs check_fp,
  In idxs adds -> bloom_query (bloom_adds v adds) idxs check_fp <> Some false.
Proof. exact bloom_no_false_negative. Qed.
Print Assumptions C18_bloom_no_false_negative.

(* non-vacuity: a concrete run exercising saturation both ways and a neighbour *)
Example C18_example :
  let v := bincr (bincr 0 2 3 100%Z) 1 3 5%Z in
  (bget v 2 3, bget v 1 3, bget v 0 3, bget (bincr v 2 3 (-9)%Z) 2 3, bget (bincr v 2 3 (-9)%Z) 1 3) = (7, 5, 0, 0, 5).
Proof. vm_compute. reflexivity. Qed.

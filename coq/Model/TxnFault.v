(* Executable image of the block-exit protocol of transactions with failing backend commands:
     wrapper/transaction.py   __aexit__ (try / finally close), Transaction.commit / rollback over all backends
     backends/transaction.py  LockTransactionBackend._lock_updates, commit / rollback (try / finally unlock), _unlock_updates
   Every underlying backend command carries a position in the command trace; positions in `faults` raise and have no
   effect.  Body commands: set, incr, delete, set_many, get, expire on one of the backends.  Definitions only. *)
From Cashews Require Import Base.Prelude Spec.TTLMap Model.Tags Model.Txn.
Open Scope string_scope.
Open Scope list_scope.
Open Scope Z_scope.

Inductive mode := MFast | MLocked | MSerial.
Definition lock_key_of (md : mode) (k : key) : key :=
  match md with MSerial => ":serializable:lock" | _ => (":tx_lock:" ++ k)%string end.

(* one transactional backend: the store it wraps, overlay, pending deletes, lock keys it holds *)
Record txb := { bB : tmap; bL : tmap; bD : list key; bLocks : list key }.
Definition txb0 (b : tmap) : txb := {| bB := b; bL := empty; bD := []; bLocks := [] |}.
Definition as_txn (x : txb) : txn := {| tB := bB x; tL := bL x; tD := bD x |}.

(* world: the backends, the trace position, the positions that fail *)
(* lorder: per backend, the order in which its held locks are released (a Python set is iterated: observed, not predicted) *)
Record world := { bks : list txb; pos : nat; faults : list nat; lorder : list (list key) }.
Definition memn (x : nat) (l : list nat) := existsb (Nat.eqb x) l.
Definition faulty (w : world) : bool := memn (pos w) (faults w).
Definition tick (w : world) : world := {| bks := bks w; pos := S (pos w); faults := faults w; lorder := lorder w |}.
Definition get_b (w : world) (i : nat) : txb := nth i (bks w) (txb0 empty).
Fixpoint set_nth {A} (l : list A) (i : nat) (x : A) : list A :=
  match l, i with [], _ => [] | _ :: r, O => x :: r | y :: r, S j => y :: set_nth r j x end.
Definition put_b (w : world) (i : nat) (x : txb) : world := {| bks := set_nth (bks w) i x; pos := pos w; faults := faults w; lorder := lorder w |}.

(* an underlying command on backend i: None = it raised (no effect) *)
Definition under (w : world) (i : nat) (f : tmap -> tmap) : world * bool :=
  if faulty w then (tick w, false)
  else let x := get_b w i in
       (tick (put_b w i {| bB := f (bB x); bL := bL x; bD := bD x; bLocks := bLocks x |}), true).

(* the transaction timeout the harness configures (2.5 s - not a whole number of seconds - in ticks of 1/16 s): lock entries are written with it as their TTL *)
Definition LOCK_TTL : Z := 40.
(* LockTransactionBackend._lock_updates for key k (single task: the lock is free) *)
Definition acquire (md : mode) (now : Z) (w : world) (i : nat) (k : key) : world * bool :=
  match md with
  | MFast => (w, true)
  | _ =>
      let lk := lock_key_of md k in
      if mems lk (bLocks (get_b w i)) then (w, true)
      else let '(w1, ok) := under w i (fun b => s_write b now lk (VStr "id") LOCK_TTL) in
           if ok then let x := get_b w1 i in
                      (put_b w1 i {| bB := bB x; bL := bL x; bD := bD x; bLocks := lk :: bLocks x |}, true)
           else (w1, false)
  end.
Fixpoint acquire_all (md : mode) (now : Z) (w : world) (i : nat) (ks : list key) : world * bool :=
  match ks with
  | [] => (w, true)
  | k :: r => let '(w1, ok) := acquire md now w i k in if ok then acquire_all md now w1 i r else (w1, false)
  end.

Inductive bcmd := BSet (k : key) (v : val) (ttl : Z) | BIncr (k : key) | BDel (k : key) | BSetMany (kvs : list (key * val)) | BGet (k : key)
  | BExpire (k : key) (ttl : Z).
Definition with_overlay (x : txb) (t : txn) : txb := {| bB := bB x; bL := tL t; bD := tD t; bLocks := bLocks x |}.
Definition overlay_step (w : world) (i : nat) (now : Z) (c : tcmd) : world :=
  let x := get_b w i in put_b w i (with_overlay x (fst (tx_step [] (as_txn x) now c))).

(* one body command on backend i; false = it raised *)
Definition body_step (md : mode) (now : Z) (w : world) (i : nat) (c : bcmd) : world * bool :=
  match c with
  | BSet k v ttl => let '(w1, ok) := acquire md now w i k in
                    if ok then (overlay_step w1 i now (TC (Set_ k v ttl None)), true) else (w1, false)
  | BDel k => let '(w1, ok) := acquire md now w i k in
              if ok then (overlay_step w1 i now (TC (Del k)), true) else (w1, false)
  | BSetMany kvs => let '(w1, ok) := acquire_all md now w i (map fst kvs) in
                    if ok then (overlay_step w1 i now (TC (SetMany kvs 0)), true) else (w1, false)
  | BIncr k =>
      let '(w1, ok) := acquire md now w i k in
      if negb ok then (w1, false)
      else let x := get_b w1 i in
           (* the read-through of the store happens only when the overlay has no live entry and no pending delete *)
           if negb (isSome (s_look (bL x) now k)) && negb (mems k (bD x))
           then let '(w2, ok2) := under w1 i (fun b => b) in
                if ok2 then (overlay_step w2 i now (TC (Incr k 1 0)), true) else (w2, false)
           else (overlay_step w1 i now (TC (Incr k 1 0)), true)
  | BGet k =>
      let x := get_b w i in
      if mems k (bD x) || isSome (s_look (bL x) now k) then (w, true)
      else under w i (fun b => b)
  | BExpire k ttl =>
      (* LockTransactionBackend.expire: lock, then the overlay is re-timed; the store is read (get) only when the overlay has no
         live entry and no pending delete, and its value - if any - is copied into the overlay with the new TTL *)
      let '(w1, ok) := acquire md now w i k in
      if negb ok then (w1, false)
      else let x := get_b w1 i in
           if negb (isSome (s_look (bL x) now k)) && negb (mems k (bD x))
           then let '(w2, ok2) := under w1 i (fun b => b) in
                if ok2 then (overlay_step w2 i now (TC (Expire k ttl)), true) else (w2, false)
           else (overlay_step w1 i now (TC (Expire k ttl)), true)
  end.
Fixpoint body (md : mode) (now : Z) (w : world) (cs : list (nat * bcmd)) : world * bool :=
  match cs with
  | [] => (w, true)
  | (i, c) :: r => let '(w1, ok) := body_step md now w i c in if ok then body md now w1 r else (w1, false)
  end.

(* _unlock_updates: every held lock gets its unlock command (gather), whatever fails; the lock set is emptied first *)
Fixpoint unlock_each (w : world) (i : nat) (ls : list key) : world * bool :=
  match ls with
  | [] => (w, true)
  | lk :: r => let '(w1, ok1) := under w i (fun b => upd b lk None) in
               let '(w2, ok2) := unlock_each w1 i r in (w2, ok1 && ok2)
  end.
Definition unlock_updates (w : world) (i : nat) : world * bool :=
  let x := get_b w i in
  let held := bLocks x in
  let ordered := filter (fun k => mems k held) (nth i (lorder w) []) ++ filter (fun k => negb (mems k (nth i (lorder w) []))) held in
  unlock_each (put_b w i {| bB := bB x; bL := bL x; bD := bD x; bLocks := [] |}) i ordered.
Definition clear_overlay (w : world) (i : nat) : world :=
  let x := get_b w i in put_b w i {| bB := bB x; bL := empty; bD := []; bLocks := bLocks x |}.

(* TransactionBackend.commit: delete_many (if any), one set_many per overlay key here, then the overlay is dropped *)
Fixpoint run_under (w : world) (i : nat) (fs : list (tmap -> tmap)) : world * bool :=
  match fs with
  | [] => (w, true)
  | f :: r => let '(w1, ok) := under w i f in if ok then run_under w1 i r else (w1, false)
  end.
(* TTL-less overlay entries form one group (one set_many); entries with a deadline get one set_many each *)
Definition commit_cmds (U : list key) (x : txb) (now : Z) : list (tmap -> tmap) :=
  (match bD x with [] => [] | d => [fun b => fold_left (fun m k => upd m k None) d b] end) ++
  (if existsb (fun k => match bL x k with Some (None, _) => true | _ => false end) U
   then [fun b => fold_left (fun m k => match bL x k with Some (None, v) => s_write m now k v 0 | _ => m end) U b] else []) ++
  flat_map (fun k => match bL x k with
                     | Some (Some d, v) => if 0 <? d - now then [fun b => s_write b now k v (d - now)] else []
                     | _ => [] end) U.
Definition backend_commit (U : list key) (now : Z) (w : world) (i : nat) : world * bool :=
  let '(w1, ok) := run_under w i (commit_cmds U (get_b w i) now) in
  let w1' := if ok then clear_overlay w1 i else w1 in
  let '(w2, ok2) := unlock_updates w1' i in (w2, ok && ok2)               (* try ... finally unlock *)
.
Definition backend_rollback (w : world) (i : nat) : world * bool := unlock_updates (clear_overlay w i) i.

(* Transaction.rollback: every backend, the first error is re-raised at the end *)
Fixpoint rollback_from (w : world) (is_ : list nat) : world * bool :=
  match is_ with
  | [] => (w, true)
  | i :: r => let '(w1, ok1) := backend_rollback w i in let '(w2, ok2) := rollback_from w1 r in (w2, ok1 && ok2)
  end.
(* Transaction.commit: in order; when one fails the remaining ones are rolled back and the error re-raised *)
Fixpoint commit_from (U : list key) (now : Z) (w : world) (is_ : list nat) : world * bool :=
  match is_ with
  | [] => (w, true)
  | i :: r => let '(w1, ok) := backend_commit U now w i in
              if ok then commit_from U now w1 r else (fst (rollback_from w1 r), false)
  end.

(* the whole block: body, then __aexit__ (commit if the body ended normally, else rollback), finally close.
   Result: world, "the caller saw an exception", "the task is still inside the transaction" *)
Definition block (md : mode) (U : list key) (now : Z) (w : world) (used : list nat) (cs : list (nat * bcmd)) : world * bool * bool :=
  let '(w1, ok) := body md now w cs in
  let '(w2, ok2) := if ok then commit_from U now w1 used else rollback_from w1 used in
  (w2, negb (ok && ok2), false).

#!/usr/bin/env python3
"""Regenerates /verif/MANIFEST.json from the table below (single source of truth)."""
import json, os
V = os.path.dirname(os.path.dirname(os.path.abspath(__file__)))
TITLES = {l["id"]: l["title"] for l in map(json.loads, open(os.path.join(V, "properties.jsonl")))}
COMMON_NOTE = ("Trusted: Coq 8.16.1 kernel and its VM (vm_compute; no native_compute), no axioms (Print Assumptions: closed under the "
               "global context for every theorem); the hand-written Gallina model, tied to /repo's working tree on every run only by "
               "the differential correspondence run (bounded by its generators; distribution in the evidence); the Python harness "
               "(virtual clock, scheduler, canonicalisation, case printer). ")
# id -> (text, note, technique, design_ref)
CLAIMED = {
 "C20": ("Theorem for any number of clients and every history of commands by any of them (reads, plain / conditional writes, set_many, increments, deletes, pattern deletes, "
         "expirations, flushes, set_lock / unlock), time advances with server-side expiry, and subscription drops with the 10 s reconnect, all pending invalidations delivered after every event: at "
         "every quiescent point no message or recently-updated mark is left over and every listening client's local values and 'absent' markers equal what the server holds, "
         "hence get / exists return the server's answer (invariant Q; the intermediate invariant P is carried through the invalidation loop message by message; per-command "
         "frame lemmas on the server model of C19); a rejected conditional write reaches no local copy; a lost connection empties the local copy and stops local serving. "
         "2-3 real BcastClientSide backends share the in-process server stand-in (CLIENT TRACKING BCAST redirect, one de-duplicated invalidation batch per server cycle); after "
         "every event server keyspace, local copies with deadlines, live marks and started flags are dumped and compared with the model, and judged against the property's words.",
         "Redis tracking semantics modelled from documentation; commands are issued at quiescent points only (the property's quantifier); the server stays reachable (C19 covers outages); "
         "TTLs on a 1/8 s grid.",
         "Coq proof (quiescent-point invariant by induction over all histories) + differential run of real client-side backends on an in-process server stand-in", "3/C20"),
 "C19": ("Theorems for every keyspace, instant and command: the backend's translation of each cache command into server commands (SET PX NX/XX, MGET, UNLINK, SCAN MATCH, PEXPIRE, "
         "TTL, INCRBY, the three Lua scripts transcribed, SADD+PEXPIRE pipeline, BITFIELD) and of the replies back has exactly the effect and result of a cache-level reference TTL "
         "map with Redis's policies, hence for every history; with the server unreachable and suppression on the keyspace is untouched, only ping raises and every other command "
         "gives the default / failure answer; with suppression off exactly CacheBackendInteractionError; over any history with any down/up switching no other exception; "
         "is_locked(wait, step) as a fuelled polling loop answers, for every wait and step > 0, what the reference's exists says at the instant it returns. The real "
         "cashews Redis backend runs on an in-process stand-in for redis-py + server (Lua subset interpreted, so script edits execute); results and the whole keyspace after every "
         "command are compared with the model and judged against the reference; every decorator is run over a dead server.",
         "the stand-in's fidelity to a real Redis server is trusted (none available offline); the server goes down between commands, not inside one; decorators over a dead server are "
         "checked on runs, only the read-through shape is proved (partial).",
         "Coq proof (per-command refinement to a reference map + down-safety, lifted to histories) + differential run of the real backend on an in-process server stand-in", "3/C19"),
 "C05": ("Theorems for every number of tasks, every program and every schedule at the granularity of single backend commands: a step of one task never touches another "
         "task's state and a task outside any block acts on the store directly (no capture); a task inside a block changes the store only at its commit, only if its "
         "body ended normally, and writes exactly the overlay / delete set obtained from its own write commands (6-part per-transaction invariant); lock invariant "
         "(4 parts) giving mutual exclusion of lock holders within their timeout; in LOCKED / SERIALIZABLE mode, with nobody inside a block beyond the timeout, a counter "
         "written by increments of blocks equals its initial value plus the increments of the committed blocks (4-part counter invariant on top of the other two); "
         "serializable write phases never overlap; every log entry is the complete list of one normally-ended block's own write effects, at most one and (for a block that reached its release phase unfailed) at least one per kind. Real tasks (context-manager form, ONE shared decorated function, nested forms, direct commands) run under the "
         "deterministic scheduler with every backend command gated; the command log with store snapshots is replayed on the model and judged by an oracle built from a "
         "sequential reference of one block. Thorough tier enumerates every schedule of selected 2-task programs per mode.",
         "asyncio / contextvars / gather are the interpreter's (partial: theorems about the model + replayed logs); a block commits at most once and - once it has reached its release phase without failing - has issued its delete_many / set_many (both proved); progress under fair scheduling is not stated (schedules are arbitrary event lists); one backend, integer values without TTL; the block language has get / set / set-if / incr / delete / expire(k, 0) / sleep, explicit mid-body commit / rollback is tied as two blocks back to back.",
         "Coq proof (three stacked invariants over all schedules) + command-log replay from scheduled real tasks, exhaustive schedule enumeration in the thorough tier", "3/C05"),
 "C07": ("Theorems for every event sequence (any number of callers and keys; calls, task starts, body resumptions, done-callbacks and cancellations in any order, "
         "each loop callback its own event - finer than any real schedule): at most one body per key executes (8-part invariant by induction); a call made while a task "
         "is registered joins it and starts nothing; a caller is handed exactly the outcome of the task it joined, a waiter's task stays registered until its callback "
         "wakes him; with shielded waiting no caller gets a CancelledError it did not ask for, and cancelling a waiting caller changes nothing else now or after any "
         "continuation (simulation); the unshielded variant is refuted by a computed witness. Real @cache / @cache(lock=True) / @early / @soft callers run under the "
         "deterministic scheduler (start and body gates, one cancellation, two tasks released into one loop iteration); the observed event log is replayed on the "
         "model and judged by an oracle written from the property's words. Thorough tier enumerates every schedule of 3 and 3+1 callers.",
         "asyncio's shield / cancellation / callback order are the interpreter's (partial: theorem about the model + replayed logs); TTLs beyond the run; one process.",
         "Coq proof (invariant + simulation over all event sequences) + log replay from scheduled real tasks, exhaustive schedule enumeration in the thorough tier", "3/C07"),
 "C06": ("Theorems for every event sequence (any number of tasks, any interleaving of attempts, exits, foreign unlocks and clock advances, per-acquisition ttl): "
         "two tasks inside at once implies one of them has overstayed its own ttl (3-part invariant by induction); unlock releases iff the live entry holds exactly the "
         "presented token; leaving removes the entry carrying the task's token; an attempt succeeds whenever there is no live entry; is_locked reads liveness and changes nothing, and "
         "is_locked(wait, step) answers the liveness ceil(wait/step) steps later for every wait and step > 0 (induction over the polling loop, total with enough fuel, equal to the conjunction of its Probe events). Real cache.lock / @locked / "
         "backend.lock tasks run under a deterministic scheduler (gates in front of set_lock / unlock / ping, virtual clock, one cancellation) while a further task polls is_locked / is_locked(wait, step); the observed command "
         "trace is replayed on the model and checked against an ideal-lock oracle.",
         "asyncio scheduling/cancellation and the context manager's finally are the interpreter's (partial: theorem about the model + replayed traces); uuid4 tokens distinct.",
         "Coq proof (invariant over all schedules) + trace replay from scheduled real tasks", "3/C06"),
 "C16": ("Theorems for ANY fault set over the Gallina image of the block-exit protocol (try/finally of __aexit__, Transaction.commit/rollback over all backends, "
         "LockTransactionBackend commit/rollback/_unlock_updates): the task always leaves the transaction; every lock a backend holds gets its own release command on "
         "the rollback path of any number of backends, on a backend's commit path and through Transaction.commit over any number of backends (a failing commit rolls the "
         "rest back), and a lock key survives only if a command of the exit phase itself failed. The BODY keeps the lock bookkeeping in step with the store for any program "
         "over data keys and any fault set (per-backend invariant BI), which gives the end-to-end theorem: after the block no lock-shaped key is left in any involved store "
         "unless a command issued after the body failed. The correspondence enumerates EVERY single fault "
         "position (and pairs) of 48 program/mode combinations (set / incr / delete / set_many / get / expire) against the real code with raising wrappers, in three spellings of the block, in half of the cases on a backend with latency (a command that succeeds takes an event-loop turn, one that fails fails at once); every single position also ends with CancelledError (judged on: the task has left the transaction); lock keys are inspected the moment the block is left and a few event-loop turns later; values and lifetimes of the data keys are compared.",
         "A fault = the command raises an Exception with no effect (BaseException-class faults are outside: a second one during rollback skips the remaining backends); single task; set iteration order of lock keys taken from the clean run.",
         "Coq proof (release protocol for arbitrary fault sets) + exhaustive single/pair fault enumeration against the real code", "3/C16"),
 "C03": ("Theorems over the Gallina image of TransactionBackend (overlay, pending deletes, commit, rollback) on the TTL-map spec: no transactional command "
         "touches the underlying store; rollback returns it unchanged; commit makes every key read what the transaction's view showed, hence (with C04's "
         "simulation) exactly what direct application of the same writes shows, and a key written with a TTL is committed with exactly its deadline. The real "
         "Cache.transaction() in fast/locked/serializable mode (nested or not; commit, explicit rollback, exception) is compared with the model, an outside "
         "observer reading value and deadline of every key from the raw backend after every command and after the block.",
         "All commands of a transaction at one instant in the theorems (= no TTL elapses inside); clear() excluded; the wrapper's block/nesting logic is covered by the correspondence, the theorems are about the backend.",
         "Coq proof (view simulation + commit fold lemma) + differential correspondence with outside observer", "3/C03"),
 "C04": ("Simulation theorem: in any state where the transaction's view equals a directly-updated copy of the store (and no pending delete coexists with a live "
         "overlay entry), each of the 13 commands returns what direct execution returns (delete's boolean aside, get_expire as missing/not) and keeps the relation; "
         "lifted to every finite command sequence and every initial store. Real in-transaction results are compared with the model and with the same "
         "sequence applied directly, step by step.",
         "Commands at one instant in the theorem; patterns 'prefix*' (matcher is C13); reserved ':' keys filtered from pattern reads.",
         "Coq proof (simulation relation preserved by every command) + differential correspondence", "3/C04"),
 "C12": ("The unchanged code violates the property in two recorded ways (F20 tag-set TTL follows the latest add; F21 unregistered tags are not pruned): both are "
         "theorems `..._refuted` about the faithful model (witness evaluated in the kernel) and are replayed on the real code on every run, where they print "
         "KNOWN-FINDING. Proved for all states: a tagged write joins every named tag set for any TTL; delete_tags leaves no member of the tag's live set readable. "
         "Proved for every history WITHOUT TTLs (where F20 cannot arise), every registry and order of writes: after delete_tags(t) no key whose latest write carried t "
         "is readable (invariant: every present key is a member of the set of each tag of its latest write); and for every history without TTLs whose tags are registered "
         "for their keys (where F21 cannot arise): delete_tags(t) leaves untouched every key that has not carried t since its last removal (second invariant). "
         "Proved WITH TTLs (keys and tag sets with any deadlines, lazy expiry at every step, time-ordered history): F20 is the only way TTLs break completeness - in every "
         "history in which no tagged write leaves a tag set with a deadline earlier than that of one of its live members (Run.C12.excl_f20 = false, the predicate by which "
         "the check classifies F20), after delete_tags(t) at any later time no key whose latest write carried t is readable (third invariant, carried through expiry). "
         "The lazy-expiry variant of the model (keys that are only watched between the commands stay in the store past their deadline until a command meets them) is proved equal to the model of these theorems when every key is read between the commands. "
         "The model (tags.py + Memory set commands + on-remove callback with lazy expiry made deterministic by probing; a third of the histories leave some keys unread) is compared with the real facade step by "
         "step; any oracle failure not containing a recorded situation (Run.C12.excl_f20 / excl_f21 on the shrunk history) is reported as a violation.",
         "Completeness fails with TTLs exactly in the F20 situation (refuted there, proved everywhere else); precision fails for unregistered tags (F21) and is proved for registered ones without TTLs (not with TTLs). Partial.",
         "Coq proof (partial + refutation witnesses) + differential correspondence + known-finding predicates", "3/C12"),
 "C15": ("Theorems over the Gallina image of rate.py, rate_slide.py, Memory.slice_incr and circuit_breaker.py on the TTL-map spec, each as an invariant plus a "
         "one-call statement: rate_limit runs a call only if fewer than `limit` ran in the counter's current life, whose deadline is period after the first call / ttl "
         "after the first rejection; slice_rate_limit (strictly increasing instants) never runs a call that has `limit` executed calls in the period before it; the "
         "breaker's window logs hold exactly the calls of the last period, it never runs the function while open, and opens exactly when a listed failure meets "
         "min_calls and errors_rate on those counts. Real decorators on the facade are driven under the virtual clock with bursts/gaps on window boundaries.",
         "half_open_ttl=None; integer form of the errors_rate comparison; rate_limit is also proved at backend-command granularity (any order and delay of the incr / expire commands of any number of concurrent calls: an admitted call is at most the limit-th of the counter's life); sliding window and breaker are modelled for sequential histories (concurrent bursts of the two limiters are run against the real code at one instant).",
         "Coq proof (epoch / window-log invariants) + differential correspondence under virtual time", "3/C15"),
 "C14": ("Theorems over the Gallina image of the four decision trees on the TTL-map spec, each as an invariant plus a one-call statement valid in every state "
         "satisfying it: early never serves a result stored ttl or more ago, serves without running while younger than early_ttl, and starts a refresh only "
         "when the lock is free (taking it for early_ttl); soft recomputes after soft_ttl and falls back only on a listed exception while younger than ttl; "
         "failover always runs and falls back only on a listed exception; hit answers from the store only while fewer than cache_hits calls were answered from "
         "that result (counter/served invariant incl. counter and result lifetimes). The real decorators on the facade are driven call by call under the virtual "
         "clock, background refreshes held on a gate and completed at scripted instants, and compared with the model.",
         "Sequential callers; default condition; 0.33*ttl defaults excluded; an inline refresh that raises propagates to the caller (model follows code).",
         "Coq proof (per-decorator store invariants, counter invariant) + differential correspondence under virtual time with gated background refreshes", "3/C14"),
 "C02": ("Theorems over the Gallina image of simple.py / iterator.py / ttl.py on the TTL-map spec: an invariant (every store entry is the stored form of an "
         "accepted execution of that key with that execution's deadline) holds after every history; in any such state a call executes iff there is no live "
         "entry, returns its own outcome when it executes, otherwise the outcome of an accepted execution still within ttl, and rejected outcomes never enter "
         "the store; the iterator either runs or replays, whole and in order, the chunks of exactly one recorded cacheable run within ttl (runs may take time), "
         "for arbitrary items; every component duration string denotes the sum of its components. Decorated functions/generators on the real facade are compared "
         "with the model call by call under the virtual clock on every run.",
         "Wrapped function = script; conditions enumerated by what they return; key derivation is C08; single caller (C07); store within capacity.",
         "Coq proof (store invariant by induction over histories; chunk-store invariant; parser induction) + differential correspondence under virtual time", "3/C02"),
 "C08": ("Theorems: for every signature, template over its parameters and two call forms that Python's binding maps to the same arguments, the Gallina image "
         "of get_cache_key (keyword-only shortcut, bind+apply_defaults path, str.format fast path vs Formatter fallback) returns the same key and does not raise; "
         "for ':'-separated templates (the automatic one always is) argument maps differing at a mentioned field by separable values render to different keys "
         "(decimal printing injective, no ':' in rendered ints/bools). All equivalent call forms of generated calls are run through the real get_cache_key / a "
         "decorated call and compared with the model key for key on every run.",
         "inspect.Signature.bind+apply_defaults and str.format for plain {name} fields are modelled; attribute fields, format functions, key_context, custom type formats, sets and positional-only parameters are not.",
         "Coq proof (association-list reasoning over a model of Python call binding; string separation lemma) + differential correspondence", "3/C08"),
 "C09": ("Theorem: for every pickler/MAC meeting an explicit contract (dumps/loads round trip, pickles not digit-only, 'bytes:' payloads rejected with the "
         "pickler's own error class or passed through, hex MAC), every signer configuration, key and value, decode(encode v) = v in the Gallina image of "
         "Serializer/HashSigner. On every run the real Serializer inside Memory is compared with the model byte for byte on the stored blob and on the "
         "values read back through get and get_many, with pickle/json/hmac entering as recorded tables.",
         "pickle, json, hmac, hashlib are not verified: they are parameters constrained by hypotheses that the run monitors; values the pickler itself cannot round-trip are outside the quantifier.",
         "Coq proof (string-level framing lemmas) + differential correspondence with recorded oracle tables", "3/C09"),
 "C10": ("Theorems for any unpickler, any MAC, any blob: every byte string handed to the unpickler is the payload of a blob whose signature verifies for the "
         "configured secret and the key being read; a non-verifying blob reads as default or UnSecureDataError and nothing else; with an injective MAC a swapped "
         "payload never verifies. Mutated / foreign blobs are placed in a real Memory store and read through get, get_many, get_match with an instrumented unpickler; "
         "the oracle recomputes MACs with the hmac module independently of cashews.",
         "HMAC is idealised only in the last corollary; a blob naming the weak 'sum' digest is outside the property's quantifier.",
         "Coq proof (structure of decode/check_sign) + differential correspondence over blob mutations", "3/C10"),
 "C17": ("Theorems: for every finite prefix set and key the first match over the reverse-sorted prefixes is the longest registered prefix of the key "
         "(own total order on strings, insertion sort, sortedness invariant); multi-key reads re-assemble positionally for any routing and any "
         "positional backends; a disabled command never reaches the backend and yields the default-shaped result; enable/disable in one task's "
         "context is invisible to other tasks. Recording Memory backends under generated prefix sets, every facade command under every way of "
         "disabling, and real parent/child asyncio tasks are compared with the model on every run.",
         "contextvars copy-at-task-creation is modelled; ASCII strings; enable_by_default=True.",
         "Coq proof (sorted-list + prefix-order lemmas, assoc-list induction) + differential correspondence", "3/C17"),
 "C13": ("Theorems: for every pattern and key (all characters) the matcher Memory.scan builds (re.escape, '\\*' -> '.*', compile, fullmatch) always "
         "compiles and equals the glob matcher; scan/delete_match select exactly the matching live keys; inside a transaction the selection equals the glob "
         "filter of the merged view for every split of keys between overlay, store and pending deletes. Real scan/get_match/delete_match/@invalidate, "
         "outside and inside transactions, are compared with the model on generated key sets and patterns on every run.",
         "Python's re is modelled for the fragment {escaped literal, plain literal, '.*'} with DOTALL; re.escape's table is transcribed; lock keys filtered from transaction observations.",
         "Coq proof (string-level induction: escape/rewrite/parse/match = glob) + differential correspondence", "3/C13"),
 "C11": ("Theorems for every history: the store never exceeds its capacity; its key order is exactly the recency list obtained by replaying the "
         "history's Touch/Drop/Evict trace; whenever an Evict fires the evicted key carries the oldest touch stamp and at least `size` other distinct "
         "keys carry newer ones; a purge pass keeps the survivors' order. The model's results and raw key order are compared with the real Memory after every command.",
         "The oracle's notion of use is observational (command names the key and the key is present afterwards); set_raw excluded; values immutable.",
         "Coq proof (recency-list refinement + sortedness invariant by induction) + differential correspondence incl. raw key order", "3/C11"),
 "C01": ("Refinement theorem: for every history (any length, instants, commands, purge passes anywhere) within capacity the Gallina image of "
         "Memory returns exactly the results of the ideal TTL map; corollaries for the deadline instant, read-your-write and purge-insensitivity. "
         "The image is compared with the real Memory / Cache('mem://') (results and raw key order after every command) under a virtual clock on every run.",
         "Serializer treated as identity here (C09 proves the round trip); float arithmetic exact on the 1/16 s grid only; values immutable; eviction excluded (C11).",
         "Coq refinement proof (simulation by induction over histories) + differential correspondence under virtual time", "3/C01"),
 "C18": ("Theorems (all arrays, indexes, widths, amounts; all element lists) proved in Coq about a line-by-line Gallina image of "
         "_bitarray.py, get_indexes and the bloom add/query logic; the image is run against the real code on generated op sequences on every check.",
         "Hash functions enter as recorded tables; get_indexes termination assumed (fuel); params_for's float formula not modelled (m,k read from the code).",
         "Coq proof (bit-level extensionality, induction over adds) + differential correspondence model vs code", "3/C18"),
}
NA_REASON = "check not built yet (work in progress; DESIGN.md section 6 gives the work order)"
m = {
 "version": 1,
 "setup_cmd": "cd /verif && ./setup.sh",
 "hooks": {"guard": "CASHEWS_VERIF", "enable": "no source hooks are needed: the harness attaches from outside (virtual clock by rebinding time/datetime, command gates and fault wrappers on backend instances, stand-in redis package on sys.path)",
           "baseline_off_cmd": "cd /repo && /venv/bin/python -m pytest -ra -q -p no:cacheprovider --timeout=900 --continue-on-collection-errors",
           "source_commits": [], "add_only": True},
 "engines": [{"name": "coq-model-correspondence", "path": "/verif/check", "serves_properties": sorted(CLAIMED),
              "kind_free_text": "Coq 8.16 development (coq/) with one Properties/Cxx.v per property + Python differential harness evaluating the Gallina model by vm_compute on the cases the real code just ran"}],
 "checks": [], "not_applicable": [],
 "notes": "See DESIGN.md. KNOWN_FINDINGS.txt lists recorded defects (open:) and repaired ones (fixed:).",
}
for i in range(1, 21):
    pid = f"C{i:02d}"
    if pid in CLAIMED:
        text, note, tech, ref = CLAIMED[pid]
        m["checks"].append({
            "property_id": pid, "quick_cmd": f"./check {pid} --tier quick", "thorough_cmd": f"./check {pid} --tier thorough",
            "evidence_file": f"/verif/evidence/{pid}.json", "replay_cmd_template": f"./check {pid} --replay {{path}}",
            "engine": "coq-model-correspondence",
            "level_claimed": {"category": "proof", "text": text, "design_ref": f"DESIGN.md section {ref}"},
            "level_note": COMMON_NOTE + note, "technique": tech})
    else:
        m["not_applicable"].append({"property_id": pid, "reason": NA_REASON})
json.dump(m, open(os.path.join(V, "MANIFEST.json"), "w"), indent=1)
print("claimed", sorted(CLAIMED))

(* C20 - the client-side cache agrees with the server once invalidations are delivered. Statements only. *)
From Cashews Require Import Base.Prelude Spec.Glob Model.Redis Model.ClientSide Proofs.ClientSideProofs.
Open Scope Z_scope.

(* For any number of clients and every history of commands by any of them (reads, plain and conditional writes, increments,
   deletes, pattern deletes, expirations, flushes), time advances (the server expiring keys), and drops of any client's
   subscription connection, with the pending invalidations delivered after every event: at every such quiescent point
   no client has a pending message or a leftover mark, and for every client whose listener runs, every locally held
   value is the server's value and every "absent" marker is right. *)
Theorem C20_coherent : forall U n es, Forall (wf_event U) es -> Q (run_from U (init n) (paced es)).
Proof. exact cs_coherent. Qed.
Print Assumptions C20_coherent.

(* hence get / exists of a listening client return exactly what the server holds *)
Theorem C20_reads : forall U g i, Q g -> started (clients g i) = true ->
  (forall k, snd (cmd_step U g i (KGet k)) = BVal (sval (srv g) (now g) k)) /\
  (forall k, snd (cmd_step U g i (KExists k)) = BBool (isSome (look (srv g) (now g) k))).
Proof. exact cs_reads. Qed.
Print Assumptions C20_reads.

(* the invalidation loop: a client with pending messages that satisfies P ends, after processing them, without marks
   and with a right local copy *)
Theorem C20_delivery : forall s t q c, P s t c q ->
  let c' := fold_left (process t) q c in forall k, marked c' t k = false /\ coherent_at s t c' k.
Proof. exact deliver_P. Qed.
Print Assumptions C20_delivery.

(* a conditional write the server rejected never reaches anybody's local copy *)
Theorem C20_rejected_write_invisible : forall U g i k v ttl ex,
  snd (cmd_step U g i (KSet k v ttl ex)) = BBool false ->
  forall j k', local (clients (fst (cmd_step U g i (KSet k v ttl ex))) j) k' = local (clients g j) k'.
Proof. exact cs_rejected_write_invisible. Qed.
Print Assumptions C20_rejected_write_invisible.

(* losing the invalidation connection empties the local copy and stops serving from it *)
Theorem C20_drop_empties : forall U g i, started (clients g i) = true ->
  let g' := fst (step U g (Drop i)) in
  started (clients g' i) = false /\ (forall k, local (clients g' i) k = None) /\
  (forall k, local_read (clients g' i) (now g') k = None).
Proof. exact cs_drop_empties. Qed.
Print Assumptions C20_drop_empties.

(* non-vacuity: client 1 caches a key written by client 0, client 0 overwrites it, after delivery client 1 reads the
   new value; a rejected only-if-absent write by client 1 changes nothing; the key expires on the server and both forget it *)
Open Scope string_scope.
Example C20_example :
  let U := ["a"] in
  let g := run_from U (init 2) (paced [Cmd 0 (KSet "a" (VStr "v") 1000 None); Cmd 1 (KGet "a"); Cmd 0 (KSet "a" (VStr "w") 1000 None);
                                      Cmd 1 (KSet "a" (VStr "phantom") 0 (Some false))]) in
  (snd (cmd_step U g 1 (KGet "a")), llook (clients g 0) (now g) "a",
   snd (cmd_step U (run_from U g (paced [Tick 1500])) 0 (KGet "a")), llook (clients (run_from U g (paced [Tick 1500])) 1) 1500 "a")
  = (BVal (Some (VStr "w")), Some (LV (VStr "w"), Some 1000), BVal None, None).
Proof. vm_compute. reflexivity. Qed.

(* C09 - serialization round-trips every supported value under every configuration. Statements only. *)
From Coq Require Import Ascii.
From Cashews Require Import Base.Prelude Model.Serializer Proofs.SerializerProofs.
Open Scope string_scope.

(* For every pickler / MAC / custom-type registry meeting the stated contract (round trip of dumps/loads,
   pickles are not digit-only, a registered type's decoder inverts its encoder and its "name:"-prefixed
   payload is rejected by the unpickler with its own error class or passed through, type names contain no
   ':', bytes stay registered, MAC output is hex), every configuration (no signer, or a HashSigner with one
   of the four digests and any secret), every key and every value: decode (encode v) = v. *)
Theorem C09_ser_roundtrip : forall dumps loads mac cenc cdec,
  (forall v p, dumps v = Some p -> loads p = LOk v) ->
  (forall v p, dumps v = Some p -> isdigit p = false) ->
  (forall v ty e, cenc v = Some (ty, e) -> cdec ty e = Some v) ->
  (forall v ty e, cenc v = Some (ty, e) -> contains ":"%char ty = false) ->
  (forall v ty e, cenc v = Some (ty, e) ->
     loads (ty ++ ":" ++ e) = LUnpick \/ loads (ty ++ ":" ++ e) = LOk (VBytes (ty ++ ":" ++ e))) ->
  (forall dg s m, contains "_"%char (mac dg s m) = false /\ contains ":"%char (mac dg s m) = false) ->
  (forall b, cenc (VBytes b) <> None) ->
  forall c key v, cfg_ok c -> fst (decode loads mac cdec c key (encode dumps mac cenc c key v)) = DVal v.
Proof. exact ser_roundtrip. Qed.
Print Assumptions C09_ser_roundtrip.

(* the shipped registry (bytes only) meets the registry part of the contract *)
Theorem C09_default_registry_ok :
  (forall v ty e, default_cenc v = Some (ty, e) -> default_cdec ty e = Some v) /\
  (forall v ty e, default_cenc v = Some (ty, e) -> contains ":"%char ty = false) /\
  (forall b, default_cenc (VBytes b) <> None).
Proof. exact default_registry_ok. Qed.
Print Assumptions C09_default_registry_ok.

(* the framing itself: a signed blob always verifies and yields back exactly its payload *)
Theorem C09_check_sign_sign : forall mac,
  (forall dg s m, contains "_"%char (mac dg s m) = false /\ contains ":"%char (mac dg s m) = false) ->
  forall c key p, cfg_ok c -> check_sign mac c key (sign mac c key p) = CSOk p.
Proof. exact check_sign_sign. Qed.
Print Assumptions C09_check_sign_sign.

(* non-vacuity: digit-only bytes, separator-laden bytes and text under a signed configuration *)
Example C09_example :
  let dumps v := match v with VStr s => Some ("P" ++ s) | _ => None end in
  let loads b := match b with String "P"%char r => LOk (VStr r) | _ => LUnpick end in
  let mac (dg s m : string) := "abc123" in
  let c := {| signer := Some ("md5", "k") |} in
  map (fun v => fst (decode loads mac default_cdec c "key" (encode dumps mac default_cenc c "key" v))) [VBytes "123"; VBytes "md5:x_y"; VStr "_:"; VInt 5]
  = [DVal (VBytes "123"); DVal (VBytes "md5:x_y"); DVal (VStr "_:"); DVal (VInt 5)].
Proof. vm_compute. reflexivity. Qed.

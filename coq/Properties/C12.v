(* C12 - delete_tags removes every live key carrying the tag.  The unchanged code violates the full property in two
   recorded ways (KNOWN_FINDINGS F20, F21); the faithful model therefore refutes the full statement (witnesses below,
   replayed on the implementation by corpus/C12), and what is proved is the part that does hold.  Statements only. *)
From Cashews Require Import Base.Prelude Spec.TTLMap Model.Tags Run.C12 Proofs.TagsProofs Proofs.TagsCompleteProofs Proofs.TagsPreciseProofs Proofs.TagsTTLProofs Proofs.TagsLazyProofs.
Open Scope Z_scope.

(* a write with tags makes the key a member of each named tag's set at once, for every TTL (none, short, long) *)
Theorem C12_tagged_write_joins_partial : forall m now k ttl tags t, In t tags ->
  In k (set_of (add_tags m now k ttl tags) now (tag_key t)).
Proof. exact tagged_write_joins. Qed.
Print Assumptions C12_tagged_write_joins_partial.

(* delete_tags(t) leaves no member of t's live set readable, whatever the registry, the other tags and the order of writes *)
Theorem C12_delete_tag_removes_every_member_partial : forall reg m now t,
  Forall not_tagkey (set_of m now (tag_key t)) ->
  forall x, In x (set_of m now (tag_key t)) -> s_look (delete_tag reg m now t) now x = None.
Proof. exact delete_tag_removes_every_member. Qed.
Print Assumptions C12_delete_tag_removes_every_member_partial.

(* the full completeness statement for histories without TTLs - where F20 cannot arise: for every history of tagged /
   untagged set, incr, delete, delete_match and delete_tags, every registry (tags registered for the key or not) and
   every order of writes, after delete_tags(t) no key whose latest write carried t is readable.  `istep` is the ghost
   "tags carried by the latest write of each key"; Inv says every present key is a member of the set of each such tag. *)
Theorem C12_complete_without_ttl : forall reg keys h, Forall not_tagkey keys -> Forall (fun te => ev_ok (snd te)) h ->
  let '(m, i) := run_i reg keys empty (fun _ => []) h in
  Inv m i /\
  forall now t k, not_tagkey k -> In t (i k) -> s_look (tag_step reg keys m now (TDeleteTags t)) now k = None.
Proof. exact tags_complete_nottl. Qed.
Print Assumptions C12_complete_without_ttl.

(* F20: the full completeness statement is false of the code: a short-TTL add shortens the tag set's life *)
Theorem C12_tags_complete_refuted :
  ok_tags KEYS [] (lift h_F20) (run_tags REG KEYS empty (lift h_F20)) = false /\ excl_f20 REG KEYS empty h_F20 = true.
Proof. exact tags_complete_refuted. Qed.
Print Assumptions C12_tags_complete_refuted.

(* F21: precision fails for a tag that was never registered *)
Theorem C12_tags_precise_refuted :
  ok_tags KEYS [] (lift h_F21) (run_tags REG KEYS empty (lift h_F21)) = false /\ excl_f21 REG KEYS [] h_F21 = true.
Proof. exact tags_precise_refuted. Qed.
Print Assumptions C12_tags_precise_refuted.

(* the second sentence of the property (precision) where F21 cannot arise: for every history without TTLs in which every tag
   given to a key is registered for that key's template (`ev_reg`), every registry and every order of writes, delete_tags(t)
   leaves untouched every key that has not carried t since it was last removed - keys that never carried t, and keys deleted
   after carrying t and re-created without it.  `jstep` is the ghost "tags carried by the writes of a key since its last removal". *)
Theorem C12_precise_without_ttl_registered : forall reg keys h, Forall not_tagkey keys -> Forall (fun te => ev_reg reg (snd te)) h ->
  let '(m, j) := run_j reg keys empty (fun _ => []) h in
  Inv2 reg m j /\
  forall now t k, not_tagkey k -> ~ In t (j k) -> tag_step reg keys m now (TDeleteTags t) k = m k.
Proof. exact tags_precise_nottl. Qed.
Print Assumptions C12_precise_without_ttl_registered.

(* non-vacuity: a:1 is written under the registered tag ta, deleted, re-created without it; a:2 still carries ta:
   the premises hold, a:1 has not carried ta since its removal and survives delete_tags(ta), a:2 does not *)
Definition h_precise : list (Z * tev) :=
  [(1, TSet "a:1" (VInt 1) 0 ["ta"]); (1, TSet "a:2" (VInt 2) 0 ["ta"]); (2, TDel "a:1"); (3, TSet "a:1" (VInt 5) 0 [])].
Example C12_precise_example :
  Forall (fun te => ev_reg REG (snd te)) h_precise /\
  let '(m, j) := run_j REG KEYS empty (fun _ => []) h_precise in
  (j "a:1", j "a:2", isSome (tag_step REG KEYS m 4 (TDeleteTags "ta") "a:1"), isSome (tag_step REG KEYS m 4 (TDeleteTags "ta") "a:2"))
  = ([], ["ta"], true, false).
Proof.
  split; [|vm_compute; reflexivity].
  assert (NT : forall k, (k = "a:1" \/ k = "a:2") -> not_tagkey k) by (intros k [->| ->] t E; discriminate).
  unfold h_precise.
  constructor; [cbn [snd ev_reg]; split; [reflexivity|split; [apply NT; auto|intros t [<-|[]]; vm_compute; auto]]|].
  constructor; [cbn [snd ev_reg]; split; [reflexivity|split; [apply NT; auto|intros t [<-|[]]; vm_compute; auto]]|].
  constructor; [cbn [snd ev_reg]; apply NT; auto|].
  constructor; [cbn [snd ev_reg]; split; [reflexivity|split; [apply NT; auto|intros t []]]|constructor].
Qed.

(* completeness WITH TTLs: F20 is the only way TTLs break it.  For every time-ordered history (any TTLs on keys and tag
   sets, lazy expiry at every step, any registry, any order of writes) in which no tagged write leaves a tag set with a
   deadline earlier than that of one of its live members (`excl_f20 = false`: the computable predicate by which the check
   classifies F20), after delete_tags(t) - at any later time - no key whose latest write carried t is readable.
   `tstep` is the ghost "tags carried by the latest write of each key"; InvT (the invariant carried through the history)
   says a live key is a member of the live set of each such tag and that set does not lapse before the key. *)
Theorem C12_complete_with_ttl_unless_F20 : forall reg keys h t0, Forall not_tagkey keys -> Forall (fun te => ev_okT (snd te)) h ->
  mono t0 h -> excl_f20 reg keys empty h = false ->
  let '(m, i) := run_t reg keys empty (fun _ => []) h in
  forall now t k, lastt t0 h <= now -> not_tagkey k -> In t (i k) -> s_look (tag_step reg keys m now (TDeleteTags t)) now k = None.
Proof. exact tags_complete_ttl. Qed.
Print Assumptions C12_complete_with_ttl_unless_F20.

(* non-vacuity: two members with different TTLs, the later add extends the set's life (the reverse order is h_F20);
   a:1 expires and is written again without the tag; the premises hold, a:2 carries ta and goes, a:1 and b:1 stay *)
Definition h_ttl : list (Z * tev) :=
  [(1, TSet "a:1" (VInt 1) 16 ["ta"]); (2, TSet "a:2" (VInt 2) 320 ["ta"]); (3, TIncr "b:1" 1 64 ["g:1"]); (40, TSet "a:1" (VInt 7) 160 [])].
Example C12_ttl_example :
  Forall (fun te => ev_okT (snd te)) h_ttl /\ mono 0 h_ttl /\ excl_f20 REG KEYS empty h_ttl = false /\
  let '(m, i) := run_t REG KEYS empty (fun _ => []) h_ttl in
  (i "a:1", i "a:2", i "b:1", map (fun k => isSome (s_look (tag_step REG KEYS m 50 (TDeleteTags "ta")) 50 k)) ["a:1"; "a:2"; "b:1"])
  = ([], ["ta"], ["g:1"], [true; false; true]).
Proof.
  assert (NT : forall k, (k = "a:1" \/ k = "a:2" \/ k = "b:1") -> not_tagkey k) by (intros k [->|[->| ->]] t E; discriminate).
  split; [repeat constructor; cbn [snd ev_okT]; apply NT; auto|].
  split; [cbn; lia|]. split; vm_compute; reflexivity.
Qed.

(* lazy expiry: the correspondence also runs histories in which some keys are only watched, not read, between the commands
   (`tag_step_lazy`: such a key stays in the store past its deadline until a command meets it).  That variant IS the model of
   the theorems above whenever every key is read between the commands: *)
Theorem C12_lazy_variant_coincides_when_all_keys_are_read : forall reg keys m now e, Forall not_tagkey keys -> ev_in keys e ->
  tag_step_lazy reg keys keys m now e = tag_step reg keys m now e.
Proof. exact lazy_all_probed. Qed.
Print Assumptions C12_lazy_variant_coincides_when_all_keys_are_read.
(* and it differs when one is not: a:1 (tagged ta, short TTL) expires unread, is explicitly deleted - the expired entry is purged
   with its callback, pruning the membership - and re-created without the tag: delete_tags(ta) leaves it; the same key merely
   written over (no delete) keeps the stale membership and goes *)
Example C12_lazy_example :
  let run h := fold_left (fun m te => tag_step_lazy REG ["a:2"; "c"] KEYS m (fst te) (snd te)) h empty in
  let h0 := [(1, TSet "a:1" (VInt 1) 4 ["ta"]); (1, TSet "a:2" (VInt 2) 1600 ["ta"])] in
  (isSome (s_look (run (h0 ++ [(9, TDel "a:1"); (9, TSet "a:1" (VInt 5) 0 []); (9, TDeleteTags "ta")])) 9 "a:1"),
   isSome (s_look (run (h0 ++ [(9, TSet "a:1" (VInt 5) 0 []); (9, TDeleteTags "ta")])) 9 "a:1"))
  = (true, false).
Proof. vm_compute. reflexivity. Qed.

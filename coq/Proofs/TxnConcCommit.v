(* C05, the other half of "commits exactly its own writes": a block that did not fail and has reached its release phase
   (from which it can only hand its body's results to the caller) HAS issued its commit commands - the delete_many of
   its whole delete set and the set_many of its whole overlay - whenever those are non-empty.  Together with
   tx_commit_at_most_once and tx_log_is_own_writes: exactly once, and exactly its own writes.  Any number of tasks, any schedule. *)
From Cashews Require Import Base.Prelude Model.TxnConc Proofs.TxnConcProofs.
Open Scope Z_scope.

Definition fin (x : txn) : list (nat * Z) * list nat := fold_left lapply (texec x) ([], []).

Definition CCx (c : cfg) (i : nat) (x : txn) : Prop :=
  tfail x = None ->
  (match tphase x with
   | PCommitSet | PUnlock => snd (fin x) <> [] -> In (i, ttoken x, WDelMany, texec x) (wlog c)
   | _ => True end) /\
  (match tphase x with
   | PUnlock => fst (fin x) <> [] -> In (i, ttoken x, WSetMany, texec x) (wlog c)
   | _ => True end).
Definition CC (c : cfg) : Prop := forall i x, cur (tasks c i) = Some x -> CCx c i x.

Lemma wlog_grows c i h : exists l, wlog (fst (run_task c i h)) = wlog c ++ l.
Proof.
  destruct (run_task_data_action c i h) as [A|E]; [|rewrite E; exists []; symmetry; apply app_nil_r].
  destruct A as [x x' Hs Hw | Hs Hw | x' b rest Hs Hw | cm rest Hc Hc' Hit Hwr Hs Hw | x x' l pend Hs Hw | x x' Hs Hw
                 | x x' Hc Hc' Hph Hph' Hs Hw | x x' Hc Hc' Hph Hph' Hs Hw]; rewrite Hw; eauto; exists []; symmetry; apply app_nil_r.
Qed.

Ltac triv := unfold CCx, fail_with, set_phase; cbn; first [discriminate | intros _; split; exact I].

Lemma cc_run_task c i h : TAll c -> CC c -> CC (fst (run_task c i h)).
Proof.
  intros TA HC j y Hy.
  destruct (wlog_grows c i h) as (ext & Hext).
  destruct (Nat.eq_dec j i) as [->|Hne].
  2:{ rewrite run_task_frame in Hy by assumption. intro Hf. destruct (HC j y Hy Hf) as [A B].
      split; [destruct (tphase y); try exact I|destruct (tphase y); try exact I]; intro H; rewrite Hext; apply in_or_app; left; auto. }
  revert Hy Hext. unfold run_task.
  destruct (now c <? wake (tasks c i)); [intros Hy _; apply HC; exact Hy|].
  destruct (cur (tasks c i)) as [x|] eqn:Hcur.
  - pose proof (TA _ _ Hcur) as (T1 & T2 & T3 & T4 & T5 & T6). pose proof (HC _ _ Hcur) as Hx.
    destruct (tphase x) as [[|cm pend]| | |] eqn:Hph.
    + (* end of the body *)
      destruct (tfail x) as [b|] eqn:Hf; [|destruct (braise (tblock x)) eqn:Hr]; cbn; rewrite upd_same; cbn; intros [= <-] _; triv.
    + destruct (match tmode x with Fast => false | _ => is_write cm && negb (heldb (theld x) (lock_key (tmode x) (cmd_key cm))) end).
      * destruct (lock_free c _).
        -- cbn. rewrite upd_same. cbn. intros [= <-] _. unfold CCx. cbn. rewrite ?Hph. intros _. split; exact I.
        -- cbn. rewrite upd_same. cbn. intros [= <-] _.
           destruct (match tbudget x with Some n => n | None => attempts c end) as [|[|n]]; unfold CCx, fail_with; cbn; rewrite ?Hph;
             first [discriminate | intros _; split; exact I].
      * unfold body_cmd. destruct cm; cbn;
          repeat match goal with
                 | |- context[if ?b then _ else _] => destruct b
                 | |- context[match lookup ?a ?b with _ => _ end] => destruct (lookup a b)
                 | |- context[let '(_, _) := ?p in _] => destruct p
                 end; cbn; rewrite upd_same; cbn; intros [= <-] _; triv.
    + (* delete_many *)
      unfold fin in *. destruct (tdel x) as [|d0 dl] eqn:Hd; cbn; rewrite upd_same; cbn; intros [= <-] Hext; unfold CCx, fin; cbn; intros Hf; (split; [|exact I]).
      * intro Hne. exfalso. apply Hne. rewrite <- T1. reflexivity.
      * intros _. cbn in Hext. rewrite Hext. apply in_or_app. right.
        apply app_inv_head in Hext. subst ext. left. reflexivity.
    + (* set_many *)
      unfold fin in *. destruct (tov x) as [|o0 ol] eqn:Ho; cbn; rewrite upd_same; cbn; intros [= <-] Hext; unfold CCx, fin; cbn; intros Hf;
        destruct (Hx Hf) as [A _]; rewrite Hph in A; unfold fin in A.
      * split; [intro H; rewrite Hext; apply in_or_app; left; auto|]. intro Hne. exfalso. apply Hne. rewrite <- T1. reflexivity.
      * split; [intro H; rewrite Hext; apply in_or_app; left; auto|]. intros _. cbn in Hext. rewrite Hext. apply in_or_app. right.
        apply app_inv_head in Hext. subst ext. left. reflexivity.
    + (* release *)
      destruct (theld x) as [|[lk0 d0] hr]; cbn; rewrite upd_same; cbn; [discriminate|].
      intros [= <-] Hext. unfold CCx, fin. cbn. intro Hf. destruct (Hx Hf) as [A B]. rewrite Hph in A, B. unfold fin in A, B.
      split; intro H; rewrite Hext; apply in_or_app; left; auto.
  - destruct (items (tasks c i)) as [|[cm|b] rest]; [cbn; rewrite Hcur; discriminate| |].
    + unfold direct. destruct cm; cbn; rewrite upd_same; cbn; discriminate.
    + cbn. rewrite upd_same. cbn. intros [= <-] _. unfold CCx. cbn. intros _. split; exact I.
Qed.

Lemma cc_init progs st tmo att : CC (init progs st tmo att).
Proof. intros i x H. cbn in H. discriminate. Qed.

Theorem tx_commit_complete progs st tmo att evs i x :
  let c := run_from (init progs st tmo att) evs in
  cur (tasks c i) = Some x -> tphase x = PUnlock -> tfail x = None ->
  (snd (fin x) <> [] -> In (i, ttoken x, WDelMany, texec x) (wlog c)) /\
  (fst (fin x) <> [] -> In (i, ttoken x, WSetMany, texec x) (wlog c)).
Proof.
  assert (G : forall evs c0, TAll c0 -> CC c0 -> CC (run_from c0 evs)).
  { clear. induction evs as [|e evs IH]; intros c0 HT HC; cbn; [exact HC|]. apply IH; [apply tall_step; exact HT|].
    destruct e as [j h|dt]; cbn [step]; [apply cc_run_task; assumption|].
    destruct (0 <=? dt); [|exact HC]. intros j y Hy. exact (HC j y Hy). }
  intros c Hc Hp Hf. pose proof (G evs _ (tall_init progs st tmo att) (cc_init progs st tmo att) i x Hc Hf) as [A B].
  rewrite Hp in A, B. split; assumption.
Qed.

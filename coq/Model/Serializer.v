(* Executable image of cashews/serialize.py (Serializer.encode/decode, HashSigner, NullSigner)
   over byte strings.  The pickler (dumps/loads) and the MAC are parameters: the theorems state
   the contract they need; the correspondence run instantiates them with tables recorded from the
   real pickler / hmac.  Definitions only. *)
From Coq Require Import Ascii.
From Cashews Require Import Base.Prelude.
Open Scope string_scope.

(* ---- byte-string helpers ---- *)
Definition is_digit (c : ascii) : bool := let n := N_of_ascii c in (48 <=? n)%N && (n <=? 57)%N.
Fixpoint all_digits (s : string) : bool :=
  match s with EmptyString => true | String c r => is_digit c && all_digits r end.
(* bytes.isdigit(): non-empty and only ASCII digits *)
Definition isdigit (s : string) : bool := match s with EmptyString => false | _ => all_digits s end.
Fixpoint int_of_digits_acc (acc : Z) (s : string) : Z :=
  match s with EmptyString => acc | String c r => int_of_digits_acc (10 * acc + (Z.of_N (N_of_ascii c) - 48)) r end.
Definition int_of_digits (s : string) : Z := int_of_digits_acc 0 s.
Fixpoint contains (c : ascii) (s : string) : bool :=
  match s with EmptyString => false | String d r => Ascii.eqb c d || contains c r end.
(* s.split(c, 1) when c occurs *)
Fixpoint split_first (c : ascii) (s : string) : option (string * string) :=
  match s with
  | EmptyString => None
  | String d r => if Ascii.eqb c d then Some (EmptyString, r)
                  else match split_first c r with Some (a, b) => Some (String d a, b) | None => None end
  end.

(* ---- configuration ---- *)
Inductive lres := LOk (v : val) | LUnpick | LAttr | LOther.   (* loads: value / one of the pickler's "not a pickle" error classes (Pickler.UnpicklingError) / AttributeError / any other *)
Inductive stored := SInt (z : Z) | SBytes (b : string) | SObj (v : val).
Inductive dres := DVal (v : val) | DDefault | DUnsecure | DExc.
Record cfg := { signer : option (string * string) }.           (* Some (digestmod, secret) = HashSigner *)
Definition labels : list string := ["sha1"; "md5"; "sha256"; "sum"].
Definition is_label (s : string) : bool := existsb (String.eqb s) labels.

Section Ser.
Variable dumps : val -> option string.      (* None: NonPickler hands the object back unchanged *)
Variable loads : string -> lres.
Variable mac : string -> string -> string -> string.   (* digestmod, secret, message -> hex digest *)
(* the custom-type registry (Serializer._type_mapping): cenc v = Some (type name, encoder output) when
   type(v).__name__ is registered; cdec name payload = decoder output, None = unknown name / DecodeError *)
Variable cenc : val -> option (string * string).
Variable cdec : string -> string -> option val.

(* HashSigner.sign / NullSigner.sign *)
Definition sign (c : cfg) (key payload : string) : string :=
  match signer c with
  | None => payload
  | Some (dg, secret) => dg ++ ":" ++ mac dg secret (key ++ payload) ++ "_" ++ payload
  end.

(* Serializer.encode *)
Definition encode (c : cfg) (key : string) (v : val) : stored :=
  match v with
  | VInt z => SInt z                                      (* int and not bool: stored raw *)
  | _ => match cenc v with
         | Some (ty, e) => SBytes (sign c key (ty ++ ":" ++ e))          (* _custom_encode *)
         | None => match dumps v with Some p => SBytes (sign c key p) | None => SObj v end
         end
  end.

Inductive csres := CSOk (payload : string) | CSMissing | CSUnsecure.
(* HashSigner.check_sign (+ _get_sign_and_digestmod) / NullSigner.check_sign *)
Definition check_sign (c : cfg) (key blob : string) : csres :=
  match signer c with
  | None => CSOk blob
  | Some (dg, secret) =>
      match split_first "_" blob with
      | None => CSMissing
      | Some (sg, payload) =>
          let '(dm, sg') := if contains ":" sg
                            then match split_first ":" sg with Some (d, s') => (d, s') | None => (dg, sg) end
                            else (dg, sg) in
          if negb (is_label dm) then CSUnsecure
          else if String.eqb (mac dm secret (key ++ payload)) sg' then CSOk payload else CSUnsecure
      end
  end.

(* Serializer._custom_decode *)
Definition custom_decode (b : string) : dres :=
  match split_first ":" b with
  | None => DDefault
  | Some (ty, rest) => match cdec ty rest with Some v => DVal v | None => DDefault end
  end.

(* Serializer.decode; second component: every byte string handed to the unpickler *)
Definition decode (c : cfg) (key : string) (s : stored) : dres * list string :=
  match s with
  | SInt z => (DVal (VInt z), [])
  | SObj v => (DVal v, [])
  | SBytes b =>
      if isdigit b then (DVal (VInt (int_of_digits b)), [])
      else match check_sign c key b with
           | CSMissing => (DDefault, [])
           | CSUnsecure => (DUnsecure, [])
           | CSOk p =>
               match loads p with
               | LOk (VBytes pb) => (custom_decode pb, [p])
               | LOk v => (DVal v, [p])
               | LUnpick => (custom_decode p, [p])
               | LAttr => (DDefault, [p])
               | LOther => (DExc, [p])
               end
           end
  end.

(* the blob carries a signature that verifies for this key, secret and payload *)
Definition verified (c : cfg) (key blob p : string) : Prop :=
  match signer c with
  | None => False
  | Some (dg, secret) =>
      exists sg, split_first "_" blob = Some (sg, p) /\
        let '(dm, sg') := if contains ":" sg
                          then match split_first ":" sg with Some (d, s') => (d, s') | None => (dg, sg) end
                          else (dg, sg) in
        is_label dm = true /\ mac dm secret (key ++ p) = sg'
  end.
End Ser.

(* the registry as shipped: only bytes, encoded as themselves *)
Definition default_cenc (v : val) : option (string * string) := match v with VBytes b => Some ("bytes", b) | _ => None end.
Definition default_cdec (ty payload : string) : option val := if String.eqb ty "bytes" then Some (VBytes payload) else None.

"""C16: a failing backend never leaves a task stuck in a transaction or locks held."""
import asyncio
import itertools

from harness import vclock
from harness.core import C, Nat, S, Some, Z
from harness.memrun import TICK, val_to_coq

ID = "C16"
RUN_MODULE = "Spec.TTLMap Model.Tags Model.Txn Model.TxnFault Run.C16"
EXPLAIN = "explain"
RULE = ("16 transactional programs (set / incr / delete / set_many / get / expire over keys a, b, optionally a second backend registered under prefix "
        "'p:') x 3 modes, the block written as a context manager, as a decorated function, or with mode and timeout taken from set_transaction_mode / set_transaction_timeout; a clean run records the trace of underlying backend commands (set_lock, get, delete_many, set_many, unlock ...); then "
        "EVERY single position and EVERY pair of positions of that trace is made to raise (quick), and every triple (thorough), in a fresh cache each time; every single position is also made to end with "
        "CancelledError (judged only on: the task has left the transaction); half of the cases run on a backend with latency; "
        "observed: exception seen by the caller, whether a write issued right after the block reaches the store, lock keys left, values and remaining lifetimes of the data keys of both "
        "stores. non-trivial: the fault hits the commit or the lock release (not the first body command)")
TRUSTED_BASE = ["Coq 8.16.1 kernel + vm_compute", "hand-written model coq/Model/TxnFault.v (try/finally and context-manager exit order transcribed) tied by this differential run",
                "a fault = the command raises and has no effect (the wrapper raises before calling the backend)",
                "in every other case the wrapped backend commands take one event-loop turn before they execute (a backend with latency); the model has no latency: the order of commands is what is compared",
                "the order in which a Python set of lock keys is iterated is observed in the clean run and given to the model"]
ASSUMPTIONS = ["single task (no lock contention)", "at most one overlay entry with a TTL, written after the TTL-less ones (commit issues one set_many per TTL group in the overlay's order; the model puts the TTL-less group first)", "data keys never start with ':'"]
EXHAUSTIVE = {"quick": True, "thorough": True}
U = ["a", "b", "p:a"]


class Fault(Exception):
    pass


PROGRAMS = [
    [[0, ["set", "a", 1]]],
    [[0, ["set", "a", 1]], [0, ["set", "b", 2]]],
    [[0, ["incr", "a"]]],
    [[0, ["delete", "a"]], [0, ["set", "b", 2]]],
    [[0, ["set_many", [["a", 1], ["b", 2]]]]],
    [[0, ["get", "a"]], [0, ["set", "a", 5]]],
    [[0, ["set", "a", 1]], [1, ["set", "p:a", 2]]],
    [[1, ["set", "p:a", 2]], [0, ["set", "a", 1]], [0, ["delete", "b"]]],
    [[0, ["incr", "b"]], [1, ["incr", "p:a"]]],
    [[0, ["set", "a", 1]], [0, ["delete", "a"]], [0, ["incr", "a"]]],
    [[0, ["delete", "b"]], [1, ["delete", "p:a"]], [0, ["get", "a"]]],
    [[0, ["set_many", [["a", 3], ["b", 4]]]], [1, ["get", "p:a"]], [1, ["set", "p:a", 9]]],
    # expire inside the block: a write like any other (locked, kept in the overlay, applied at commit only)
    [[0, ["expire", "a", 2]]],
    [[0, ["set", "a", 1]], [0, ["expire", "a", 2]]],
    [[0, ["incr", "b"]], [0, ["expire", "a", 2]]],
    [[0, ["expire", "a", 2]], [0, ["get", "b"]]],
]
WRAPPED = ["set_lock", "unlock", "get", "exists", "get_many", "scan", "set_many", "delete_many", "get_expire"]


def gen_cases(rng, tier):
    cases = []
    for pi, prog in enumerate(PROGRAMS):
        for mode in ("fast", "locked", "serializable"):
            base = {"prog": pi, "mode": mode, "init": rng.choice([[], [["a", 7]], [["a", 7], ["b", 8], ["p:a", 9]]])}
            clean = _run(dict(base, faults=[]))
            n = len(clean["trace"])
            cases.append(dict(base, faults=[]))
            for p in range(n):
                cases.append(dict(base, faults=[p]))
                cases.append(dict(base, faults=[p], cancel=True))      # the same command ends with CancelledError instead
            for p, q in itertools.combinations(range(n + 1), 2):       # every pair of positions (cheap: a few seconds in all)
                cases.append(dict(base, faults=[p, q]))
            if tier == "thorough":
                for t in itertools.combinations(range(n + 1), 3):       # and every triple
                    cases.append(dict(base, faults=list(t)))
    return cases


def _run(case):
    prog = PROGRAMS[case["prog"]]
    two = any(b == 1 for b, _ in prog)

    async def go():
        from cashews import Cache
        from cashews.wrapper.transaction import TransactionMode
        cache = Cache()
        mems = [cache.setup("mem://?check_interval=0&size=100000")]
        if two:
            mems.append(cache.setup("mem://?check_interval=0&size=100000", prefix="p:"))
        await cache.init()
        for k, v in case["init"]:
            if k.startswith("p:") and not two:
                continue
            await cache.set(k, v)
        state = {"n": 0, "phase": "body", "armed": True}
        slow = ((case["prog"] + sum(case["faults"])) // 3) % 2 == 1
        trace = []

        def wrap(bi, mem, name):
            orig = getattr(mem, name)

            def w(*a, **kw):
                if not state["armed"]:
                    return orig(*a, **kw)
                p = state["n"]; state["n"] += 1
                key = a[0] if a and isinstance(a[0], str) else (kw.get("key") or "")
                trace.append([bi, name, key, state["phase"]])
                if p in case["faults"]:
                    async def boom():
                        if case.get("cancel"):
                            raise asyncio.CancelledError()      # not an Exception: e.g. a timeout around a command that hangs
                        raise Fault(f"injected at {p}")
                    return boom()
                if slow:
                    # a backend with latency: a command that succeeds takes an event-loop turn, one that fails fails at once
                    async def later():
                        await asyncio.sleep(0)
                        return await orig(*a, **kw)
                    return later()
                return orig(*a, **kw)
            setattr(mem, name, w)
        for bi, mem in enumerate(mems):
            for name in WRAPPED:
                wrap(bi, mem, name)
        mode = {"fast": TransactionMode.FAST, "locked": TransactionMode.LOCKED, "serializable": TransactionMode.SERIALIZABLE}[case["mode"]]
        raised = None
        async def body():
            for b, c in prog:
                if c[0] == "set": await cache.set(c[1], c[2])
                elif c[0] == "incr": await cache.incr(c[1])
                elif c[0] == "delete": await cache.delete(c[1])
                elif c[0] == "set_many": await cache.set_many({k: v for k, v in c[1]})
                elif c[0] == "get": await cache.get(c[1])
                elif c[0] == "expire": await cache.expire(c[1], c[2])
            state["phase"] = "exit"
        # three forms of the same block, chosen by the case: context manager, decorated function, and the timeout taken from
        # set_transaction_timeout() instead of the call (never the default 10 s: the TTL of a lock left behind must be this one)
        form = (case["prog"] + sum(case["faults"])) % 3
        try:
            if form == 0:
                async with cache.transaction(mode=mode, timeout=2.5):
                    await body()
            elif form == 1:
                await cache.transaction(mode=mode, timeout=2.5)(body)()
            else:
                cache.set_transaction_timeout(2.5)
                cache.set_transaction_mode(mode)
                async with cache.transaction():
                    await body()
        except Fault:
            raised = "Fault"
        except BaseException as e:  # noqa
            raised = type(e).__name__
        def lock_snapshot():
            return [{k: (round((m.store[k][0] - vclock.Clock.now) / TICK) if m.store[k][0] is not None else -1) for k in m.store if k.startswith(":")} for m in mems]
        at_exit = lock_snapshot()      # the very moment the block is left: a release handed to a later event-loop turn has not happened yet
        for _ in range(5):
            await asyncio.sleep(0)
        state["armed"] = False
        try:
            await asyncio.wait_for(cache.set("probe", 1), 5)
        except Exception as e:  # noqa
            pass
        stuck = "probe" not in mems[0].store
        # lock keys present when the block was left OR a few event-loop turns later (an acquisition still in flight lands late)
        both = [dict(a, **b) for a, b in zip(at_exit, lock_snapshot())]
        locks_left = [sorted(d) for d in both]
        lock_life = [[d[k] for k in sorted(d)] for d in both]
        data = [[(m.store[k][1] if k in m.store else None) for k in U] for m in mems]
        dlife = [[(-2 if k not in m.store else -1 if m.store[k][0] is None else round((m.store[k][0] - vclock.Clock.now) / TICK)) for k in U] for m in mems]
        await cache.close()
        return {"trace": trace, "raised": raised, "stuck": stuck, "locks_left": locks_left, "lock_life": lock_life, "data": data, "dlife": dlife, "nb": len(mems)}
    return vclock.run(go)


def run_impl(case):
    obs = _run(case)
    clean = _run(dict(case, faults=[]))
    obs["order"] = [[t[2] for t in clean["trace"] if t[0] == bi and t[1] == "unlock"] for bi in range(obs["nb"])]
    used = []
    for t in clean["trace"]:
        pass
    # backends in order of first use by the program (Transaction._backends insertion order)
    for b, _ in PROGRAMS[case["prog"]]:
        if b not in used:
            used.append(b)
    obs["used"] = used
    return obs


def _bcmd(c):
    if c[0] == "set": return C("BSet", S(c[1]), val_to_coq(c[2]), Z(0))
    if c[0] == "incr": return C("BIncr", S(c[1]))
    if c[0] == "delete": return C("BDel", S(c[1]))
    if c[0] == "set_many": return C("BSetMany", [(S(k), val_to_coq(v)) for k, v in c[1]])
    if c[0] == "expire": return C("BExpire", S(c[1]), Z(c[2] * 16))
    return C("BGet", S(c[1]))


def to_coq(case, obs):
    if case.get("cancel"):
        return C("CCancel", bool(obs["stuck"]))
    md = C({"fast": "MFast", "locked": "MLocked", "serializable": "MSerial"}[case["mode"]])
    nb = obs["nb"]
    init = [[(S(k), val_to_coq(v)) for k, v in case["init"] if (k.startswith("p:")) == (bi == 1)] for bi in range(nb)]
    cs = [(Nat(b), _bcmd(c)) for b, c in PROGRAMS[case["prog"]]]
    fds = []
    for p in case["faults"]:
        if p < len(obs["trace"]):
            bi, name, key, phase = obs["trace"][p]
            fds.append(C("FD", name == "unlock", Nat(bi), S(key), phase == "body"))
    raised = obs["raised"] is not None
    if obs["raised"] not in (None, "Fault"):
        raised = not raised   # an exception of another class: never what the model allows
    data = [[None if v is None else Some(val_to_coq(v)) for v in d] for d in obs["data"]]
    return C("CFault", md, [S(k) for k in U], Z(1), init, cs, [Nat(b) for b in obs["used"]], [[S(k) for k in o] for o in obs["order"]],
             [Nat(p) for p in case["faults"]], fds, raised, bool(obs["stuck"]), [[S(k) for k in l] for l in obs["locks_left"]], data,
             [[Z(x) for x in l] for l in obs["lock_life"]], [[Z(x) for x in l] for l in obs["dlife"]])


def nontrivial(case, obs):
    return any(p < len(obs["trace"]) and (obs["trace"][p][3] == "exit" or p > 0) for p in case["faults"])


def classify(case, obs):
    d = {"mode_" + case["mode"]: 1, "faults_%d" % len(case["faults"]): 1, "raised": int(obs["raised"] is not None),
         "stuck": int(obs["stuck"]), "locks_left": sum(len(l) for l in obs["locks_left"])}
    for p in case["faults"]:
        if p < len(obs["trace"]):
            d["fault_on_" + obs["trace"][p][1]] = d.get("fault_on_" + obs["trace"][p][1], 0) + 1
    return d


def shrink(case):
    if len(case["faults"]) > 1:
        for i in range(len(case["faults"])):
            c = dict(case); c["faults"] = case["faults"][:i] + case["faults"][i + 1:]; yield c
    if case["init"]:
        c = dict(case); c["init"] = []; yield c

from .client import Pipeline, PubSub, Redis  # noqa: F401
from .connection import BlockingConnectionPool, ConnectionPool  # noqa: F401

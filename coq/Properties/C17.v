(* C17 - keys are routed by longest prefix; disabling truly bypasses the cache. Statements only. *)
From Cashews Require Import Base.Prelude Model.Router Proofs.RouterProofs.

(* for every finite set of registered prefixes and every key: the selected prefix is registered,
   is a prefix of the key, and no registered prefix of the key is longer *)
Theorem C17_route_longest : forall prefixes k p, route_prefix (sort_desc prefixes) k = Some p ->
  In p prefixes /\ String.prefix p k = true /\
  forall q, In q prefixes -> String.prefix q k = true -> (String.length q <= String.length p)%nat.
Proof. exact route_longest. Qed.
Print Assumptions C17_route_longest.

(* "not configured" is reported only when no registered prefix matches *)
Theorem C17_route_none : forall prefixes k, route_prefix (sort_desc prefixes) k = None ->
  forall q, In q prefixes -> String.prefix q k = false.
Proof. exact route_none. Qed.
Print Assumptions C17_route_none.

(* multi-key reads spanning several backends answer in the caller's key order (any routing
   function, any backends whose own get_many is positional - which is C01 for Memory) *)
Theorem C17_many_in_order : forall rt bk_get ks,
  facade_get_many rt (bk_many bk_get) ks = map (fun k => bk_get (rt k) k) ks.
Proof. exact many_in_order. Qed.
Print Assumptions C17_many_in_order.

(* a disabled command is never issued to the backend and yields the default-shaped result *)
Theorem C17_disabled_bypass : forall k, middleware true k = (disabled_result k, false) /\ disabled_result k <> RBackend.
Proof. exact disabled_bypass. Qed.
Print Assumptions C17_disabled_bypass.

(* enable/disable in task t does not change what any other task t' observes *)
Theorem C17_disable_task_local : forall all c t cmds t' q, ctl_wf c -> t <> t' ->
  c_is_disable all (c_disable all c t cmds) t' q = c_is_disable all c t' q /\
  c_is_disable all (c_enable c t cmds) t' q = c_is_disable all c t' q.
Proof. exact disable_task_local. Qed.
Print Assumptions C17_disable_task_local.

Example C17_example :
  route_prefix (sort_desc [""; "a"; "ab"; "b"; "a:"]%string) "ab:1"%string = Some "ab"%string /\
  route_prefix (sort_desc [""; "a"; "ab"; "b"; "a:"]%string) "a:1"%string = Some "a:"%string /\
  route_prefix (sort_desc ["a"; "b"]%string) "c"%string = None.
Proof. vm_compute. repeat split. Qed.

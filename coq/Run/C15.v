(* Correspondence + oracle for C15 (rate_limit, slice_rate_limit, circuit_breaker). *)
From Cashews Require Import Base.Prelude Spec.TTLMap Model.Rate.
Open Scope string_scope.
Open Scope Z_scope.

Inductive case :=
| CRate (limit period ttl : Z) (h : list Z) (ran : list bool)
| CSlide (limit period : Z) (h : list Z) (ran : list bool)
(* per call: instant, what the function does; observed: ran? , is the breaker open right after the call? *)
(* (a call starts at its instant and the function takes `dur` ticks before it returns or raises) *)
| CBreaker (rate period ttl min_calls : Z) (h : list (Z * bout * Z)) (o : list (bool * bool)).

Definition K : key := "k".
Fixpoint run_rate (m : tmap) limit period ttl (h : list Z) : list bool :=
  match h with [] => [] | t :: r => let '(m', b) := rate_call m t K limit period ttl in b :: run_rate m' limit period ttl r end.
Fixpoint run_slide (m : tmap) limit period (h : list Z) : list bool :=
  match h with [] => [] | t :: r => let '(m', b) := slide_call m t K limit period in b :: run_slide m' limit period r end.
Fixpoint run_breaker (m : tmap) rate period ttl mc (h : list (Z * bout * Z)) : list (bool * bool) :=
  match h with
  | [] => []
  | (t, o, dur) :: r =>
      let '(m', res, _) := breaker_call_at m t (t + dur) K rate period ttl mc o in
      let fin := match res with BRan _ => t + dur | BOpen => t end in
      (match res with BRan _ => true | BOpen => false end, isSome (s_look m' fin (open_key K)))
      :: run_breaker m' rate period ttl mc r
  end.

(* ---------- oracles ---------- *)
(* fixed window: an epoch starts at the first counted call, lapses `period` later, or `ttl` after its first rejection *)
Fixpoint ok_rate limit period ttl (epoch_end : option Z) (count : Z) (h : list Z) (ran : list bool) : bool :=
  match h, ran with
  | [], [] => true
  | t :: h', b :: ran' =>
      let fresh := match epoch_end with Some e => e <=? t | None => true end in
      let count := if fresh then 1 else count + 1 in
      let e := if fresh then t + period else match epoch_end with Some e => e | None => t + period end in
      let e := if (count =? limit + 1) && (0 <? ttl) then t + ttl else e in
      Bool.eqb b (count <=? limit) && ok_rate limit period ttl (Some e) count h' ran'
  | _, _ => false
  end.
(* sliding window: every executed call has fewer than `limit` executed calls in the `period` before it *)
Fixpoint ok_slide limit period (done : list Z) (h : list Z) (ran : list bool) : bool :=
  match h, ran with
  | [], [] => true
  | t :: h', b :: ran' =>
      (if b then Z.of_nat (length (filter (fun v => t - period <? v) done)) <? limit else true) &&
      ok_slide limit period (if b then t :: done else done) h' ran'
  | _, _ => false
  end.
(* breaker: T = start instants of the calls that got past the open check, F = instants at which those of them that failed
   with a listed exception failed.  Calls are counted in the period before the call's start, failures in the period before
   the failure (for an instantaneous call both are the property's "last period"); exact up to instants lying exactly `period` back *)
Definition rule rate mc (total fails : Z) : bool := negb (total <? mc) && (rate * total <=? fails * 100).
Fixpoint ok_breaker rate period ttl mc (open_until : option Z) (T F : list Z) (h : list (Z * bout * Z)) (o : list (bool * bool)) : bool :=
  match h, o with
  | [], [] => true
  | (t, x, dur) :: h', (r, op) :: o' =>
      let is_open := match open_until with Some u => t <? u | None => false end in
      if is_open then negb r && op && ok_breaker rate period ttl mc open_until T F h' o'
      else
        let fin := t + dur in
        let cnt (strict : bool) (at_ : Z) (l : list Z) := Z.of_nat (length (filter (fun e => if strict then at_ - period <? e else at_ - period <=? e) l)) in
        let failed := match x with BFailListed => true | _ => false end in
        let trip_lo := failed && rule rate mc (cnt true t T + 1) (cnt true fin F + 1) in
        let trip_hi := failed && rule rate mc (cnt false t T + 1) (cnt false fin F + 1) in
        let trip_mix := failed && rule rate mc (cnt false t T + 1) (cnt true fin F + 1) in
        r && (Bool.eqb op trip_lo || Bool.eqb op trip_hi || Bool.eqb op trip_mix) &&
        ok_breaker rate period ttl mc (if op then Some (fin + ttl) else None) (t :: T) (if failed then fin :: F else F) h' o'
  | _, _ => false
  end.

Definition bb_eqb (a b : bool * bool) := Bool.eqb (fst a) (fst b) && Bool.eqb (snd a) (snd b).
Definition judge (c : case) : verdict :=
  match c with
  | CRate limit period ttl h ran => (list_eqb Bool.eqb (run_rate empty limit period ttl h) ran, ok_rate limit period ttl None 0 h ran, [])
  | CSlide limit period h ran => (list_eqb Bool.eqb (run_slide empty limit period h) ran, ok_slide limit period [] h ran, [])
  | CBreaker rate period ttl mc h o => (list_eqb bb_eqb (run_breaker empty rate period ttl mc h) o, ok_breaker rate period ttl mc None [] [] h o, [])
  end.
Definition explain (c : case) :=
  match c with
  | CRate limit period ttl h _ => (run_rate empty limit period ttl h, [])
  | CSlide limit period h _ => (run_slide empty limit period h, [])
  | CBreaker rate period ttl mc h _ => ([], run_breaker empty rate period ttl mc h)
  end.

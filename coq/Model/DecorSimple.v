(* Executable image of
     decorators/cache/simple.py   _wrap: get / execute / condition / set
     decorators/cache/iterator.py _wrap: replay loop, buffered chunk store
     cache_condition.py           the conditions
     ttl.py                       _ttl_from_str
   over the TTL-map spec (C01 shows Memory refines it).  The wrapped function is a script.
   Definitions only. *)
From Coq Require Import Ascii.
From Cashews Require Import Base.Prelude Spec.TTLMap Model.Key.
Open Scope string_scope.

Inductive outcome := OVal (v : val) | OExc (e : Z).     (* returned value / raised exception class *)
Definition outcome_eqb (a b : outcome) : bool :=
  match a, b with OVal x, OVal y => val_eqb x y | OExc x, OExc y => (x =? y)%Z | _, _ => false end.

(* cache_condition.py + user callables, by what they return *)
Inductive condk :=
| CAll                              (* _store_all *)
| CNotNone                          (* _not_none_store_condition *)
| CTruthy                           (* callable: bool(result) *)
| CNonBool                          (* callable: 1 if result else 0 -- truthy but not a bool *)
| CWithExc (es : list Z)            (* with_exceptions(E...) *)
| COnlyExc (es : list Z).           (* only_exceptions(E...) *)
Inductive cres := CRTrue | CRFalse | CROtherTruthy | CROtherFalsy | CRExc.
Definition truthy (v : val) : bool :=
  match v with
  | VInt z => negb (z =? 0)%Z | VStr s | VBytes s => negb (String.eqb s "") | VBool b => b | VNone => false
  | VSet l => negb (match l with [] => true | _ => false end)
  | VZs l => negb (match l with [] => true | _ => false end)
  | VOpq _ => true
  end.
Definition memz (x : Z) (l : list Z) : bool := existsb (Z.eqb x) l.
Definition eval_cond (c : condk) (o : outcome) : cres :=
  match c, o with
  | CAll, _ => CRTrue
  | CNotNone, OVal VNone => CRFalse
  | CNotNone, _ => CRTrue
  | CTruthy, OVal v => if truthy v then CRTrue else CRFalse
  | CTruthy, OExc _ => CRTrue
  | CNonBool, OVal v => if truthy v then CROtherTruthy else CROtherFalsy
  | CNonBool, OExc _ => CROtherTruthy
  | CWithExc es, OExc e => if memz e es then CRExc else CRTrue
  | CWithExc _, OVal _ => CRTrue
  | COnlyExc es, OExc e => if memz e es then CRExc else CRFalse
  | COnlyExc _, OVal _ => CRFalse
  end.

(* RaiseException(exc) as a stored value *)
Definition raise_marker (e : Z) : val := VOpq (1000 + e).
Definition unmark (v : val) : outcome :=       (* return_or_raise *)
  match v with VOpq n => if (1000 <=? n)%Z then OExc (n - 1000) else OVal v | _ => OVal v end.

(* an exception OBJECT handed back as an ordinary result (returned, not raised): never stored by simple.py *)
Definition excobj (e : Z) : val := VOpq (2000 + e).
Definition is_excobj (v : val) : bool := match v with VOpq n => (2000 <=? n)%Z | _ => false end.

(* ---------- simple.py _wrap ---------- *)
(* o = what the wrapped function does if it is executed now; returns (map, outcome delivered, executed?) *)
Definition simple_call (m : tmap) (now : Z) (k : key) (ttl : Z) (c : condk) (o : outcome) : tmap * outcome * bool :=
  match s_get m now k with
  | Some v => (m, unmark v, false)
  | None =>
      let m' := match eval_cond c o, o with
                | CRTrue, OVal v => if is_excobj v then m else s_write m now k v ttl     (* `not isinstance(result, Exception)` *)
                | CRExc, OExc e => s_write m now k (raise_marker e) ttl
                | _, _ => m
                end in
      (m', o, true)
  end.

(* ---------- iterator.py _wrap ---------- *)
(* one run of the wrapped generator: the items it yields and how it ends *)
Definition run := (list val * option Z)%type.      (* Some e = raises e after the items *)
Definition chunk_key (k : key) (i : nat) : key := k ++ ":" ++ dec (Z.of_nat i).
Definition cond_truthy (c : condk) (o : outcome) : bool :=
  match eval_cond c o with CRTrue | CROtherTruthy | CRExc => true | _ => false end.

(* replay: chunks k:0, k:1, ... until one is missing *)
Fixpoint replay (fuel : nat) (m : tmap) (now : Z) (k : key) (i : nat) : run :=
  match fuel with
  | O => ([], None)
  | S f => match s_get m now (chunk_key k i) with
           | None => ([], None)
           | Some v => match unmark v with
                       | OExc e => ([], Some e)
                       | OVal x => let '(xs, e) := replay f m now k (S i) in (x :: xs, e)
                       end
           end
  end.
Fixpoint store_chunks (m : tmap) (now : Z) (k : key) (i : nat) (cs : list val) (ttl : Z) : tmap :=
  match cs with [] => m | c :: r => store_chunks (s_write m now (chunk_key k i) c ttl) now k (S i) r ttl end.
Definition store_run (m : tmap) now k (cs : list val) ttl : tmap :=
  s_write (store_chunks m now k 0 cs ttl) now k (VBool true) ttl.

(* the generator runs instantaneously at `now`; returns (map, what the caller observed, executed?) *)
(* what a run leaves to be stored, and whether it may be stored: every item accepted, and either it ends
   normally with at least one item or it ends with an exception the condition selects *)
Definition chunks_of (r : run) : list val :=
  match snd r with None => fst r | Some e => fst r ++ [raise_marker e] end.
Definition run_cacheable (c : condk) (r : run) : bool :=
  forallb (fun x => cond_truthy c (OVal x)) (fst r) &&
  match snd r with
  | None => negb (match fst r with [] => true | _ => false end)
  | Some e => match eval_cond c (OExc e) with CRExc => true | _ => false end
  end.
Definition iter_run (m : tmap) (now : Z) (k : key) (ttl : Z) (c : condk) (r : run) : tmap :=
  if run_cacheable c r then store_run m now k (chunks_of r) ttl else m.
(* dur = virtual time the generator takes; the chunks are written when it is over, with the
   lifetime that remains of ttl (nothing is stored when none remains) *)
Definition iter_call (fuel : nat) (m : tmap) (now : Z) (k : key) (ttl : Z) (c : condk) (r : run) (dur : Z) : tmap * run * bool :=
  let exec := if (0 <? ttl - dur)%Z then iter_run m (now + dur) k (ttl - dur) c r else m in
  match s_get m now k with
  | Some mk => if truthy mk then (m, replay fuel m now k 0, false) else (exec, r, true)
  | None => (exec, r, true)
  end.

(* ---------- ttl.py _ttl_from_str ---------- *)
Definition unit_secs (c : ascii) : option Z :=
  if Ascii.eqb c "h" then Some 3600 else if Ascii.eqb c "m" then Some 60
  else if Ascii.eqb c "s" then Some 1 else if Ascii.eqb c "d" then Some 86400 else None.
Definition digit_val (c : ascii) : option Z :=
  let n := N_of_ascii c in if (48 <=? n)%N && (n <=? 57)%N then Some (Z.of_N n - 48) else None.
(* mul = None stands for the empty accumulator string; None result = ValueError *)
Fixpoint ttl_loop (s : list ascii) (result : Z) (mul : option Z) : option Z :=
  match s with
  | [] => match mul with
          | Some m => if (result =? 0)%Z then Some m else Some result
          | None => Some result
          end
  | c :: r =>
      match digit_val c with
      | Some d => ttl_loop r result (Some (10 * match mul with Some m => m | None => 0 end + d))
      | None => match unit_secs c, mul with
                | Some u, Some m => ttl_loop r (result + m * u) None
                | _, _ => None
                end
      end
  end.
Definition ttl_from_str (s : list ascii) : option Z := ttl_loop s 0 None.

(* The reference TTL map of C01 (also the store seen by the decorator models).
   State: key -> option (deadline, value).  An entry is live at `now` iff it has no
   deadline or now < deadline.  Time is in ticks (1/16 s); ttl <= 0 means "no TTL".
   Meant to be read in minutes; nothing here mentions order, purge or capacity. *)
From Cashews Require Import Base.Prelude.

Definition entry := (option Z * val)%type.
Definition live (now : Z) (d : option Z) : bool := match d with None => true | Some d => now <? d end.

Inductive cmd :=
| Get (k : key) | GetMany (ks : list key) | Exists (k : key)
| Set_ (k : key) (v : val) (ttl : Z) (ex : option bool)
| SetMany (kvs : list (key * val)) (ttl : Z)
| Incr (k : key) (by_ : Z) (ttl : Z)
| Del (k : key) | DelMany (ks : list key)
| Expire (k : key) (ttl : Z) | GetExpire (k : key)
| Clear
| Sweep.          (* one pass of the purge task; invisible in the spec *)

Inductive res :=
| RVal (v : option val)            (* None = the caller's default *)
| RVals (vs : list (option val))
| RBool (b : bool) | RInt (z : Z) | RErr | RUnit.

Definition res_eqb (a b : res) : bool :=
  match a, b with
  | RVal x, RVal y => option_eqb val_eqb x y
  | RVals x, RVals y => list_eqb (option_eqb val_eqb) x y
  | RBool x, RBool y => Bool.eqb x y
  | RInt x, RInt y => x =? y
  | RErr, RErr => true
  | RUnit, RUnit => true
  | _, _ => false
  end.

(* round(x) of Python for x = t/16 seconds: round half to even *)
Definition round_secs (t : Z) : Z :=
  let q := t / 16 in let r := t mod 16 in
  if r <? 8 then q else if 8 <? r then q + 1 else if Z.even q then q else q + 1.

Definition tmap := key -> option entry.
Definition empty : tmap := fun _ => None.
Definition s_look (m : tmap) (now : Z) (k : key) : option entry :=
  match m k with Some (d, v) => if live now d then Some (d, v) else None | None => None end.
Definition upd (m : tmap) (k : key) (e : option entry) : tmap :=
  fun k' => if String.eqb k' k then e else m k'.
Definition deadline (now ttl : Z) : option Z := if 0 <? ttl then Some (now + ttl) else None.
(* write: the given ttl, else the deadline of the live previous entry, else none *)
Definition s_write (m : tmap) (now : Z) (k : key) (v : val) (ttl : Z) : tmap :=
  let d := match deadline now ttl with
           | Some d => Some d
           | None => match s_look m now k with Some (d0, _) => d0 | None => None end
           end in
  upd m k (Some (d, v)).
Definition s_get (m : tmap) now k : option val := option_map snd (s_look m now k).

Definition s_step (m : tmap) (now : Z) (c : cmd) : tmap * res :=
  match c with
  | Get k => (m, RVal (s_get m now k))
  | GetMany ks => (m, RVals (map (s_get m now) ks))
  | Exists k => (m, RBool (isSome (s_look m now k)))
  | Set_ k v ttl ex =>
      match ex with
      | Some b => if Bool.eqb (isSome (s_look m now k)) b then (s_write m now k v ttl, RBool true)
                  else (m, RBool false)
      | None => (s_write m now k v ttl, RBool true)
      end
  | SetMany kvs ttl => (fold_left (fun m' kv => s_write m' now (fst kv) (snd kv) ttl) kvs m, RUnit)
  | Incr k by_ ttl =>
      match s_get m now k with
      | Some (VInt z) => let n := z + by_ in (s_write m now k (VInt n) (if n =? 1 then ttl else 0), RInt n)
      | None => let n := by_ in (s_write m now k (VInt n) (if n =? 1 then ttl else 0), RInt n)
      | _ => (m, RErr)
      end
  | Del k => if isSome (s_look m now k) then (upd m k None, RBool true) else (m, RBool false)
  | DelMany ks => (fold_left (fun m' k => upd m' k None) ks m, RUnit)
  | Expire k ttl =>
      match s_look m now k with None => (m, RUnit) | Some (_, v) => (s_write m now k v ttl, RUnit) end
  | GetExpire k =>
      match s_look m now k with
      | None => (m, RInt (-2))
      | Some (Some d, _) => (m, RInt (round_secs (d - now)))
      | Some (None, _) => (m, RInt (-1))
      end
  | Clear => (empty, RUnit)
  | Sweep => (m, RUnit)
  end.

Definition cmd_keys (c : cmd) : list key :=
  match c with
  | Get k | Exists k | Set_ k _ _ _ | Incr k _ _ | Del k | Expire k _ | GetExpire k => [k]
  | GetMany ks | DelMany ks => ks
  | SetMany kvs _ => map fst kvs
  | Clear | Sweep => []
  end.

(* histories carry absolute instants *)
Fixpoint run_s (m : tmap) (h : list (Z * cmd)) : list res :=
  match h with [] => [] | (t, c) :: r => let '(m', o) := s_step m t c in o :: run_s m' r end.
Fixpoint mono (t0 : Z) (h : list (Z * cmd)) : Prop :=
  match h with [] => True | (t, _) :: r => t0 <= t /\ mono t r end.

(* C15 - rate limiters and circuit breaker never admit more than configured. Statements only. *)
From Cashews Require Import Base.Prelude Spec.TTLMap Model.Rate Proofs.RateProofs Proofs.RateConcProofs.
Open Scope Z_scope.

(* rate_limit: while the counter lives (an epoch) runs = min(calls, limit): a call runs only if fewer than `limit`
   ran in the epoch; the epoch's deadline is `period` after its first call, `ttl` after its first rejection *)
Theorem C15_rate_step : forall k limit period ttl m now runs, 0 < period -> 0 <= limit -> RInv k limit m now runs ->
  let '(m', ran) := rate_call m now k limit period ttl in
  let runs0 := if isSome (s_look m now k) then runs else 0 in
  RInv k limit m' now (runs0 + (if ran then 1 else 0)) /\
  (ran = true -> runs0 + 1 <= limit) /\
  match s_look m now k, s_look m' now k with
  | None, Some (d', _) => d' = Some (if (limit <? 1) && (0 <? ttl) && (1 =? limit + 1) then now + ttl else now + period)
  | Some (d, VInt n), Some (d', _) => d' = if (limit <? n + 1) && (0 <? ttl) && (n + 1 =? limit + 1) then Some (now + ttl) else d
  | _, _ => True
  end.
Proof. exact rate_step. Qed.
Print Assumptions C15_rate_step.
Theorem C15_rate_time : forall k limit m now now' runs, now <= now' -> RInv k limit m now runs -> RInv k limit m now' runs.
Proof. exact RInv_time. Qed.
Print Assumptions C15_rate_time.

(* slice_rate_limit: for strictly increasing call instants, an executed call has fewer than `limit` executed calls in
   the `period` before it - so every interval [x, x+period) holds at most `limit` executed calls *)
Theorem C15_slide_step : forall k limit period m tl done now, 0 < period -> 0 <= limit -> tl < now -> SlInv k period m tl done ->
  let '(m', ran) := slide_call m now k limit period in
  SlInv k period m' now (if ran then now :: done else done) /\
  (ran = true -> cnt (strictw now period) done < limit).
Proof. exact slide_step. Qed.
Print Assumptions C15_slide_step.
Theorem C15_slide_init : forall k period tl, SlInv k period empty tl [].
Proof. exact SlInv_empty. Qed.
Print Assumptions C15_slide_init.

(* circuit breaker: while open the function is not run; otherwise it runs, the window logs record exactly the calls /
   listed failures of the last period, and it opens (for ttl) exactly when the call failed with a listed exception
   while total >= min_calls and 100*fails >= errors_rate*total *)
Theorem C15_breaker_step : forall k rate period ttl mc m tl tlf T F now o,
  0 < period -> 0 < ttl -> tl < now -> tlf < now ->
  XInv (total_key k) period m tl T -> XInv (fails_key k) period m tlf F ->
  cnt (closedw now period) T < 9999 -> cnt (closedw now period) F < 9999 ->
  let '(m', res, tripped) := breaker_call m now k rate period ttl mc o in
  match s_look m now (open_key k) with
  | Some _ => res = BOpen /\ m' = m /\ tripped = false
  | None =>
      res = BRan o /\ XInv (total_key k) period m' now (now :: T) /\
      (match o with
       | BFailListed => XInv (fails_key k) period m' now (now :: F)
       | _ => XInv (fails_key k) period m' tlf F
       end) /\
      (exists total fails,
          cnt (strictw now period) T + 1 <= total <= cnt (closedw now period) T + 1 /\
          (o = BFailListed -> cnt (strictw now period) F + 1 <= fails <= cnt (closedw now period) F + 1) /\
          (tripped = true <-> o = BFailListed /\ mc <= total /\ rate * total <= fails * 100)) /\
      (tripped = true -> s_look m' now (open_key k) = Some (Some (now + ttl), VInt 1))
  end.
Proof. exact breaker_step. Qed.
Print Assumptions C15_breaker_step.
(* the same for a call whose function takes time: it starts at `now` (open check, counted in the totals window ending at `now`)
   and its outcome is known at `fin` >= now (the failure is stamped, the rule evaluated and the breaker opened at `fin`) *)
Theorem C15_breaker_step_slow_call : forall k rate period ttl mc m tl tlf T F now fin o,
  0 < period -> 0 < ttl -> tl < now -> now <= fin -> tlf < fin ->
  XInv (total_key k) period m tl T -> XInv (fails_key k) period m tlf F ->
  cnt (closedw now period) T < 9999 -> cnt (closedw fin period) F < 9999 ->
  let '(m', res, tripped) := breaker_call_at m now fin k rate period ttl mc o in
  match s_look m now (open_key k) with
  | Some _ => res = BOpen /\ m' = m /\ tripped = false
  | None =>
      res = BRan o /\ XInv (total_key k) period m' now (now :: T) /\
      (match o with
       | BFailListed => XInv (fails_key k) period m' fin (fin :: F)
       | _ => XInv (fails_key k) period m' tlf F
       end) /\
      (exists total fails,
          cnt (strictw now period) T + 1 <= total <= cnt (closedw now period) T + 1 /\
          (o = BFailListed -> cnt (strictw fin period) F + 1 <= fails <= cnt (closedw fin period) F + 1) /\
          (tripped = true <-> o = BFailListed /\ mc <= total /\ rate * total <= fails * 100)) /\
      (tripped = true -> s_look m' fin (open_key k) = Some (Some (fin + ttl), VInt 1))
  end.
Proof. exact breaker_step_at. Qed.
Print Assumptions C15_breaker_step_slow_call.
Theorem C15_window_counts_coincide : forall now period H, ~ In (now - period) H -> cnt (strictw now period) H = cnt (closedw now period) H.
Proof. exact cnt_strict_closed. Qed.
Print Assumptions C15_window_counts_coincide.

(* rate_limit under concurrent callers, at backend-command granularity: for every time-ordered sequence of the incr / expire
   commands of any number of calls, in whatever order the backend executes them (a ban-arming expire may land after other
   calls' commands, after any delay, even in the counter's next life), every admitted call was admitted with fewer than
   `limit` calls admitted before it since the counter was created (`rate_hist` states this for each command of the history) *)
Theorem C15_rate_concurrent : forall k limit period ttl, 0 < period -> 0 < ttl -> 0 <= limit ->
  forall h m t0 runs, rmono t0 h -> RInv k limit m t0 runs -> rate_hist k limit period ttl m runs h.
Proof. exact rate_conc. Qed.
Print Assumptions C15_rate_concurrent.
(* non-vacuity: three calls at one instant (limit 2), the third one's expire delayed past a fourth call and past the lapse *)
Example C15_rate_concurrent_example :
  let h := [(0, RIncr); (0, RIncr); (0, RIncr); (3, RIncr); (20, RExpire); (21, RIncr); (21, RIncr); (21, RIncr); (21, RExpire); (40, RIncr)] in
  rmono 0 h /\ rate_cmds empty "k"%string 2 16 32 h =
    [Some true; Some true; Some false; Some false; None; Some true; Some true; Some false; None; Some false].
Proof. split; [cbn; lia|vm_compute; reflexivity]. Qed.

Example C15_example :
  (let '(m1, a) := rate_call empty 0 "k"%string 1 16 32 in let '(m2, b) := rate_call m1 1 "k"%string 1 16 32 in
   let '(m3, c) := rate_call m2 17 "k"%string 1 16 32 in let '(_, d) := rate_call m3 33 "k"%string 1 16 32 in [a; b; c; d])
  = [true; false; false; true].
Proof. vm_compute. reflexivity. Qed.

(* Correspondence + oracle for C20: real BcastClientSide clients sharing the in-process server stand-in. *)
From Cashews Require Import Base.Prelude Spec.Glob Model.Redis Model.ClientSide.
Open Scope Z_scope.

Definition sdump := list (option (rval * option Z)).
Definition cdump := (bool * list (option lval) * list bool)%type.        (* started, local copy, live marks - per key of U *)
Definition dump := (sdump * list cdump)%type.
Inductive case := CCS (U : list key) (n : nat) (evs : list event) (results : list bres) (dumps : list dump).

Definition rval_eqb (a b : rval) : bool :=
  match a, b with RStr x, RStr y => val_eqb x y | RNum x, RNum y => x =? y | _, _ => false end.
Definition oz_eqb := option_eqb Z.eqb.
Definition sentry_eqb (a b : rval * option Z) := rval_eqb (fst a) (fst b) && oz_eqb (snd a) (snd b).
Definition lkind_eqb (a b : lkind) := match a, b with LV x, LV y => val_eqb x y | LA, LA => true | _, _ => false end.
Definition lval_eqb (a b : lval) := lkind_eqb (fst a) (fst b) && oz_eqb (snd a) (snd b).
Definition cdump_eqb (a b : cdump) : bool :=
  let '(s1, l1, m1) := a in let '(s2, l2, m2) := b in
  Bool.eqb s1 s2 && list_eqb (option_eqb lval_eqb) l1 l2 && list_eqb Bool.eqb m1 m2.
Definition dump_eqb (a b : dump) : bool :=
  list_eqb (option_eqb sentry_eqb) (fst a) (fst b) && list_eqb cdump_eqb (snd a) (snd b).
Definition dump_of (U : list key) (g : cfg) : dump :=
  (map (look (srv g) (now g)) U,
   map (fun i => let c := clients g i in (started c, map (llook c (now g)) U, map (marked c (now g)) U)) (seq 0 (nclients g))).

Definition ov_eqb := option_eqb val_eqb.
Definition bres_eqb (a b : bres) : bool :=
  match a, b with
  | BVal x, BVal y => ov_eqb x y
  | BVals x, BVals y => list_eqb ov_eqb x y
  | BBool x, BBool y => Bool.eqb x y
  | BInt x, BInt y => x =? y
  | BNone, BNone | BUnit, BUnit | BRaise, BRaise | BOther, BOther => true
  | _, _ => false
  end.

(* every event is followed by the delivery of all pending messages: the dumps are taken at quiescent points *)
Fixpoint replay (U : list key) (g : cfg) (evs : list event) (rs : list bres) (ds : list dump) : bool :=
  match evs, rs, ds with
  | [], [], [] => true
  | e :: evs', r :: rs', d :: ds' =>
      let '(g1, o) := step U g e in
      let g2 := fst (step U g1 Deliver) in
      bres_eqb o r && dump_eqb (dump_of U g2) d && replay U g2 evs' rs' ds'
  | _, _, _ => false
  end.

(* ---------- oracle: the property's words on the dumps ---------- *)
Definition server_val (sd : sdump) (U : list key) (k : key) : option val :=
  match find (fun ke => String.eqb (fst ke) k) (combine U sd) with
  | Some (_, Some (v, _)) => transform v
  | _ => None
  end.
(* a client whose listener runs: every local value is the server's value, every "absent" marker is right *)
Definition coherent (U : list key) (d : dump) : bool :=
  forallb (fun cd => let '(st, loc, _) := cd in
     negb st || forallb (fun kl => match snd kl with
                                   | Some (LV v, _) => ov_eqb (server_val (fst d) U (fst kl)) (Some v)
                                   | Some (LA, _) => ov_eqb (server_val (fst d) U (fst kl)) None
                                   | None => true end) (combine U loc)) (snd d).
Definition empty_dump (U : list key) (n : nat) : dump := (map (fun _ => None) U, repeat (true, map (fun _ => None) U, map (fun _ => false) U) n).

Fixpoint ok_hist (U : list key) (prev : dump) (evs : list event) (rs : list bres) (ds : list dump) : bool :=
  match evs, rs, ds with
  | [], [], [] => true
  | e :: evs', r :: rs', d :: ds' =>
      (match e with
       | Cmd _ (KGet k) => bres_eqb r (BVal (server_val (fst prev) U k))                  (* reads return what the server holds *)
       | Cmd _ (KGetMany ks) => bres_eqb r (BVals (map (server_val (fst prev) U) ks))
       | Cmd _ (KExists k) => bres_eqb r (BBool (isSome (server_val (fst prev) U k)))
       | Cmd _ _ => negb (bres_eqb r BOther) && negb (bres_eqb r BRaise)
       | Drop i => match nth_error (snd d) i, nth_error (snd prev) i with                   (* the connection is lost: the local copy is emptied, nothing is served from it *)
                   | Some (st, loc, _), Some (st0, _, _) => negb st && (negb st0 || forallb (fun x => negb (isSome x)) loc)
                   | _, _ => false end
       | _ => true
       end) && coherent U d && ok_hist U d evs' rs' ds'
  | _, _, _ => false
  end.

Definition judge (c : case) : verdict :=
  match c with
  | CCS U n evs rs ds => (replay U (init n) evs rs ds, ok_hist U (empty_dump U n) evs rs ds, [])
  end.
Definition explain (c : case) :=
  match c with
  | CCS U n evs rs ds =>
      (fix go (g : cfg) (evs : list event) : list (bres * dump) :=
         match evs with [] => [] | e :: r => let '(g1, o) := step U g e in let g2 := fst (step U g1 Deliver) in (o, dump_of U g2) :: go g2 r end) (init n) evs
  end.

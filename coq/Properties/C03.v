(* C03 - transaction effects are all-or-nothing and invisible until commit. Statements only. *)
From Cashews Require Import Base.Prelude Spec.TTLMap Model.Tags Model.Txn Run.TxnCase Proofs.TxnProofs.
Open Scope Z_scope.

(* invisible until commit: no transactional command touches the underlying store *)
Theorem C03_tx_invisible : forall U t now c, c <> TC Clear -> tB (fst (tx_step U t now c)) = tB t.
Proof. exact tx_invisible. Qed.
Print Assumptions C03_tx_invisible.

(* rollback (explicit or by exception) leaves the store exactly as it was *)
Theorem C03_tx_rollback_id : forall U h, Forall (fun e => snd e <> TC Clear) h -> forall t,
  tx_rollback (fst (fst (run_tx U t h))) = tB t.
Proof. exact tx_rollback_id. Qed.
Print Assumptions C03_tx_rollback_id.

(* commit writes the transaction's view: every key reads, after commit, what the view showed *)
Theorem C03_tx_commit_view : forall U t now, NoDup U -> (forall k, ~ In k U -> tL t k = None) -> WF t now ->
  forall k, s_get (tx_commit U t now) now k = view t now k.
Proof. exact tx_commit_view. Qed.
Print Assumptions C03_tx_commit_view.

(* ... hence exactly the keys and values that applying the same writes directly would have produced *)
Theorem C03_tx_commit_eq_direct : forall U now h b, NoDup U -> Forall (fun e => fst e = now /\ snd e <> TC Clear) h ->
  (forall k, ~ In k U -> tL (fst (fst (run_tx U (tx_begin b) h))) k = None) ->
  forall k, s_get (tx_commit U (fst (fst (run_tx U (tx_begin b) h))) now) now k = s_get (fst (run_direct U b h)) now k.
Proof. exact tx_commit_eq_direct. Qed.
Print Assumptions C03_tx_commit_eq_direct.

(* a key written with a TTL is committed with exactly the deadline it was given: it neither outlives it nor becomes permanent *)
Theorem C03_tx_commit_deadline : forall U t now k d v, NoDup U -> In k U -> tL t k = Some (Some d, v) -> now < d ->
  tx_commit U t now k = Some (Some d, v).
Proof. exact tx_commit_deadline. Qed.
Print Assumptions C03_tx_commit_deadline.

(* non-vacuity: a sub-second TTL (12 ticks = 0.75 s) still running at commit keeps its deadline *)
Example C03_example :
  let t := fst (fst (run_tx ["k"%string] (tx_begin empty) [(1, TC (Set_ "k"%string (VInt 2) 12 None))])) in
  tx_commit ["k"%string] t 3 "k"%string = Some (Some 13, VInt 2).
Proof. vm_compute. reflexivity. Qed.

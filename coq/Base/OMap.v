(* Ordered association lists: the image of Python's OrderedDict (insertion / recency
   order, oldest first).  Lookup-level lemmas only. *)
From Cashews Require Import Base.Prelude.

Section OMap.
Context {V : Type}.
Definition omap := list (key * V).

Fixpoint lookup (s : omap) (k : key) : option V :=
  match s with [] => None | (k', e) :: r => if String.eqb k k' then Some e else lookup r k end.
Fixpoint remove (s : omap) (k : key) : omap :=
  match s with
  | [] => []
  | (k', e) :: r => if String.eqb k k' then remove r k else (k', e) :: remove r k
  end.
Definition mem (s : omap) (k : key) : bool := isSome (lookup s k).
Definition move_to_end (s : omap) (k : key) : omap :=
  match lookup s k with Some e => remove s k ++ [(k, e)] | None => s end.
(* d[k] = e : replaces in place when present (position kept), appends otherwise *)
Fixpoint assign (s : omap) (k : key) (e : V) : omap :=
  match s with
  | [] => [(k, e)]
  | (k', e') :: r => if String.eqb k k' then (k', e) :: r else (k', e') :: assign r k e
  end.
Definition keys (s : omap) : list key := map fst s.

Lemma lookup_remove s k k' :
  lookup (remove s k) k' = if String.eqb k' k then None else lookup s k'.
Proof.
  induction s as [|[k0 e] s IH]; cbn; [destruct (String.eqb k' k); reflexivity|].
  destruct (String.eqb_spec k k0) as [->|Hn].
  - rewrite IH. destruct (String.eqb_spec k' k0); reflexivity.
  - cbn. destruct (String.eqb_spec k' k0) as [->|].
    + destruct (String.eqb_spec k0 k); [congruence|reflexivity].
    + apply IH.
Qed.
Lemma lookup_app s t k :
  lookup (s ++ t) k = match lookup s k with Some e => Some e | None => lookup t k end.
Proof. induction s as [|[k0 e] s IH]; cbn; [reflexivity|]. destruct (String.eqb k k0); auto. Qed.
Lemma lookup_move s k k' : lookup (move_to_end s k) k' = lookup s k'.
Proof.
  unfold move_to_end. destruct (lookup s k) eqn:E; [|reflexivity].
  rewrite lookup_app, lookup_remove. cbn. destruct (String.eqb_spec k' k) as [->|]; [congruence|].
  destruct (lookup s k'); reflexivity.
Qed.
Lemma lookup_assign s k e k' :
  lookup (assign s k e) k' = if String.eqb k' k then Some e else lookup s k'.
Proof.
  induction s as [|[k0 e0] s IH]; cbn.
  - destruct (String.eqb k' k); reflexivity.
  - destruct (String.eqb_spec k k0) as [->|Hn]; cbn.
    + destruct (String.eqb k' k0); reflexivity.
    + destruct (String.eqb_spec k' k0) as [->|].
      * destruct (String.eqb_spec k0 k); [congruence|reflexivity].
      * apply IH.
Qed.
End OMap.
Arguments omap V : clear implicits.

(* ---- key-level structure (used by the capacity / LRU proofs) ---- *)
Section OMapKeys.
Context {V : Type}.
Implicit Types s : omap V.

Definition neqk (k k' : key) : bool := negb (String.eqb k k').

Lemma keys_remove s k : keys (remove s k) = filter (neqk k) (keys s).
Proof.
  induction s as [|[k0 e] s IH]; cbn; [reflexivity|]. unfold neqk at 1.
  destruct (String.eqb k k0); cbn; [exact IH|f_equal; exact IH].
Qed.
Lemma remove_assign s k e : remove (assign s k e) k = remove s k.
Proof.
  induction s as [|[k0 e0] s IH]; cbn; [rewrite String.eqb_refl; reflexivity|].
  destruct (String.eqb k k0) eqn:E; cbn; rewrite E; [reflexivity|f_equal; exact IH].
Qed.
Lemma set_shape s k e : move_to_end (assign s k e) k = remove s k ++ [(k, e)].
Proof.
  unfold move_to_end. rewrite lookup_assign, String.eqb_refl, remove_assign. reflexivity.
Qed.
Lemma keys_app s t : keys (s ++ t) = keys s ++ keys t.
Proof. unfold keys. apply map_app. Qed.
Lemma lookup_In s k e : lookup s k = Some e -> In k (keys s).
Proof.
  induction s as [|[k0 e0] s IH]; cbn; [discriminate|].
  destruct (String.eqb_spec k k0) as [->|]; [left; reflexivity|right; auto].
Qed.
Lemma lookup_None s k : lookup s k = None -> ~ In k (keys s).
Proof.
  induction s as [|[k0 e0] s IH]; cbn; [auto|].
  destruct (String.eqb_spec k k0) as [->|Hn]; [discriminate|].
  intros E [H|H]; [congruence|exact (IH E H)].
Qed.
Lemma filter_neqk_notin (l : list key) k : ~ In k l -> filter (neqk k) l = l.
Proof.
  induction l as [|x l IH]; cbn; [reflexivity|]. intro H. unfold neqk at 1.
  destruct (String.eqb_spec k x) as [->|]; [exfalso; apply H; left; reflexivity|].
  cbn. f_equal. apply IH. intro; apply H; right; assumption.
Qed.
Lemma In_filter_neqk (l : list key) k x : In x (filter (neqk k) l) <-> In x l /\ x <> k.
Proof.
  rewrite filter_In. unfold neqk. destruct (String.eqb_spec k x); cbn; intuition congruence.
Qed.
Lemma NoDup_filter {A} (f : A -> bool) (l : list A) : NoDup l -> NoDup (filter f l).
Proof.
  induction 1 as [|x l Hx Hnd IH]; cbn; [constructor|].
  destruct (f x); [constructor; [rewrite filter_In; tauto|exact IH]|exact IH].
Qed.
Lemma NoDup_snoc (l : list key) k : NoDup l -> ~ In k l -> NoDup (l ++ [k]).
Proof.
  intros Hnd Hk.
  induction l as [|x l IH]; cbn.
  - repeat constructor. auto.
  - inversion Hnd; subst. constructor.
    + rewrite in_app_iff. cbn. intros [H|[H|[]]]; [auto|]. apply Hk. left. auto.
    + apply IH; [assumption|]. intro; apply Hk; right; assumption.
Qed.
End OMapKeys.

"""C01: the in-memory store is a TTL key-value map for every command history."""
import itertools

from harness import memrun

ID = "C01"
RUN_MODULE = "Spec.TTLMap Run.C01"
EXPLAIN = "explain"
RULE = ("random command histories (1-40 events, 3-4 keys, values int/str/bytes/None, TTLs 0.125-3 s, advances 0-4 s on a 1/16 s grid so "
        "that commands land before / exactly on / after deadlines; purge task on (1 s tick, its passes observed and inserted as Sweep "
        "events) or off; serializer none / pickle / signed; Memory directly or through Cache('mem://')). non-trivial: some command names a "
        "key whose entry is expired but still physically present, or is issued exactly at a deadline")
TRUSTED_BASE = ["Coq 8.16.1 kernel + vm_compute", "hand-written model coq/Model/Memory.v tied by this differential run",
                "serializer treated as identity (decode after encode) in this model: that is C09's theorem",
                "float arithmetic exact on the 1/16 s grid around 2^20 s; other floats not modelled"]
ASSUMPTIONS = ["clock non-decreasing", "capacity not exceeded (size 1000 or #keys <= size); eviction is C11",
               "values are immutable (copy()/aliasing not modelled)", "on-remove callbacks not registered (C12)"]
EXHAUSTIVE = {"quick": False, "thorough": False}


def gen_cases(rng, tier):
    n = 900 if tier == "quick" else 12000
    cases = []
    for i in range(n):
        nk = rng.choice([1, 2, 3, 3, 4])
        cases.append({"size": rng.choice([1000, nk + 1]), "purge": rng.random() < 0.5, "align": rng.random() < 0.3,
                      "serializer": rng.choice(["none", "none", "pickle", "secret"]), "facade": rng.random() < 0.3,
                      "events": memrun.gen_history(rng, nk, rng.randint(1, 40))})
    if tier == "thorough":  # all 2-event histories over one key from a small command alphabet x advance
        cmds = [["get", "a"], ["exists", "a"], ["set", "a", 1, 0, None], ["set", "a", 2, 8, None], ["set", "a", 3, 8, False],
                ["set", "a", 4, 0, True], ["incr", "a", 1, 8], ["delete", "a"], ["expire", "a", 16], ["expire", "a", 0], ["get_expire", "a"]]
        for c0 in [["set", "a", 7, 8, None], ["set", "a", 7, 0, None], ["incr", "a", 1, 8]]:
            for c1, c2 in itertools.product(cmds, cmds):
                for a1, a2 in itertools.product([0, 6, 8, 10], [0, 8]):
                    cases.append({"size": 1000, "purge": False, "serializer": "none", "facade": False,
                                  "events": [[0, c0], [a1, c1], [a2, c2], [0, ["get", "a"]], [0, ["get_expire", "a"]]]})
    return cases


run_impl = memrun.run_history
to_coq = memrun.to_coq


def _touches_dead(case, obs):
    """a command names a key physically present before it (per the last observed order) whose get would miss"""
    dl = {}
    prev_order = []
    hit = False
    for t, c, r, order, *_ in obs["steps"]:
        if c[0] in ("get", "exists", "get_expire", "set", "incr", "expire", "delete") and c[1] in prev_order:
            if c[0] == "get" and r == memrun.DEFAULT: hit = True
            if c[0] == "exists" and r is False: hit = True
            if c[0] == "get_expire" and r in (-2, 0): hit = True
            if c[0] == "delete" and r is False: hit = True
            if c[0] == "set" and c[4] is False and r is True: hit = True
            if c[0] == "set" and c[4] is True and r is False: hit = True
        if order is not None:
            prev_order = order
    return hit


def nontrivial(case, obs):
    return _touches_dead(case, obs)


def classify(case, obs):
    d = {"events": len(case["events"]), "sweeps_observed": sum(1 for s in obs["steps"] if s[1][0] == "sweep"),
         "purge_on": int(case["purge"]), "ser_" + case["serializer"]: 1, "facade": int(case["facade"]),
         "errors": sum(1 for s in obs["steps"] if s[2] == "ERR"), "dead_entry_touched": int(_touches_dead(case, obs))}
    for s in obs["steps"]:
        d["op_" + s[1][0]] = d.get("op_" + s[1][0], 0) + 1
    return d


def shrink(case):
    ev = case["events"]
    n = len(ev)
    for parts in (2, 4, 8):  # delta debugging: drop whole chunks first
        if n >= parts * 2:
            size = n // parts
            for i in range(parts):
                c = dict(case); c["events"] = ev[:i * size] + ev[(i + 1) * size:]
                yield c
    for i in range(len(ev)):
        c = dict(case); c["events"] = ev[:i] + ev[i + 1:]
        if i + 1 < len(ev):  # keep elapsed time: give the removed advance to the next event
            c["events"] = ev[:i] + [[ev[i][0] + ev[i + 1][0], ev[i + 1][1]]] + ev[i + 2:]
        if c["events"]: yield c
    for i in range(len(ev)):
        if ev[i][0] > 0:
            for a in (0, ev[i][0] // 2, ev[i][0] - 2):
                if 0 <= a < ev[i][0]:
                    c = dict(case); c["events"] = ev[:i] + [[a, ev[i][1]]] + ev[i + 1:]; yield c
    for fld, val in (("purge", False), ("serializer", "none"), ("facade", False)):
        if case[fld] != val:
            c = dict(case); c[fld] = val; yield c


def neighbours(case, rng):
    out = list(shrink(case))
    ev = case["events"]
    for i in range(len(ev)):
        for a in (0, 2, 8, 16, 18):
            c = dict(case); c["events"] = ev[:i] + [[a, ev[i][1]]] + ev[i + 1:]; out.append(c)
    for k in ("a", "b"):
        for extra in (["get", k], ["get_expire", k], ["exists", k], ["set", k, 9, 0, False], ["delete", k]):
            c = dict(case); c["events"] = ev + [[0, extra]]; out.append(c)
            c = dict(case); c["events"] = ev + [[16, extra]]; out.append(c)
    return out

#!/bin/sh
# tools/seeds.sh <from> <to> [tier]: run every claimed check with several seeds (no obligations) and report alarms
FROM="${1:-1}"; TO="${2:-5}"; TIER="${3:-quick}"
cd "$(dirname "$0")/.."
[ -f coq/Base/Prelude.vo ] || ./setup.sh
for P in $(python3 -c "import json; print(' '.join(c['property_id'] for c in json.load(open('MANIFEST.json'))['checks']))"); do
  for S in $(seq "$FROM" "$TO"); do
    OUT=$(VERIF_SEED=$S /bin/sh ./check "$P" --tier "$TIER" --no-obligations 2>&1); RC=$?
    LINE=$(echo "$OUT" | tail -1)
    if [ $RC -ne 0 ] || echo "$OUT" | grep -q VIOLATION; then echo "ALARM $P seed=$S rc=$RC :: $LINE"; echo "$OUT" | grep VIOLATION | head -2; else echo "ok $P seed=$S :: $LINE"; fi
  done
done

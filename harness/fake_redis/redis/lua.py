"""Interpreter for the Lua subset the three cashews scripts use, so that an edit of a script's text is executed rather
than ignored: local bindings, assignment, if/then/else/end, return, redis.call(...), tonumber, '..', comparison,
'+' and '-', string / number literals, KEYS[i] / ARGV[i].  Anything else raises ScriptOutsideSubset."""
import re

from .exceptions import ResponseError


class ScriptOutsideSubset(ResponseError):
    pass


TOK = re.compile(r'\s*(?:(\d+\.\d+|\d+)|"((?:[^"\\]|\\.)*)"|\'((?:[^\'\\]|\\.)*)\'|([A-Za-z_][A-Za-z_0-9]*)|(==|~=|<=|>=|\.\.|[-+*/<>=()\[\],.;]))')
KEYWORDS = {"local", "if", "then", "else", "elseif", "end", "return", "and", "or", "not", "nil", "true", "false"}


def tokenize(src):
    out, pos = [], 0
    src = src.rstrip()
    while pos < len(src):
        m = TOK.match(src, pos)
        if not m or m.end() == pos:
            if src[pos:].strip() == "": break
            raise ScriptOutsideSubset(f"cannot tokenize at {src[pos:pos + 20]!r}")
        pos = m.end()
        num, s1, s2, name, op = m.groups()
        if num is not None: out.append(("num", float(num) if "." in num else int(num)))
        elif s1 is not None: out.append(("str", s1))
        elif s2 is not None: out.append(("str", s2))
        elif name is not None: out.append(("kw" if name in KEYWORDS else "name", name))
        else: out.append(("op", op))
    return out


class Return(Exception):
    def __init__(self, v): self.v = v


class Parser:
    def __init__(self, toks): self.t, self.i = toks, 0
    def peek(self): return self.t[self.i] if self.i < len(self.t) else ("eof", None)
    def next(self):
        x = self.peek(); self.i += 1; return x
    def accept(self, kind, val=None):
        k, v = self.peek()
        if k == kind and (val is None or v == val):
            self.i += 1; return True
        return False
    def expect(self, kind, val=None):
        if not self.accept(kind, val): raise ScriptOutsideSubset(f"expected {val or kind} at token {self.i}: {self.peek()}")

    def block(self, stop):
        stmts = []
        while self.peek()[0] != "eof" and not (self.peek()[0] == "kw" and self.peek()[1] in stop):
            stmts.append(self.stmt())
            self.accept("op", ";")
        return stmts

    def stmt(self):
        k, v = self.peek()
        if k == "kw" and v == "local":
            self.next(); name = self.next()
            if name[0] != "name": raise ScriptOutsideSubset("local needs a name")
            self.expect("op", "=")
            return ("local", name[1], self.expr())
        if k == "kw" and v == "return":
            self.next()
            if self.peek()[0] == "eof" or (self.peek()[0] == "kw" and self.peek()[1] in ("end", "else", "elseif")):
                return ("return", ("nil",))
            return ("return", self.expr())
        if k == "kw" and v == "if":
            self.next(); cond = self.expr(); self.expect("kw", "then")
            then = self.block(("else", "elseif", "end")); other = []
            if self.accept("kw", "else"): other = self.block(("end",))
            elif self.peek() == ("kw", "elseif"): raise ScriptOutsideSubset("elseif")
            self.expect("kw", "end")
            return ("if", cond, then, other)
        e = self.expr()
        if e[0] == "var" and self.accept("op", "="):
            return ("assign", e[1], self.expr())
        if e[0] != "call": raise ScriptOutsideSubset("expression statement that is not a call")
        return ("expr", e)

    def expr(self): return self.cmp()

    def cmp(self):
        left = self.concat()
        while self.peek()[0] == "op" and self.peek()[1] in ("==", "~=", "<", ">", "<=", ">="):
            op = self.next()[1]; left = ("bin", op, left, self.concat())
        return left

    def concat(self):
        left = self.add()
        if self.accept("op", ".."):
            return ("bin", "..", left, self.concat())
        return left

    def add(self):
        left = self.atom()
        while self.peek()[0] == "op" and self.peek()[1] in ("+", "-"):
            op = self.next()[1]; left = ("bin", op, left, self.atom())
        return left

    def atom(self):
        k, v = self.next()
        if k == "num": return ("lit", v)
        if k == "str": return ("lit", v)
        if k == "kw" and v in ("nil", "true", "false"): return ("lit", {"nil": None, "true": True, "false": False}[v])
        if k == "op" and v == "(":
            e = self.expr(); self.expect("op", ")"); return e
        if k == "name":
            node = ("var", v)
            while True:
                if self.accept("op", "."):
                    f = self.next()
                    if f[0] != "name": raise ScriptOutsideSubset("field access")
                    node = ("field", node, f[1])
                elif self.accept("op", "["):
                    idx = self.expr(); self.expect("op", "]"); node = ("index", node, idx)
                elif self.accept("op", "("):
                    args = []
                    if not self.accept("op", ")"):
                        args.append(self.expr())
                        while self.accept("op", ","): args.append(self.expr())
                        self.expect("op", ")")
                    node = ("call", node, args)
                else:
                    return node
        raise ScriptOutsideSubset(f"unexpected token {k} {v}")


def lua_eq(a, b):
    if isinstance(a, bool) or isinstance(b, bool): return a is b
    if isinstance(a, (int, float)) and isinstance(b, (int, float)): return a == b
    return type(a) is type(b) and a == b


def _num(x):
    if isinstance(x, bool) or x is None: return None
    if isinstance(x, (int, float)): return x
    try:
        return int(x)
    except ValueError:
        try:
            return float(x)
        except ValueError:
            return None


def run_script(src, keys, argv, call):
    prog = Parser(tokenize(src)).block(())
    env = {}

    def to_lua(reply):        # server reply -> Lua value
        if reply is None: return False
        if isinstance(reply, bytes):
            try: return reply.decode()
            except UnicodeDecodeError: return reply.decode("latin1")    # Lua strings are byte strings: a binary value is only ever compared
        if isinstance(reply, list): return [to_lua(r) for r in reply]
        return reply

    def ev(e):
        t = e[0]
        if t == "lit": return e[1]
        if t == "nil": return None
        if t == "var":
            if e[1] == "KEYS": return keys
            if e[1] == "ARGV": return argv
            if e[1] in env: return env[e[1]]
            return None
        if t == "index":
            base, idx = ev(e[1]), ev(e[2])
            if isinstance(base, list) and isinstance(idx, int): return base[idx - 1] if 1 <= idx <= len(base) else None
            raise ScriptOutsideSubset("indexing")
        if t == "call":
            fn = e[1]
            args = [ev(a) for a in e[2]]
            if fn == ("field", ("var", "redis"), "call") or fn == ("field", ("var", "redis"), "pcall"):
                conv = []
                for a in args:
                    if isinstance(a, float) and a == int(a): a = int(a)
                    conv.append(str(a) if not isinstance(a, str) else a)
                return to_lua(call(*conv))
            if fn == ("var", "tonumber"): return _num(args[0])
            if fn == ("var", "tostring"): return str(args[0])
            raise ScriptOutsideSubset(f"call of {fn}")
        if t == "bin":
            op, a, b = e[1], ev(e[2]), ev(e[3])
            if op == "==": return lua_eq(a, b)
            if op == "~=": return not lua_eq(a, b)
            if op == "..":
                if isinstance(a, float) and a == int(a): a = int(a)
                if isinstance(b, float) and b == int(b): b = int(b)
                return str(a) + str(b)
            if op in ("+", "-"):
                x, y = _num(a), _num(b)
                if x is None or y is None: raise ResponseError("attempt to perform arithmetic on a non-number")
                return x + y if op == "+" else x - y
            if isinstance(a, str) and isinstance(b, str): pass
            elif isinstance(a, (int, float)) and isinstance(b, (int, float)) and not isinstance(a, bool) and not isinstance(b, bool): pass
            else: raise ResponseError(f"attempt to compare {type(a).__name__} with {type(b).__name__}")
            return {"<": a < b, ">": a > b, "<=": a <= b, ">=": a >= b}[op]
        raise ScriptOutsideSubset(t)

    def truthy(v): return v is not None and v is not False

    def run(stmts):
        for s in stmts:
            if s[0] == "local" or s[0] == "assign": env[s[1]] = ev(s[2])
            elif s[0] == "expr": ev(s[1])
            elif s[0] == "return": raise Return(ev(s[1]))
            elif s[0] == "if": run(s[2] if truthy(ev(s[1])) else s[3])
    try:
        run(prog)
    except Return as r:
        v = r.v
        if v is None or v is False: return None        # Lua nil / false -> nil reply
        if v is True: return 1
        if isinstance(v, float): return int(v)         # Lua number -> integer reply (truncated)
        if isinstance(v, str): return v.encode()
        return v
    return None

From Cashews Require Import Base.Prelude Spec.TTLMap Model.Tags Model.Txn Run.TxnCase Proofs.TTLMapFacts Proofs.DecorSimpleProofs Proofs.StrategiesProofs.
Open Scope string_scope.
Open Scope list_scope.
Open Scope Z_scope.

(* ---------- basic facts about the spec map ---------- *)
Lemma get_write m now k v ttl k' : s_get (s_write m now k v ttl) now k' = if String.eqb k' k then Some v else s_get m now k'.
Proof.
  destruct (String.eqb_spec k' k) as [->|Hn]; [apply spec_write_readable|].
  unfold s_get, s_look. rewrite s_write_other by exact Hn. reflexivity.
Qed.
Lemma get_upd_none m now k k' : s_get (upd m k None) now k' = if String.eqb k' k then None else s_get m now k'.
Proof. unfold s_get, s_look, upd. destruct (String.eqb k' k); reflexivity. Qed.
Lemma look_get m now k : isSome (s_look m now k) = isSome (s_get m now k).
Proof. unfold s_get. destruct (s_look m now k); reflexivity. Qed.
Lemma look_none_get m now k : s_look m now k = None <-> s_get m now k = None.
Proof. unfold s_get. destruct (s_look m now k); cbn; split; congruence. Qed.

Lemma mems_discard d k x : mems x (d_discard d k) = mems x d && negb (String.eqb x k).
Proof.
  unfold mems, d_discard. induction d as [|y d IH]; cbn [filter existsb]; [reflexivity|].
  destruct (String.eqb y k) eqn:Eyk; cbn [negb existsb].
  - rewrite IH. apply String.eqb_eq in Eyk. subst y.
    destruct (String.eqb x k) eqn:Exk; cbn [negb orb andb]; [rewrite andb_false_r; reflexivity|reflexivity].
  - rewrite IH. destruct (String.eqb x y) eqn:Exy; cbn [orb]; [|reflexivity].
    apply String.eqb_eq in Exy. subst y. rewrite Eyk. reflexivity.
Qed.
Lemma mems_cons x k d : mems x (k :: d) = String.eqb x k || mems x d.
Proof. reflexivity. Qed.
Lemma mems_app x a b : mems x (a ++ b) = mems x a || mems x b.
Proof. unfold mems. apply existsb_app. Qed.

(* ---------- the view of a transaction ---------- *)
(* a pending delete never coexists with a live overlay entry *)
Definition WF (t : txn) (now : Z) : Prop := forall k, in_d t k = true -> s_get (tL t) now k = None.
Definition view (t : txn) (now : Z) (k : key) : option val := tx_get t now k.
Definition R (t : txn) (m : tmap) (now : Z) : Prop := WF t now /\ forall k, view t now k = s_get m now k.

Lemma exists_view t now k : WF t now -> tx_exists t now k = isSome (view t now k).
Proof.
  intro Hw. unfold tx_exists, view, tx_get. rewrite !look_get.
  destruct (in_d t k) eqn:D.
  - rewrite (Hw k D). reflexivity.
  - destruct (s_get (tL t) now k); reflexivity.
Qed.

Lemma R_begin b now : R (tx_begin b) b now.
Proof. split; [intros k H; discriminate|]. intro k. reflexivity. Qed.

Lemma in_d_LD t l d x : in_d (with_LD t l d) x = mems x d. Proof. reflexivity. Qed.
Lemma view_LD t l d now x : view (with_LD t l d) now x =
  if mems x d then None else match s_get l now x with Some v => Some v | None => s_get (tB t) now x end.
Proof. reflexivity. Qed.
Lemma view_unfold t now x : view t now x =
  if in_d t x then None else match s_get (tL t) now x with Some v => Some v | None => s_get (tB t) now x end.
Proof. reflexivity. Qed.
Lemma WF_LD t l d now : (forall x, mems x d = true -> s_get l now x = None) -> WF (with_LD t l d) now.
Proof. intros H x Hx. rewrite in_d_LD in Hx. exact (H x Hx). Qed.

(* writing k in the overlay (and dropping it from the pending deletes) = writing k directly *)
Lemma R_write t m now k v ttl : R t m now ->
  R (with_LD t (s_write (tL t) now k v ttl) (d_discard (tD t) k)) (s_write m now k v ttl) now.
Proof.
  intros [Hw Hv]. split.
  - apply WF_LD. intros x Hx. rewrite mems_discard in Hx. apply andb_true_iff in Hx as [Hd Hn].
    rewrite get_write. apply negb_true_iff in Hn. rewrite Hn. apply Hw. exact Hd.
  - intro x. rewrite view_LD, mems_discard, !get_write.
    destruct (String.eqb x k) eqn:E; cbn [negb andb].
    + rewrite andb_false_r. reflexivity.
    + rewrite andb_true_r. rewrite <- Hv, view_unfold. reflexivity.
Qed.

Lemma R_delete t m now k : R t m now -> R (with_LD t (upd (tL t) k None) (k :: tD t)) (upd m k None) now.
Proof.
  intros [Hw Hv]. split.
  - apply WF_LD. intros x Hx. rewrite get_upd_none. rewrite mems_cons in Hx.
    destruct (String.eqb x k) eqn:E; [reflexivity|]. cbn [orb] in Hx. apply Hw. exact Hx.
  - intro x. rewrite view_LD, mems_cons, !get_upd_none.
    destruct (String.eqb x k) eqn:E; cbn [orb]; [reflexivity|]. rewrite <- Hv, view_unfold. reflexivity.
Qed.

(* ---------- multi-key writes ---------- *)
Lemma with_LD_id t : with_LD t (tL t) (tD t) = t.
Proof. destruct t; reflexivity. Qed.
Lemma fold_set_many t m now ttl kvs : R t m now ->
  R (with_LD t (fold_left (fun l kv => s_write l now (fst kv) (snd kv) ttl) kvs (tL t))
               (fold_left (fun d kv => d_discard d (fst kv)) kvs (tD t)))
    (fold_left (fun m' kv => s_write m' now (fst kv) (snd kv) ttl) kvs m) now.
Proof.
  revert t m. induction kvs as [|[k v] kvs IH]; intros t m HR; cbn [fold_left fst snd].
  - rewrite with_LD_id. exact HR.
  - apply (IH (with_LD t (s_write (tL t) now k v ttl) (d_discard (tD t) k)) (s_write m now k v ttl)). apply R_write. exact HR.
Qed.
Lemma fold_del_many t m now ks : R t m now ->
  R (with_LD t (fold_left (fun l k => upd l k None) ks (tL t)) (rev ks ++ tD t)) (fold_left (fun m' k => upd m' k None) ks m) now.
Proof.
  revert t m. induction ks as [|k ks IH]; intros t m HR; cbn [fold_left app rev].
  - rewrite with_LD_id. exact HR.
  - rewrite <- app_assoc. cbn [app].
    exact (IH (with_LD t (upd (tL t) k None) (k :: tD t)) (upd m k None) (R_delete t m now k HR)).
Qed.
(* the order of the pending deletes is irrelevant *)
Lemma R_perm t l d d' m now : (forall x, mems x d = mems x d') -> R (with_LD t l d) m now -> R (with_LD t l d') m now.
Proof.
  intros Hp [Hw Hv]. split.
  - apply WF_LD. intros x Hx. apply (Hw x). rewrite in_d_LD, Hp. exact Hx.
  - intro x. rewrite view_LD, <- Hp, <- view_LD. apply Hv.
Qed.
Lemma mems_rev x l : mems x (rev l) = mems x l.
Proof.
  unfold mems. induction l as [|y l IH]; cbn; [reflexivity|]. rewrite existsb_app. cbn. rewrite IH, orb_false_r. apply orb_comm.
Qed.

(* ---------- result comparison is reflexive ---------- *)
Lemma val_eqb_refl v : val_eqb v v = true. Proof. apply val_eqb_spec. reflexivity. Qed.
Lemma oval_eqb_refl (o : option val) : option_eqb val_eqb o o = true.
Proof. destruct o; cbn; [apply val_eqb_refl|reflexivity]. Qed.
Lemma res_eqb_refl r : res_eqb r r = true.
Proof.
  destruct r; cbn; try reflexivity; try apply oval_eqb_refl; try apply Z.eqb_refl; try apply Bool.eqb_reflx.
  induction vs as [|x vs IH]; cbn; [reflexivity|]. rewrite oval_eqb_refl. exact IH.
Qed.
Lemma sub_keys_refl l : sub_keys l l = true.
Proof.
  unfold sub_keys. apply forallb_forall. intros x Hx. unfold mems. apply existsb_exists. exists x. split; [exact Hx|apply String.eqb_refl].
Qed.
Lemma sub_kvs_refl l : sub_kvs l l = true.
Proof.
  unfold sub_kvs. apply forallb_forall. intros x Hx. apply existsb_exists. exists x. split; [exact Hx|].
  unfold kv_eqb. rewrite String.eqb_refl, val_eqb_refl. reflexivity.
Qed.
Lemma tres_eqb_refl r : tres_eqb r r = true.
Proof. destruct r; cbn; [apply res_eqb_refl| |]; rewrite ?sub_keys_refl, ?sub_kvs_refl, Nat.eqb_refl; reflexivity. Qed.
Lemma tres_like_eq c r : (forall k, c <> TC (GetExpire k)) -> tres_like c r r = true.
Proof.
  intro H. destruct c as [c0| | |]; try apply tres_eqb_refl.
  destruct c0; try apply tres_eqb_refl; try reflexivity. exfalso. eapply H. reflexivity.
Qed.

(* writing k over an overlay that differs from the transaction's only at k *)
Lemma R_write' t m now k v ttl l1 : (forall x, x <> k -> s_get l1 now x = s_get (tL t) now x) -> R t m now ->
  R (with_LD t (s_write l1 now k v ttl) (d_discard (tD t) k)) (s_write m now k v ttl) now.
Proof.
  intros Hl [Hw Hv]. split.
  - apply WF_LD. intros x Hx. rewrite mems_discard in Hx. apply andb_true_iff in Hx as [Hd Hn].
    rewrite get_write. apply negb_true_iff in Hn. rewrite Hn. rewrite Hl by (apply String.eqb_neq; exact Hn). apply Hw. exact Hd.
  - intro x. rewrite view_LD, mems_discard, !get_write.
    destruct (String.eqb x k) eqn:E; cbn [negb andb].
    + rewrite andb_false_r. reflexivity.
    + rewrite andb_true_r. rewrite Hl by (apply String.eqb_neq; exact E). rewrite <- Hv, view_unfold. reflexivity.
Qed.

(* a live overlay entry is never pending delete, so the view is the overlay's value *)
Lemma view_L_live t now k v : WF t now -> s_get (tL t) now k = Some v -> view t now k = Some v /\ in_d t k = false.
Proof.
  intros Hw E. destruct (in_d t k) eqn:D; [rewrite (Hw k D) in E; discriminate|]. split; [|reflexivity].
  rewrite view_unfold, D, E. reflexivity.
Qed.

Lemma s_get_look m now k v : s_get m now k = Some v -> exists d, s_look m now k = Some (d, v).
Proof. unfold s_get. destruct (s_look m now k) as [[d v0]|]; cbn; [intros [= <-]; eauto|discriminate]. Qed.

(* an overlay that differs from the transaction's only at k, where it shows the store's value *)
Lemma R_seed t m now k l1 v : R t m now -> (forall x, x <> k -> s_get l1 now x = s_get (tL t) now x) ->
  s_get l1 now k = Some v -> s_get m now k = Some v ->
  R (with_LD t l1 (d_discard (tD t) k)) m now.
Proof.
  intros [Hw Hv] Hl Hk Hm. split.
  - apply WF_LD. intros x Hx. rewrite mems_discard in Hx. apply andb_true_iff in Hx as [Hd Hn].
    apply negb_true_iff in Hn. rewrite Hl by (apply String.eqb_neq; exact Hn). apply Hw. exact Hd.
  - intro x. rewrite view_LD, mems_discard. destruct (String.eqb x k) eqn:E; cbn [negb].
    + apply String.eqb_eq in E. subst x. rewrite andb_false_r, Hk, Hm. reflexivity.
    + rewrite andb_true_r, Hl by (apply String.eqb_neq; exact E). rewrite <- Hv, view_unfold. reflexivity.
Qed.

Lemma incr_sim U t m now k by_ ttl : R t m now ->
  let '(t', r) := tx_step U t now (TC (Incr k by_ ttl)) in
  let '(m', r') := s_step m now (Incr k by_ ttl) in
  r = TR r' /\ R t' m' now.
Proof.
  intros HR. pose proof HR as [Hw Hv]. cbn [tx_step s_step].
  set (l1 := if negb (isSome (s_look (tL t) now k)) && negb (in_d t k)
             then s_write (tL t) now k (match s_get (tB t) now k with Some v => v | None => VInt 0 end) 0 else tL t).
  assert (Hl1 : forall x, x <> k -> s_get l1 now x = s_get (tL t) now x).
  { intros x Hx. unfold l1. destruct (negb _ && negb _); [|reflexivity]. rewrite get_write.
    destruct (String.eqb_spec x k); [congruence|reflexivity]. }
  pose proof (Hv k) as Hvk. rewrite view_unfold in Hvk.
  (* what the counter starts from *)
  assert (Hk : s_get l1 now k = match s_get m now k with Some v => Some v | None => if in_d t k then None else Some (VInt 0) end).
  { unfold l1. rewrite look_get.
    destruct (s_get (tL t) now k) as [v|] eqn:EL; cbn [isSome negb andb].
    - destruct (view_L_live t now k v Hw EL) as [_ D]. rewrite D in Hvk. rewrite EL, <- Hvk. reflexivity.
    - destruct (in_d t k) eqn:D; cbn [negb andb]; [rewrite EL, <- Hvk; reflexivity|].
      rewrite get_write, String.eqb_refl, <- Hvk. destruct (s_get (tB t) now k); reflexivity. }
  rewrite Hk. destruct (s_get m now k) as [v|] eqn:Em.
  - destruct v; try (split; [reflexivity|apply (R_seed t m now k l1 _ HR Hl1 Hk Em)]).
    split; [reflexivity|apply R_write'; [exact Hl1|exact HR]].
  - destruct (in_d t k).
    + split; [reflexivity|apply R_write'; [exact Hl1|exact HR]].
    + rewrite Z.add_0_l. split; [reflexivity|apply R_write'; [exact Hl1|exact HR]].
Qed.

(* ---------- get_expire: missing / not missing ---------- *)
Definition ecode (m : tmap) (now : Z) (k : key) : Z :=
  match s_look m now k with None => -2 | Some (Some d, _) => round_secs (d - now) | Some (None, _) => -1 end.
Lemma round_secs_nonneg x : 0 <= x -> 0 <= round_secs x.
Proof.
  intro H. unfold round_secs. assert (0 <= x / 16) by (apply Z.div_pos; lia).
  destruct (x mod 16 <? 8); [assumption|]. destruct (8 <? x mod 16); [lia|]. destruct (Z.even (x / 16)); lia.
Qed.
Lemma ecode_missing m now k : (ecode m now k =? -2) = negb (isSome (s_look m now k)).
Proof.
  unfold ecode. destruct (s_look m now k) as [[[d|] v]|] eqn:E; cbn [isSome negb]; try reflexivity.
  destruct (s_look_entry _ _ _ _ E) as [_ L]. cbn in L. apply Z.ltb_lt in L.
  pose proof (round_secs_nonneg (d - now)). apply Z.eqb_neq. lia.
Qed.
Lemma ecode_ge m now k : -2 <= ecode m now k.
Proof.
  unfold ecode. destruct (s_look m now k) as [[[d|] v]|] eqn:E; try lia.
  destruct (s_look_entry _ _ _ _ E) as [_ L]. cbn in L. apply Z.ltb_lt in L. pose proof (round_secs_nonneg (d - now)). lia.
Qed.

Lemma getexpire_sim U t m now k : R t m now ->
  let '(t', r) := tx_step U t now (TC (GetExpire k)) in
  let '(m', r') := s_step m now (GetExpire k) in
  tres_like (TC (GetExpire k)) r (TR r') = true /\ t' = t /\ m' = m.
Proof.
  intros [Hw Hv]. cbn [tx_step s_step]. fold (ecode (tL t) now k) (ecode (tB t) now k).
  pose proof (Hv k) as Hk. rewrite view_unfold in Hk.
  assert (Y : exists y, (match s_look m now k with
                         | None => (m, RInt (-2)) | Some (Some d, _) => (m, RInt (round_secs (d - now))) | Some (None, _) => (m, RInt (-1)) end)
                        = (m, RInt y) /\ (y =? -2) = negb (isSome (s_look m now k))).
  { exists (ecode m now k). split; [unfold ecode; destruct (s_look m now k) as [[[d|] v]|]; reflexivity|apply ecode_missing]. }
  destruct Y as (y & -> & Hy). split; [|split; reflexivity]. cbn [tres_like]. rewrite Hy, look_get, <- Hk.
  match goal with |- Bool.eqb ?a ?b = true => assert (E : a = b); [|rewrite E; apply Bool.eqb_reflx] end.
  destruct (in_d t k); [reflexivity|].
  pose proof (ecode_missing (tL t) now k) as EL. pose proof (ecode_missing (tB t) now k) as EB.
  pose proof (ecode_ge (tL t) now k) as GL. pose proof (ecode_ge (tB t) now k) as GB.
  rewrite !look_get in EL, EB.
  destruct (Z.leb_spec 0 (ecode (tL t) now k)) as [H0|H0].
  - (* overlay alive with a deadline *)
    destruct (s_get (tL t) now k); cbn [isSome negb] in *; [apply Z.eqb_neq; lia|]. apply Z.eqb_eq in EL. lia.
  - destruct (s_get (tL t) now k) as [vl|]; cbn [isSome negb] in *.
    + (* alive without deadline: never reported missing *)
      apply Z.eqb_neq in EL. assert (E1 : ecode (tL t) now k = -1) by lia. rewrite E1. cbn [Z.eqb andb].
      destruct (s_get (tB t) now k); cbn [isSome negb] in EB.
      * rewrite EB. cbn [andb]. exact EB.
      * rewrite EB. reflexivity.
    + apply Z.eqb_eq in EL. rewrite EL. rewrite andb_false_r. exact EB.
Qed.

(* ---------- pattern commands ---------- *)
Lemma fold_upd_none (f : key -> bool) U : forall m x,
  fold_left (fun m' k => if f k then upd m' k None else m') U m x = if mems x U && f x then None else m x.
Proof.
  induction U as [|k U IH]; intros m x; cbn [fold_left]; [reflexivity|]. rewrite IH, mems_cons.
  destruct (String.eqb x k) eqn:E; cbn [orb].
  - apply String.eqb_eq in E. subst x. destruct (f k) eqn:Fk.
    + rewrite andb_true_r. cbn [andb]. unfold upd. rewrite String.eqb_refl. destruct (mems k U); reflexivity.
    + rewrite !andb_false_r. reflexivity.
  - destruct (mems x U && f x); [reflexivity|]. destruct (f k); [unfold upd; rewrite E; reflexivity|reflexivity].
Qed.
Lemma get_fold_upd_none (f : key -> bool) U m now x :
  s_get (fold_left (fun m' k => if f k then upd m' k None else m') U m) now x = if mems x U && f x then None else s_get m now x.
Proof. unfold s_get, s_look. rewrite fold_upd_none. destruct (mems x U && f x); reflexivity. Qed.
Lemma mems_filter x (f : key -> bool) U : mems x (filter f U) = mems x U && f x.
Proof.
  unfold mems. induction U as [|k U IH]; cbn; [reflexivity|]. destruct (f k) eqn:Fk; cbn; rewrite IH.
  - destruct (String.eqb x k) eqn:E; cbn; [apply String.eqb_eq in E; subst; rewrite Fk; reflexivity|reflexivity].
  - destruct (String.eqb x k) eqn:E; cbn; [apply String.eqb_eq in E; subst; rewrite Fk, andb_false_r; reflexivity|reflexivity].
Qed.

Lemma delmatch_sim U t m now p : R t m now ->
  let '(t', r) := tx_step U t now (TDelMatch p) in
  let '(m', r') := d_step U m now (TDelMatch p) in
  r = r' /\ R t' m' now.
Proof.
  intros [Hw Hv]. cbn [tx_step d_step]. split; [reflexivity|].
  assert (Dir : forall x, s_get (fold_left (fun m' k => if matches p k && isSome (s_look m now k) then upd m' k None else m') U m) now x
                          = if mems x U && matches p x then None else s_get m now x).
  { intro x. rewrite (get_fold_upd_none (fun k => matches p k && isSome (s_look m now k))).
    destruct (mems x U); cbn [andb]; [|reflexivity]. destruct (matches p x); cbn [andb]; [|reflexivity].
    rewrite look_get. destruct (s_get m now x); reflexivity. }
  split.
  - apply WF_LD. intros x Hx. rewrite (get_fold_upd_none (matches p)). rewrite mems_app, mems_filter in Hx.
    destruct (mems x U && matches p x) eqn:E; [reflexivity|].
    destruct (mems x U); cbn [andb] in *; [rewrite E in Hx|]; cbn [andb orb] in Hx; apply Hw; exact Hx.
  - intro x. rewrite view_LD, Dir, (get_fold_upd_none (matches p)), mems_app, mems_filter.
    pose proof (Hv x) as Hx. rewrite view_unfold in Hx. unfold in_d in Hx.
    destruct (mems x U); cbn [andb]; [|exact Hx]. destruct (matches p x); cbn [andb]; [|exact Hx].
    (* a matching key: gone from the overlay; pending delete iff it was in the store *)
    rewrite look_get. destruct (s_get (tB t) now x); cbn [isSome orb]; [reflexivity|]. destruct (mems x (tD t)); reflexivity.
Qed.

Lemma scan_sim U t m now p : R t m now ->
  snd (tx_step U t now (TScan p)) = snd (d_step U m now (TScan p)) /\
  snd (tx_step U t now (TGetMatch p)) = snd (d_step U m now (TGetMatch p)).
Proof.
  intros [Hw Hv]. cbn [tx_step d_step snd]. split.
  - f_equal. apply filter_ext. intro k. rewrite exists_view by exact Hw. rewrite Hv, look_get. reflexivity.
  - f_equal. apply flat_map_ext. intro k. fold (view t now k). rewrite Hv. reflexivity.
Qed.

(* writing the overlay at a key that is not pending delete: the pending deletes stay as they are *)
Lemma R_write_L t m now k v ttl : R t m now -> in_d t k = false ->
  R (with_L t (s_write (tL t) now k v ttl)) (s_write m now k v ttl) now.
Proof.
  intros HR Hd. change (with_L t (s_write (tL t) now k v ttl)) with (with_LD t (s_write (tL t) now k v ttl) (tD t)).
  apply (R_perm t _ (d_discard (tD t) k)); [|apply R_write; exact HR].
  intro x. rewrite mems_discard. destruct (String.eqb x k) eqn:E; cbn [negb]; [|apply andb_true_r].
  apply String.eqb_eq in E. subst x. unfold in_d in Hd. rewrite Hd. reflexivity.
Qed.

(* C04: one command inside the transaction behaves like the same command applied directly *)
Theorem tx_step_sim U t m now c : R t m now -> c <> TC Clear ->
  let '(t', r) := tx_step U t now c in
  let '(m', r') := d_step U m now c in
  tres_like c r r' = true /\ R t' m' now.
Proof.
  intros HR Hnc. pose proof HR as [Hw Hv].
  assert (Hex : forall k, tx_exists t now k = isSome (s_look m now k)).
  { intro k. rewrite exists_view by exact Hw. rewrite Hv, look_get. reflexivity. }
  destruct c as [c0|p|p|p].
  - destruct c0 as [k|ks|k|k v ttl ex|kvs ttl|k by_ ttl|k|ks|k ttl|k| |].
    + (* Get *) cbn [tx_step d_step s_step]. fold (view t now k). rewrite Hv. split; [apply tres_like_eq; discriminate|exact HR].
    + (* GetMany *) cbn [tx_step d_step s_step].
      assert (E : map (tx_get t now) ks = map (s_get m now) ks) by (apply map_ext; intro k; apply Hv).
      rewrite E. split; [apply tres_like_eq; discriminate|exact HR].
    + (* Exists *) cbn [tx_step d_step s_step]. rewrite Hex. split; [apply tres_like_eq; discriminate|exact HR].
    + (* Set *) cbn [tx_step d_step s_step]. destruct ex as [b|].
      * rewrite Hex. destruct (Bool.eqb (isSome (s_look m now k)) b).
        -- split; [apply tres_like_eq; discriminate|apply R_write; exact HR].
        -- split; [apply tres_like_eq; discriminate|exact HR].
      * split; [apply tres_like_eq; discriminate|apply R_write; exact HR].
    + (* SetMany *) cbn [tx_step d_step s_step]. split; [apply tres_like_eq; discriminate|apply fold_set_many; exact HR].
    + (* Incr *) pose proof (incr_sim U t m now k by_ ttl HR) as H. cbn [d_step].
      destruct (tx_step U t now (TC (Incr k by_ ttl))) as [t' r]. destruct (s_step m now (Incr k by_ ttl)) as [m' r'].
      destruct H as [-> HR']. split; [apply tres_like_eq; discriminate|exact HR'].
    + (* Del: the boolean is not compared *) cbn [tx_step d_step s_step]. destruct (isSome (s_look m now k)) eqn:E; (split; [reflexivity|]).
      * apply R_delete. exact HR.
      * pose proof (R_delete t m now k HR) as [Hw' Hv']. split; [exact Hw'|]. intro x. rewrite Hv', get_upd_none.
        destruct (String.eqb_spec x k) as [->|]; [|reflexivity].
        symmetry. apply look_none_get. destruct (s_look m now k); [discriminate|reflexivity].
    + (* DelMany *) cbn [tx_step d_step s_step]. split; [apply tres_like_eq; discriminate|].
      apply (R_perm t _ (rev ks ++ tD t)); [intro x; rewrite !mems_app, mems_rev; reflexivity|apply fold_del_many; exact HR].
    + (* Expire *) cbn [tx_step d_step s_step].
      destruct (s_look (tL t) now k) as [[dl vl]|] eqn:EL.
      * assert (EG : s_get (tL t) now k = Some vl) by (unfold s_get; rewrite EL; reflexivity).
        destruct (view_L_live t now k vl Hw EG) as [Hvk Hdk]. rewrite Hv in Hvk.
        destruct (s_get_look m now k vl Hvk) as (dm & ->).
        split; [reflexivity|apply R_write_L; assumption].
      * assert (EG : s_get (tL t) now k = None) by (unfold s_get; rewrite EL; reflexivity).
        pose proof (Hv k) as Hk. rewrite view_unfold, EG in Hk.
        destruct (in_d t k) eqn:Hdk.
        -- apply eq_sym, look_none_get in Hk. rewrite Hk. split; [reflexivity|exact HR].
        -- destruct (s_get (tB t) now k) as [vb|].
           ++ destruct (s_get_look m now k vb (eq_sym Hk)) as (dm & ->). split; [reflexivity|apply R_write_L; assumption].
           ++ apply eq_sym, look_none_get in Hk. rewrite Hk. split; [reflexivity|exact HR].
    + (* GetExpire *) pose proof (getexpire_sim U t m now k HR) as H. cbn [d_step].
      destruct (tx_step U t now (TC (GetExpire k))) as [t' r]. destruct (s_step m now (GetExpire k)) as [m' r'].
      destruct H as (Hl & -> & ->). split; [exact Hl|exact HR].
    + (* Clear *) congruence.
    + (* Sweep *) cbn [tx_step d_step s_step]. split; [reflexivity|exact HR].
  - pose proof (delmatch_sim U t m now p HR) as H.
    destruct (tx_step U t now (TDelMatch p)) as [t' r]. destruct (d_step U m now (TDelMatch p)) as [m' r'].
    destruct H as [-> HR']. split; [apply tres_eqb_refl|exact HR'].
  - destruct (scan_sim U t m now p HR) as [Hs _]. cbn [tx_step d_step snd] in *. rewrite Hs. split; [apply tres_eqb_refl|exact HR].
  - destruct (scan_sim U t m now p HR) as [_ Hs]. cbn [tx_step d_step snd] in *. rewrite Hs. split; [apply tres_eqb_refl|exact HR].
Qed.

(* ---------- whole transactions (all commands at one instant: no deadline can elapse inside) ---------- *)
Fixpoint like_all (h : list (Z * tcmd)) (a b : list tres) : bool :=
  match h, a, b with
  | [], [], [] => true
  | (_, c) :: h', x :: a', y :: b' => tres_like c x y && like_all h' a' b'
  | _, _, _ => false
  end.

Theorem tx_view_eq_direct U now h : Forall (fun e => fst e = now /\ snd e <> TC Clear) h ->
  forall t m, R t m now ->
  let '(t', res, _) := run_tx U t h in
  let '(m', res') := run_direct U m h in
  like_all h res res' = true /\ R t' m' now.
Proof.
  induction 1 as [|[n c] h [Hn Hc] Hall IH]; intros t m HR; cbn [run_tx run_direct]; [split; [reflexivity|exact HR]|].
  cbn [fst snd] in Hn, Hc. subst n.
  pose proof (tx_step_sim U t m now c HR Hc) as Hs.
  destruct (tx_step U t now c) as [t1 r]. destruct (d_step U m now c) as [m1 r'].
  destruct Hs as [Hl HR1]. specialize (IH t1 m1 HR1).
  destruct (run_tx U t1 h) as [[t2 rs] ss]. destruct (run_direct U m1 h) as [m2 rs'].
  destruct IH as [Hl2 HR2]. split; [cbn [like_all]; rewrite Hl, Hl2; reflexivity|exact HR2].
Qed.

(* C03: nothing is visible outside before commit - no command but clear touches the underlying store *)
Theorem tx_invisible U t now c : c <> TC Clear -> tB (fst (tx_step U t now c)) = tB t.
Proof.
  intro Hc. destruct c as [c0|p|p|p]; try reflexivity.
  destruct c0 as [k|ks|k|k v ttl ex|kvs ttl|k by_ ttl|k|ks|k ttl|k| |]; cbn [tx_step]; try reflexivity.
  - destruct ex as [b|]; [destruct (Bool.eqb _ b)|]; reflexivity.
  - destruct (s_get _ now k) as [[]|]; reflexivity.
  - destruct (s_look (tL t) now k) as [[d v]|]; [reflexivity|]. destruct (in_d t k); [reflexivity|]. destruct (s_get (tB t) now k); reflexivity.
  - congruence.
Qed.
Theorem tx_rollback_id U h : Forall (fun e => snd e <> TC Clear) h -> forall t,
  tx_rollback (fst (fst (run_tx U t h))) = tB t.
Proof.
  induction 1 as [|[n c] h Hc Hall IH]; intro t; cbn [run_tx]; [reflexivity|].
  pose proof (tx_invisible U t n c Hc) as Hi. destruct (tx_step U t n c) as [t1 r]. cbn [fst] in Hi.
  specialize (IH t1). destruct (run_tx U t1 h) as [[t2 rs] ss]. cbn [fst] in *. rewrite IH. exact Hi.
Qed.

(* C03: commit = the view, key by key; a live overlay entry is committed with exactly its deadline *)
Definition cstep (t : txn) (now : Z) (m : tmap) (k : key) : tmap :=
  match tL t k with
  | Some (Some d, v) => if 0 <? d - now then s_write m now k v (d - now) else m
  | Some (None, v) => s_write m now k v 0
  | None => m
  end.
Lemma cstep_other t now m k x : x <> k -> cstep t now m k x = m x.
Proof.
  intro H. unfold cstep. destruct (tL t k) as [[[d|] v]|]; [destruct (0 <? d - now)| |]; try reflexivity; apply s_write_other; exact H.
Qed.
Lemma cstep_local t now m m' k : m k = m' k -> cstep t now m k k = cstep t now m' k k.
Proof.
  intro H. unfold cstep. destruct (tL t k) as [[[d|] v]|]; [destruct (0 <? d - now)| |]; try exact H;
    unfold s_write, upd, s_look; rewrite String.eqb_refl, H; reflexivity.
Qed.
Lemma fold_cstep t now U : NoDup U -> forall m x,
  fold_left (cstep t now) U m x = if mems x U then cstep t now m x x else m x.
Proof.
  induction 1 as [|k U Hk Hnd IH]; intros m x; cbn [fold_left]; [reflexivity|]. rewrite IH, mems_cons.
  destruct (String.eqb x k) eqn:E; cbn [orb].
  - apply String.eqb_eq in E. subst x.
    assert (mems k U = false) as ->.
    { destruct (mems k U) eqn:M; [|reflexivity]. exfalso. apply Hk. unfold mems in M. apply existsb_exists in M as (y & Hy & Ey).
      apply String.eqb_eq in Ey. subst. exact Hy. }
    reflexivity.
  - assert (Hn : x <> k) by (apply String.eqb_neq; exact E).
    destruct (mems x U); [apply cstep_local; apply cstep_other; exact Hn|apply cstep_other; exact Hn].
Qed.

Lemma deletes_applied (D : list key) (B : tmap) x : fold_left (fun m k => upd m k None) D B x = if mems x D then None else B x.
Proof.
  pose proof (fold_upd_none (fun _ => true) D B x) as H. rewrite andb_true_r in H. exact H.
Qed.

Theorem tx_commit_view U t now : NoDup U -> (forall k, ~ In k U -> tL t k = None) -> WF t now ->
  forall k, s_get (tx_commit U t now) now k = view t now k.
Proof.
  intros Hnd Hout Hw k. unfold tx_commit. change (fun m k0 => match tL t k0 with
      | Some (Some d, v) => if 0 <? d - now then s_write m now k0 v (d - now) else m
      | Some (None, v) => s_write m now k0 v 0 | None => m end) with (cstep t now).
  set (b1 := fold_left (fun m k0 => upd m k0 None) (tD t) (tB t)).
  assert (B1 : s_get b1 now k = if in_d t k then None else s_get (tB t) now k).
  { unfold s_get, s_look, b1. rewrite deletes_applied. unfold in_d. destruct (mems k (tD t)); reflexivity. }
  unfold s_get at 1, s_look. rewrite fold_cstep by exact Hnd. fold (s_look (if mems k U then cstep t now b1 k else b1) now k).
  rewrite view_unfold.
  assert (Lnone : tL t k = None -> s_get (tL t) now k = None) by (intro E; unfold s_get, s_look; rewrite E; reflexivity).
  destruct (mems k U) eqn:MU.
  - unfold cstep. destruct (tL t k) as [[[d|] v]|] eqn:EL.
    + destruct (Z.ltb_spec 0 (d - now)) as [Hp|Hp].
      * assert (G : s_get (tL t) now k = Some v).
        { unfold s_get, s_look. rewrite EL. cbn. destruct (Z.ltb_spec now d); [reflexivity|lia]. }
        destruct (view_L_live t now k v Hw G) as [_ ->]. rewrite G.
        change (option_map snd (s_look (s_write b1 now k v (d - now)) now k)) with (s_get (s_write b1 now k v (d - now)) now k).
        apply spec_write_readable.
      * assert (G : s_get (tL t) now k = None).
        { unfold s_get, s_look. rewrite EL. cbn. destruct (Z.ltb_spec now d); [lia|reflexivity]. }
        rewrite G. exact B1.
    + assert (G : s_get (tL t) now k = Some v) by (unfold s_get, s_look; rewrite EL; reflexivity).
      destruct (view_L_live t now k v Hw G) as [_ ->]. rewrite G.
      change (option_map snd (s_look (s_write b1 now k v 0) now k)) with (s_get (s_write b1 now k v 0) now k).
      apply spec_write_readable.
    + rewrite (Lnone eq_refl). exact B1.
  - assert (Hk : ~ In k U).
    { intro Hin. assert (mems k U = true); [|congruence]. unfold mems. apply existsb_exists. exists k. split; [exact Hin|apply String.eqb_refl]. }
    rewrite (Lnone (Hout k Hk)). exact B1.
Qed.

(* a key written with a TTL inside the transaction is committed with exactly the deadline it was given *)
Theorem tx_commit_deadline U t now k d v : NoDup U -> In k U -> tL t k = Some (Some d, v) -> now < d ->
  tx_commit U t now k = Some (Some d, v).
Proof.
  intros Hnd Hin EL Hlt. unfold tx_commit. change (fun m k0 => match tL t k0 with
      | Some (Some d, v) => if 0 <? d - now then s_write m now k0 v (d - now) else m
      | Some (None, v) => s_write m now k0 v 0 | None => m end) with (cstep t now).
  rewrite fold_cstep by exact Hnd.
  assert (mems k U = true) as -> by (unfold mems; apply existsb_exists; exists k; split; [exact Hin|apply String.eqb_refl]).
  unfold cstep. rewrite EL. destruct (Z.ltb_spec 0 (d - now)); [|lia].
  rewrite s_write_pos by lia. rewrite String.eqb_refl. repeat f_equal. lia.
Qed.

(* C03 + C04 together: after commit the store shows, key by key, what direct application shows *)
Corollary tx_commit_eq_direct U now h b : NoDup U -> Forall (fun e => fst e = now /\ snd e <> TC Clear) h ->
  (forall k, ~ In k U -> tL (fst (fst (run_tx U (tx_begin b) h))) k = None) ->
  forall k, s_get (tx_commit U (fst (fst (run_tx U (tx_begin b) h))) now) now k = s_get (fst (run_direct U b h)) now k.
Proof.
  intros Hnd Hall Hout k. pose proof (tx_view_eq_direct U now h Hall (tx_begin b) b (R_begin b now)) as H.
  destruct (run_tx U (tx_begin b) h) as [[t' rs] ss]. destruct (run_direct U b h) as [m' rs']. cbn [fst] in *.
  destruct H as [_ [Hw Hv]]. rewrite tx_commit_view by assumption. apply Hv.
Qed.

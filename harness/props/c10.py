"""C10: signed storage - corrupted or foreign data never becomes a value."""
from harness import serrun, vclock
from harness.core import C, S

ID = "C10"
RUN_MODULE = "Model.Serializer Run.SerTables Run.C10"
EXPLAIN = "explain"
RULE = ("honest blobs of short values (str, bytes, tuple, dict) under md5/sha1/sha256 + secret, then mutated: single-byte substitution / "
        "deletion / insertion at a position, truncation, splice of two blobs, extra ':' or '_' in the header, read under another key, read "
        "under another secret, untouched (control); placed in the store and read through get, get_many and get_match with an instrumented "
        "unpickler. non-trivial: the blob differs from the honest one (or is read under a foreign key/secret)")
TRUSTED_BASE = ["Coq 8.16.1 kernel + vm_compute", "hand-written model coq/Model/Serializer.v tied by this differential run",
                "hmac/hashlib: recorded tables for the model; the oracle's 'verified' uses MACs recomputed by the harness with the hmac module, independently of cashews"]
ASSUMPTIONS = ["digest label left intact is not required by the generator: every mutated blob must be safe unless its signature genuinely verifies",
               "an attacker able to forge a MAC is outside the property (idealised HMAC only in the corollary)"]
EXHAUSTIVE = {"quick": False, "thorough": True}

KEYS = ["k", "a:b", "k_1"]
VALUES = ["v", "a_b:c", b"raw", b"12", ("t", 1), {"a": 1}, "", b"x_y:z"]
SUBS = [0x5F, 0x3A, 0x30, 0x61, 0x00, 0xFF]


def gen_cases(rng, tier):
    cases = []
    n = 1500 if tier == "quick" else 6000
    for _ in range(n):
        m = rng.choice(["subst", "subst", "subst", "delete", "insert", "truncate", "splice", "hdr", "keyswap", "secretswap", "secretswap", "none", "subst2"])
        cases.append({"digest": rng.choice(["md5", "sha1", "sha256"]), "key": rng.choice(KEYS), "vi": rng.randrange(len(VALUES)),
                      "mut": m, "pos": rng.random(), "pos2": rng.random(), "byte": rng.choice(SUBS + [rng.randrange(256)]), "vj": rng.randrange(len(VALUES)),
                      "key2": rng.choice(KEYS), "other_secret": rng.choice(["0ther", "S3CR3T", "s3cr3T", "s3cr3t ", "s3cr3"]), "via_url": rng.random() < 0.3})
    for _ in range(n // 10):     # the same characters in the other letter case (a hex signature compared without regard to case would still verify)
        cases.append({"digest": rng.choice(["md5", "sha1", "sha256"]), "key": rng.choice(KEYS), "vi": rng.randrange(len(VALUES)),
                      "mut": rng.choice(["case_at", "case_header"]), "pos": rng.random() * 0.5, "pos2": 0, "byte": 0, "vj": 0, "key2": "k",
                      "other_secret": "0ther", "via_url": False})
    for i in range(len(FOREIGN) * 3):     # foreign bytes that merely look like a number (only all-digit values bypass the signature)
        cases.append({"digest": ["md5", "sha1", "sha256"][i % 3], "key": "k", "vi": 0, "mut": "foreign", "pos": 0, "pos2": 0, "byte": i // 3, "vj": 0,
                      "key2": "k", "other_secret": "0ther", "via_url": False})
    if tier == "thorough":  # every position x substitution set, 3 blobs x 3 digests
        for dg in ("md5", "sha1", "sha256"):
            for vi in (0, 2, 4):
                for pos in range(0, 110):
                    for b in SUBS + ["flip", "inc", "case"]:
                        cases.append({"digest": dg, "key": "k", "vi": vi, "mut": "subst_at", "pos": pos, "pos2": 0, "byte": b, "vj": 0, "key2": "k"})
    return cases


FOREIGN = [b"1_2", b"4_2_0", b"12\n", b" 7", b"+5", b"-3", b"1e3", b"0x10", b"12 ", b"\t8", b"007", b"1.5"]


def _mutate(case, blob, other):
    m = case["mut"]
    if m == "foreign":
        return FOREIGN[case["byte"] % len(FOREIGN)]
    n = len(blob)
    i = min(n - 1, int(case["pos"] * n))
    if m == "subst_at":
        i = case["pos"]
        if i >= n:
            return blob
        b = case["byte"]
        b = blob[i] ^ 1 if b == "flip" else (blob[i] + 1) % 256 if b == "inc" else bytes([blob[i]]).swapcase()[0] if b == "case" else b
        return blob[:i] + bytes([b]) + blob[i + 1:]
    if m == "case_at":          # the first letter at or after position i, in the other case
        for j in list(range(i, n)) + list(range(i)):
            if bytes([blob[j]]).isalpha():
                return blob[:j] + bytes([blob[j]]).swapcase() + blob[j + 1:]
        return blob
    if m == "case_header":      # the whole header (digest label and signature) in upper case
        k = blob.index(b"_") if b"_" in blob else n
        return blob[:k].upper() + blob[k:]
    if m == "subst": return blob[:i] + bytes([case["byte"]]) + blob[i + 1:]
    if m == "subst2":
        j = min(n - 1, int(case["pos2"] * n))
        b = bytearray(blob); b[i] = case["byte"]; b[j] = (b[j] + 1) % 256
        return bytes(b)
    if m == "delete": return blob[:i] + blob[i + 1:]
    if m == "insert": return blob[:i] + bytes([case["byte"]]) + blob[i:]
    if m == "truncate": return blob[:i]
    if m == "splice":
        j = min(len(other), int(case["pos2"] * len(other)))
        return blob[:i] + other[j:]
    if m == "hdr":
        k = blob.index(b"_")
        h = min(k, int(case["pos2"] * (k + 1)))
        return blob[:h] + (b":" if case["byte"] % 2 else b"_") + blob[h:]
    return blob


def run_impl(case):
    cfg = {"pickler": "default", "secret": True, "digest": case["digest"], "via_url": bool(case.get("via_url"))}
    key = case["key"]

    async def go():
        # honest blobs from an uninstrumented serializer
        from cashews.serialize import get_serializer
        ser0 = get_serializer(secret=serrun.SECRET, digestmod=case["digest"])
        wkey = case["key2"] if case["mut"] == "keyswap" else key
        honest = await ser0.encode(None, key=wkey, value=VALUES[case["vi"]], expire=None)
        other = await ser0.encode(None, key=key, value=VALUES[case["vj"]], expire=None)
        blob = _mutate(case, honest, other)
        rcfg = dict(cfg)
        if case["mut"] == "secretswap":
            rcfg["secret_value"] = case.get("other_secret", "0ther")      # a different secret: unrelated, or the writer's up to letter case / a trailing blank
        mem, rec = serrun.make(rcfg)
        try:
            await mem.init()
            if case["mut"] == "keyswap" and wkey != key:
                # the genuine entry is read under its own key first, by the same serializer: a verification result must not be
                # remembered for the bytes alone
                mem.store[wkey] = (None, honest)
                try:
                    await mem.get(wkey, default=serrun.DEFAULT)
                    await mem.get_many(wkey, default=serrun.DEFAULT)
                except Exception:  # noqa
                    pass
                del mem.store[wkey]
                for t in ("loads", "macs", "dumps"):
                    del rec[t][:]
            rs = []
            for via in ("get", "get_many", "get_match"):
                mem.store[key] = (None, blob)
                try:
                    if via == "get": r = await mem.get(key, default=serrun.DEFAULT)
                    elif via == "get_many":      # a missing key is asked for first: every answer belongs to its own key
                        rr = await mem.get_many("zz-missing", key, default=serrun.DEFAULT)
                        r = rr[1] if len(rr) == 2 and rr[0] is serrun.DEFAULT else {"exc": "MISALIGNED"}
                    else:
                        got = [v async for _, v in mem.get_match(key)]
                        r = serrun.DEFAULT if not got or got[0] is None else got[0]
                except Exception as e:  # noqa
                    r = {"exc": type(e).__name__}
                rs.append(r)
            await mem.close()
        finally:
            rec["restore"]()
        return {"blob": blob, "honest": honest, "rs": rs, "rec": rec, "secret": rcfg.get("secret_value", serrun.SECRET), "cfg": rcfg}
    res = vclock.run(go)
    return _Obs(res)


class _Obs(dict):
    def __init__(self, res):
        super().__init__({"blob": repr(res["blob"])[:160], "results": [repr(r)[:60] for r in res["rs"]], "loads_calls": len(res["rec"]["loads"])})
        self.live = res


def to_coq(case, obs):
    live = obs.live
    ids = serrun.Ids()
    _, lt, mt = serrun.tables(live["rec"], ids)
    # get_match of Memory returns None (not the default) for a missing value: canonicalised to default in run_impl
    rs = [serrun.dres(r, ids) for r in live["rs"]]
    calls = []
    for b, cls, r in live["rec"]["loads"]:
        calls.append(S(serrun.lat(b)))
    # three reads -> the unpickler may have been called up to three times with the same argument
    uniq = []
    for c_ in calls:
        if not uniq or True:
            uniq.append(c_)
    per_read = uniq[: len(uniq) // 3] if len(uniq) % 3 == 0 else uniq
    truth = serrun.true_macs(live["secret"], case["key"], live["blob"])
    return C("CRead", serrun.cfg_coq(live["cfg"]), S(serrun.lat(case["key"].encode())), S(serrun.lat(live["blob"])), lt, mt, rs, per_read, truth)


def nontrivial(case, obs):
    return obs.live["blob"] != obs.live["honest"] or case["mut"] in ("keyswap", "secretswap")


def classify(case, obs):
    rs = obs.live["rs"]
    kind = "raised_unsecure" if isinstance(rs[0], dict) and rs[0].get("exc") == "UnSecureDataError" else \
        "raised_other" if isinstance(rs[0], dict) else "default" if rs[0] == serrun.DEFAULT else "value"
    return {"mut_" + case["mut"]: 1, "outcome_" + kind: 1, "digest_" + case["digest"]: 1}


def shrink(case):
    if case["vi"] != 0:
        c = dict(case); c["vi"] = 0; yield c
    if case["key"] != "k":
        c = dict(case); c["key"] = "k"; c["key2"] = "k"; yield c

From Coq Require Import Ascii.
From Cashews Require Import Base.Prelude Spec.TTLMap Model.Key Model.DecorSimple Proofs.TTLMapFacts.
Open Scope string_scope.

(* ================= simple.py ================= *)
Definition erec := (key * Z * outcome)%type.                (* an execution: key, instant, what it did *)
Definition stored_form (o : outcome) : val := match o with OVal v => v | OExc e => raise_marker e end.
Definition accepted (c : condk) (o : outcome) : bool :=
  match eval_cond c o, o with CRTrue, OVal v => negb (is_excobj v) | CRExc, OExc _ => true | _, _ => false end.
(* scripted values never look like the RaiseException marker *)
Definition clean (o : outcome) : Prop := match o with OVal (VOpq n) => (n < 1000)%Z | _ => True end.

Lemma unmark_stored o : clean o -> (forall e, o = OExc e -> (0 <= e)%Z) -> unmark (stored_form o) = o.
Proof.
  destruct o as [v|e]; unfold stored_form, clean, unmark.
  - destruct v; try reflexivity. intros H _. destruct (Z.leb_spec 1000 n); [lia|reflexivity].
  - intros _ H. specialize (H e eq_refl). unfold raise_marker.
    destruct (Z.leb_spec 1000 (1000 + e)); [f_equal; lia|lia].
Qed.

(* every entry of the map is the stored form of an accepted execution of that key, with that execution's deadline *)
Definition SInv (ttl : Z) (c : condk) (m : tmap) (L : list erec) : Prop :=
  forall k d sv, m k = Some (d, sv) ->
    exists t o, In (k, t, o) L /\ sv = stored_form o /\ accepted c o = true /\ d = deadline t ttl.

Lemma SInv_empty ttl c : SInv ttl c empty [].
Proof. intros k d sv H. discriminate. Qed.

Lemma s_write_absent m now k v ttl : s_look m now k = None ->
  forall k', s_write m now k v ttl k' = if String.eqb k' k then Some (deadline now ttl, v) else m k'.
Proof.
  intros Hn k'. unfold s_write, upd. destruct (String.eqb k' k); [|reflexivity]. rewrite Hn.
  destruct (deadline now ttl); reflexivity.
Qed.

Theorem simple_step ttl c m L now k o :
  SInv ttl c m L ->
  let '(m', res, ex) := simple_call m now k ttl c o in
  SInv ttl c m' (if ex then (k, now, o) :: L else L) /\
  (ex = true -> res = o /\ s_get m now k = None /\ (accepted c o = false -> m' = m)) /\
  (ex = false -> exists t o', In (k, t, o') L /\ res = unmark (stored_form o') /\ accepted c o' = true /\
                              live now (deadline t ttl) = true).
Proof.
  intro HI. unfold simple_call. unfold s_get. destruct (s_look m now k) as [[d sv]|] eqn:E; cbn [option_map snd].
  - split; [exact HI|]. split; [discriminate|]. intros _.
    unfold s_look in E. destruct (m k) as [[d0 sv0]|] eqn:Em; [|discriminate].
    destruct (live now d0) eqn:Lv; [|discriminate]. injection E as <- <-.
    destruct (HI k d0 sv0 Em) as (t & o' & Hin & -> & Hacc & ->). exists t, o'. auto.
  - split; [|split; [intros _; split; [reflexivity|split; [reflexivity|]]|discriminate]].
    + unfold accepted. destruct (eval_cond c o) eqn:Ec, o as [v|e]; try (intros k' d sv H; destruct (HI k' d sv H) as (t & o' & Hin & R); exists t, o'; split; [right; exact Hin|exact R]).
      * intros k' d sv H. destruct (is_excobj v) eqn:Ex; [destruct (HI k' d sv H) as (t & o' & Hin & R); exists t, o'; split; [right; exact Hin|exact R]|].
        rewrite (s_write_absent m now k v ttl E) in H.
        destruct (String.eqb_spec k' k) as [->|]; [|destruct (HI k' d sv H) as (t & o' & Hin & R); exists t, o'; split; [right; exact Hin|exact R]].
        injection H as <- <-. exists now, (OVal v). split; [left; reflexivity|]. unfold accepted. rewrite Ec, Ex. auto.
      * intros k' d sv H. rewrite (s_write_absent m now k (raise_marker e) ttl E) in H.
        destruct (String.eqb_spec k' k) as [->|]; [|destruct (HI k' d sv H) as (t & o' & Hin & R); exists t, o'; split; [right; exact Hin|exact R]].
        injection H as <- <-. exists now, (OExc e). split; [left; reflexivity|]. unfold accepted. rewrite Ec. auto.
    + unfold accepted. destruct (eval_cond c o), o as [v|e]; try reflexivity; try discriminate. destruct (is_excobj v); [reflexivity|discriminate].
Qed.

(* whole histories: run with the execution log *)
Fixpoint simple_hist (m : tmap) (L : list erec) ttl c (h : list (Z * key * outcome)) : tmap * list erec :=
  match h with
  | [] => (m, L)
  | (now, k, o) :: r => let '(m', _, ex) := simple_call m now k ttl c o in
                        simple_hist m' (if ex then (k, now, o) :: L else L) ttl c r
  end.
Theorem simple_reachable ttl c h : forall m L, SInv ttl c m L ->
  SInv ttl c (fst (simple_hist m L ttl c h)) (snd (simple_hist m L ttl c h)).
Proof.
  induction h as [|[[now k] o] h IH]; intros m L HI; cbn [simple_hist]; [exact HI|].
  pose proof (simple_step ttl c m L now k o HI) as H. destruct (simple_call m now k ttl c o) as [[m' res] ex].
  destruct H as [HI' _]. apply IH. exact HI'.
Qed.

(* ================= ttl.py ================= *)
Definition dchar (d : Z) : ascii := ascii_of_N (Z.to_N (48 + d)).
Definition is_dig (d : Z) : Prop := (0 <= d <= 9)%Z.
Definition dval (ds : list Z) (acc : Z) : Z := fold_left (fun a d => 10 * a + d)%Z ds acc.

Lemma digit_val_dchar d : is_dig d -> digit_val (dchar d) = Some d.
Proof.
  intros [H0 H9]. unfold digit_val, dchar. rewrite N_ascii_embedding by lia.
  destruct (N.leb_spec 48 (Z.to_N (48 + d))); [|lia]. destruct (N.leb_spec (Z.to_N (48 + d)) 57); [|lia].
  cbn [andb]. f_equal. lia.
Qed.

Lemma loop_digits ds : Forall is_dig ds -> forall rest result mul, ds <> [] ->
  ttl_loop (map dchar ds ++ rest) result mul =
  ttl_loop rest result (Some (dval ds (match mul with Some m => m | None => 0 end))).
Proof.
  induction 1 as [|d ds Hd Hds IH]; intros rest result mul Hne; [congruence|].
  cbn [map app ttl_loop]. rewrite (digit_val_dchar d Hd).
  destruct ds as [|d2 ds']; [reflexivity|]. rewrite IH by discriminate. reflexivity.
Qed.

Definition is_unit (u : ascii) (secs : Z) : Prop := unit_secs u = Some secs /\ digit_val u = None.
Definition comp := (list Z * ascii * Z)%type.        (* digits, unit character, seconds per unit *)
Definition comp_ok (c : comp) : Prop := let '(ds, u, s) := c in Forall is_dig ds /\ ds <> [] /\ is_unit u s.
Definition comp_str (c : comp) : list ascii := let '(ds, u, _) := c in map dchar ds ++ [u].
Definition comp_val (c : comp) : Z := let '(ds, _, s) := c in (dval ds 0 * s)%Z.

Lemma loop_comps cs : Forall comp_ok cs -> forall result,
  ttl_loop (flat_map comp_str cs) result None = Some (fold_left (fun a c => a + comp_val c)%Z cs result).
Proof.
  induction 1 as [|[[ds u] s] cs Hc Hcs IH]; intro result; [reflexivity|].
  destruct Hc as (Hd & Hne & Hu & Hnd). cbn [flat_map comp_str]. rewrite <- app_assoc.
  rewrite loop_digits by assumption. cbn [app ttl_loop]. rewrite Hnd, Hu. rewrite IH. reflexivity.
Qed.

(* every duration string made of components denotes the sum of its components *)
Theorem ttl_parse_sound cs : Forall comp_ok cs ->
  ttl_from_str (flat_map comp_str cs) = Some (fold_left (fun a c => a + comp_val c)%Z cs 0%Z).
Proof. intro H. apply loop_comps. exact H. Qed.

(* a bare number denotes that many seconds *)
Theorem ttl_parse_digits ds : Forall is_dig ds -> ds <> [] -> ttl_from_str (map dchar ds) = Some (dval ds 0).
Proof.
  intros Hd Hne. unfold ttl_from_str. rewrite <- (app_nil_r (map dchar ds)). rewrite loop_digits by assumption.
  reflexivity.
Qed.

Lemma units_ok : is_unit "d" 86400 /\ is_unit "h" 3600 /\ is_unit "m" 60 /\ is_unit "s" 1.
Proof. repeat split; reflexivity. Qed.

(* ================= iterator.py ================= *)
From Cashews Require Import Proofs.KeyProofs.

Lemma live_mono' now now' d : now <= now' -> live now' d = true -> live now d = true.
Proof. destruct d as [d|]; cbn; [|reflexivity]. intros H E. apply Z.ltb_lt in E. apply Z.ltb_lt. lia. Qed.
Definition dead (m : tmap) (now : Z) (key : key) : Prop := s_look m now key = None.
Lemma dead_mono m now now' key : now <= now' -> dead m now key -> dead m now' key.
Proof.
  unfold dead, s_look. intros Hle H. destruct (m key) as [[d v]|]; [|reflexivity].
  destruct (live now' d) eqn:E; [|reflexivity]. rewrite (live_mono' _ _ _ Hle E) in H. discriminate.
Qed.

Lemma s_write_pos m t key v ttl' key' : 0 < ttl' ->
  s_write m t key v ttl' key' = if String.eqb key' key then Some (Some (t + ttl'), v) else m key'.
Proof.
  intro H. unfold s_write, upd, deadline. destruct (Z.ltb_spec 0 ttl'); [|lia]. reflexivity.
Qed.

Section Iter.
Variable k : key.
Variable ttl : Z.
Variable c : condk.
Hypothesis Httl : 0 < ttl.

Definition ck (i : nat) : key := chunk_key k i.
Lemma ck_neq_k i : ck i <> k.
Proof.
  unfold ck, chunk_key. intro E. apply (f_equal String.length) in E.
  assert (L : forall a b : string, String.length (a ++ b) = (String.length a + String.length b)%nat).
  { induction a; cbn; intros; [reflexivity|]. f_equal. apply IHa. }
  rewrite L in E. cbn in E. lia.
Qed.
Lemma ck_inj i j : ck i = ck j -> i = j.
Proof.
  unfold ck, chunk_key. intro E. apply append_inj_l in E. cbn in E. injection E as E.
  apply dec_inj in E. lia.
Qed.

Fixpoint unroll (cs : list val) : run :=
  match cs with
  | [] => ([], None)
  | c0 :: r => match unmark c0 with
               | OExc e => ([], Some e)
               | OVal x => let '(xs, e) := unroll r in (x :: xs, e)
               end
  end.
Definition stored_run (m : tmap) (D : Z) (cs : list val) : Prop :=
  m k = Some (Some D, VBool true) /\ forall i, (i < length cs)%nat -> m (ck i) = Some (Some D, nth i cs VNone).

(* either nothing of k is alive, or exactly one recorded, cacheable run is stored: marker and its chunks share the
   deadline (start of that run + ttl) and no chunk beyond its length is alive *)
Definition IInv (m : tmap) (now : Z) (L : list (Z * run)) : Prop :=
  (dead m now k /\ forall i, dead m now (ck i)) \/
  (exists t r, In (t, r) L /\ run_cacheable c r = true /\ stored_run m (t + ttl) (chunks_of r) /\
               forall i, (length (chunks_of r) <= i)%nat -> dead m now (ck i)).

Lemma IInv_time m now now' L : now <= now' -> IInv m now L -> IInv m now' L.
Proof.
  intros Hle [[Hk Hc]|(t & r & Hin & Hca & Hst & Hd)].
  - left. split; [eapply dead_mono; eauto|]. intro i. eapply dead_mono; eauto.
  - right. exists t, r. repeat split; auto; try apply Hst. intros i Hi. eapply dead_mono; eauto.
Qed.
Lemma IInv_log m now L e : IInv m now L -> IInv m now (e :: L).
Proof.
  intros [H|(t & r & Hin & R)]; [left; exact H|]. right. exists t, r. split; [right; exact Hin|exact R].
Qed.

(* what the buffered store writes *)
Lemma store_chunks_other t ttl' cs : 0 < ttl' -> forall m i0 key',
  (forall j, (j < length cs)%nat -> key' <> ck (i0 + j)) -> store_chunks m t k i0 cs ttl' key' = m key'.
Proof.
  intro Hp. induction cs as [|c0 cs IH]; intros m i0 key' Hne; cbn [store_chunks]; [reflexivity|].
  rewrite IH.
  - rewrite s_write_pos by exact Hp. fold (ck i0).
    destruct (String.eqb_spec key' (ck i0)) as [E|_]; [|reflexivity].
    exfalso. apply (Hne 0%nat); [cbn; lia|]. rewrite Nat.add_0_r. exact E.
  - intros j Hj. replace (S i0 + j)%nat with (i0 + S j)%nat by lia. apply Hne. cbn. lia.
Qed.
Lemma store_chunks_at t ttl' cs : 0 < ttl' -> forall m i0 j, (j < length cs)%nat ->
  store_chunks m t k i0 cs ttl' (ck (i0 + j)) = Some (Some (t + ttl'), nth j cs VNone).
Proof.
  intro Hp. induction cs as [|c0 cs IH]; intros m i0 j Hj; cbn [store_chunks length] in *; [lia|].
  destruct j as [|j'].
  - rewrite Nat.add_0_r. rewrite store_chunks_other by (exact Hp || (intros j _ E; apply ck_inj in E; lia)).
    rewrite s_write_pos by exact Hp. fold (ck i0). rewrite String.eqb_refl. reflexivity.
  - replace (i0 + S j')%nat with (S i0 + j')%nat by lia. rewrite IH by lia. reflexivity.
Qed.

Lemma store_run_spec m t ttl' cs : 0 < ttl' ->
  stored_run (store_run m t k cs ttl') (t + ttl') cs /\
  (forall i, (length cs <= i)%nat -> store_run m t k cs ttl' (ck i) = m (ck i)).
Proof.
  intro Hp. unfold store_run, stored_run. split; [split|].
  - rewrite s_write_pos by exact Hp. rewrite String.eqb_refl. reflexivity.
  - intros i Hi. rewrite s_write_pos by exact Hp.
    destruct (String.eqb_spec (ck i) k) as [E|_]; [exfalso; exact (ck_neq_k i E)|].
    exact (store_chunks_at t ttl' cs Hp m 0%nat i Hi).
  - intros i Hi. rewrite s_write_pos by exact Hp.
    destruct (String.eqb_spec (ck i) k) as [E|_]; [exfalso; exact (ck_neq_k i E)|].
    apply store_chunks_other; [exact Hp|]. intros j Hj E. apply ck_inj in E. lia.
Qed.

Lemma skipn_nth (cs : list val) i : (i < length cs)%nat -> skipn i cs = nth i cs VNone :: skipn (S i) cs.
Proof.
  revert i. induction cs as [|c0 cs IH]; intros i Hi; cbn in Hi; [lia|].
  destruct i; [reflexivity|]. cbn [skipn nth]. apply IH. lia.
Qed.

(* the replay loop returns the stored chunks, unrolled *)
Lemma replay_spec m now D cs : stored_run m D cs -> now < D ->
  (forall i, (length cs <= i)%nat -> dead m now (ck i)) ->
  forall fuel i, (length cs - i < fuel)%nat -> replay fuel m now k i = unroll (skipn i cs).
Proof.
  intros [_ Hst] Hlt Hd. induction fuel as [|f IH]; intros i Hf; [lia|]. cbn [replay]. fold (ck i).
  destruct (Nat.lt_ge_cases i (length cs)) as [Hi|Hi].
  - unfold s_get, s_look. rewrite (Hst i Hi). cbn [live].
    destruct (Z.ltb_spec now D); [|lia]. cbn [option_map snd].
    rewrite (skipn_nth cs i Hi). cbn [unroll].
    destruct (unmark (nth i cs VNone)); [|reflexivity]. rewrite IH by lia. reflexivity.
  - unfold s_get. rewrite (Hd i Hi). cbn. rewrite skipn_all2 by exact Hi. reflexivity.
Qed.

(* one call of the decorated generator.  dur >= 0 = virtual duration of the run if it is executed. *)
Theorem iter_step fuel m now L r dur : IInv m now L -> 0 <= dur ->
  let '(m', res, ex) := iter_call fuel m now k ttl c r dur in
  IInv m' (now + dur) (if ex then (now, r) :: L else L) /\
  (ex = true -> res = r) /\
  (ex = false -> exists t r', In (t, r') L /\ run_cacheable c r' = true /\ now < t + ttl /\
                              ((length (chunks_of r') < fuel)%nat -> res = unroll (chunks_of r'))).
Proof.
  intros HI Hdur. unfold iter_call.
  assert (Hle : now <= now + dur) by lia.
  (* the state after an execution *)
  assert (Exec : dead m now k -> (forall i, dead m now (ck i)) ->
            IInv (if (0 <? ttl - dur)%Z then iter_run m (now + dur) k (ttl - dur) c r else m) (now + dur) ((now, r) :: L)).
  { intros Hk Hc. destruct (Z.ltb_spec 0 (ttl - dur)) as [Hp|Hp].
    - unfold iter_run. destruct (run_cacheable c r) eqn:Ca.
      + right. exists now, r. split; [left; reflexivity|]. split; [exact Ca|].
        destruct (store_run_spec m (now + dur) (ttl - dur) (chunks_of r) Hp) as [Hst Hot].
        replace (now + dur + (ttl - dur)) with (now + ttl) in Hst by lia. split; [exact Hst|].
        intros i Hi. unfold dead, s_look. rewrite (Hot i Hi). apply (dead_mono m now (now + dur) (ck i) Hle (Hc i)).
      + left. split; [eapply dead_mono; eauto|]. intro i. eapply dead_mono; eauto.
    - left. split; [eapply dead_mono; eauto|]. intro i. eapply dead_mono; eauto. }
  destruct HI as [[Hk Hc]|(t & r' & Hin & Hca & Hst & Hd)].
  - unfold s_get. rewrite Hk. cbn [option_map]. split; [apply Exec; assumption|]. split; [reflexivity|discriminate].
  - destruct Hst as [Hmk Hch]. unfold s_get, s_look. rewrite Hmk. cbn [live].
    destruct (Z.ltb_spec now (t + ttl)) as [Hlive|Hdead]; cbn [option_map snd truthy].
    + (* served from the cache *)
      split; [apply IInv_time with now; [exact Hle|]; right; exists t, r'; repeat split; auto|].
      split; [discriminate|]. intros _. exists t, r'. repeat split; auto.
      intro Hf. rewrite (replay_spec m now (t + ttl) (chunks_of r') (conj Hmk Hch) Hlive Hd fuel 0%nat) by lia. reflexivity.
    + (* marker expired: every chunk of that run expired with it *)
      assert (Hk : dead m now k).
      { unfold dead, s_look. rewrite Hmk. cbn [live]. destruct (Z.ltb_spec now (t + ttl)); [lia|reflexivity]. }
      assert (Hc : forall i, dead m now (ck i)).
      { intro i. destruct (Nat.lt_ge_cases i (length (chunks_of r'))) as [Hi|Hi]; [|exact (Hd i Hi)].
        unfold dead, s_look. rewrite (Hch i Hi). cbn [live]. destruct (Z.ltb_spec now (t + ttl)); [lia|reflexivity]. }
      split; [apply Exec; assumption|]. split; [reflexivity|discriminate].
Qed.

(* a clean run is recovered exactly from its chunks *)
Definition clean_run (r : run) : Prop :=
  Forall (fun x => clean (OVal x)) (fst r) /\ match snd r with Some e => 0 <= e | None => True end.
Lemma unroll_chunks r : clean_run r -> unroll (chunks_of r) = r.
Proof.
  destruct r as [items ending]. unfold clean_run, chunks_of. cbn [fst snd]. intros [Hc He].
  assert (A : forall tail, (forall x, In x tail -> exists e, x = raise_marker e /\ 0 <= e) ->
            unroll (items ++ tail) = (let '(xs, e) := unroll tail in (items ++ xs, e))).
  { intros tail Ht. induction Hc as [|x items Hx Hc IH]; [cbn; destruct (unroll tail); reflexivity|].
    cbn [app unroll]. assert (U : unmark x = OVal x) by (apply (unmark_stored (OVal x) Hx); discriminate).
    rewrite U, IH. destruct (unroll tail). reflexivity. }
  destruct ending as [e|].
  - rewrite A.
    + cbn [unroll]. pose proof (unmark_stored (OExc e) I) as U. cbn [stored_form] in U. rewrite U.
      * rewrite app_nil_r. reflexivity.
      * intros e' [= <-]. exact He.
    + intros x [<-|[]]. exists e. auto.
  - specialize (A [] (fun x H => match H with end)). rewrite app_nil_r in A. rewrite A. cbn. rewrite app_nil_r. reflexivity.
Qed.

Lemma IInv_empty now : IInv empty now [].
Proof. left. split; [reflexivity|intro i; reflexivity]. Qed.
End Iter.

(* C13 - pattern commands match '*' as a wildcard and everything else literally. Statements only. *)
From Cashews Require Import Base.Prelude Spec.Glob Model.Scan Proofs.ScanProofs.

(* the matcher Memory.scan builds (re.escape, "\*" -> ".*", compile, fullmatch) never fails to
   compile and is exactly the glob matcher: every pattern (any characters), every key *)
Theorem C13_scan_match_is_glob : forall p, exists f, scan_match p = Some f /\ forall k, f k = globs p k.
Proof. exact scan_match_is_glob. Qed.
Print Assumptions C13_scan_match_is_glob.

(* scan selects exactly the live keys matching the glob; delete_match / get_match are built on it *)
Theorem C13_scan_is_glob : forall live p, m_scan live p = Some (filter (globs p) live).
Proof. exact m_scan_is_glob. Qed.
Print Assumptions C13_scan_is_glob.

(* inside a transaction: any split of the keys between overlay L, store B and pending deletes D *)
Theorem C13_tx_scan_is_glob : forall L B D p, exists out, tx_scan L B D p = Some out /\
  forall k, In k out <-> In k (tx_view L B D) /\ globs p k = true.
Proof. exact tx_scan_is_glob. Qed.
Print Assumptions C13_tx_scan_is_glob.

Theorem C13_tx_delete_match_is_glob : forall L B D p, exists L' D', tx_delete_match L B D p = Some (L', D') /\
  forall k, In k (tx_view L' B D') <-> In k (tx_view L B D) /\ globs p k = false.
Proof. exact tx_delete_match_is_glob. Qed.
Print Assumptions C13_tx_delete_match_is_glob.

Example C13_example :
  m_scan ["a.b"; "axb"; "a+b"; "ab"; "a(b"; "a|b"; "a"]%string "a.b" = Some ["a.b"%string] /\
  m_scan ["a.b"; "axb"; "a+b"; "ab"; "a(b"; "a|b"; "a"]%string "a*b" = Some ["a.b"; "axb"; "a+b"; "ab"; "a(b"; "a|b"]%string /\
  m_scan ["a(b"; "a|b"]%string "a(*" = Some ["a(b"%string].
Proof. vm_compute. repeat split. Qed.

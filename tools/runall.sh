#!/bin/sh
# run every claimed check (quick by default) on /repo; prints one line per property
TIER="${1:-quick}"
cd /verif
for P in $(python3 -c "import json; print(' '.join(c['property_id'] for c in json.load(open('MANIFEST.json'))['checks']))"); do
  OUT=$(./check "$P" --tier "$TIER" 2>&1); RC=$?
  echo "$P rc=$RC $(echo "$OUT" | tail -1)"
  echo "$OUT" | grep -E "VIOLATION|KNOWN-FINDING" 
done
python3-vt - <<'PY'
import json, jsonschema, glob
sch = json.load(open('/root/.vp/EVIDENCE.schema.json'))
for f in sorted(glob.glob('/verif/evidence/*.json')):
    try: jsonschema.validate(json.load(open(f)), sch)
    except Exception as e: print("INVALID", f, str(e)[:200])
jsonschema.validate(json.load(open('/verif/MANIFEST.json')), json.load(open('/root/.vp/MANIFEST.schema.json')))
print("schemas ok")
PY

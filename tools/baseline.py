#!/usr/bin/env python3
"""Run the pinned test suite on /repo (or $1) and compare with BASELINE.json stable_pass."""
import json, subprocess, sys, os, tempfile, xml.etree.ElementTree as ET
repo = sys.argv[1] if len(sys.argv) > 1 else "/repo"
base = json.load(open("/root/.vp/BASELINE.json"))
with tempfile.TemporaryDirectory(prefix="bl", dir="/root") as d:
    xml = os.path.join(d, "j.xml")
    env = dict(os.environ); env.pop("CASHEWS_VERIF", None)
    subprocess.run(["/venv/bin/python", "-m", "pytest", "-ra", "-q", "-p", "no:cacheprovider", "--timeout=900",
                    "--continue-on-collection-errors", f"--junitxml={xml}"], cwd=repo, env=env,
                   stdout=subprocess.DEVNULL, stderr=subprocess.DEVNULL)
    passed = set()
    for tc in ET.parse(xml).getroot().iter("testcase"):
        if not any(ch.tag in ("failure", "error", "skipped") for ch in tc):
            passed.add(f"{tc.get('classname')}::{tc.get('name')}")
missing = [t for t in base["stable_pass"] if t not in passed]
print(f"stable_pass={len(base['stable_pass'])} passed_now={len(passed)} missing={len(missing)}")
for t in missing: print("  MISSING", t)
sys.exit(1 if missing else 0)

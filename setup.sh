#!/bin/sh
# Build the Coq development (full .vo build) from files on disk only.
set -e
mkdir -p "$(dirname "$0")/build" "$(dirname "$0")/replays"
cd "$(dirname "$0")/coq"
coq_makefile -f _CoqProject -o Makefile >/dev/null
timeout 3000 make -j16 >/verif/build/make.log 2>&1 || { tail -40 /verif/build/make.log; exit 1; }
echo "coq build ok"

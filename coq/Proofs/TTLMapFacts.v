(* Facts about the TTL-map spec itself and their transfer to the Memory model. *)
From Cashews Require Import Base.Prelude Base.OMap Spec.TTLMap Model.Memory Proofs.MemoryProofs.

Lemma spec_not_served_at_deadline m now k d v :
  m k = Some (Some d, v) -> d <= now -> s_get m now k = None.
Proof.
  intros E Hd. unfold s_get, s_look. rewrite E. cbn. destruct (Z.ltb_spec now d); [lia|reflexivity].
Qed.

Lemma spec_write_readable m now k v ttl : s_get (s_write m now k v ttl) now k = Some v.
Proof.
  unfold s_get, s_look, s_write, upd. rewrite String.eqb_refl.
  destruct (deadline now ttl) as [d|] eqn:D.
  - unfold deadline in D. destruct (Z.ltb_spec 0 ttl); [|discriminate]. injection D as <-. cbn.
    destruct (Z.ltb_spec now (now + ttl)); [reflexivity|lia].
  - unfold s_look. destruct (m k) as [[d0 v0]|]; [|reflexivity].
    destruct (live now d0) eqn:L; cbn; [rewrite L|]; reflexivity.
Qed.

Lemma spec_write_frame m now k v ttl k' : k' <> k -> s_write m now k v ttl k' = m k'.
Proof. intro Hn. unfold s_write, upd. destruct (String.eqb_spec k' k); [congruence|reflexivity]. Qed.

(* state after a history *)
Fixpoint state_s (m : tmap) (h : list (Z * cmd)) : tmap :=
  match h with [] => m | (t, c) :: r => state_s (fst (s_step m t c)) r end.
Lemma run_s_app m h1 h2 : run_s m (h1 ++ h2) = run_s m h1 ++ run_s (state_s m h1) h2.
Proof.
  revert m. induction h1 as [|[t c] h1 IH]; intro m; cbn [run_s state_s app]; [reflexivity|].
  destruct (s_step m t c) as [m' o]. cbn [fst app]. f_equal. apply IH.
Qed.
Lemma run_s_sweep m h1 t h2 :
  run_s m (h1 ++ (t, Sweep) :: h2) = run_s m h1 ++ RUnit :: run_s (state_s m h1) h2.
Proof. rewrite run_s_app. reflexivity. Qed.

Fixpoint last_time (t0 : Z) (h : list (Z * cmd)) : Z :=
  match h with [] => t0 | (t, _) :: r => last_time t r end.
Lemma mono_app t0 h1 h2 : mono t0 (h1 ++ h2) <-> mono t0 h1 /\ mono (last_time t0 h1) h2.
Proof.
  revert t0. induction h1 as [|[t c] h1 IH]; intro t0; cbn; [tauto|]. rewrite IH. tauto.
Qed.
Lemma mono_drop_sweep t0 h1 t h2 : mono t0 (h1 ++ (t, Sweep) :: h2) -> mono t0 (h1 ++ h2).
Proof.
  rewrite !mono_app. cbn. intros (H1 & Hle & H2). split; [exact H1|].
  destruct h2 as [|[t2 c2] h2]; cbn in *; [exact I|]. destruct H2. split; [lia|assumption].
Qed.

Lemma run_s_length m h : length (run_s m h) = length h.
Proof.
  revert m. induction h as [|[t1 c1] h IH]; intro m; cbn [run_s length]; [reflexivity|].
  destruct (s_step m t1 c1). cbn [length]. f_equal. apply IH.
Qed.

(* purge passes are unobservable: inserting a Sweep anywhere changes no other output *)
Theorem sweep_insensitive K size h1 t h2 t0 : NoDup K -> (length K <= size)%nat ->
  Forall (fun e => incl (cmd_keys (snd e)) K) (h1 ++ h2) -> mono t0 (h1 ++ (t, Sweep) :: h2) ->
  outs_m size [] (h1 ++ (t, Sweep) :: h2)
  = firstn (length h1) (outs_m size [] (h1 ++ h2)) ++ RUnit :: skipn (length h1) (outs_m size [] (h1 ++ h2)).
Proof.
  intros HK Hsz Hks Hm.
  rewrite (memory_refines_from_empty K size (h1 ++ (t, Sweep) :: h2) t0 HK Hsz); [| |exact Hm].
  - rewrite (memory_refines_from_empty K size (h1 ++ h2) t0 HK Hsz Hks (mono_drop_sweep _ _ _ _ Hm)).
    rewrite run_s_sweep, run_s_app.
    pose proof (run_s_length empty h1) as L.
    rewrite <- L. rewrite firstn_app, Nat.sub_diag, firstn_all. cbn. rewrite app_nil_r.
    rewrite skipn_app, Nat.sub_diag, skipn_all. reflexivity.
  - apply Forall_app in Hks as [H1 H2]. apply Forall_app. split; [exact H1|].
    constructor; [intros x []|exact H2].
Qed.

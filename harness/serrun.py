"""Shared implementation-side runner for C09 / C10: real Serializer + Memory with an instrumented
pickler (records dumps / loads) and recording MAC functions."""
import dataclasses
import datetime
import decimal
import hashlib
import hmac
from collections import namedtuple

from harness import vclock
from harness.core import C, S, Some, Z

DEFAULT = "<default>"
SECRET = "s3cr3t"


@dataclasses.dataclass
class DC:
    a: int
    b: str


NT = namedtuple("NT", "x y")


class Wallet:
    # the registered type is nested in a class: its __qualname__ ("Wallet.Money") differs from its __name__ ("Money"),
    # and the registry is keyed by the latter
    class Money:
        """a user type registered with a custom encoder/decoder (never picklable: carries a lock)"""
        def __init__(self, a):
            import threading
            self.a = a
            self._lock = threading.Lock()

        def __eq__(self, other):
            return type(other) is Money and other.a == self.a

        def __repr__(self):
            return f"Money({self.a})"

        def __reduce__(self):
            raise TypeError("cannot pickle Money")


Money = Wallet.Money


def register_money(rec):
    from cashews.serialize import register_type

    async def enc(value, *a, **k):
        r = str(value.a).encode()
        rec["cenc"].append((value, "Money", r))
        return r

    async def dec(value, *a, **k):
        r = Money(int(value))
        rec["cenc"].append((r, "Money", value))
        return r
    # a codec upgrade: the type was registered before with another pair; the latest registration is the registry's entry
    async def enc_old(value, *a, **k):
        return b"v0:" + str(value.a + 1).encode()

    async def dec_old(value, *a, **k):
        return Money(-424242)
    register_type(Money, enc_old, dec_old)
    register_type(Money, enc, dec)


def unregister_money():
    from cashews.serialize import Serializer
    Serializer._type_mapping.pop(b"Money", None)


def lat(b: bytes) -> str:
    return b.decode("latin1")


class Ids:
    """maps python values to Coq vals; non-primitive values get VOpq ids by deep identity"""
    def __init__(self):
        self.vals = []

    def same(self, a, b):
        if type(a) is not type(b):
            return False
        if isinstance(a, (list, tuple)):
            return len(a) == len(b) and all(self.same(x, y) for x, y in zip(a, b))
        if isinstance(a, dict):
            return a.keys() == b.keys() and all(self.same(a[k], b[k]) for k in a) and all(any(type(k) is type(k2) and k == k2 for k2 in b) for k in a)
        if isinstance(a, (set, frozenset)):
            return a == b and sorted(map(repr, a)) == sorted(map(repr, b))
        return a == b

    def coq(self, v):
        if v is None: return C("VNone")
        if isinstance(v, bool): return C("VBool", v)
        if type(v) is int: return C("VInt", Z(v))
        if type(v) is str and all(ord(ch) < 256 for ch in v): return C("VStr", S(v))
        if type(v) is bytes: return C("VBytes", S(lat(v)))
        for i, w in enumerate(self.vals):
            if self.same(v, w):
                return C("VOpq", Z(i))
        self.vals.append(v)
        return C("VOpq", Z(len(self.vals) - 1))


def make(config):
    """config: {pickler: default|json|null, secret: bool, digest: md5|sha1|sha256|sum}
    returns (memory backend, recorder dict)"""
    from cashews.backends.memory import Memory
    from cashews.picklers import PicklerType, get_pickler
    from cashews.serialize import HashSigner, get_serializer
    ptype = {"default": PicklerType.DEFAULT, "json": PicklerType.JSON, "null": PicklerType.NULL}[config["pickler"]]
    secret = config.get("secret_value", SECRET) if config["secret"] else None
    mem = None
    if config.get("via_url"):
        # the documented way: everything in the settings URL of Cache.setup()
        from urllib.parse import quote
        from cashews import Cache
        url = "mem://?check_interval=0&pickle_type=" + config["pickler"] + "&digestmod=" + config["digest"]
        if secret is not None:
            url += "&secret=" + quote(secret, safe="")
        mem = Cache().setup(url)
        ser = mem._serializer
    else:
        ser = get_serializer(secret=secret, digestmod=config["digest"], pickle_type=ptype)
    base = ser._pickler
    rec = {"dumps": [], "loads": [], "macs": [], "cenc": []}

    class Rec(base):  # keeps UnpicklingError of the configured pickler
        @staticmethod
        def loads(value):
            try:
                r = base.loads(value)
            except Exception as e:  # noqa
                cls = "LUnpick" if isinstance(e, base.UnpicklingError) else "LAttr" if isinstance(e, AttributeError) else "LOther"
                rec["loads"].append((value, cls, None))
                raise
            rec["loads"].append((value, "LOk", r))
            return r

        @staticmethod
        def dumps(value):
            r = base.dumps(value)
            rec["dumps"].append((value, r))
            return r
    ser.set_pickler(Rec)
    saved = dict(HashSigner._digestmods)

    def wrap(label, f):
        def g(key, value):
            r = f(key, value)
            rec["macs"].append((lat(label), lat(key), lat(value), lat(r)))
            return r
        return g
    HashSigner._digestmods = {k: wrap(k, f) for k, f in saved.items()}
    rec["restore"] = lambda: setattr(HashSigner, "_digestmods", saved)
    if mem is None:
        mem = Memory(check_interval=0, serializer=ser)
    return mem, rec


def cfg_coq(config):
    if config["secret"]:
        return C("Build_cfg", Some((S(config["digest"]), S(config.get("secret_value", SECRET)))))
    return C("Build_cfg", None)


def tables(rec, ids):
    dt, lt = [], []
    for v, r in rec["dumps"]:
        dt.append((ids.coq(v), Some(S(lat(r))) if isinstance(r, bytes) else None))
    for b, cls, r in rec["loads"]:
        if not isinstance(b, bytes):
            continue
        lt.append((S(lat(b)), C("LOk", ids.coq(r)) if cls == "LOk" else C(cls)))
    mt = [(((S(a), S(b)), S(c)), S(d)) for a, b, c, d in rec["macs"]]
    return dt, lt, mt


def ctable(rec, ids):
    return [((ids.coq(v), S(ty)), S(lat(e))) for v, ty, e in rec.get("cenc", [])]


def dres(r, ids):
    if isinstance(r, dict) and "exc" in r:
        return C("DUnsecure") if r["exc"] == "UnSecureDataError" else C("DExc")
    if isinstance(r, str) and r == DEFAULT:
        return C("DDefault")
    return C("DVal", ids.coq(r))


def true_macs(secret, key, blob):
    """independent of cashews: MAC of key+payload for every label, payload = part after the first '_'"""
    out = []
    if b"_" not in blob:
        return out
    p = blob.split(b"_", 1)[1]
    msg = key.encode() + p
    for label, dm in (("md5", hashlib.md5), ("sha1", hashlib.sha1), ("sha256", hashlib.sha256)):
        out.append((((S(label), S(secret)), S(lat(msg))), S(hmac.new(secret.encode(), msg, dm).hexdigest())))
    out.append((((S("sum"), S(secret)), S(lat(msg))), S("%x" % (sum(secret.encode()) + sum(msg)))))
    return out

From Cashews Require Import Base.Prelude Spec.TTLMap Model.Tags Model.Txn Model.TxnFault Proofs.StrategiesProofs Proofs.TxnProofs.
Open Scope string_scope.
Open Scope list_scope.
Open Scope Z_scope.

(* ---------- indexing the backends ---------- *)
Lemma nth_set_nth_same {A} (l : list A) i x d : (i < length l)%nat -> nth i (set_nth l i x) d = x.
Proof. revert i. induction l as [|y l IH]; intros i H; cbn in H; [lia|]. destruct i; cbn; [reflexivity|apply IH; lia]. Qed.
Lemma nth_set_nth_other {A} (l : list A) i j x d : i <> j -> nth j (set_nth l i x) d = nth j l d.
Proof.
  revert i j. induction l as [|y l IH]; intros i j H; [destruct i; reflexivity|].
  destruct i, j; cbn; try reflexivity; try lia. apply IH. lia.
Qed.
Lemma length_set_nth {A} (l : list A) i x : length (set_nth l i x) = length l.
Proof. revert i. induction l as [|y l IH]; intro i; [destruct i; reflexivity|]. destruct i; cbn; [reflexivity|f_equal; apply IH]. Qed.

Lemma get_put_same w i x : (i < length (bks w))%nat -> get_b (put_b w i x) i = x.
Proof. intro H. unfold get_b, put_b. cbn. apply nth_set_nth_same. exact H. Qed.
Lemma get_put_other w i j x : i <> j -> get_b (put_b w i x) j = get_b w j.
Proof. intro H. unfold get_b, put_b. cbn. apply nth_set_nth_other. exact H. Qed.
Lemma len_put w i x : length (bks (put_b w i x)) = length (bks w).
Proof. unfold put_b. cbn. apply length_set_nth. Qed.
Lemma get_tick w j : get_b (tick w) j = get_b w j. Proof. reflexivity. Qed.

(* one underlying command: other backends untouched; this backend: the effect, unless the position fails; the lock set is kept *)
Lemma under_spec w i f : (i < length (bks w))%nat ->
  let '(w', ok) := under w i f in
  pos w' = S (pos w) /\ faults w' = faults w /\ lorder w' = lorder w /\ length (bks w') = length (bks w) /\
  (forall j, j <> i -> get_b w' j = get_b w j) /\
  ok = negb (faulty w) /\
  bB (get_b w' i) = (if faulty w then bB (get_b w i) else f (bB (get_b w i))) /\
  bL (get_b w' i) = bL (get_b w i) /\ bD (get_b w' i) = bD (get_b w i) /\ bLocks (get_b w' i) = bLocks (get_b w i).
Proof.
  intro Hi. unfold under. destruct (faulty w) eqn:F.
  - repeat split; auto.
  - cbn [negb]. rewrite get_tick. repeat split; try (cbn; rewrite ?length_set_nth; reflexivity).
    + intros j Hj. rewrite get_tick. apply get_put_other. lia.
    + rewrite get_put_same by exact Hi. reflexivity.
    + rewrite get_put_same by exact Hi. reflexivity.
    + rewrite get_put_same by exact Hi. reflexivity.
    + rewrite get_put_same by exact Hi. reflexivity.
Qed.

(* ---------- releasing locks ---------- *)
(* every lock in the list gets its own unlock command, at consecutive positions, whatever fails: afterwards the lock key
   is gone from the store unless that very command was the failing one *)
Lemma unlock_each_spec i ls : NoDup ls -> forall w, (i < length (bks w))%nat ->
  let '(w', ok) := unlock_each w i ls in
  pos w' = (pos w + length ls)%nat /\ faults w' = faults w /\ lorder w' = lorder w /\ length (bks w') = length (bks w) /\
  (forall j, j <> i -> get_b w' j = get_b w j) /\
  bLocks (get_b w' i) = bLocks (get_b w i) /\ bL (get_b w' i) = bL (get_b w i) /\ bD (get_b w' i) = bD (get_b w i) /\
  (forall n lk, nth_error ls n = Some lk -> bB (get_b w' i) lk = None \/ memn (pos w + n) (faults w) = true) /\
  (forall k, ~ In k ls -> bB (get_b w' i) k = bB (get_b w i) k).
Proof.
  induction 1 as [|lk ls Hnin Hnd IH]; intros w Hi; cbn [unlock_each].
  - repeat split; auto; try lia. intros n lk H. destruct n; discriminate.
  - pose proof (under_spec w i (fun b => upd b lk None) Hi) as U.
    destruct (under w i (fun b => upd b lk None)) as [w1 ok1].
    destruct U as (P1 & F1 & O1 & L1 & Oth1 & _ & B1 & Lo1 & D1 & K1).
    specialize (IH w1 ltac:(lia)). destruct (unlock_each w1 i ls) as [w2 ok2].
    destruct IH as (P2 & F2 & O2 & L2 & Oth2 & K2 & Lo2 & D2 & Rel2 & Fr2).
    repeat split; try congruence; try lia.
    + cbn [length]. lia.
    + intros j Hj. rewrite Oth2, Oth1 by exact Hj. reflexivity.
    + intros n lk' Hn. destruct n as [|n]; cbn in Hn.
      * injection Hn as <-. rewrite Fr2 by exact Hnin. rewrite B1. rewrite Nat.add_0_r.
        unfold faulty. destruct (memn (pos w) (faults w)); [right; reflexivity|left]. unfold upd. rewrite String.eqb_refl. reflexivity.
      * destruct (Rel2 n lk' Hn) as [H|H]; [left; exact H|right]. rewrite F1, P1 in H. replace (pos w + S n)%nat with (S (pos w) + n)%nat by lia. exact H.
    + intros k Hk. rewrite Fr2 by (intro; apply Hk; right; assumption). rewrite B1.
      destruct (faulty w); [reflexivity|]. unfold upd. destruct (String.eqb_spec k lk); [exfalso; apply Hk; left; congruence|reflexivity].
Qed.

(* C16: whatever the body and the fault set, the task has left the transaction when the block is over *)
Theorem fault_ctx_reset md U now w used cs : snd (block md U now w used cs) = false.
Proof. unfold block. destruct (body md now w cs) as [w1 ok]. destruct (if ok then _ else _) as [w2 ok2]. reflexivity. Qed.

Lemma In_mems k l : In k l <-> mems k l = true.
Proof.
  unfold mems. rewrite existsb_exists. split.
  - intro H. exists k. split; [exact H|apply String.eqb_refl].
  - intros (x & Hx & E). apply String.eqb_eq in E. subst. exact Hx.
Qed.
Lemma NoDup_filter_k (f : key -> bool) l : NoDup l -> NoDup (filter f l).
Proof. induction 1 as [|x l Hx Hn IH]; cbn; [constructor|]. destruct (f x); [constructor; [rewrite filter_In; tauto|exact IH]|exact IH]. Qed.

Lemma NoDup_app_k (a b : list key) : NoDup a -> NoDup b -> (forall k, In k a -> In k b -> False) -> NoDup (a ++ b).
Proof.
  induction 1 as [|x a Hx Ha IH]; intros Hb Hd; cbn; [exact Hb|].
  constructor; [rewrite in_app_iff; intros [H|H]; [exact (Hx H)|exact (Hd x (or_introl eq_refl) H)]|].
  apply IH; [exact Hb|]. intros k H1 H2. exact (Hd k (or_intror H1) H2).
Qed.

Definition release_order (order held : list key) : list key :=
  filter (fun k => mems k held) order ++ filter (fun k => negb (mems k order)) held.
Lemma release_order_spec order held : NoDup order -> NoDup held ->
  NoDup (release_order order held) /\ forall k, In k (release_order order held) <-> In k held.
Proof.
  intros Ho Hh. unfold release_order. split.
  - apply NoDup_app_k; [apply NoDup_filter_k; exact Ho|apply NoDup_filter_k; exact Hh|].
    intros k H1 H2. apply filter_In in H1 as [H1 _]. apply filter_In in H2 as [_ H2].
    apply In_mems in H1. rewrite H1 in H2. discriminate.
  - intro k. rewrite in_app_iff, !filter_In. split.
    + intros [[_ H]|[H _]]; [apply In_mems; exact H|exact H].
    + intro H. destruct (mems k order) eqn:M; [left; split; [apply In_mems; exact M|apply In_mems; exact H]|right; split; [exact H|reflexivity]].
Qed.

(* _unlock_updates: the lock set is emptied and every lock it held gets its release command *)
Theorem unlock_updates_spec w i : (i < length (bks w))%nat -> NoDup (bLocks (get_b w i)) -> NoDup (nth i (lorder w) []) ->
  let '(w', ok) := unlock_updates w i in
  faults w' = faults w /\ length (bks w') = length (bks w) /\ lorder w' = lorder w /\ (pos w <= pos w')%nat /\
  (forall j, j <> i -> get_b w' j = get_b w j) /\
  bLocks (get_b w' i) = [] /\ bL (get_b w' i) = bL (get_b w i) /\ bD (get_b w' i) = bD (get_b w i) /\
  (forall lk, In lk (bLocks (get_b w i)) ->
     bB (get_b w' i) lk = None \/ exists p, (pos w <= p < pos w')%nat /\ memn p (faults w) = true) /\
  (forall k, ~ In k (bLocks (get_b w i)) -> bB (get_b w' i) k = bB (get_b w i) k).
Proof.
  intros Hi Hnd Hno. unfold unlock_updates.
  set (x := get_b w i). set (w0 := put_b w i {| bB := bB x; bL := bL x; bD := bD x; bLocks := [] |}).
  fold (release_order (nth i (lorder w) []) (bLocks x)).
  destruct (release_order_spec (nth i (lorder w) []) (bLocks x) Hno Hnd) as [Rnd Rin].
  assert (Hi0 : (i < length (bks w0))%nat) by (unfold w0; rewrite len_put; exact Hi).
  pose proof (unlock_each_spec i _ Rnd w0 Hi0) as U.
  destruct (unlock_each w0 i (release_order (nth i (lorder w) []) (bLocks x))) as [w' ok].
  destruct U as (P & F & O & L & Oth & K & Lo & D & Rel & Fr).
  assert (G0 : get_b w0 i = {| bB := bB x; bL := bL x; bD := bD x; bLocks := [] |}) by (unfold w0; apply get_put_same; exact Hi).
  repeat split.
  - exact F.
  - rewrite L. unfold w0. apply len_put.
  - exact O.
  - rewrite P. unfold w0. cbn [pos put_b]. lia.
  - intros j Hj. rewrite Oth by exact Hj. unfold w0. apply get_put_other. lia.
  - rewrite K, G0. reflexivity.
  - rewrite Lo, G0. reflexivity.
  - rewrite D, G0. reflexivity.
  - intros lk Hlk. apply Rin in Hlk. apply In_nth_error in Hlk as (n & Hn).
    destruct (Rel n lk Hn) as [H|H]; [left; exact H|right]. exists (pos w0 + n)%nat. split; [|exact H].
    assert (n < length (release_order (nth i (lorder w) []) (bLocks x)))%nat by (apply nth_error_Some; congruence).
    unfold w0 in *. cbn [pos put_b] in *. lia.
  - intros k Hk. rewrite Fr by (intro H; apply Hk; apply Rin; exact H). rewrite G0. reflexivity.
Qed.

(* ---------- rollback of every backend ---------- *)
Definition wfw (w : world) (is_ : list nat) : Prop :=
  Forall (fun i => (i < length (bks w))%nat /\ NoDup (bLocks (get_b w i)) /\ NoDup (nth i (lorder w) [])) is_.

Lemma backend_rollback_spec w i : (i < length (bks w))%nat -> NoDup (bLocks (get_b w i)) -> NoDup (nth i (lorder w) []) ->
  let '(w', ok) := backend_rollback w i in
  faults w' = faults w /\ length (bks w') = length (bks w) /\ lorder w' = lorder w /\ (pos w <= pos w')%nat /\
  (forall j, j <> i -> get_b w' j = get_b w j) /\
  bLocks (get_b w' i) = [] /\
  (forall lk, In lk (bLocks (get_b w i)) ->
     bB (get_b w' i) lk = None \/ exists p, (pos w <= p < pos w')%nat /\ memn p (faults w) = true) /\
  (forall k, ~ In k (bLocks (get_b w i)) -> bB (get_b w' i) k = bB (get_b w i) k).
Proof.
  intros Hi Hnd Hno. unfold backend_rollback.
  set (w0 := clear_overlay w i).
  assert (G0 : get_b w0 i = {| bB := bB (get_b w i); bL := empty; bD := []; bLocks := bLocks (get_b w i) |})
    by (unfold w0, clear_overlay; apply get_put_same; exact Hi).
  assert (Hi0 : (i < length (bks w0))%nat) by (unfold w0, clear_overlay; rewrite len_put; exact Hi).
  assert (Hnd0 : NoDup (bLocks (get_b w0 i))) by (rewrite G0; exact Hnd).
  assert (Hno0 : NoDup (nth i (lorder w0) [])) by exact Hno.
  pose proof (unlock_updates_spec w0 i Hi0 Hnd0 Hno0) as U. destruct (unlock_updates w0 i) as [w' ok].
  destruct U as (F & L & O & Pm & Oth & K & _ & _ & Rel & Fr). rewrite G0 in Rel, Fr. cbn [bLocks bB] in Rel, Fr.
  assert (P0 : pos w0 = pos w) by reflexivity.
  split; [exact F|]. split; [rewrite L; unfold w0, clear_overlay; apply len_put|]. split; [exact O|].
  split; [rewrite P0 in Pm; exact Pm|].
  split; [intros j Hj; rewrite Oth by exact Hj; unfold w0, clear_overlay; apply get_put_other; lia|].
  split; [exact K|]. split; [|exact Fr].
  intros lk Hlk. destruct (Rel lk Hlk) as [H|(p & Hp & Hm)]; [left; exact H|right; exists p; rewrite P0 in Hp; auto].
Qed.

Theorem rollback_from_spec is_ : NoDup is_ -> forall w, wfw w is_ ->
  let '(w', ok) := rollback_from w is_ in
  faults w' = faults w /\ length (bks w') = length (bks w) /\ lorder w' = lorder w /\ (pos w <= pos w')%nat /\
  (forall j, ~ In j is_ -> get_b w' j = get_b w j) /\
  (forall i, In i is_ ->
     bLocks (get_b w' i) = [] /\
     (forall lk, In lk (bLocks (get_b w i)) ->
        bB (get_b w' i) lk = None \/ exists p, (pos w <= p < pos w')%nat /\ memn p (faults w) = true) /\
     (forall k, ~ In k (bLocks (get_b w i)) -> bB (get_b w' i) k = bB (get_b w i) k)).
Proof.
  induction 1 as [|i0 is_ Hnin Hnd IH]; intros w Hwf; cbn [rollback_from].
  - split; [reflexivity|]. split; [reflexivity|]. split; [reflexivity|]. split; [lia|]. split; [reflexivity|]. intros j [].
  - inversion Hwf as [|? ? (Hi & Hl & Ho) Hwf']; subst.
    pose proof (backend_rollback_spec w i0 Hi Hl Ho) as B. destruct (backend_rollback w i0) as [w1 ok1].
    destruct B as (F1 & L1 & O1 & P1 & Oth1 & K1 & Rel1 & Fr1).
    assert (Hwf1 : wfw w1 is_).
    { unfold wfw in *. rewrite Forall_forall in *. intros j Hj. destruct (Hwf' j Hj) as (A & B & Cc).
      assert (j <> i0) by (intro; subst; exact (Hnin Hj)). rewrite L1, O1, Oth1 by assumption. auto. }
    specialize (IH w1 Hwf1). destruct (rollback_from w1 is_) as [w2 ok2].
    destruct IH as (F2 & L2 & O2 & P2 & Oth2 & Each2).
    split; [congruence|]. split; [congruence|]. split; [congruence|]. split; [lia|].
    split; [intros j Hj; rewrite Oth2 by (intro; apply Hj; right; assumption); apply Oth1; intro; apply Hj; left; congruence|].
    intros i [<-|Hin].
    + rewrite Oth2 by exact Hnin. split; [exact K1|]. split; [|exact Fr1].
      intros lk Hlk. destruct (Rel1 lk Hlk) as [E|(p & Hp & Hm)]; [left; exact E|right; exists p; split; [lia|exact Hm]].
    + assert (Hne : i <> i0) by (intro; subst; exact (Hnin Hin)).
      destruct (Each2 i Hin) as (Ka & Rela & Fra). rewrite (Oth1 i Hne) in Rela, Fra.
      split; [exact Ka|]. split; [|exact Fra].
      intros lk Hlk. destruct (Rela lk Hlk) as [E|(p & Hp & Hm)]; [left; exact E|right; exists p; split; [lia|rewrite <- F1; exact Hm]].
Qed.

(* ---------- commit of one backend: whatever fails, its locks get their release commands ---------- *)
Lemma run_under_spec i fs : forall w, (i < length (bks w))%nat ->
  let '(w', ok) := run_under w i fs in
  faults w' = faults w /\ lorder w' = lorder w /\ length (bks w') = length (bks w) /\ (pos w <= pos w')%nat /\
  (forall j, j <> i -> get_b w' j = get_b w j) /\ bLocks (get_b w' i) = bLocks (get_b w i).
Proof.
  induction fs as [|f fs IH]; intros w Hi; cbn [run_under]; [repeat split; auto; lia|].
  pose proof (under_spec w i f Hi) as U. destruct (under w i f) as [w1 ok1].
  destruct U as (P1 & F1 & O1 & L1 & Oth1 & _ & _ & _ & _ & K1). destruct ok1.
  - specialize (IH w1 ltac:(lia)). destruct (run_under w1 i fs) as [w2 ok2]. destruct IH as (F2 & O2 & L2 & P2 & Oth2 & K2).
    split; [congruence|]. split; [congruence|]. split; [congruence|]. split; [lia|].
    split; [intros j Hj; rewrite Oth2, Oth1 by exact Hj; reflexivity|congruence].
  - split; [exact F1|]. split; [exact O1|]. split; [exact L1|]. split; [lia|]. split; [exact Oth1|exact K1].
Qed.

(* also on the commit path, whether or not a commit command fails, the backend's lock set is emptied through
   _unlock_updates - i.e. every lock it held gets its release command (unlock_updates_spec says what that achieves) *)
Theorem backend_commit_releases U now w i : (i < length (bks w))%nat -> NoDup (bLocks (get_b w i)) -> NoDup (nth i (lorder w) []) ->
  let '(w', ok) := backend_commit U now w i in
  faults w' = faults w /\ length (bks w') = length (bks w) /\ lorder w' = lorder w /\
  (forall j, j <> i -> get_b w' j = get_b w j) /\ bLocks (get_b w' i) = [].
Proof.
  intros Hi Hnd Hno. unfold backend_commit.
  pose proof (run_under_spec i (commit_cmds U (get_b w i) now) w Hi) as R.
  destruct (run_under w i (commit_cmds U (get_b w i) now)) as [w1 ok]. destruct R as (F1 & O1 & L1 & P1 & Oth1 & K1).
  set (w1' := if ok then clear_overlay w1 i else w1).
  assert (A : faults w1' = faults w /\ lorder w1' = lorder w /\ length (bks w1') = length (bks w) /\
              (forall j, j <> i -> get_b w1' j = get_b w j) /\ bLocks (get_b w1' i) = bLocks (get_b w i)).
  { unfold w1'. destruct ok; [|auto]. unfold clear_overlay. rewrite len_put. cbn [faults lorder put_b].
    split; [exact F1|]. split; [exact O1|]. split; [exact L1|].
    split; [intros j Hj; rewrite get_put_other by lia; apply Oth1; exact Hj|].
    rewrite get_put_same by lia. cbn [bLocks]. exact K1. }
  destruct A as (F & O & L & Oth & K).
  pose proof (unlock_updates_spec w1' i ltac:(lia) ltac:(rewrite K; exact Hnd) ltac:(rewrite O; exact Hno)) as Uu.
  destruct (unlock_updates w1' i) as [w2 ok2]. destruct Uu as (F2 & L2 & O2 & _ & Oth2 & K2 & _).
  split; [congruence|]. split; [congruence|]. split; [congruence|].
  split; [intros j Hj; rewrite Oth2, Oth by exact Hj; reflexivity|exact K2].
Qed.

(* ---------- commit over every backend ---------- *)
(* the commit commands of one backend leave alone every key they are not about *)
Lemma run_under_frame i fs k : (forall f, In f fs -> forall b, f b k = b k) -> forall w, (i < length (bks w))%nat ->
  bB (get_b (fst (run_under w i fs)) i) k = bB (get_b w i) k.
Proof.
  intro Hf. induction fs as [|f fs IH]; intros w Hi; cbn [run_under fst]; [reflexivity|].
  pose proof (under_spec w i f Hi) as U. destruct (under w i f) as [w1 ok1].
  destruct U as (_ & _ & _ & L1 & _ & _ & B1 & _). destruct ok1; cbn [fst].
  - rewrite IH; [|intros g Hg; apply Hf; right; exact Hg|lia]. rewrite B1. destruct (faulty w); [reflexivity|]. apply Hf. left. reflexivity.
  - rewrite B1. destruct (faulty w); [reflexivity|]. apply Hf. left. reflexivity.
Qed.

Lemma fold_upd_none_other (d : list key) k : ~ In k d -> forall b : tmap, fold_left (fun m k0 => upd m k0 None) d b k = b k.
Proof.
  induction d as [|k0 d IH]; intros Hn b; cbn [fold_left]; [reflexivity|]. rewrite IH by (intro H; apply Hn; right; exact H).
  unfold upd. destruct (String.eqb_spec k k0); [exfalso; apply Hn; left; symmetry; assumption|reflexivity].
Qed.
Lemma s_write_other (m : tmap) now k0 v ttl k : k <> k0 -> s_write m now k0 v ttl k = m k.
Proof. intro H. unfold s_write, upd. destruct (String.eqb_spec k k0); [contradiction|reflexivity]. Qed.

Lemma commit_cmds_frame U x now k : ~ In k U -> ~ In k (bD x) -> forall f, In f (commit_cmds U x now) -> forall b, f b k = b k.
Proof.
  intros HU HD f Hin b. unfold commit_cmds in Hin. apply in_app_or in Hin as [H|H].
  - destruct (bD x) as [|d0 dl] eqn:E; [destruct H|]. destruct H as [<-|[]]. apply fold_upd_none_other. exact HD.
  - apply in_app_or in H as [H|H].
    + destruct (existsb _ U); [|destruct H]. destruct H as [<-|[]].
      assert (G : forall (l : list key) (b0 : tmap), ~ In k l ->
                 fold_left (fun m k0 => match bL x k0 with Some (None, v) => s_write m now k0 v 0 | _ => m end) l b0 k = b0 k).
      { induction l as [|k0 l IH]; intros b0 Hn; cbn [fold_left]; [reflexivity|]. rewrite IH by (intro H; apply Hn; right; exact H).
        destruct (bL x k0) as [[[d|] v]|]; try reflexivity. apply s_write_other. intro E. apply Hn. left. symmetry. exact E. }
      apply G. exact HU.
    + apply in_flat_map in H as (k0 & Hk0 & H). destruct (bL x k0) as [[[d|] v]|]; try destruct H.
      destruct (0 <? d - now); [|destruct H]. destruct H as [<-|[]]. apply s_write_other. intro E. apply HU. rewrite E. exact Hk0.
Qed.

(* one backend's commit, whatever fails: besides the bookkeeping of backend_commit_releases, every lock key it held is
   gone from its store unless a command of this commit failed - provided lock keys are not data keys *)
Theorem backend_commit_spec U now w i : (i < length (bks w))%nat -> NoDup (bLocks (get_b w i)) -> NoDup (nth i (lorder w) []) ->
  (forall lk, In lk (bLocks (get_b w i)) -> ~ In lk U /\ ~ In lk (bD (get_b w i))) ->
  let '(w', ok) := backend_commit U now w i in
  faults w' = faults w /\ length (bks w') = length (bks w) /\ lorder w' = lorder w /\ (pos w <= pos w')%nat /\
  (forall j, j <> i -> get_b w' j = get_b w j) /\ bLocks (get_b w' i) = [] /\
  (forall lk, In lk (bLocks (get_b w i)) ->
     bB (get_b w' i) lk = None \/ exists p, (pos w <= p < pos w')%nat /\ memn p (faults w) = true).
Proof.
  intros Hi Hnd Hno Hlk. unfold backend_commit.
  pose proof (run_under_spec i (commit_cmds U (get_b w i) now) w Hi) as R.
  destruct (run_under w i (commit_cmds U (get_b w i) now)) as [w1 ok] eqn:Er. destruct R as (F1 & O1 & L1 & P1 & Oth1 & K1).
  set (w1' := if ok then clear_overlay w1 i else w1).
  assert (A : faults w1' = faults w /\ lorder w1' = lorder w /\ length (bks w1') = length (bks w) /\ pos w1' = pos w1 /\
              (forall j, j <> i -> get_b w1' j = get_b w j) /\ bLocks (get_b w1' i) = bLocks (get_b w i) /\ bB (get_b w1' i) = bB (get_b w1 i)).
  { unfold w1'. destruct ok; [|repeat split; auto]. unfold clear_overlay. rewrite len_put. cbn [faults lorder put_b pos].
    split; [exact F1|]. split; [exact O1|]. split; [exact L1|]. split; [reflexivity|].
    split; [intros j Hj; rewrite get_put_other by lia; apply Oth1; exact Hj|].
    rewrite get_put_same by lia. cbn [bLocks bB]. split; [exact K1|reflexivity]. }
  destruct A as (F & O & L & Pp & Oth & K & Bb).
  pose proof (unlock_updates_spec w1' i ltac:(lia) ltac:(rewrite K; exact Hnd) ltac:(rewrite O; exact Hno)) as Uu.
  destruct (unlock_updates w1' i) as [w2 ok2]. destruct Uu as (F2 & L2 & O2 & P2 & Oth2 & K2 & _ & _ & Rel & _).
  split; [congruence|]. split; [congruence|]. split; [congruence|]. split; [lia|].
  split; [intros j Hj; rewrite Oth2, Oth by exact Hj; reflexivity|]. split; [exact K2|].
  intros lk Hin. rewrite <- K in Hin. destruct (Rel lk Hin) as [E|(p & Hp & Hm)]; [left; exact E|right].
  exists p. split; [lia|rewrite <- F; exact Hm].
Qed.

(* Transaction.commit over several backends, any fault set: every backend ends with an empty lock set and every lock key
   it held is gone from its store unless some command of the exit phase failed; backends not involved are untouched *)
Theorem commit_from_spec U now is_ : NoDup is_ -> forall w, wfw w is_ ->
  (forall i, In i is_ -> forall lk, In lk (bLocks (get_b w i)) -> ~ In lk U /\ ~ In lk (bD (get_b w i))) ->
  let '(w', ok) := commit_from U now w is_ in
  faults w' = faults w /\ length (bks w') = length (bks w) /\ lorder w' = lorder w /\ (pos w <= pos w')%nat /\
  (forall j, ~ In j is_ -> get_b w' j = get_b w j) /\
  (forall i, In i is_ ->
     bLocks (get_b w' i) = [] /\
     (forall lk, In lk (bLocks (get_b w i)) ->
        bB (get_b w' i) lk = None \/ exists p, (pos w <= p < pos w')%nat /\ memn p (faults w) = true)).
Proof.
  induction is_ as [|i is_ IH]; intros Hnd w Hw Hlk; cbn [commit_from].
  - repeat split; auto; try lia; try (intros i0 []); try (match goal with H : In _ [] |- _ => destruct H end).
  - inversion Hnd as [|? ? Hni Hnd']; subst. inversion Hw as [|? ? (Hi & Hn1 & Hn2) Hw']; subst.
    pose proof (backend_commit_spec U now w i Hi Hn1 Hn2 (Hlk i (or_introl eq_refl))) as B.
    destruct (backend_commit U now w i) as [w1 ok1]. destruct B as (F1 & L1 & O1 & P1 & Oth1 & K1 & Rel1).
    assert (Hw1 : wfw w1 is_).
    { unfold wfw in *. rewrite Forall_forall in *. intros j Hj. destruct (Hw' j Hj) as (A & B & C).
      assert (j <> i) by (intro E; subst; contradiction). rewrite L1, O1, (Oth1 j H). auto. }
    destruct ok1.
    + assert (Hlk1 : forall j, In j is_ -> forall lk, In lk (bLocks (get_b w1 j)) -> ~ In lk U /\ ~ In lk (bD (get_b w1 j))).
      { intros j Hj lk Hin. assert (j <> i) by (intro E; subst; contradiction). rewrite (Oth1 j H) in *. apply (Hlk j (or_intror Hj) lk Hin). }
      specialize (IH Hnd' w1 Hw1 Hlk1). destruct (commit_from U now w1 is_) as [w2 ok2].
      destruct IH as (F2 & L2 & O2 & P2 & Oth2 & Rel2).
      split; [congruence|]. split; [congruence|]. split; [congruence|]. split; [lia|].
      split; [intros j Hj; rewrite Oth2 by (intro H; apply Hj; right; exact H); apply Oth1; intro E; apply Hj; left; symmetry; exact E|].
      intros j [<-|Hj].
      * rewrite (Oth2 i Hni). split; [exact K1|]. intros lk Hin. destruct (Rel1 lk Hin) as [E|(p & Hp & Hm)]; [left; exact E|right; exists p; split; [lia|exact Hm]].
      * destruct (Rel2 j Hj) as [Kj Rj]. split; [exact Kj|]. assert (j <> i) by (intro E; subst; contradiction).
        intros lk Hin. rewrite <- (Oth1 j H) in Hin. destruct (Rj lk Hin) as [E|(p & Hp & Hm)]; [left; exact E|right; exists p; split; [lia|rewrite <- F1; exact Hm]].
    + (* this backend's commit failed: the remaining ones are rolled back *)
      pose proof (rollback_from_spec is_ Hnd' w1 Hw1) as Rb. destruct (rollback_from w1 is_) as [w2 ok2]. cbn [fst].
      destruct Rb as (F2 & L2 & O2 & P2 & Oth2 & Rel2).
      split; [congruence|]. split; [congruence|]. split; [congruence|]. split; [lia|].
      split; [intros j Hj; rewrite Oth2 by (intro H; apply Hj; right; exact H); apply Oth1; intro E; apply Hj; left; symmetry; exact E|].
      intros j [<-|Hj].
      * rewrite (Oth2 i Hni). split; [exact K1|]. intros lk Hin. destruct (Rel1 lk Hin) as [E|(p & Hp & Hm)]; [left; exact E|right; exists p; split; [lia|exact Hm]].
      * destruct (Rel2 j Hj) as (Kj & Rj & _). split; [exact Kj|]. assert (j <> i) by (intro E; subst; contradiction).
        intros lk Hin. rewrite <- (Oth1 j H) in Hin. destruct (Rj lk Hin) as [E|(p & Hp & Hm)]; [left; exact E|right; exists p; split; [lia|rewrite <- F1; exact Hm]].
Qed.

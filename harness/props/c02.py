"""C02: basic cache decorator, iterator decorator, ttl spellings."""
import asyncio
import datetime

from harness import vclock
from harness.core import C, Raw, S, Some, Z
from harness.memrun import TICK, val_to_coq

ID = "C02"
RUN_MODULE = "Spec.TTLMap Model.DecorSimple Run.C02"
EXPLAIN = "explain"
RULE = ("(simple) 1-25 calls of a function f(x, y=0) decorated with cache(ttl, condition) through the facade: argument tuples from a small "
        "alphabet in every call form, advances around ttl on a 1/16 s grid, scripted behaviour per execution in {fresh int, None, 0, '', [], "
        "raise A, raise B, raise a subclass of A, raise CancelledError, return an exception object as the result}, conditions {all (every spelling: None / 'all' / any / 'any' / typing.Any), not_none / skip_none, bool callable (which also checks that it is handed the call's own arguments and key), truthy non-bool callable, with_exceptions(A), only_exceptions(A)}, ttl "
        "spelled as int / float / timedelta / '<n>s' or '1m' string / callable of the arguments / callable with result=; (iter) the same for "
        "cache.iterator over scripted async generators (items incl. falsy ones, optional raise at the end, optional virtual time passing "
        "between items); (ttl) ttl_to_seconds on component strings ('1d2h3m50s' style, spaces, upper case) and malformed strings. "
        "non-trivial: a call was served from the cache, or an execution's outcome was rejected by the condition")
TRUSTED_BASE = ["Coq 8.16.1 kernel + vm_compute", "hand-written model coq/Model/DecorSimple.v over the TTL-map spec (C01 ties Memory to it), tied by this differential run",
                "key derivation is C08's concern: the model identifies a call by its bound arguments"]
ASSUMPTIONS = ["store within capacity; no concurrent callers (C07)", "scripted values never look like the RaiseException marker",
               "the oracle recomputes 'last accepted execution per key' from the observations, independently of the TTL map"]
EXHAUSTIVE = {"quick": False, "thorough": False}


class ExcA(Exception):
    pass


class ExcB(Exception):
    pass


class ExcA1(ExcA):      # a proper subclass of the listed class: selected by with_exceptions(ExcA) / only_exceptions(ExcA) too
    pass


EXC = {1: ExcA, 2: ExcB, 3: ExcA1, 4: asyncio.CancelledError}   # 4: not an Exception at all - never selected, never stored
CONDS = ["all", "not_none", "truthy", "nonbool", "with_exc", "only_exc"]
SCRIPT = ["fresh", "fresh", "fresh", None, 0, "", [], "raiseA", "raiseB", "raiseA1", "v", "cancel", "retexc"]
ARGS = [(1, 0), (1, 5), (2, 0), ("a", 0)]


CUR = {}        # the call being made: the condition callables check that they are handed its own arguments and key


def _args_ok(a, k, key):
    want = CUR.get("args")
    if want is None:
        return True
    got = list(a) + [k[n] for n in sorted(k)]
    return isinstance(key, str) and all(any(type(g) is type(w) and g == w for w in want) for g in got)


def cond_py(name, variant=0):
    import typing
    from cashews import only_exceptions, with_exceptions
    if name == "all": return [None, "all", any, "any", typing.Any][variant % 5]          # every spelling of "store everything"
    if name == "not_none": return ["not_none", "skip_none"][variant % 2]
    if name == "truthy": return lambda r, a, k, key=None: bool(r) if _args_ok(a, k, key) else not bool(r)
    if name == "nonbool": return lambda r, a, k, key=None: 1 if r else 0
    if name == "with_exc": return with_exceptions() if variant % 3 == 0 else with_exceptions(ExcA)      # no class given = every Exception
    return only_exceptions() if variant % 3 == 0 else only_exceptions(ExcA)


def cond_coq(name, variant=1):
    listed = [Z(1), Z(2), Z(3)] if variant % 3 == 0 else [Z(1), Z(3)]      # class ids that are instances of the listed classes (4 = CancelledError is no Exception)
    return {"all": C("CAll"), "not_none": C("CNotNone"), "truthy": C("CTruthy"), "nonbool": C("CNonBool"),
            "with_exc": C("CWithExc", listed), "only_exc": C("COnlyExc", listed)}[name]


def _td(ticks):
    """a timedelta spelled with days / hours / seconds / milliseconds components"""
    ms = ticks * 1000 // 16
    days, ms = divmod(ms, 86400000)
    hours, ms = divmod(ms, 3600000)
    secs, ms = divmod(ms, 1000)
    return datetime.timedelta(days=days, hours=hours, seconds=secs, milliseconds=ms)


def _dstr(n):
    d, n = divmod(n, 86400); h, n = divmod(n, 3600); m, s_ = divmod(n, 60)
    return "".join(f"{v}{u}" for v, u in ((d, "d"), (h, "h"), (m, "m"), (s_, "s")) if v) or "0s"


_NO_RESULT = object()


def ttl_py(spelling, ticks):
    whole = ticks % 16 == 0
    n = ticks // 16 if whole else ticks / 16
    if spelling == "int" and whole: return n
    if spelling == "str" and whole: return _dstr(n)
    if spelling in ("float", "int", "str"): return float(ticks) / 16
    if spelling == "timedelta": return _td(ticks)
    if spelling == "callable": return lambda *a, **k: n
    if spelling == "callable_strict":        # takes the call's own parameters only: ttl_to_seconds first tries result=..., gets TypeError, then calls it without
        def g(x, y=0):
            return n
        return g
    if spelling == "callable_result":
        # the TTL is a function of the RESULT, received through an optional parameter: without the real result it would be another TTL
        def f(*a, result=_NO_RESULT, **k):
            return _td(ticks) if result is not _NO_RESULT else _td(1)
        return f
    if spelling == "callable_result_not_none":      # (used when no execution of the case returns None) the TTL of "no result at all" is another one
        def f2(*a, result=_NO_RESULT, **k):
            return _td(ticks) if result is not _NO_RESULT and result is not None else _td(1)
        return f2
    raise KeyError(spelling)


def gen_cases(rng, tier):
    cases = []
    n = 500 if tier == "quick" else 6000
    for _ in range(n):
        T = rng.choice([16, 32, 48, 960, 24, 40, 16 * 90000, 16 * 86400 * 2])   # 1 s ... 2 days, incl. 1.5 s and 2.5 s
        secs = T / 16
        calls = []
        for _ in range(rng.randint(1, 25)):
            adv = rng.choice([0, 0, 0, 8, T - 2, T, T + 2, 2 * T, 2]) if rng.random() < 0.6 else 0
            calls.append([adv, rng.randrange(len(ARGS)), rng.choice(["pos", "kw", "mixed", "omit", "kw_omit", "kw"])])
        cases.append({"kind": "simple", "secs": secs, "spelling": rng.choice(["int", "float", "timedelta", "str", "callable", "callable_result", "callable_strict"]),
                      "cond": rng.choice(CONDS), "cond_variant": rng.randrange(10), "calls": calls, "script": [rng.choice(SCRIPT) for _ in range(26)]})
    for _ in range(n // 2):
        T = rng.choice([16, 32, 48, 24, 16 * 90000])
        secs = T / 16
        calls = []
        for _ in range(rng.randint(1, 12)):
            adv = rng.choice([0, 0, 8, T - 2, T, T + 2, 2 * T]) if rng.random() < 0.6 else 0
            calls.append([adv, rng.randrange(2)])
        runs = []
        for _ in range(13):
            items = [rng.choice([1, 0, 2, "", "a", None, [], 7]) for _ in range(rng.randint(0, 4))]
            runs.append({"items": items, "end": rng.choice([None, None, None, None, None, None, 1, 2, 3, 1, 2, 3, 4]),
                         "inrun": [rng.choice([0, 0, 0, 4, T]) if tier != "quick" or rng.random() < 0.15 else 0 for _ in items]})
        cases.append({"kind": "iter", "secs": secs, "spelling": rng.choice(["int", "timedelta", "str", "callable"]), "cond": rng.choice(CONDS), "calls": calls, "runs": runs})
    for _ in range(n // 2):
        if rng.random() < 0.8:
            comps = [[rng.choice([0, 1, 2, 3, 10, 50, 120, 999, rng.randrange(10 ** 6)]), rng.choice("dhms")] for _ in range(rng.randint(1, 4))]
            s = "".join(f"{a}{u}" for a, u in comps)
            if rng.random() < 0.2 and len(comps) == 1 and comps[0][1] == "s":
                s = str(comps[0][0])
            if rng.random() < 0.3: s = s.upper()
            if rng.random() < 0.3: s = " " + s + rng.choice([" ", "\t", ""])
            cases.append({"kind": "ttl", "raw": s, "comps": comps})
        else:
            s = "".join(rng.choice("0123456789dhmsx- .") for _ in range(rng.randint(0, 6)))
            cases.append({"kind": "ttl", "raw": s, "comps": None})
    return cases


def _san(v):
    """a value the scripts never produce (e.g. an exception object handed back as a result) is reported by its type name"""
    if v is None or isinstance(v, (bool, int, str)) or (isinstance(v, list) and all(isinstance(x, int) for x in v)):
        return v
    if isinstance(v, bytes):
        return {"b": v.decode("latin1")}
    return "<" + type(v).__name__ + ">"


def _script(case):
    """the case's script; under a condition that selects EVERY exception class, a returned exception object would be selected too
    (and raised on the next call - what the pinned code does with such a value, outside the property): those items run as plain values"""
    if case.get("cond") in ("with_exc", "only_exc") and case.get("cond_variant", 1) % 3 == 0:
        return ["fresh" if x == "retexc" else x for x in case["script"]]
    return case["script"]


def _pyval(x, n):
    if x == "" and n % 2:
        return b""      # the empty bytes value: a result like any other
    return 100 + n if x == "fresh" else x


def run_impl(case):
    kind = case["kind"]
    if kind == "ttl":
        from cashews.ttl import ttl_to_seconds
        try:
            r = ttl_to_seconds(case["raw"])
            return {"out": r if isinstance(r, int) and not isinstance(r, bool) else "non-int:" + repr(r)}
        except ValueError:
            return {"out": None}
        except Exception as e:  # noqa
            return {"out": "exc:" + type(e).__name__}

    async def go():
        from cashews import Cache
        cache = Cache()
        cache.setup("mem://?check_interval=0&size=100000")
        await cache.init()
        ex = {"n": 0}
        steps = []
        sp = case["spelling"]
        if sp == "callable_result" and kind == "simple" and None not in case["script"]:
            sp = "callable_result_not_none"      # the callable is handed the real result of every store: a returned value or the raised exception, never None
        ttl = ttl_py(sp, round(case["secs"] * 16))
        cond = cond_py(case["cond"], case.get("cond_variant", 1))
        CUR.clear()
        await asyncio.sleep(TICK)
        if kind == "simple":
            @cache(ttl=ttl, condition=cond)
            async def f(x, y=0):
                i = ex["n"]
                ex["n"] += 1
                s = _script(case)[i]
                if s == "raiseA": raise ExcA()
                if s == "raiseB": raise ExcB()
                if s == "raiseA1": raise ExcA1()
                if s == "cancel": raise asyncio.CancelledError()      # e.g. propagated from cancelled inner work
                if s == "retexc": return ExcB("handed back as a value, not raised")      # e.g. a validator returning the error it found
                return _pyval(s, i)
            for adv, ai, form in case["calls"]:
                if adv: await asyncio.sleep(adv * TICK)
                x, y = ARGS[ai]
                CUR["args"] = [x, y]
                before = ex["n"]
                try:
                    if form == "pos": r = await f(x, y)
                    elif form == "kw": r = await f(x=x, y=y)
                    elif form == "mixed": r = await f(x, y=y)
                    elif form == "kw_omit": r = await (f(x=x) if y == 0 else f(x=x, y=y))      # keyword-only, the defaulted parameter left out
                    else: r = await (f(x) if y == 0 else f(x, y))
                    res = ["val", _san(r)]
                except ExcA1: res = ["exc", 3]
                except ExcA: res = ["exc", 1]
                except ExcB: res = ["exc", 2]
                except asyncio.CancelledError: res = ["exc", 4]
                except Exception as e:  # noqa
                    res = ["exc", 99]
                steps.append({"t": round((vclock.Clock.now - vclock.BASE) / TICK), "key": ai, "script": _script(case)[before], "i": before,
                              "res": res, "executed": ex["n"] > before})
        else:
            @cache.iterator(ttl=ttl, condition=cond)
            async def g(x):
                i = ex["n"]
                ex["n"] += 1
                run = case["runs"][i]
                for it, adv in zip(run["items"], run["inrun"]):
                    if adv: await asyncio.sleep(adv * TICK)
                    yield it
                if run["end"]:
                    raise EXC[run["end"]]()
            for adv, ai in case["calls"]:
                if adv: await asyncio.sleep(adv * TICK)
                before = ex["n"]
                t = round((vclock.Clock.now - vclock.BASE) / TICK)
                items, end = [], None
                try:
                    async for it in g(ai):
                        items.append(_san(it))
                except ExcA1: end = 3
                except ExcA: end = 1
                except ExcB: end = 2
                except asyncio.CancelledError: end = 4
                except Exception as e:  # noqa
                    end = 99
                steps.append({"t": t, "key": ai, "run": case["runs"][before], "res": [items, end], "executed": ex["n"] > before})
        await cache.close()
        return {"steps": steps}
    return vclock.run(go)


def _outcome(s, i):
    if s == "raiseA": return C("OExc", Z(1))
    if s == "raiseB": return C("OExc", Z(2))
    if s == "raiseA1": return C("OExc", Z(3))
    if s == "cancel": return C("OExc", Z(4))
    if s == "retexc": return C("OVal", C("VOpq", Z(2002)))
    return C("OVal", _val(_pyval(s, i)))


def _val(v):
    if v == "<ExcB>": return C("VOpq", Z(2002))      # an exception object received as an ordinary result
    if isinstance(v, list): return C("VZs", [Z(x) for x in v])
    if isinstance(v, dict) and "b" in v: return val_to_coq(v["b"].encode("latin1"))
    return val_to_coq(v)


def to_coq(case, obs):
    kind = case["kind"]
    if kind == "ttl":
        comps = None if case["comps"] is None else Some([(Z(a), Raw("(Ascii.ascii_of_N %d%%N)" % ord(u))) for a, u in case["comps"]])
        o = obs["out"]
        out = Some(Z(o)) if isinstance(o, int) else (None if o is None else Some(Z(-424242)))
        return C("CTtl", S(case["raw"]), comps, out)
    T = Z(round(16 * case["secs"]))
    if kind == "simple":
        h, o = [], []
        for st in obs["steps"]:
            h.append(((Z(st["t"]), S("k%d" % st["key"])), _outcome(st["script"], st["i"])))
            r = st["res"]
            o.append((C("OVal", _val(r[1])) if r[0] == "val" else C("OExc", Z(r[1])), bool(st["executed"])))
        return C("CSimple", T, cond_coq(case["cond"], case.get("cond_variant", 1)), h, o)
    h, o = [], []
    for st in obs["steps"]:
        run = st["run"]
        dur = sum(run["inrun"]) if st["executed"] else 0
        h.append((((Z(st["t"]), S("k%d" % st["key"])), ([_val(x) for x in run["items"]], None if not run["end"] else Some(Z(run["end"])))), Z(dur)))
        items, end = st["res"]
        o.append((([_val(x) for x in items], None if end is None else Some(Z(end))), bool(st["executed"])))
    return C("CIter", T, cond_coq(case["cond"], case.get("cond_variant", 1)), h, o)


def nontrivial(case, obs):
    if case["kind"] == "ttl":
        return case["comps"] is not None and len(case["comps"]) >= 2
    return any(not s["executed"] for s in obs["steps"]) and len(obs["steps"]) >= 2


def classify(case, obs):
    d = {"kind_" + case["kind"]: 1}
    if case["kind"] != "ttl":
        d["cond_" + case["cond"]] = 1
        d["spelling_" + case["spelling"]] = 1
        d["calls"] = len(obs["steps"])
        d["served_from_cache"] = sum(1 for s in obs["steps"] if not s["executed"])
        if case["kind"] == "iter":
            d["inrun_time"] = int(any(a for r in case["runs"] for a in r["inrun"]))
    else:
        d["ttl_malformed"] = int(case["comps"] is None)
    return d


def shrink(case):
    if case["kind"] == "ttl":
        if case["comps"] and len(case["comps"]) > 1:
            for i in range(len(case["comps"])):
                cs = case["comps"][:i] + case["comps"][i + 1:]
                yield {"kind": "ttl", "raw": "".join(f"{a}{u}" for a, u in cs), "comps": cs}
        return
    calls = case["calls"]
    for i in range(len(calls)):
        c = dict(case); c["calls"] = calls[:i] + calls[i + 1:]
        if i + 1 < len(calls):
            nxt = list(calls[i + 1]); nxt[0] += calls[i][0]
            c["calls"] = calls[:i] + [nxt] + calls[i + 2:]
        if c["calls"]: yield c
    if case["kind"] == "iter":
        for i, r in enumerate(case["runs"]):
            if any(r["inrun"]):
                c = dict(case); c["runs"] = case["runs"][:i] + [dict(r, inrun=[0] * len(r["items"]))] + case["runs"][i + 1:]; yield c
            for j in range(len(r["items"])):
                c = dict(case)
                c["runs"] = case["runs"][:i] + [dict(r, items=r["items"][:j] + r["items"][j + 1:], inrun=r["inrun"][:j] + r["inrun"][j + 1:])] + case["runs"][i + 1:]
                yield c

From Cashews Require Import Base.Prelude Model.Bits.
Open Scope N_scope.

Lemma set_loop_spec : forall n v base x i p,
  N.testbit (set_loop v base x n i) p =
  if (base+i <=? p) && (p <? base+i+N.of_nat n) then N.testbit x (p-base) else N.testbit v p.
Proof.
  induction n as [|n IH]; intros v base x i p; cbn [set_loop].
  - replace (base+i+N.of_nat 0) with (base+i) by lia.
    destruct (N.leb_spec (base+i) p), (N.ltb_spec p (base+i)); cbn; try reflexivity; lia.
  - rewrite IH.
    destruct (N.leb_spec (base+(i+1)) p) as [H1|H1], (N.ltb_spec p (base+(i+1)+N.of_nat n)) as [H2|H2];
    destruct (N.leb_spec (base+i) p) as [H3|H3], (N.ltb_spec p (base+i+N.of_nat (S n))) as [H4|H4]; cbn; try lia; try reflexivity.
    all: destruct (N.testbit x i) eqn:Hx.
    all: try (rewrite N.setbit_neq by lia; reflexivity).
    all: try (rewrite N.clearbit_neq by lia; reflexivity).
    all: assert (p = base+i) by lia; subst p; replace (base+i-base) with i by lia.
    all: try (rewrite N.setbit_eq; congruence).
    all: try (rewrite N.clearbit_eq; congruence).
Qed.

Lemma bset_spec v idx x sz p :
  N.testbit (bset v idx x sz) p =
  if (idx*sz <=? p) && (p <? (idx+1)*sz) then N.testbit x (p - idx*sz) else N.testbit v p.
Proof.
  unfold bset. rewrite set_loop_spec. rewrite N2Nat.id.
  replace (idx*sz+0) with (idx*sz) by lia. replace ((idx+1)*sz) with (idx*sz+sz) by lia. reflexivity.
Qed.

Lemma get_loop_spec : forall n v base j acc q,
  (forall q', j <= q' -> N.testbit acc q' = false) ->
  N.testbit (get_loop v base n j acc) q =
  if q <? j then N.testbit acc q else if q <? j + N.of_nat n then N.testbit v (base+q) else false.
Proof.
  induction n as [|n IH]; intros v base j acc q Hacc; cbn [get_loop].
  - destruct (N.ltb_spec q j); [reflexivity|]. replace (j+N.of_nat 0) with j by lia.
    destruct (N.ltb_spec q j); [lia|]. apply Hacc; lia.
  - rewrite IH.
    + destruct (N.ltb_spec q (j+1)) as [H1|H1], (N.ltb_spec q j) as [H2|H2]; try lia.
      * rewrite N.lor_spec. rewrite N.shiftl_spec_low by lia. apply orb_false_r.
      * assert (q = j) by lia; subst q. rewrite N.lor_spec, Hacc by lia. rewrite orb_false_l.
        rewrite N.shiftl_spec_high' by lia. rewrite N.sub_diag.
        destruct (N.ltb_spec j (j+N.of_nat (S n))); [|lia].
        destruct (N.testbit v (base+j)); reflexivity.
      * destruct (N.ltb_spec q (j+1+N.of_nat n)), (N.ltb_spec q (j+N.of_nat (S n))); try lia; reflexivity.
    + intros q' Hq'. rewrite N.lor_spec, Hacc by lia. rewrite orb_false_l.
      rewrite N.shiftl_spec_high' by lia.
      destruct (N.testbit v (base+j)); [|apply N.bits_0].
      destruct (q'-j) eqn:E; [lia|]. reflexivity.
Qed.

Lemma bget_spec v idx sz q :
  N.testbit (bget v idx sz) q = if q <? sz then N.testbit v (idx*sz+q) else false.
Proof.
  unfold bget. rewrite get_loop_spec by (intros; apply N.bits_0).
  rewrite N2Nat.id. cbn. destruct (N.ltb_spec q 0); [lia|]. reflexivity.
Qed.

Lemma bget_bset_other v i j x sz : i <> j -> bget (bset v i x sz) j sz = bget v j sz.
Proof.
  intros Hij. apply N.bits_inj. intro q. rewrite !bget_spec.
  destruct (N.ltb_spec q sz) as [Hq|Hq]; [|reflexivity].
  rewrite bset_spec.
  destruct (N.leb_spec (i*sz) (j*sz+q)), (N.ltb_spec (j*sz+q) ((i+1)*sz)); cbn; try reflexivity.
  exfalso. assert (i < j \/ j < i) as [Hl|Hl] by lia; nia.
Qed.

Lemma bget_bset_same v i x sz : x < 2^sz -> bget (bset v i x sz) i sz = x.
Proof.
  intros Hx. apply N.bits_inj. intro q. rewrite bget_spec, bset_spec.
  destruct (N.ltb_spec q sz) as [Hq|Hq].
  - destruct (N.leb_spec (i*sz) (i*sz+q)), (N.ltb_spec (i*sz+q) ((i+1)*sz)); cbn; try lia.
    f_equal; lia.
  - symmetry. destruct (N.eq_dec x 0) as [->|Hx0]; [apply N.bits_0|].
    apply N.bits_above_log2. apply N.log2_lt_pow2; [lia|].
    eapply N.lt_le_trans; [exact Hx|]. apply N.pow_le_mono_r; lia.
Qed.

Lemma bget_lt v i sz : bget v i sz < 2^sz.
Proof.
  assert (E : bget v i sz = bget v i sz mod 2^sz).
  { apply N.bits_inj. intro q. rewrite bget_spec.
    destruct (N.ltb_spec q sz) as [Hq|Hq].
    - rewrite N.mod_pow2_bits_low by lia. rewrite bget_spec.
      destruct (N.ltb_spec q sz); [reflexivity|lia].
    - rewrite N.mod_pow2_bits_high by lia. reflexivity. }
  rewrite E. apply N.mod_lt. apply N.pow_nonzero. lia.
Qed.

(* ---- the property-level statements about bincr ---- *)
Lemma bits_frame v i j sz by_ : i <> j -> bget (bincr v i sz by_) j sz = bget v j sz.
Proof. intros Hij. unfold bincr. apply bget_bset_other. exact Hij. Qed.

Definition saturate (sz : N) (old : N) (by_ : Z) : N :=
  Z.to_N (Z.min (Z.max 0 (Z.of_N old + by_)) (Z.of_N (2^sz) - 1)).

Lemma bits_saturate v i sz by_ : bget (bincr v i sz by_) i sz = saturate sz (bget v i sz) by_.
Proof.
  unfold bincr, saturate, clamp_by.
  pose proof (bget_lt v i sz) as Hlt. set (old := bget v i sz) in *.
  assert (Hp : 2^sz <> 0) by (apply N.pow_nonzero; lia).
  set (p := 2^sz) in *.
  rewrite bget_bset_same.
  - f_equal. destruct (0 <? by_)%Z eqn:E; lia.
  - destruct (0 <? by_)%Z eqn:E; lia.
Qed.

Lemma bits_zero i sz : bget 0 i sz = 0.
Proof. apply N.bits_inj. intro q. rewrite bget_spec. destruct (q <? sz); rewrite ?N.bits_0; reflexivity. Qed.

(* ---- get_indexes ---- *)
Section Idx.
Variable H : N -> N -> N.

Lemma memN_In x l : memN x l = true <-> In x l.
Proof.
  unfold memN. rewrite existsb_exists. split.
  - intros (y & Hy & E). apply N.eqb_eq in E. subst. exact Hy.
  - intro Hi. exists x. split; [exact Hi|apply N.eqb_refl].
Qed.

Lemma probe_spec fuel : forall m ii i idx v, m <> 0 ->
  probe H fuel m ii i idx = Some v -> v < m /\ ~ In v idx.
Proof.
  induction fuel as [|f IH]; intros m ii i idx v Hm; cbn; [discriminate|].
  destruct (memN (H ii i mod m) idx) eqn:E.
  - apply IH; exact Hm.
  - intros [= <-]. split; [apply N.mod_lt; exact Hm|].
    intro Hin. apply memN_In in Hin. congruence.
Qed.

Lemma indexes_loop_spec fuel nalg m : m <> 0 -> forall is_ idx out,
  NoDup idx -> (forall x, In x idx -> x < m) ->
  indexes_loop H fuel nalg m is_ idx = Some out ->
  NoDup out /\ (forall x, In x out -> x < m) /\ length out = (length is_ + length idx)%nat.
Proof.
  intros Hm. induction is_ as [|i r IH]; intros idx out Hnd Hlt; cbn.
  - intros [= <-]. auto.
  - destruct (probe H fuel m (i mod nalg) i idx) as [v|] eqn:Ep; [|discriminate].
    apply probe_spec in Ep as [Hv Hnin]; [|exact Hm].
    intro E. apply IH in E.
    + destruct E as (A & B & C). repeat split; auto. rewrite C. cbn. lia.
    + constructor; assumption.
    + intros x [<-|Hx]; auto.
Qed.

Lemma nseq_length s n : length (nseq s n) = n.
Proof. revert s. induction n; intro s; cbn; auto. Qed.

Lemma indexes_spec fuel nalg k m out : m <> 0 ->
  get_indexes H fuel nalg k m = Some out ->
  NoDup out /\ (forall x, In x out -> x < m) /\ length out = N.to_nat k.
Proof.
  intros Hm E. unfold get_indexes in E. apply indexes_loop_spec in E; auto.
  - rewrite nseq_length in E. cbn in E. rewrite Nat.add_0_r in E. exact E.
  - constructor.
  - intros x [].
Qed.
End Idx.

(* ---- bloom: bits only go 0 -> 1; no false negatives ---- *)
Lemma bincr1_same v i : bget (bincr v i 1 1%Z) i 1 = 1.
Proof.
  rewrite bits_saturate. unfold saturate. pose proof (bget_lt v i 1) as Hl.
  change (2^1) with 2 in *. lia.
Qed.

Lemma bincr1_mono v i j : bget v j 1 = 1 -> bget (bincr v i 1 1%Z) j 1 = 1.
Proof.
  intro Hj. destruct (N.eq_dec i j) as [->|Hn]; [apply bincr1_same|].
  rewrite bits_frame by exact Hn. exact Hj.
Qed.

Lemma incr_bits_fst_mono idxs : forall v j, bget v j 1 = 1 -> bget (fst (incr_bits v idxs 1 1%Z)) j 1 = 1.
Proof.
  induction idxs as [|i r IH]; intros v j Hj; cbn [incr_bits]; [exact Hj|].
  destruct (incr_bits (bincr v i 1 1%Z) r 1 1%Z) as [v2 outs] eqn:E. cbn.
  specialize (IH (bincr v i 1 1%Z) j (bincr1_mono v i j Hj)). rewrite E in IH. exact IH.
Qed.

Lemma incr_bits_fst_sets idxs : forall v j, In j idxs -> bget (fst (incr_bits v idxs 1 1%Z)) j 1 = 1.
Proof.
  induction idxs as [|i r IH]; intros v j Hin; [destruct Hin|]. cbn [incr_bits].
  destruct (incr_bits (bincr v i 1 1%Z) r 1 1%Z) as [v2 outs] eqn:E. cbn.
  destruct (N.eq_dec i j) as [->|Hn].
  - pose proof (incr_bits_fst_mono r (bincr v j 1 1%Z) j (bincr1_same v j)) as M. rewrite E in M. exact M.
  - destruct Hin as [->|Hin]; [congruence|].
    specialize (IH (bincr v i 1 1%Z) j Hin). rewrite E in IH. exact IH.
Qed.

(* adds : the index sets of all elements added so far, in order *)
Definition bloom_adds (v : N) (adds : list (list N)) : N := fold_left bloom_add adds v.

Lemma bloom_adds_mono adds : forall v j, bget v j 1 = 1 -> bget (bloom_adds v adds) j 1 = 1.
Proof.
  induction adds as [|a r IH]; intros v j Hj; cbn; [exact Hj|].
  apply IH. apply incr_bits_fst_mono. exact Hj.
Qed.

Lemma bloom_no_false_negative v adds idxs check_fp :
  In idxs adds -> bloom_query (bloom_adds v adds) idxs check_fp <> Some false.
Proof.
  intros Hin. unfold bloom_query.
  assert (A : all_set (get_bits (bloom_adds v adds) idxs 1) = true).
  { unfold all_set, get_bits. rewrite forallb_forall. intros x Hx. apply in_map_iff in Hx as (j & <- & Hj).
    assert (bget (bloom_adds v adds) j 1 = 1) as ->; [|reflexivity].
    clear check_fp. revert v. induction adds as [|a r IH]; intro v; [destruct Hin|]. cbn.
    destruct Hin as [->|Hin].
    - apply bloom_adds_mono. apply incr_bits_fst_sets. exact Hj.
    - apply IH. exact Hin. }
  rewrite A. destruct check_fp; discriminate.
Qed.

"""Virtual time for asyncio + every clock cashews reads.  Attaches from outside: the
`time` module's functions are rebound and the `datetime` name of the modules that call
datetime.now() is rebound to a subclass.  No source hooks."""
import asyncio
import datetime as _dt
import selectors
import time as _time

BASE = float(2 ** 20)  # all instants are BASE + k*0.125 (+0.0625): exact in binary floating point


class Clock:
    now = BASE


_real = (_time.time, _time.monotonic, _time.perf_counter)


class VDateTime(_dt.datetime):
    @classmethod
    def now(cls, tz=None):
        return _dt.datetime.fromtimestamp(Clock.now, tz)


def install():
    _time.time = lambda: Clock.now
    _time.monotonic = lambda: Clock.now
    _time.perf_counter = lambda: Clock.now
    import importlib
    for name in ("cashews.decorators.cache.soft", "cashews.decorators.cache.early",
                 "cashews.decorators.circuit_breaker", "cashews.decorators.rate_slide"):
        mod = importlib.import_module(name)
        mod.datetime = VDateTime


def uninstall():
    _time.time, _time.monotonic, _time.perf_counter = _real


class VSelector(selectors.DefaultSelector):
    """when nothing is ready, jump the virtual clock by the requested timeout"""
    on_idle = None
    busy = 0

    def select(self, timeout=None):
        ev = super().select(0)
        if ev or timeout == 0:
            # a task spinning on sleep(0) keeps the loop busy for ever: after 500 busy iterations the scheduler acts anyway
            self.busy += 1
            if self.busy > 500 and self.on_idle is not None:
                self.busy = 0
                self.on_idle(None)
            return ev
        self.busy = 0
        if self.on_idle is not None:
            self.on_idle(timeout)
        elif timeout:
            Clock.now += timeout
        return []


class VLoop(asyncio.SelectorEventLoop):
    def __init__(self, on_idle=None):
        sel = VSelector()
        sel.on_idle = on_idle
        super().__init__(sel)

    def time(self):
        return Clock.now


def run(coro_fn, start=BASE, on_idle=None):
    """run coro_fn() to completion on a fresh virtual loop starting at `start`"""
    install()
    Clock.now = start
    loop = VLoop(on_idle)
    asyncio.set_event_loop(loop)
    loop.set_exception_handler(lambda _l, _c: None)  # 'Task exception was never retrieved' of deliberately failing background bodies
    try:
        return loop.run_until_complete(coro_fn())
    finally:
        try:
            loop.run_until_complete(loop.shutdown_asyncgens())
        finally:
            asyncio.set_event_loop(None)
            loop.close()


async def advance(dt):
    """let virtual time pass (timers due in between fire, e.g. the purge task)"""
    if dt > 0:
        await asyncio.sleep(dt)

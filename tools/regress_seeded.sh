#!/bin/sh
# tools/regress_seeded.sh <n-of-streams> <stream-index>: re-run the property's own quick check against every kept seeded change
# (scratch worktrees only) and print CAUGHT / MISSED per change - a regression run over seeded/ after generator changes.
N="${1:-1}"; K="${2:-0}"
cd "$(dirname "$0")/.."
i=0
for D in seeded/*/; do
  i=$((i+1)); [ $((i % N)) -eq "$K" ] || continue
  ID=$(basename "$D"); P=$(echo "$ID" | cut -c1-3)
  OUT=$(timeout 900 tools/try_mutant_wt.sh "/verif/seeded/$ID" "$P" 2>&1 | grep -v KNOWN)
  if echo "$OUT" | sed -n '/== check/,$p' | grep -q "VIOLATION"; then V=CAUGHT; else V=MISSED; fi
  echo "$V $ID :: $(echo "$OUT" | tail -1 | cut -c1-110)"
done

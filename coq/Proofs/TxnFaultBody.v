(* C16, end to end: the body of a block keeps the lock bookkeeping in step with the store (every lock entry written is
   recorded in the backend's lock set, whatever fails), so that - with the exit theorems of TxnFaultProofs - after the block
   NO lock-shaped key is left in any involved store unless a command of the exit phase itself failed.
   Any mode, any program over data keys, any fault set, any number of backends. *)
From Cashews Require Import Base.Prelude Spec.TTLMap Model.Tags Model.Txn Model.TxnFault Proofs.TxnFaultProofs.
Open Scope string_scope.
Open Scope list_scope.

(* lock keys start with ':' (":tx_lock:<key>", ":serializable:lock"); the programs' data keys do not *)
Definition lockish (k : key) : bool := match k with String c _ => Ascii.eqb c (Ascii.ascii_of_N 58) | EmptyString => false end.
Lemma lock_key_lockish md k : lockish (lock_key_of md k) = true.
Proof. destruct md; reflexivity. Qed.

Definition cmd_keys (c : bcmd) : list key :=
  match c with BSet k _ _ | BIncr k | BDel k | BGet k | BExpire k _ => [k] | BSetMany kvs => map fst kvs end.

(* per backend: lock set duplicate-free, made of lock-shaped keys, covering every lock-shaped key present in the store;
   pending deletes are data keys *)
Definition BI (w : world) (i : nat) : Prop :=
  let x := get_b w i in
  (i < length (bks w))%nat /\ NoDup (bLocks x) /\ (forall lk, In lk (bLocks x) -> lockish lk = true) /\
  (forall lk, lockish lk = true -> bB x lk <> None -> In lk (bLocks x)) /\
  (forall k, In k (bD x) -> lockish k = false).
(* what every step of the body leaves alone *)
Definition same_shape (w w' : world) : Prop :=
  faults w' = faults w /\ lorder w' = lorder w /\ length (bks w') = length (bks w) /\ (pos w <= pos w')%nat.

Lemma same_shape_refl w : same_shape w w. Proof. repeat split; lia. Qed.
Lemma same_shape_trans a b c : same_shape a b -> same_shape b c -> same_shape a c.
Proof. intros (A1 & A2 & A3 & A4) (B1 & B2 & B3 & B4). repeat split; try congruence; lia. Qed.

Lemma bi_other w w' i j : j <> i -> length (bks w') = length (bks w) -> get_b w' j = get_b w j -> BI w j -> BI w' j.
Proof. intros _ L E (A & B). unfold BI. rewrite E, L. split; assumption. Qed.

(* an underlying command that leaves lock-shaped keys alone *)
Lemma under_bi w i f : (forall b lk, lockish lk = true -> f b lk = b lk) -> (i < length (bks w))%nat ->
  let '(w', ok) := under w i f in same_shape w w' /\ (forall j, BI w j -> BI w' j) /\
  bL (get_b w' i) = bL (get_b w i) /\ bD (get_b w' i) = bD (get_b w i).
Proof.
  intros Hf Hi. pose proof (under_spec w i f Hi) as U. destruct (under w i f) as [w' ok].
  destruct U as (P & F & O & L & Oth & _ & Bb & Ll & Dd & Kk).
  split; [repeat split; try assumption; lia|]. split; [|split; assumption].
  intros j Hj. destruct (Nat.eq_dec j i) as [->|Hne]; [|apply (bi_other w w' i j Hne L (Oth j Hne) Hj)].
  destruct Hj as (A & B & C & D & E). unfold BI. rewrite L, Kk, Dd, Bb. repeat split; try assumption.
  intros lk Hl Hn. apply D; [exact Hl|]. destruct (faulty w); [exact Hn|]. rewrite Hf in Hn by exact Hl. exact Hn.
Qed.

Lemma acquire_bi md now w i k : (i < length (bks w))%nat ->
  let '(w', ok) := acquire md now w i k in same_shape w w' /\ (forall j, BI w j -> BI w' j) /\
  bL (get_b w' i) = bL (get_b w i) /\ bD (get_b w' i) = bD (get_b w i).
Proof.
  intro Hi. unfold acquire.
  assert (Triv : same_shape w w /\ (forall j, BI w j -> BI w j) /\ bL (get_b w i) = bL (get_b w i) /\ bD (get_b w i) = bD (get_b w i))
    by (split; [apply same_shape_refl|auto]).
  destruct md; [exact Triv| |];
    (destruct (mems (lock_key_of _ k) (bLocks (get_b w i))) eqn:M; [exact Triv|]);
    match goal with |- context[under w i ?f] =>
      pose proof (under_spec w i f Hi) as U; destruct (under w i f) as [w1 ok] end;
    destruct U as (P & F & O & L & Oth & Ok & Bb & Ll & Dd & Kk);
    (destruct ok;
     [ (* acquired: the entry is written and recorded *)
       assert (Hi1 : (i < length (bks w1))%nat) by lia;
       split; [repeat split; cbn [faults lorder put_b pos]; rewrite ?len_put; try assumption; lia|];
       split; [|rewrite get_put_same by exact Hi1; cbn [bL bD]; split; assumption];
       intros j Hj; destruct (Nat.eq_dec j i) as [->|Hne];
       [ destruct Hj as (A & B & C & D & E); unfold BI; rewrite len_put, get_put_same by exact Hi1; cbn [bB bL bD bLocks];
         rewrite Kk, Dd, Bb; symmetry in Ok; apply negb_true_iff in Ok; rewrite Ok;
         split; [lia|]; split; [constructor; [intro H; apply In_mems in H; congruence|exact B]|];
         split; [intros lk [<-|H]; [apply lock_key_lockish|apply C; exact H]|];
         split; [|exact E];
         intros lk Hl Hn;
         match goal with |- In lk (?lk0 :: _) => destruct (String.eqb_spec lk lk0) as [->|Hd]; [left; reflexivity|right] end;
         apply D; [exact Hl|]; rewrite s_write_other in Hn by exact Hd; exact Hn
       | apply (bi_other w _ i j Hne); [rewrite len_put; exact L|rewrite get_put_other by lia; apply Oth; exact Hne|exact Hj] ]
     | (* the lock command failed: nothing changed *)
       split; [repeat split; try assumption; lia|]; split; [|split; assumption];
       intros j Hj; destruct (Nat.eq_dec j i) as [->|Hne]; [|apply (bi_other w w1 i j Hne L (Oth j Hne) Hj)];
       destruct Hj as (A & B & C & D & E); unfold BI; rewrite L, Kk, Dd, Bb;
       symmetry in Ok; apply negb_false_iff in Ok; rewrite Ok; repeat split; assumption ]).
Qed.

Lemma acquire_all_bi md now i ks : forall w, (i < length (bks w))%nat ->
  let '(w', ok) := acquire_all md now w i ks in same_shape w w' /\ (forall j, BI w j -> BI w' j) /\
  bL (get_b w' i) = bL (get_b w i) /\ bD (get_b w' i) = bD (get_b w i).
Proof.
  induction ks as [|k ks IH]; intros w Hi; cbn [acquire_all]; [split; [apply same_shape_refl|auto]|].
  pose proof (acquire_bi md now w i k Hi) as A. destruct (acquire md now w i k) as [w1 ok]. destruct A as (S1 & B1 & L1 & D1).
  destruct ok; [|split; [exact S1|split; [exact B1|split; assumption]]].
  assert (Hi1 : (i < length (bks w1))%nat) by (destruct S1 as (_ & _ & L & _); lia).
  specialize (IH w1 Hi1). destruct (acquire_all md now w1 i ks) as [w2 ok2]. destruct IH as (S2 & B2 & L2 & D2).
  split; [eapply same_shape_trans; eassumption|]. split; [auto|]. split; congruence.
Qed.

(* the overlay commands of the body: the pending-delete set only gains the command's own keys *)
Lemma d_discard_sub d k k' : In k' (d_discard d k) -> In k' d.
Proof. unfold d_discard. intro H. apply filter_In in H. apply H. Qed.
Lemma fold_discard_sub (kvs : list (key * val)) k' : forall d, In k' (fold_left (fun d kv => d_discard d (fst kv)) kvs d) -> In k' d.
Proof. induction kvs as [|kv kvs IH]; intros d H; cbn [fold_left] in H; [exact H|]. apply IH in H. eapply d_discard_sub; exact H. Qed.

Definition tc_of (c : bcmd) : option tcmd :=
  match c with
  | BSet k v ttl => Some (TC (Set_ k v ttl None)) | BDel k => Some (TC (Del k)) | BSetMany kvs => Some (TC (SetMany kvs 0))
  | BIncr k => Some (TC (Incr k 1 0)) | BGet _ => None | BExpire k ttl => Some (TC (Expire k ttl))
  end.
Lemma tD_step t now c tc k' : tc_of c = Some tc -> In k' (tD (fst (tx_step [] t now tc))) -> In k' (tD t) \/ In k' (cmd_keys c).
Proof.
  destruct c as [k v ttl|k|k|kvs|k|k ttl]; cbn [tc_of]; intros [= <-]; cbn [tx_step cmd_keys].
  - cbn. intro H. left. eapply d_discard_sub; exact H.
  - cbn zeta. match goal with |- context[s_get ?l now k] => destruct (s_get l now k) as [[]|] end; cbn; intro H; left; eapply d_discard_sub; exact H.
  - cbn. intros [<-|H]; [right; left; reflexivity|left; exact H].
  - cbn. intro H. left. eapply fold_discard_sub; exact H.
  - intro H. left. destruct (s_look (tL t) now k) as [[d0 v0]|]; [exact H|]. destruct (in_d t k); [exact H|].
    destruct (s_get (tB t) now k); exact H.
Qed.

Lemma overlay_bi w i now c tc : tc_of c = Some tc -> (forall k, In k (cmd_keys c) -> lockish k = false) -> (i < length (bks w))%nat ->
  same_shape w (overlay_step w i now tc) /\ (forall j, BI w j -> BI (overlay_step w i now tc) j).
Proof.
  intros Htc Hk Hi. unfold overlay_step. split; [repeat split; cbn [faults lorder put_b pos]; rewrite ?len_put; lia|].
  intros j Hj. destruct (Nat.eq_dec j i) as [->|Hne].
  - destruct Hj as (A & B & C & D & E). unfold BI. rewrite len_put, get_put_same by exact Hi. unfold with_overlay. cbn [bB bL bD bLocks].
    repeat split; try assumption. intros k' Hin. destruct (tD_step _ _ _ _ _ Htc Hin) as [H|H]; [apply E; exact H|apply Hk; exact H].
  - apply (bi_other w _ i j Hne); [rewrite len_put; reflexivity|rewrite get_put_other by lia; reflexivity|exact Hj].
Qed.

Lemma body_step_bi md now w i c : (i < length (bks w))%nat -> (forall k, In k (cmd_keys c) -> lockish k = false) ->
  let '(w', ok) := body_step md now w i c in same_shape w w' /\ (forall j, BI w j -> BI w' j).
Proof.
  intros Hi Hk.
  assert (Ov : forall w1 tc, tc_of c = Some tc -> same_shape w w1 -> (forall j, BI w j -> BI w1 j) ->
            same_shape w (overlay_step w1 i now tc) /\ (forall j, BI w j -> BI (overlay_step w1 i now tc) j)).
  { intros w1 tc Htc S1 B1. assert (Hi1 : (i < length (bks w1))%nat) by (destruct S1 as (_ & _ & L & _); lia).
    destruct (overlay_bi w1 i now c tc Htc Hk Hi1) as [S2 B2]. split; [eapply same_shape_trans; eassumption|auto]. }
  destruct c as [k v ttl|k|k|kvs|k|k ttl]; cbn [body_step].
  - pose proof (acquire_bi md now w i k Hi) as A. destruct (acquire md now w i k) as [w1 ok]. destruct A as (S1 & B1 & _).
    destruct ok; cbv beta iota zeta; [apply Ov; [reflexivity|assumption|assumption]|split; assumption].
  - pose proof (acquire_bi md now w i k Hi) as A. destruct (acquire md now w i k) as [w1 ok]. destruct A as (S1 & B1 & _).
    destruct ok; cbn [negb]; cbv beta iota zeta; [|split; assumption].
    assert (Hi1 : (i < length (bks w1))%nat) by (destruct S1 as (_ & _ & L & _); lia).
    destruct (negb (isSome (s_look (bL (get_b w1 i)) now k)) && negb (mems k (bD (get_b w1 i)))).
    + pose proof (under_bi w1 i (fun b : tmap => b) ltac:(reflexivity) Hi1) as U. destruct (under w1 i (fun b : tmap => b)) as [w2 ok2]. destruct U as (S2 & B2 & _).
      destruct ok2; cbv beta iota zeta; [apply Ov; [reflexivity|eapply same_shape_trans; eassumption|auto]|split; [eapply same_shape_trans; eassumption|auto]].
    + apply Ov; [reflexivity|assumption|assumption].
  - pose proof (acquire_bi md now w i k Hi) as A. destruct (acquire md now w i k) as [w1 ok]. destruct A as (S1 & B1 & _).
    destruct ok; cbv beta iota zeta; [apply Ov; [reflexivity|assumption|assumption]|split; assumption].
  - pose proof (acquire_all_bi md now i (map fst kvs) w Hi) as A. destruct (acquire_all md now w i (map fst kvs)) as [w1 ok]. destruct A as (S1 & B1 & _).
    destruct ok; cbv beta iota zeta; [apply Ov; [reflexivity|assumption|assumption]|split; assumption].
  - destruct (mems k (bD (get_b w i)) || isSome (s_look (bL (get_b w i)) now k)); [split; [apply same_shape_refl|auto]|].
    pose proof (under_bi w i (fun b : tmap => b) ltac:(reflexivity) Hi) as U. destruct (under w i (fun b : tmap => b)) as [w2 ok2]. destruct U as (S2 & B2 & _).
    split; assumption.
  - pose proof (acquire_bi md now w i k Hi) as A. destruct (acquire md now w i k) as [w1 ok]. destruct A as (S1 & B1 & _).
    destruct ok; cbn [negb]; cbv beta iota zeta; [|split; assumption].
    assert (Hi1 : (i < length (bks w1))%nat) by (destruct S1 as (_ & _ & L & _); lia).
    destruct (negb (isSome (s_look (bL (get_b w1 i)) now k)) && negb (mems k (bD (get_b w1 i)))).
    + pose proof (under_bi w1 i (fun b : tmap => b) ltac:(reflexivity) Hi1) as U. destruct (under w1 i (fun b : tmap => b)) as [w2 ok2]. destruct U as (S2 & B2 & _).
      destruct ok2; cbv beta iota zeta; [apply Ov; [reflexivity|eapply same_shape_trans; eassumption|auto]|split; [eapply same_shape_trans; eassumption|auto]].
    + apply Ov; [reflexivity|assumption|assumption].
Qed.

Definition prog_ok (n : nat) (cs : list (nat * bcmd)) : Prop :=
  Forall (fun ic => (fst ic < n)%nat /\ forall k, In k (cmd_keys (snd ic)) -> lockish k = false) cs.

Lemma body_bi md now cs : forall w, prog_ok (length (bks w)) cs ->
  let '(w', ok) := body md now w cs in same_shape w w' /\ (forall j, BI w j -> BI w' j).
Proof.
  induction cs as [|[i c] cs IH]; intros w Hp; cbn [body]; [split; [apply same_shape_refl|auto]|].
  inversion Hp as [|? ? (Hi & Hk) Hp']; subst. cbn [fst snd] in Hi, Hk.
  pose proof (body_step_bi md now w i c Hi Hk) as B. destruct (body_step md now w i c) as [w1 ok]. destruct B as (S1 & B1).
  destruct ok; [|split; assumption].
  assert (Hp1 : prog_ok (length (bks w1)) cs) by (destruct S1 as (_ & _ & L & _); rewrite L; exact Hp').
  specialize (IH w1 Hp1). destruct (body md now w1 cs) as [w2 ok2]. destruct IH as (S2 & B2).
  split; [eapply same_shape_trans; eassumption|auto].
Qed.

(* ---------- the exit phase leaves alone the lock-shaped keys a backend does not hold ---------- *)
Lemma backend_commit_frame U now w i k : (i < length (bks w))%nat -> NoDup (bLocks (get_b w i)) -> NoDup (nth i (lorder w) []) ->
  ~ In k U -> ~ In k (bD (get_b w i)) -> ~ In k (bLocks (get_b w i)) ->
  bB (get_b (fst (backend_commit U now w i)) i) k = bB (get_b w i) k.
Proof.
  intros Hi Hnd Hno HU HD HK. unfold backend_commit.
  pose proof (run_under_spec i (commit_cmds U (get_b w i) now) w Hi) as R.
  pose proof (run_under_frame i (commit_cmds U (get_b w i) now) k (commit_cmds_frame U (get_b w i) now k HU HD) w Hi) as Fr.
  destruct (run_under w i (commit_cmds U (get_b w i) now)) as [w1 ok]. cbn [fst] in Fr. destruct R as (F1 & O1 & L1 & P1 & Oth1 & K1).
  set (w1' := if ok then clear_overlay w1 i else w1).
  assert (A : lorder w1' = lorder w /\ length (bks w1') = length (bks w) /\ bLocks (get_b w1' i) = bLocks (get_b w i) /\ bB (get_b w1' i) = bB (get_b w1 i)).
  { unfold w1'. destruct ok; [|auto]. unfold clear_overlay. rewrite len_put. cbn [lorder put_b].
    rewrite get_put_same by lia. cbn [bLocks bB]. auto. }
  destruct A as (O & L & K & Bb).
  pose proof (unlock_updates_spec w1' i ltac:(lia) ltac:(rewrite K; exact Hnd) ltac:(rewrite O; exact Hno)) as Uu.
  destruct (unlock_updates w1' i) as [w2 ok2]. cbn [fst]. destruct Uu as (_ & _ & _ & _ & _ & _ & _ & _ & _ & Frm).
  rewrite Frm by (rewrite K; exact HK). rewrite Bb. exact Fr.
Qed.

Definition quiet (w : world) (i : nat) (k : key) (U : list key) : Prop :=
  ~ In k U /\ ~ In k (bD (get_b w i)) /\ ~ In k (bLocks (get_b w i)).

Lemma commit_from_frame U now k is_ : NoDup is_ -> forall w, wfw w is_ ->
  (forall i, In i is_ -> forall lk, In lk (bLocks (get_b w i)) -> ~ In lk U /\ ~ In lk (bD (get_b w i))) ->
  forall i, In i is_ -> quiet w i k U -> bB (get_b (fst (commit_from U now w is_)) i) k = bB (get_b w i) k.
Proof.
  induction is_ as [|i0 is_ IH]; intros Hnd w Hw Hlk i Hin (HU & HD & HK); [destruct Hin|]. cbn [commit_from].
  inversion Hnd as [|? ? Hni Hnd']; subst. inversion Hw as [|? ? (Hi & Hn1 & Hn2) Hw']; subst.
  pose proof (backend_commit_spec U now w i0 Hi Hn1 Hn2 (Hlk i0 (or_introl eq_refl))) as B.
  pose proof (fun HD0 HK0 => backend_commit_frame U now w i0 k Hi Hn1 Hn2 HU HD0 HK0) as Fr0.
  destruct (backend_commit U now w i0) as [w1 ok1]. cbn [fst] in Fr0. destruct B as (F1 & L1 & O1 & P1 & Oth1 & K1 & Rel1).
  assert (Hw1 : wfw w1 is_).
  { unfold wfw in *. rewrite Forall_forall in *. intros j Hj. destruct (Hw' j Hj) as (A & B & C).
    assert (j <> i0) by (intro E; subst; contradiction). rewrite L1, O1, (Oth1 j H). auto. }
  destruct ok1.
  - assert (Hlk1 : forall j, In j is_ -> forall lk, In lk (bLocks (get_b w1 j)) -> ~ In lk U /\ ~ In lk (bD (get_b w1 j))).
    { intros j Hj lk Hl. assert (j <> i0) by (intro E; subst; contradiction). rewrite (Oth1 j H) in *. apply (Hlk j (or_intror Hj) lk Hl). }
    destruct Hin as [<-|Hin].
    + pose proof (commit_from_spec U now is_ Hnd' w1 Hw1 Hlk1) as C. destruct (commit_from U now w1 is_) as [w2 ok2]. cbn [fst].
      destruct C as (_ & _ & _ & _ & Oth2 & _). rewrite (Oth2 i0 Hni). apply Fr0; assumption.
    + assert (Hne : i <> i0) by (intro E; subst; contradiction).
      rewrite (IH Hnd' w1 Hw1 Hlk1 i Hin); [rewrite (Oth1 i Hne); reflexivity|]. unfold quiet. rewrite (Oth1 i Hne). auto.
  - pose proof (rollback_from_spec is_ Hnd' w1 Hw1) as Rb. destruct (rollback_from w1 is_) as [w2 ok2]. cbn [fst].
    destruct Rb as (_ & _ & _ & _ & Oth2 & Rel2).
    destruct Hin as [<-|Hin].
    + rewrite (Oth2 i0 Hni). apply Fr0; assumption.
    + assert (Hne : i <> i0) by (intro E; subst; contradiction). destruct (Rel2 i Hin) as (_ & _ & Frm).
      rewrite Frm by (rewrite (Oth1 i Hne); exact HK). rewrite (Oth1 i Hne). reflexivity.
Qed.

(* ---------- the whole block ---------- *)
Theorem block_releases md U now w used cs :
  NoDup used -> (forall i, In i used -> BI w i /\ NoDup (nth i (lorder w) [])) ->
  prog_ok (length (bks w)) cs -> (forall k, In k U -> lockish k = false) ->
  let w1 := fst (body md now w cs) in
  let '(w', exc, inside) := block md U now w used cs in
  inside = false /\
  forall i, In i used ->
    bLocks (get_b w' i) = [] /\
    forall lk, lockish lk = true ->
      bB (get_b w' i) lk = None \/ exists p, (pos w1 <= p < pos w')%nat /\ memn p (faults w) = true.
Proof.
  intros Hnd Hinit Hp HU. unfold block. cbn zeta.
  pose proof (body_bi md now cs w Hp) as B. destruct (body md now w cs) as [w1 ok]. cbn [fst]. destruct B as ((F1 & O1 & L1 & P1) & B1).
  assert (Hbi : forall i, In i used -> BI w1 i) by (intros i Hi; apply B1, Hinit, Hi).
  assert (Hw1 : wfw w1 used).
  { unfold wfw. rewrite Forall_forall. intros i Hi. destruct (Hbi i Hi) as (A & Bn & _). split; [exact A|]. split; [exact Bn|].
    rewrite O1. apply Hinit, Hi. }
  assert (Hlk : forall i, In i used -> forall lk, In lk (bLocks (get_b w1 i)) -> ~ In lk U /\ ~ In lk (bD (get_b w1 i))).
  { intros i Hi lk Hl. destruct (Hbi i Hi) as (_ & _ & C & _ & E). specialize (C lk Hl).
    split; intro H; [apply HU in H|apply E in H]; congruence. }
  destruct ok.
  - pose proof (commit_from_spec U now used Hnd w1 Hw1 Hlk) as C.
    pose proof (commit_from_frame U now) as Fr.
    destruct (commit_from U now w1 used) as [w2 ok2] eqn:Ec. destruct C as (F2 & L2 & O2 & P2 & Oth2 & Rel2).
    split; [reflexivity|]. intros i Hi. destruct (Rel2 i Hi) as [K2 R2]. split; [exact K2|].
    intros lk Hl. destruct (In_dec string_dec lk (bLocks (get_b w1 i))) as [Hin|Hnin].
    + destruct (R2 lk Hin) as [E|(p & Hp' & Hm)]; [left; exact E|right; exists p; split; [exact Hp'|rewrite <- F1; exact Hm]].
    + left. specialize (Fr lk used Hnd w1 Hw1 Hlk i Hi). rewrite Ec in Fr. cbn [fst] in Fr. rewrite Fr.
      * destruct (Hbi i Hi) as (_ & _ & _ & D & _). destruct (bB (get_b w1 i) lk) eqn:Eb; [|reflexivity].
        exfalso. apply Hnin, D; [exact Hl|congruence].
      * destruct (Hbi i Hi) as (_ & _ & _ & _ & E). repeat split; [intro H; apply HU in H; congruence|intro H; apply E in H; congruence|exact Hnin].
  - pose proof (rollback_from_spec used Hnd w1 Hw1) as Rb. destruct (rollback_from w1 used) as [w2 ok2].
    destruct Rb as (F2 & L2 & O2 & P2 & Oth2 & Rel2).
    split; [reflexivity|]. intros i Hi. destruct (Rel2 i Hi) as (K2 & R2 & Frm). split; [exact K2|].
    intros lk Hl. destruct (In_dec string_dec lk (bLocks (get_b w1 i))) as [Hin|Hnin].
    + destruct (R2 lk Hin) as [E|(p & Hp' & Hm)]; [left; exact E|right; exists p; split; [exact Hp'|rewrite <- F1; exact Hm]].
    + left. rewrite (Frm lk Hnin). destruct (Hbi i Hi) as (_ & _ & _ & D & _). destruct (bB (get_b w1 i) lk) eqn:Eb; [|reflexivity].
      exfalso. apply Hnin, D; [exact Hl|congruence].
Qed.

(* C01: the Memory model refines the TTL-map spec for every history that stays within
   capacity.  Simulation relation: pointwise equality of live lookups. *)
From Cashews Require Import Base.Prelude Base.OMap Spec.TTLMap Model.Memory.

Definition look_live (s : store) (now : Z) (k : key) : option entry :=
  match lookup s k with
  | Some (d, v) => if expired now d then None else Some (d, v)
  | None => None
  end.
Definition R (s : store) (m : tmap) (now : Z) := forall k, look_live s now k = s_look m now k.

Lemma live_expired now d : live now d = negb (expired now d).
Proof. destruct d as [d|]; cbn; [|reflexivity]. destruct (Z.ltb_spec now d), (Z.leb_spec d now); cbn; lia || reflexivity. Qed.

Lemma expired_mono now now' d : now <= now' -> expired now d = true -> expired now' d = true.
Proof. destruct d as [d|]; cbn; [|discriminate]. intros H E. apply Z.leb_le in E. apply Z.leb_le. lia. Qed.

Lemma R_time s m now now' : now <= now' -> R s m now -> R s m now'.
Proof.
  intros Hle HR k. specialize (HR k). unfold look_live, s_look in *.
  destruct (lookup s k) as [[d v]|], (m k) as [[d' v']|]; rewrite ?live_expired in *.
  - destruct (expired now d) eqn:E1, (expired now d') eqn:E2; cbn in HR.
    + rewrite (expired_mono _ _ _ Hle E1), (expired_mono _ _ _ Hle E2). reflexivity.
    + discriminate.
    + discriminate.
    + injection HR as -> ->. destruct (expired now' d'); reflexivity.
  - destruct (expired now d) eqn:E1; [|discriminate]. rewrite (expired_mono _ _ _ Hle E1). reflexivity.
  - destruct (expired now d') eqn:E2; cbn in HR; [|discriminate]. rewrite (expired_mono _ _ _ Hle E2). reflexivity.
  - reflexivity.
Qed.

(* ---------- capacity side condition: keys stay inside a set K with |K| <= size ---------- *)
Definition KInv (K : list key) (s : store) := NoDup (keys s) /\ incl (keys s) K.

Lemma KInv_remove K s k : KInv K s -> KInv K (remove s k).
Proof.
  intros [Hnd Hin]. split; rewrite keys_remove.
  - apply NoDup_filter. exact Hnd.
  - intros x Hx. apply In_filter_neqk in Hx. apply Hin. tauto.
Qed.
Lemma KInv_move K s k : KInv K s -> KInv K (move_to_end s k).
Proof.
  intros HK. unfold move_to_end. destruct (lookup s k) as [e|] eqn:E; [|exact HK].
  pose proof (KInv_remove K s k HK) as [Hnd Hin]. destruct HK as [_ Hin0].
  split; rewrite keys_app; cbn.
  - apply NoDup_snoc; [exact Hnd|]. rewrite keys_remove, In_filter_neqk. tauto.
  - intros x Hx. apply in_app_iff in Hx as [Hx|[<-|[]]]; [auto|]. apply Hin0. eapply lookup_In; eauto.
Qed.
Lemma KInv_snoc K s k e : KInv K s -> In k K -> KInv K (remove s k ++ [(k, e)]).
Proof.
  intros HK Hk. pose proof (KInv_remove K s k HK) as [Hnd Hin].
  split; rewrite keys_app; cbn.
  - apply NoDup_snoc; [exact Hnd|]. rewrite keys_remove, In_filter_neqk. tauto.
  - intros x Hx. apply in_app_iff in Hx as [Hx|[<-|[]]]; auto.
Qed.
Lemma KInv_length K s : NoDup K -> KInv K s -> (length s <= length K)%nat.
Proof.
  intros HK [Hnd Hin]. rewrite <- (map_length fst s). apply NoDup_incl_length; assumption.
Qed.

Lemma m__set_no_evict K size s now k v ttl :
  NoDup K -> (length K <= size)%nat -> KInv K s -> In k K ->
  exists d, m__set size s now k v ttl = remove s k ++ [(k, (d, v))] /\
    d = match deadline now ttl with
        | Some d => Some d
        | None => match look_live s now k with Some (d0, _) => d0 | None => None end
        end.
Proof.
  intros HK Hsz HI Hk. unfold m__set. rewrite set_shape.
  match goal with |- context [remove s k ++ [(k, (?d, v))]] => exists d end.
  split.
  - pose proof (KInv_length K _ HK (KInv_snoc K s k (None, v) HI Hk)) as Hl.
    rewrite app_length in *. cbn [length] in *.
    match goal with |- context [(size <? ?n)%nat] => destruct (Nat.ltb_spec size n) as [Hlt|]; [|reflexivity] end.
    cbn [length] in Hlt. lia.
  - unfold deadline, look_live. destruct (0 <? ttl); [reflexivity|].
    destruct (lookup s k) as [[d0 v0]|]; [|reflexivity]. destruct (expired now d0); reflexivity.
Qed.

(* ---------- lookups ---------- *)
Lemma look_live_remove s now k k' :
  look_live (remove s k) now k' = if String.eqb k' k then None else look_live s now k'.
Proof. unfold look_live. rewrite lookup_remove. destruct (String.eqb k' k); reflexivity. Qed.
Lemma look_live_move s now k k' : look_live (move_to_end s k) now k' = look_live s now k'.
Proof. unfold look_live. rewrite lookup_move. reflexivity. Qed.

Lemma live_entry_spec s now k touch :
  let '(s1, e) := live_entry s now k touch in
  e = look_live s now k /\ (forall k', look_live s1 now k' = look_live s now k').
Proof.
  unfold live_entry, look_live. destruct (lookup s k) as [[d v]|] eqn:E; cbn [fst].
  - destruct (expired now d) eqn:L.
    + split; [reflexivity|]. intro k'. rewrite lookup_remove.
      destruct touch; rewrite ?lookup_move;
        (destruct (String.eqb_spec k' k) as [->|]; [rewrite E, L; reflexivity|reflexivity]).
    + split; [reflexivity|]. intro k'. destruct touch; rewrite ?lookup_move; reflexivity.
  - split; [reflexivity|]. intro k'. reflexivity.
Qed.

Lemma live_entry_KInv K s now k touch : KInv K s -> KInv K (fst (live_entry s now k touch)).
Proof.
  intros HK. unfold live_entry. destruct (lookup s k) as [e|]; [|exact HK].
  destruct (expired now (fst e)); cbn; destruct touch; auto using KInv_remove, KInv_move.
Qed.

Lemma look_live_snoc s now k d v k' :
  look_live (remove s k ++ [(k, (d, v))]) now k' =
  if String.eqb k' k then (if expired now d then None else Some (d, v)) else look_live s now k'.
Proof.
  unfold look_live. rewrite lookup_app, lookup_remove. cbn.
  destruct (String.eqb_spec k' k) as [->|Hn]; [reflexivity|].
  match goal with |- context [match ?x with Some e => Some e | None => _ end] => destruct x as [[d1 v1]|] eqn:E end.
  - reflexivity.
  - destruct (String.eqb_spec k' k); [congruence|reflexivity].
Qed.

Lemma deadline_not_expired now ttl d : deadline now ttl = Some d -> expired now (Some d) = false.
Proof.
  unfold deadline. destruct (Z.ltb_spec 0 ttl); [|discriminate]. intros [= <-]. cbn. apply Z.leb_gt. lia.
Qed.

Lemma R_write K size s m now k v ttl :
  NoDup K -> (length K <= size)%nat -> KInv K s -> In k K ->
  R s m now -> R (m__set size s now k v ttl) (s_write m now k v ttl) now /\ KInv K (m__set size s now k v ttl).
Proof.
  intros HK Hsz HI Hk HR.
  destruct (m__set_no_evict K size s now k v ttl HK Hsz HI Hk) as (d & -> & Hd).
  split; [|apply KInv_snoc; assumption].
  intro k'. rewrite look_live_snoc. unfold s_write, s_look at 1, upd.
  destruct (String.eqb_spec k' k) as [->|Hn]; [|apply HR].
  subst d. rewrite (HR k). rewrite live_expired.
  destruct (deadline now ttl) eqn:D.
  - rewrite (deadline_not_expired _ _ _ D). reflexivity.
  - unfold s_look. destruct (m k) as [[d0 v0]|]; [|reflexivity].
    rewrite live_expired. destruct (expired now d0) eqn:L; cbn; [reflexivity|rewrite L; reflexivity].
Qed.

(* ---------- multi-key helpers ---------- *)
Lemma m_get_spec s now k :
  let '(s1, r) := m_get s now k in
  r = option_map snd (look_live s now k) /\ (forall k', look_live s1 now k' = look_live s now k').
Proof.
  unfold m_get. pose proof (live_entry_spec s now k true) as H.
  destruct (live_entry s now k true) as [s1 e]. destruct H as [-> Hv]. auto.
Qed.
Lemma m_get_KInv K s now k : KInv K s -> KInv K (fst (m_get s now k)).
Proof.
  intro HK. unfold m_get. pose proof (live_entry_KInv K s now k true HK) as H.
  destruct (live_entry s now k true); exact H.
Qed.

Lemma m_get_many_spec K m now ks : forall s, R s m now -> KInv K s ->
  let '(s1, r) := m_get_many s now ks in
  r = map (s_get m now) ks /\ R s1 m now /\ KInv K s1.
Proof.
  induction ks as [|k ks IH]; intros s HR HK; cbn [m_get_many map]; [auto|].
  pose proof (m_get_spec s now k) as Hg. pose proof (m_get_KInv K s now k HK) as HK1.
  destruct (m_get s now k) as [s1 r]. destruct Hg as [-> Hv]. cbn in HK1.
  assert (HR1 : R s1 m now) by (intro k'; rewrite Hv; apply HR).
  specialize (IH s1 HR1 HK1). destruct (m_get_many s1 now ks) as [s2 rs].
  destruct IH as (-> & HR2 & HK2). split; [|split; assumption].
  unfold s_get. rewrite (HR k). reflexivity.
Qed.

Lemma sweep_spec K m now ks : forall s, R s m now -> KInv K s ->
  R (m_sweep ks s now) m now /\ KInv K (m_sweep ks s now).
Proof.
  induction ks as [|k ks IH]; intros s HR HK; cbn [m_sweep]; [auto|].
  pose proof (m_get_spec s now k) as Hg. pose proof (m_get_KInv K s now k HK) as HK1.
  destruct (m_get s now k) as [s1 r]. destruct Hg as [_ Hv]. cbn in *.
  apply IH; [intro k'; rewrite Hv; apply HR|exact HK1].
Qed.

Lemma set_many_spec K size now ttl kvs : NoDup K -> (length K <= size)%nat ->
  forall s m, incl (map fst kvs) K -> R s m now -> KInv K s ->
  R (fold_left (fun s' kv => m__set size s' now (fst kv) (snd kv) ttl) kvs s)
    (fold_left (fun m' kv => s_write m' now (fst kv) (snd kv) ttl) kvs m) now /\
  KInv K (fold_left (fun s' kv => m__set size s' now (fst kv) (snd kv) ttl) kvs s).
Proof.
  intros HKn Hsz. induction kvs as [|[k v] kvs IH]; intros s m Hin HR HK; cbn [fold_left]; [auto|].
  assert (Hk : In k K) by (apply Hin; left; reflexivity).
  destruct (R_write K size s m now k v ttl HKn Hsz HK Hk HR) as [HR1 HK1].
  apply IH; auto. intros x Hx. apply Hin. right. exact Hx.
Qed.

Lemma del_many_spec K now ks : forall s m, R s m now -> KInv K s ->
  R (fold_left (fun s' k => remove s' k) ks s) (fold_left (fun m' k => upd m' k None) ks m) now /\
  KInv K (fold_left (fun s' k => remove s' k) ks s).
Proof.
  induction ks as [|k ks IH]; intros s m HR HK; cbn [fold_left]; [auto|].
  apply IH; [|apply KInv_remove; exact HK].
  intro k'. rewrite look_live_remove. unfold s_look, upd.
  destruct (String.eqb k' k); [reflexivity|apply HR].
Qed.

(* ---------- one step ---------- *)
Ltac use_entry s now k touch :=
  let H := fresh "Hg" in let HK1 := fresh "HK1" in
  pose proof (live_entry_spec s now k touch) as H;
  match goal with HK : KInv ?K s |- _ => pose proof (live_entry_KInv K s now k touch HK) as HK1 end;
  destruct (live_entry s now k touch) as [s1 e]; destruct H as [He Hv]; cbn [fst] in HK1.
Ltac use_get s now k :=
  let H := fresh "Hg" in let HK1 := fresh "HK1" in
  pose proof (m_get_spec s now k) as H;
  match goal with HK : KInv ?K s |- _ => pose proof (m_get_KInv K s now k HK) as HK1 end;
  destruct (m_get s now k) as [s1 r]; destruct H as [Hr Hv]; cbn [fst] in HK1.

Ltac tri := split; [|split].
Ltac viaHv Hv HR := let k' := fresh "k'" in intro k'; rewrite Hv; apply HR.

Theorem step_sim K size s m now c :
  NoDup K -> (length K <= size)%nat -> incl (cmd_keys c) K ->
  R s m now -> KInv K s ->
  let '(s', r) := m_step size s now c in
  let '(m', r') := s_step m now c in r = r' /\ R s' m' now /\ KInv K s'.
Proof.
  intros HKn Hsz Hin HR HK.
  destruct c as [k|ks|k|k v ttl ex|kvs ttl|k by_ ttl|k|ks|k ttl|k| |]; cbn [m_step s_step cmd_keys] in *.
  - (* Get *) use_get s now k. rewrite (HR k) in Hr. subst r. tri; [reflexivity|viaHv Hv HR|assumption].
  - (* GetMany *) pose proof (m_get_many_spec K m now ks s HR HK) as H.
    destruct (m_get_many s now ks) as [s1 rs]. destruct H as (-> & HR1 & HK1). tri; [reflexivity|assumption|assumption].
  - (* Exists *) use_get s now k. rewrite (HR k) in Hr. subst r. tri; [|viaHv Hv HR|assumption].
    destruct (s_look m now k); reflexivity.
  - (* Set *) assert (Hk : In k K) by (apply Hin; left; reflexivity).
    destruct ex as [b|].
    + use_entry s now k true. rewrite (HR k) in He. subst e.
      assert (HR1 : R s1 m now) by (viaHv Hv HR).
      destruct (Bool.eqb _ b).
      * destruct (R_write K size s1 m now k v ttl HKn Hsz HK1 Hk HR1). tri; [reflexivity|assumption|assumption].
      * tri; [reflexivity|assumption|assumption].
    + destruct (R_write K size s m now k v ttl HKn Hsz HK Hk HR). tri; [reflexivity|assumption|assumption].
  - (* SetMany *) destruct (set_many_spec K size now ttl kvs HKn Hsz s m Hin HR HK). tri; [reflexivity|assumption|assumption].
  - (* Incr *) assert (Hk : In k K) by (apply Hin; left; reflexivity).
    use_get s now k. rewrite (HR k) in Hr.
    assert (HR1 : R s1 m now) by (viaHv Hv HR).
    unfold s_get. rewrite <- Hr.
    destruct r as [[z| | | | | | |]|]; try (tri; [reflexivity|assumption|assumption]).
    + destruct (R_write K size s1 m now k (VInt (z + by_)) (if z + by_ =? 1 then ttl else 0) HKn Hsz HK1 Hk HR1).
      tri; [reflexivity|assumption|assumption].
    + destruct (R_write K size s1 m now k (VInt by_) (if by_ =? 1 then ttl else 0) HKn Hsz HK1 Hk HR1).
      tri; [reflexivity|assumption|assumption].
  - (* Del *) use_entry s now k false. rewrite (HR k) in He. subst e.
    assert (HR1 : R s1 m now) by (viaHv Hv HR).
    destruct (s_look m now k) eqn:E; cbn [isSome]; (tri; [reflexivity| |]); auto using KInv_remove.
    intro k'. rewrite look_live_remove. unfold s_look, upd. destruct (String.eqb k' k); [reflexivity|apply HR1].
  - (* DelMany *) destruct (del_many_spec K now ks s m HR HK). tri; [reflexivity|assumption|assumption].
  - (* Expire *) assert (Hk : In k K) by (apply Hin; left; reflexivity).
    use_entry s now k true. rewrite (HR k) in He. subst e.
    assert (HR1 : R s1 m now) by (viaHv Hv HR).
    destruct (s_look m now k) as [[d v]|]; [|tri; [reflexivity|assumption|assumption]].
    destruct (R_write K size s1 m now k v ttl HKn Hsz HK1 Hk HR1). tri; [reflexivity|assumption|assumption].
  - (* GetExpire *) use_entry s now k false. rewrite (HR k) in He. subst e.
    assert (HR1 : R s1 m now) by (viaHv Hv HR).
    destruct (s_look m now k) as [[[d|] v]|]; (tri; [reflexivity|assumption|assumption]).
  - (* Clear *) tri; [reflexivity|intro k; reflexivity|]. split; [constructor|intros x []].
  - (* Sweep *) destruct (sweep_spec K m now (keys s) s HR HK). tri; [reflexivity|assumption|assumption].
Qed.

Definition outs_m (size : nat) (s : store) (h : list (Z * cmd)) : list res := map fst (run_m size s h).

Theorem memory_refines_ttlmap K size : NoDup K -> (length K <= size)%nat ->
  forall h s m t0, Forall (fun e => incl (cmd_keys (snd e)) K) h ->
  R s m t0 -> KInv K s -> mono t0 h -> outs_m size s h = run_s m h.
Proof.
  intros HKn Hsz. induction h as [|[t c] h IH]; intros s m t0 Hks HR HK Hm; [reflexivity|].
  destruct Hm as [Hle Hm]. inversion Hks as [|? ? Hc Hks']; subst. unfold outs_m in *. cbn [run_m run_s snd] in *.
  pose proof (step_sim K size s m t c HKn Hsz Hc (R_time _ _ _ _ Hle HR) HK) as H.
  destruct (m_step size s t c) as [s' r], (s_step m t c) as [m' r']. destruct H as (-> & HR' & HK').
  cbn [map fst]. f_equal. eapply IH; eauto.
Qed.

Corollary memory_refines_from_empty K size h t0 : NoDup K -> (length K <= size)%nat ->
  Forall (fun e => incl (cmd_keys (snd e)) K) h -> mono t0 h -> outs_m size [] h = run_s empty h.
Proof.
  intros HKn Hsz Hks Hm. eapply memory_refines_ttlmap; eauto.
  - intro k. reflexivity.
  - split; [constructor|intros x []].
Qed.

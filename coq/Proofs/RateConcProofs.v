(* C15, concurrent callers of rate_limit at backend-command granularity: whatever the order in which the backend executes
   the incr / expire commands of any number of calls (an expire may be delayed past other calls' commands, past any amount
   of time, even into the next life of the counter), an admitted call is at most the limit-th admitted one since the
   counter was created. *)
From Cashews Require Import Base.Prelude Spec.TTLMap Model.Rate Proofs.StrategiesProofs Proofs.RateProofs.
Open Scope Z_scope.

Definition adm1 (a : option bool) : Z := match a with Some true => 1 | _ => 0 end.

Theorem rate_cmd_step k limit period ttl m now runs c : 0 < period -> 0 < ttl -> 0 <= limit -> RInv k limit m now runs ->
  let '(m', adm) := rate_cmd m now k limit period ttl c in
  let runs0 := if isSome (s_look m now k) then runs else 0 in
  RInv k limit m' now (runs0 + adm1 adm) /\ (adm = Some true -> runs0 + 1 <= limit).
Proof.
  intros Hp Ht Hl HI. destruct c; unfold rate_cmd.
  - unfold t_incr, s_get, RInv in *. destruct (s_look m now k) as [[d v]|] eqn:Lk; cbn [option_map snd isSome].
    + destruct d as [d|]; [|destruct v; contradiction]. destruct v as [n| | | | | | |]; try contradiction.
      destruct HI as [Hn ->].
      assert (E1 : (n + 1 =? 1) = false) by (apply Z.eqb_neq; lia). rewrite E1.
      rewrite (s_look_write_inherit m now k (VInt (n + 1)) d (VInt n) Lk).
      destruct (Z.ltb_spec limit (n + 1)); cbn [negb adm1]; (split; [split; lia|]); [discriminate|lia].
    + change (1 =? 1) with true. cbn iota. rewrite (s_look_write_pos m now k (VInt 1) period Hp).
      destruct (Z.ltb_spec limit 1); cbn [negb adm1]; (split; [split; lia|]); [discriminate|lia].
  - unfold t_expire, RInv in *. destruct (s_look m now k) as [[d v]|] eqn:Lk; cbn [isSome adm1].
    + rewrite s_look_write_pos by exact Ht. destruct d as [d|]; [|destruct v; contradiction].
      destruct v as [n| | | | | | |]; try contradiction. split; [|discriminate]. destruct HI as [Hn ->]. split; lia.
    + rewrite Lk. split; [exact I|discriminate].
Qed.

Fixpoint rmono (t0 : Z) (h : list (Z * rcmd)) : Prop := match h with [] => True | (t, _) :: r => t0 <= t /\ rmono t r end.
(* every admitted command of the history was admitted with fewer than `limit` admitted before it in the counter's life *)
Fixpoint rate_hist (k : key) (limit period ttl : Z) (m : tmap) (runs : Z) (h : list (Z * rcmd)) : Prop :=
  match h with
  | [] => True
  | (t, c) :: r =>
      let runs0 := if isSome (s_look m t k) then runs else 0 in
      (snd (rate_cmd m t k limit period ttl c) = Some true -> runs0 < limit) /\
      rate_hist k limit period ttl (fst (rate_cmd m t k limit period ttl c)) (runs0 + adm1 (snd (rate_cmd m t k limit period ttl c))) r
  end.

Theorem rate_conc k limit period ttl : 0 < period -> 0 < ttl -> 0 <= limit ->
  forall h m t0 runs, rmono t0 h -> RInv k limit m t0 runs -> rate_hist k limit period ttl m runs h.
Proof.
  intros Hp Ht Hl. induction h as [|[t c] h IH]; intros m t0 runs Hm HI; cbn [rate_hist]; [exact I|].
  destruct Hm as [Hle Hm]. pose proof (RInv_time k limit m t0 t runs Hle HI) as HI'.
  pose proof (rate_cmd_step k limit period ttl m t runs c Hp Ht Hl HI') as S.
  destruct (rate_cmd m t k limit period ttl c) as [m' adm]. cbn [fst snd]. cbv zeta in S. destruct S as [S1 S2].
  split; [intro E; specialize (S2 E); lia|]. eapply IH; [exact Hm|exact S1].
Qed.

(* Shared case type and runs for C03 / C04 / (sequential part of) C16: one transaction on one backend. *)
From Cashews Require Import Base.Prelude Spec.TTLMap Model.Tags Model.Txn.
Open Scope string_scope.
Open Scope list_scope.
Open Scope Z_scope.

Inductive ending := ECommit | ERollback | ERaise.
(* what an outside observer sees of a key: value and deadline (None = no entry / not alive) *)
Definition snap := list (option (val * option Z)).
Inductive case :=
| CTxn (U : list key) (t0 : Z) (init : list (key * val * Z))          (* initial store: written at t0 with ttl *)
       (h : list (Z * tcmd)) (e : ending) (tend : Z)
       (res : list tres)                                               (* results seen inside the transaction *)
       (outside : list snap)                                           (* outside view after each in-transaction command *)
       (final : snap).                                                 (* store after the block *)

Definition init_store (t0 : Z) (init : list (key * val * Z)) : tmap :=
  fold_left (fun m e => let '(k, v, ttl) := e in s_write m t0 k v ttl) init empty.
Definition snapshot (U : list key) (m : tmap) (now : Z) : snap :=
  map (fun k => match s_look m now k with Some (d, v) => Some (v, d) | None => None end) U.

Fixpoint run_tx (U : list key) (t : txn) (h : list (Z * tcmd)) : txn * list tres * list snap :=
  match h with
  | [] => (t, [], [])
  | (now, c) :: r => let '(t1, o) := tx_step U t now c in
                     let '(t2, os, ss) := run_tx U t1 r in (t2, o :: os, snapshot U (tB t1) now :: ss)
  end.
Definition finish (U : list key) (t : txn) (e : ending) (tend : Z) : tmap :=
  match e with ECommit => tx_commit U t tend | _ => tx_rollback t end.

(* the same commands applied directly to a copy of the store *)
Definition d_step (U : list key) (m : tmap) (now : Z) (c : tcmd) : tmap * tres :=
  match c with
  | TC c0 => let '(m', r) := s_step m now c0 in (m', TR r)
  | TDelMatch p => (fold_left (fun m' k => if matches p k && isSome (s_look m now k) then upd m' k None else m') U m, TR RUnit)
  | TScan p => (m, TKeys (filter (fun k => matches p k && isSome (s_look m now k)) U))
  | TGetMatch p => (m, TPairs (flat_map (fun k => if matches p k then match s_get m now k with Some v => [(k, v)] | None => [] end else []) U))
  end.
Fixpoint run_direct (U : list key) (m : tmap) (h : list (Z * tcmd)) : tmap * list tres :=
  match h with
  | [] => (m, [])
  | (now, c) :: r => let '(m1, o) := d_step U m now c in let '(m2, os) := run_direct U m1 r in (m2, o :: os)
  end.

(* ---------- comparisons ---------- *)
Definition ovd_eqb (a b : option (val * option Z)) : bool :=
  option_eqb (fun x y => val_eqb (fst x) (fst y) && option_eqb Z.eqb (snd x) (snd y)) a b.
Definition snap_eqb := list_eqb ovd_eqb.
Definition values_eqb (a b : snap) : bool :=          (* liveness and value only *)
  list_eqb (option_eqb (fun x y => val_eqb (fst x) (fst y))) a b.
Definition sub_keys (a b : list key) := forallb (fun x => mems x b) a.
Definition kv_eqb (a b : key * val) := String.eqb (fst a) (fst b) && val_eqb (snd a) (snd b).
Definition sub_kvs (a b : list (key * val)) := forallb (fun x => existsb (kv_eqb x) b) a.
(* exact result equality (model vs implementation); scans as sets *)
Definition tres_eqb (a b : tres) : bool :=
  match a, b with
  | TR x, TR y => res_eqb x y
  | TKeys x, TKeys y => sub_keys x y && sub_keys y x && (length x =? length y)%nat
  | TPairs x, TPairs y => sub_kvs x y && sub_kvs y x && (length x =? length y)%nat
  | _, _ => false
  end.
(* C04's comparison with direct execution: delete's boolean is not compared, get_expire only as missing / not missing *)
Definition tres_like (c : tcmd) (tx direct : tres) : bool :=
  match c, tx, direct with
  | TC (Del _), _, _ => true
  | TC (GetExpire _), TR (RInt x), TR (RInt y) => Bool.eqb (x =? -2) (y =? -2)
  | _, _, _ => tres_eqb tx direct
  end.

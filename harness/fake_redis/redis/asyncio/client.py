import asyncio as _aio

from ..exceptions import ConnectionError, ResponseError  # noqa: A004
from ..server import INVALIDATE_CHAN, _s
from .connection import ConnectionPool


def _reply(cmd, r):
    """redis-py's response callbacks for the commands used"""
    c = cmd.upper()
    if c == "SET": return None if r is None else True
    if c in ("PEXPIRE",): return bool(r)
    if c == "PING": return True if r == b"PONG" else r
    if c == "SCAN": return int(r[0]), r[1]
    if c == "FLUSHDB": return True
    if c == "SCRIPT LOAD": return r.decode()
    return r


class Redis:
    response_callbacks = {}

    def __init__(self, connection_pool=None, **kwargs):
        self.connection_pool = connection_pool or ConnectionPool(**kwargs)
        self.response_callbacks = {}

    @classmethod
    def from_pool(cls, connection_pool):
        return cls(connection_pool=connection_pool)

    @classmethod
    def from_url(cls, url, **kwargs):
        return cls(connection_pool=ConnectionPool.from_url(url, **kwargs))

    @property
    def _server(self):
        return self.connection_pool.server

    async def initialize(self):
        if self._server.down:
            raise ConnectionError("cannot connect")
        return self

    async def __aenter__(self):
        return await self.initialize()

    async def __aexit__(self, *a):
        await self.close()

    async def close(self, close_connection_pool=None):
        return None
    aclose = close

    async def execute_command(self, *args, **options):
        name = args[0] if isinstance(args[0], str) else _s(args[0])
        parts = name.split(" ")
        flat = tuple(parts) + tuple(args[1:]) if len(parts) > 1 and parts[0].upper() in ("MEMORY", "SCRIPT") else args
        if len(parts) > 1 and parts[0].upper() in ("MEMORY", "SCRIPT"):
            r = self._server.execute(name, *args[1:])
        else:
            r = self._server.execute(*flat)
        return _reply(name, r)

    # ---- command methods: assemble the argument tuple as redis-py does ------------------
    def set(self, name, value, ex=None, px=None, nx=False, xx=False, keepttl=False, get=False, exat=None, pxat=None):
        pieces = [name, value]
        if ex is not None: pieces += ["EX", ex]
        if px is not None: pieces += ["PX", px]
        if nx: pieces.append("NX")
        if xx: pieces.append("XX")
        if keepttl: pieces.append("KEEPTTL")
        return self.execute_command("SET", *pieces)

    def get(self, name): return self.execute_command("GET", name)
    def mget(self, keys, *args):
        ks = list(keys) if isinstance(keys, (list, tuple)) else [keys]
        return self.execute_command("MGET", *ks, *args)
    def unlink(self, *names): return self.execute_command("UNLINK", *names)
    def delete(self, *names): return self.execute_command("DEL", *names)
    def exists(self, *names): return self.execute_command("EXISTS", *names)
    def scan(self, cursor=0, match=None, count=None, _type=None):
        pieces = [cursor]
        if match is not None: pieces += ["MATCH", match]
        if count is not None: pieces += ["COUNT", count]
        return self.execute_command("SCAN", *pieces)
    def pexpire(self, name, time, nx=False, xx=False, gt=False, lt=False): return self.execute_command("PEXPIRE", name, time)
    def ttl(self, name): return self.execute_command("TTL", name)
    def incr(self, name, amount=1): return self.execute_command("INCRBY", name, amount)
    incrby = incr
    def script_load(self, script): return self.execute_command("SCRIPT LOAD", script)
    def evalsha(self, sha, numkeys, *keys_and_args): return self.execute_command("EVALSHA", sha, numkeys, *keys_and_args)
    def ping(self, **kwargs): return self.execute_command("PING", **kwargs)
    def sadd(self, name, *values): return self.execute_command("SADD", name, *values)
    def srem(self, name, *values): return self.execute_command("SREM", name, *values)
    def spop(self, name, count=None):
        return self.execute_command("SPOP", name, *([count] if count is not None else []))
    def dbsize(self, **kwargs): return self.execute_command("DBSIZE", **kwargs)
    def flushdb(self, asynchronous=False, **kwargs): return self.execute_command("FLUSHDB", **kwargs)
    def memory_usage(self, key, samples=None, **kwargs): return self.execute_command("MEMORY USAGE", key, **kwargs)
    def bitfield(self, key, default_overflow=None): return BitFieldOperation(self, key, default_overflow)
    def pubsub(self, **kwargs): return PubSub(self.connection_pool)
    def pipeline(self, transaction=True, shard_hint=None):
        return Pipeline(self.connection_pool, self.response_callbacks, transaction, shard_hint)


class BitFieldOperation:
    def __init__(self, client, key, default_overflow=None):
        self.client, self.key, self.ops, self._last_overflow = client, key, [], "WRAP"
        if default_overflow: self.overflow(default_overflow)

    def overflow(self, overflow):
        overflow = overflow.upper()
        if overflow != self._last_overflow:
            self._last_overflow = overflow
            self.ops.append(("OVERFLOW", overflow))
        return self

    def incrby(self, fmt, offset, increment, overflow=None):
        if overflow is not None: self.overflow(overflow)
        self.ops.append(("INCRBY", fmt, offset, increment)); return self

    def get(self, fmt, offset):
        self.ops.append(("GET", fmt, offset)); return self

    def set(self, fmt, offset, value):
        self.ops.append(("SET", fmt, offset, value)); return self

    @property
    def command(self):
        cmd = ["BITFIELD", self.key]
        for op in self.ops: cmd.extend(op)
        return cmd

    def execute(self):
        cmd = self.command
        self.ops, self._last_overflow = [], "WRAP"
        return self.client.execute_command(*cmd)


class Pipeline(Redis):
    def __init__(self, connection_pool, response_callbacks, transaction, shard_hint):
        self.connection_pool = connection_pool
        self.response_callbacks = response_callbacks
        self.transaction, self.shard_hint = transaction, shard_hint
        self.command_stack = []

    async def __aenter__(self): return self
    async def __aexit__(self, *a): self.command_stack = []
    def __await__(self): return self._self().__await__()
    async def _self(self): return self

    def execute_command(self, *args, **options):
        self.command_stack.append(args)
        return self

    async def execute(self, raise_on_error=True):
        stack, self.command_stack = self.command_stack, []
        if not stack: return []
        srv = self.connection_pool.server
        if srv.down:
            raise (getattr(srv, "down_exc", None) or ConnectionError)("server is down")
        out = []
        srv.begin()            # MULTI ... EXEC: one cycle of the server
        try:
            for args in stack:
                try:
                    out.append(_reply(args[0], srv.execute(*args)))
                except ResponseError as e:
                    if raise_on_error: raise
                    out.append(e)
        finally:
            srv.end()
        return out


class PubSub:
    """the dedicated connection cashews uses for CLIENT TRACKING ... REDIRECT + the invalidation channel"""

    def __init__(self, connection_pool):
        self.pool = connection_pool
        self.server = connection_pool.server
        self.queue, self.replies = [], []
        self.event = _aio.Event()
        self.broken = False
        self.client_id = None
        self.subscribed = False

    def push(self, msg):
        if self.subscribed:
            self.queue.append(msg); self.event.set()

    def wake(self): self.event.set()

    def _check(self):
        if self.broken or self.server.down:
            self.broken = True
            self.server.trackers = [t for t in self.server.trackers if t[0] is not self]
            raise ConnectionError("Connection closed by server.")

    async def execute_command(self, *args):
        self._check()
        words = [_s(a).upper() for a in args]
        if words[:2] == ["CLIENT", "ID"]:
            self.client_id = self.client_id or self.server.client_id()
            self.replies.append(self.client_id)
        elif words[:3] == ["CLIENT", "TRACKING", "ON"]:
            prefix = ""
            if "PREFIX" in words: prefix = _s(args[words.index("PREFIX") + 1])
            if "BCAST" not in words: raise ResponseError("only BCAST tracking is modelled")
            self.server.trackers.append((self, prefix))
            self.replies.append(b"OK")
        else:
            raise ResponseError(f"pubsub connection: command {words} outside the modelled server")

    async def parse_response(self, block=True, timeout=0):
        self._check()
        return self.replies.pop(0)

    async def subscribe(self, *channels):
        self._check()
        self.subscribed = True
        self.queue.append({"type": "subscribe", "pattern": None, "channel": INVALIDATE_CHAN, "data": 1})

    async def get_message(self, ignore_subscribe_messages=False, timeout=0.0):
        self._check()
        while True:
            while self.queue:
                m = self.queue.pop(0)
                if m["type"] == "subscribe" and ignore_subscribe_messages: continue
                return m
            self.event.clear()
            if not timeout: return None
            try:
                await _aio.wait_for(self.event.wait(), timeout)
            except _aio.TimeoutError:
                return None
            self._check()

    async def close(self): self.broken = True
    aclose = close

From Coq Require Import FunctionalExtensionality.
From Cashews Require Import Base.Prelude Spec.Glob Model.Redis Spec.RedisRef Proofs.RedisProofs Model.ClientSide.
Open Scope Z_scope.

(* what a read of key k gets from the server *)
Definition sval (s : server) (t : Z) (k : key) : option val := match c_get s t k with Bulk v => transform v | _ => None end.

Lemma sval_look s s' t t' k : look s t k = look s' t' k -> sval s t k = sval s' t' k.
Proof. unfold sval, c_get. intros ->. reflexivity. Qed.

Lemma look_supd_other s t k k0 e : k <> k0 -> look (supd s k0 e) t k = look s t k.
Proof. intro H. unfold look, supd. destruct (String.eqb_spec k k0); [contradiction|reflexivity]. Qed.

Lemma look_drop s t ks k : look (drop s t ks) t k = if existsb (String.eqb k) ks then None else look s t k.
Proof.
  unfold drop. revert s. induction ks as [|k0 ks IH]; intro s; cbn [fold_left existsb]; [reflexivity|].
  rewrite IH. destruct (String.eqb_spec k k0) as [->|Hne]; cbn.
  - destruct (existsb (String.eqb k0) ks); [reflexivity|]. unfold present. destruct (look s t k0) eqn:L; cbn.
    + unfold look. rewrite supd_same. reflexivity.
    + exact L.
  - destruct (existsb (String.eqb k) ks); [reflexivity|]. destruct (present s t k0); [apply look_supd_other; assumption|reflexivity].
Qed.

Lemma look_drop_absent s t ks k : look s t k = None -> look (drop s t ks) t k = None.
Proof. intro H. rewrite look_drop. destruct (existsb (String.eqb k) ks); [reflexivity|exact H]. Qed.

Lemma in_live_keys s t ks k : In k (live_keys s t ks) <-> In k ks /\ look s t k <> None.
Proof.
  unfold live_keys. rewrite filter_In. split; intros [H1 H2]; split; try assumption.
  - destruct (look s t k); [discriminate|discriminate].
  - destruct (look s t k); [reflexivity|contradiction].
Qed.

Lemma existsb_eqb_in k ks : existsb (String.eqb k) ks = true <-> In k ks.
Proof.
  rewrite existsb_exists. split.
  - intros (x & Hx & E). apply String.eqb_eq in E. subst. exact Hx.
  - intro H. exists k. split; [exact H|apply String.eqb_refl].
Qed.

(* the server frame: a command changes nothing at the keys it does not announce *)
Lemma frame_drop s t ks k : ~ In k (live_keys s t ks) -> look (drop s t ks) t k = look s t k.
Proof.
  intro H. rewrite look_drop. destruct (existsb (String.eqb k) ks) eqn:E; [|reflexivity].
  apply existsb_eqb_in in E. destruct (look s t k) eqn:L; [|reflexivity].
  exfalso. apply H. apply in_live_keys. split; [exact E|rewrite L; discriminate].
Qed.

Lemma fold_supd_other now ttl kvs : forall s k, ~ In k (map fst kvs) ->
  look (fold_left (fun m' (kv : key * val) => supd m' (fst kv) (Some (enc (snd kv), deadline now ttl))) kvs s) now k = look s now k.
Proof.
  induction kvs as [|kv kvs IH]; intros s k H; cbn [fold_left]; [reflexivity|].
  cbn in H. rewrite IH by tauto. apply look_supd_other. intro E. apply H. left. symmetry. exact E.
Qed.

(* ---------- the invalidation loop ---------- *)
Fixpoint countk (k : key) (q : list msg) : nat :=
  match q with [] => O | MKey k' :: r => (if String.eqb k' k then 1 else 0) + countk k r | MFlush :: r => countk k r end.
Definition has_flush (q : list msg) : bool := existsb (fun m => match m with MFlush => true | _ => false end) q.

Definition coherent_at (s : server) (t : Z) (c : client) (k : key) : Prop :=
  match llook c t k with
  | Some (LV v, _) => sval s t k = Some v
  | Some (LA, _) => sval s t k = None
  | None => True
  end.

(* a client with pending messages q: every live mark still has its echo ahead, and wherever no message (other than the
   echo of a marked key) is ahead the local copy is right *)
Definition P (s : server) (t : Z) (c : client) (q : list msg) : Prop :=
  forall k, (marked c t k = true -> (1 <= countk k q)%nat) /\
            (countk k q = (if marked c t k then 1 else 0)%nat -> has_flush q = false -> coherent_at s t c k).

Lemma llook_with_marks c m t k : llook (with_marks c m) t k = llook c t k.
Proof. reflexivity. Qed.

Lemma process_P s t c m q : P s t c (m :: q) -> P s t (process t c m) q.
Proof.
  intros H k. destruct (H k) as [Ha Hb]. destruct m as [k0|]; cbn [process].
  - destruct (marked c t k0) eqn:M0.
    + (* our own echo *)
      destruct (String.eqb_spec k0 k) as [->|Hne].
      * assert (Mk : marked (with_marks c (kupd (marks c) k None)) t k = false).
        { unfold marked, with_marks. cbn [marks]. unfold kupd. rewrite String.eqb_refl. reflexivity. }
        rewrite Mk. split; [discriminate|].
        intros Hc Hf. unfold coherent_at. rewrite llook_with_marks. apply Hb.
        -- cbn [countk]. rewrite String.eqb_refl, M0, Hc. reflexivity.
        -- exact Hf.
      * assert (Mk : marked (with_marks c (kupd (marks c) k0 None)) t k = marked c t k).
        { unfold marked, with_marks. cbn [marks]. unfold kupd. destruct (String.eqb_spec k k0); [congruence|reflexivity]. }
        rewrite Mk. cbn [countk] in Ha, Hb. destruct (String.eqb_spec k0 k); [contradiction|]. split; [exact Ha|].
        intros Hc Hf. unfold coherent_at. rewrite llook_with_marks. apply Hb; assumption.
    + (* somebody else's change: drop the local entry *)
      assert (Mk : forall k', marked (with_local c (kupd (local c) k0 None)) t k' = marked c t k') by reflexivity.
      rewrite Mk. cbn [countk] in Ha, Hb. destruct (String.eqb_spec k0 k) as [->|Hne].
      * rewrite M0 in *. split; [discriminate|]. intros _ _. unfold coherent_at, llook, with_local. cbn [local]. unfold kupd. rewrite String.eqb_refl. exact I.
      * split; [exact Ha|]. intros Hc Hf.
        assert (L : llook (with_local c (kupd (local c) k0 None)) t k = llook c t k).
        { unfold llook, with_local. cbn [local]. unfold kupd. destruct (String.eqb_spec k k0); [congruence|reflexivity]. }
        unfold coherent_at. rewrite L. apply Hb; assumption.
  - (* flush *)
    assert (Mk : forall k', marked (with_local c (fun _ => None)) t k' = marked c t k') by reflexivity.
    rewrite Mk. cbn [countk] in Ha. split; [exact Ha|]. intros _ _. unfold coherent_at. cbn. exact I.
Qed.

Lemma deliver_P s t : forall q c, P s t c q ->
  let c' := fold_left (process t) q c in
  forall k, marked c' t k = false /\ coherent_at s t c' k.
Proof.
  induction q as [|m q IH]; intros c H; cbn [fold_left].
  - intro k. destruct (H k) as [Ha Hb]. destruct (marked c t k) eqn:M.
    + specialize (Ha eq_refl). cbn in Ha. lia.
    + split; [reflexivity|]. apply Hb; reflexivity.
  - apply IH. apply process_P. exact H.
Qed.

Lemma process_started t c m : started (process t c m) = started c.
Proof. destruct m as [k|]; cbn; [destruct (marked c t k)|]; reflexivity. Qed.
Lemma fold_process_started t q : forall c, started (fold_left (process t) q c) = started c.
Proof. induction q as [|m q IH]; intro c; cbn; [reflexivity|]. rewrite IH. apply process_started. Qed.
Lemma process_reconnect t c m : reconnect (process t c m) = reconnect c.
Proof. destruct m as [k|]; cbn; [destruct (marked c t k)|]; reflexivity. Qed.

(* ---------- quiescent states and what one event does to them ---------- *)
Definition Q (g : cfg) : Prop :=
  forall i, let c := clients g i in
    queue c = [] /\ (started c = true -> forall k, marked c (now g) k = false /\ coherent_at (srv g) (now g) c k).
Definition R (g : cfg) : Prop :=
  forall i, let c := clients g i in
    (started c = true -> P (srv g) (now g) c (queue c)) /\ (started c = false -> queue c = []).

Lemma deliver_R_Q U g : R g -> Q (fst (step U g Deliver)).
Proof.
  intros H i. cbn. unfold deliver_one. cbn [queue started]. split; [reflexivity|].
  rewrite fold_process_started. intros St k. destruct (H i) as [Hp _]. specialize (Hp St).
  pose proof (deliver_P (srv g) (now g) _ _ Hp k) as [M C]. split.
  - exact M.
  - unfold coherent_at, llook in *. cbn [local]. exact C.
Qed.

Lemma up_get U s t k : snd (up_step true U s t (CGet k)) = BVal (sval s t k).
Proof. cbn. unfold sval. destruct (c_get s t k); reflexivity. Qed.
Lemma transform_enc v : transform (enc v) = Some v.
Proof. destruct v; reflexivity. Qed.
Lemma is_str_enc v : is_str (enc v) = true.
Proof. destruct v; reflexivity. Qed.
Lemma sval_supd_same s t k rv d : (forall d0, d = Some d0 -> t < d0) -> is_str rv = true -> sval (supd s k (Some (rv, d))) t k = transform rv.
Proof.
  intros Hd Hs. unfold sval, c_get. rewrite look_supd_same. destruct d as [d0|].
  - specialize (Hd d0 eq_refl). destruct (Z.leb_spec d0 t); [lia|]. rewrite Hs. reflexivity.
  - rewrite Hs. reflexivity.
Qed.
Lemma sval_supd_none s t k : sval (supd s k None) t k = None.
Proof. unfold sval, c_get, look. rewrite supd_same. reflexivity. Qed.
Lemma sval_supd_other s t k k0 e : k <> k0 -> sval (supd s k0 e) t k = sval s t k.
Proof. intro H. apply sval_look. apply look_supd_other. exact H. Qed.

Lemma countk_map_none k E : ~ In k E -> countk k (map MKey E) = O.
Proof.
  induction E as [|e E IH]; cbn; [reflexivity|]. intro H. destruct (String.eqb_spec e k) as [->|]; [exfalso; apply H; left; reflexivity|].
  apply IH. intro Hin. apply H. right. exact Hin.
Qed.
Lemma countk_map_in k E : In k E -> (1 <= countk k (map MKey E))%nat.
Proof.
  induction E as [|e E IH]; cbn; [contradiction|]. intros [->|H]; [rewrite String.eqb_refl; lia|]. specialize (IH H). lia.
Qed.
Lemma no_flush_map E : has_flush (map MKey E) = false.
Proof. induction E; cbn; [reflexivity|assumption]. Qed.

(* a client that did not act: its marks (none) and local copy are as before; the server may have changed only where announced *)
Lemma P_bystander s s' t c E :
  (forall k, marked c t k = false /\ coherent_at s t c k) ->
  (forall k, ~ In k E -> sval s' t k = sval s t k) ->
  P s' t c (map MKey E).
Proof.
  intros Hq Hf k. destruct (Hq k) as [M C]. rewrite M. split; [discriminate|].
  intros Hc _. assert (Hn : ~ In k E) by (intro Hin; apply countk_map_in in Hin; lia).
  unfold coherent_at in *. rewrite (Hf k Hn). exact C.
Qed.
Lemma P_flush s' t c : (forall k, marked c t k = false) -> P s' t c [MFlush].
Proof. intros M k. rewrite M. split; [discriminate|]. intros _ F. discriminate. Qed.

Lemma Q_started_facts g i : Q g -> started (clients g i) = true ->
  forall k, marked (clients g i) (now g) k = false /\ coherent_at (srv g) (now g) (clients g i) k.
Proof. intros H St. destruct (H i) as [_ H2]. exact (H2 St). Qed.

Lemma P_push s t c ms q : P s t (push c ms) q <-> P s t c q.
Proof. unfold P, coherent_at, marked, llook, push. cbn [marks local]. tauto. Qed.

Lemma R_after_cmd g i (cl' : client) (s' : server) (E : list key) :
  Q g ->
  started cl' = started (clients g i) -> queue cl' = [] ->
  (forall k, ~ In k E -> sval s' (now g) k = sval (srv g) (now g) k) ->
  (started cl' = true -> P s' (now g) cl' (map MKey E)) ->
  R {| srv := s'; now := now g; clients := broadcast (cupd (clients g) i cl') (map MKey E); nclients := nclients g |}.
Proof.
  intros HQ Hst Hq Hf Hp j. cbn [clients srv now]. unfold broadcast, cupd. destruct (Nat.eqb_spec j i) as [->|Hne].
  - split.
    + intro St. cbn [push started] in St. apply P_push. cbn [push queue]. rewrite St, Hq. cbn [app]. apply Hp. exact St.
    + intro St. cbn [push started] in St. cbn [push queue]. rewrite St. exact Hq.
  - destruct (HQ j) as [Qq Qs]. split.
    + intro St. cbn [push started] in St. apply P_push. cbn [push queue]. rewrite St, Qq. cbn [app].
      eapply P_bystander; [exact (Qs St)|exact Hf].
    + intro St. cbn [push started] in St. cbn [push queue]. rewrite St. exact Qq.
Qed.

Lemma R_after_local g i (cl' : client) :
  Q g -> started cl' = started (clients g i) -> queue cl' = [] ->
  (started cl' = true -> forall k, marked cl' (now g) k = false /\ coherent_at (srv g) (now g) cl' k) ->
  R {| srv := srv g; now := now g; clients := cupd (clients g) i cl'; nclients := nclients g |}.
Proof.
  intros HQ Hst Hq Hc j. cbn [clients srv now]. unfold cupd. destruct (Nat.eqb_spec j i) as [->|Hne].
  - split; [|intros _; exact Hq]. intro St. rewrite Hq. intro k. destruct (Hc St k) as [M C]. rewrite M. split; [discriminate|]. intros _ _. exact C.
  - destruct (HQ j) as [Qq Qs]. split; [|intros _; exact Qq]. intro St. rewrite Qq. intro k. destruct (Qs St k) as [M C]. rewrite M.
    split; [discriminate|]. intros _ _. exact C.
Qed.

Lemma Q_R g : Q g -> R g.
Proof.
  intros HQ j. destruct (HQ j) as [Qq Qs]. split; [|intros _; exact Qq]. intro St. rewrite Qq. intro k. destruct (Qs St k) as [M C]. rewrite M.
  split; [discriminate|]. intros _ _. exact C.
Qed.

(* local writes *)
Lemma llook_lwrite_same c t k x ttl : exists d, llook (with_local c (lwrite c t k x ttl)) t k = Some (x, d).
Proof.
  unfold llook, with_local, lwrite. cbn [local]. unfold kupd. rewrite String.eqb_refl.
  destruct (Z.ltb_spec 0 ttl).
  - destruct (Z.leb_spec (t + ttl) t); [lia|]. eauto.
  - fold (llook c t k). destruct (llook c t k) as [[x0 [d0|]]|] eqn:L; eauto.
    unfold llook in L. destruct (local c k) as [[x1 [d1|]]|]; try discriminate.
    destruct (Z.leb_spec d1 t); [discriminate|]. injection L as _ <-. destruct (Z.leb_spec d1 t); [lia|]. eauto.
Qed.
Lemma llook_kupd_other (l : key -> option lval) c t k k0 e :
  k <> k0 -> llook (with_local c (kupd l k0 e)) t k = match l k with Some (x, Some d) => if d <=? t then None else Some (x, Some d) | y => y end.
Proof. intro H. unfold llook, with_local. cbn [local]. unfold kupd. destruct (String.eqb_spec k k0); [contradiction|reflexivity]. Qed.
Lemma llook_lwrite_other c t k k0 x ttl : k <> k0 -> llook (with_local c (lwrite c t k0 x ttl)) t k = llook c t k.
Proof. intro H. unfold lwrite. rewrite llook_kupd_other by assumption. reflexivity. Qed.

Lemma coherent_other s t c cl' k : llook cl' t k = llook c t k -> coherent_at s t c k -> coherent_at s t cl' k.
Proof. unfold coherent_at. intros ->. auto. Qed.

(* read-through leaves the client right at the key it read and as before elsewhere *)
Lemma read_through_facts U s t c k :
  let '(c', r) := read_through U s t c k in
  r = sval s t k /\ started c' = started c /\ queue c' = queue c /\ marks c' = marks c /\
  coherent_at s t c' k /\ (forall k', k' <> k -> llook c' t k' = llook c t k').
Proof.
  unfold read_through. rewrite up_get. destruct (sval s t k) as [v|] eqn:Sv.
  - repeat split; try reflexivity.
    + unfold coherent_at. destruct (llook_lwrite_same c t k (LV v) 0) as (d & ->). exact Sv.
    + intros k' Hne. apply llook_lwrite_other. exact Hne.
  - repeat split; try reflexivity.
    + unfold coherent_at. destruct (llook_lwrite_same c t k LA 0) as (d & ->). exact Sv.
    + intros k' Hne. apply llook_lwrite_other. exact Hne.
Qed.

Lemma R_get U g i k : Q g -> R (fst (cmd_step U g i (KGet k))).
Proof.
  intro HQ. cbn [cmd_step]. destruct (local_read (clients g i) (now g) k) as [r|]; [apply Q_R; exact HQ|].
  pose proof (read_through_facts U (srv g) (now g) (clients g i) k) as F.
  destruct (read_through U (srv g) (now g) (clients g i) k) as [cl' r]. destruct F as (_ & St & Qu & Mk & Ck & Oth). cbn [fst].
  apply R_after_local; [exact HQ|exact St| |].
  - rewrite Qu. apply (HQ i).
  - intros St' k'. rewrite St in St'. destruct (Q_started_facts g i HQ St' k') as [M C]. split.
    + unfold marked. rewrite Mk. exact M.
    + destruct (string_dec k' k) as [->|Hne]; [exact Ck|]. eapply coherent_other; [apply Oth; exact Hne|exact C].
Qed.

Lemma R_exists U g i k : Q g -> R (fst (cmd_step U g i (KExists k))).
Proof. intro HQ. cbn [cmd_step]. destruct (local_read _ _ _) as [[v|]|]; apply Q_R; exact HQ. Qed.

Lemma R_getmany U g i ks : Q g -> R (fst (cmd_step U g i (KGetMany ks))).
Proof.
  intro HQ. cbn [cmd_step].
  set (cl := clients g i). set (s := srv g). set (t := now g).
  assert (G : forall ks (c0 : client) (out : list (option val)),
             started c0 = started cl -> queue c0 = [] -> marks c0 = marks cl ->
             (started cl = true -> forall k, coherent_at s t c0 k) ->
             let '(c1, _) := fold_left (fun (acc : client * list (option val)) k =>
                                     let '(c0, out) := acc in
                                     match local_read cl t k with
                                     | Some r => (c0, out ++ [r])
                                     | None => let '(c1, r) := read_through U s t c0 k in (c1, out ++ [r])
                                     end) ks (c0, out) in
             started c1 = started cl /\ queue c1 = [] /\ marks c1 = marks cl /\ (started cl = true -> forall k, coherent_at s t c1 k)).
  { clear ks. induction ks as [|k ks IH]; intros c0 out St Qu Mk Co; cbn [fold_left]; [repeat split; assumption|].
    destruct (local_read cl t k) as [r|]; [apply IH; assumption|].
    pose proof (read_through_facts U s t c0 k) as F. destruct (read_through U s t c0 k) as [c1 r].
    destruct F as (_ & St1 & Qu1 & Mk1 & Ck & Oth). apply IH; try congruence.
    intros Stt k'. destruct (string_dec k' k) as [->|Hne]; [exact Ck|]. eapply coherent_other; [apply Oth; exact Hne|apply Co; exact Stt]. }
  specialize (G ks cl [] eq_refl (proj1 (HQ i)) eq_refl (fun St k => proj2 (Q_started_facts g i HQ St k))).
  destruct (fold_left _ ks (cl, [])) as [cl' rs]. destruct G as (St & Qu & Mk & Co). cbn [fst].
  apply R_after_local; [exact HQ|exact St|exact Qu|].
  intros St' k. rewrite St in St'. split; [|apply Co; exact St'].
  unfold marked. rewrite Mk. apply (Q_started_facts g i HQ St' k).
Qed.

(* the acting client touched one key k0 (local copy and / or mark); the server announces at most k0 *)
Lemma P_writer_one s s' t cl cl' k0 E :
  (forall k, marked cl t k = false /\ coherent_at s t cl k) ->
  (forall k, k <> k0 -> llook cl' t k = llook cl t k /\ marked cl' t k = marked cl t k) ->
  (forall k, ~ In k E -> sval s' t k = sval s t k) ->
  (forall k, In k E -> k = k0) ->
  (marked cl' t k0 = true -> In k0 E) ->
  (countk k0 (map MKey E) = (if marked cl' t k0 then 1 else 0)%nat -> coherent_at s' t cl' k0) ->
  P s' t cl' (map MKey E).
Proof.
  intros HQ Hoth Hf Hsub Hm Hc k. destruct (string_dec k k0) as [->|Hne].
  - split.
    + intro M. apply countk_map_in. apply Hm. exact M.
    + intros Hcnt _. apply Hc. exact Hcnt.
  - destruct (Hoth k Hne) as [Hl Hmk]. destruct (HQ k) as [M C]. rewrite Hmk, M. split; [discriminate|].
    intros _ _. assert (Hn : ~ In k E) by (intro Hin; apply Hne; apply Hsub; exact Hin).
    unfold coherent_at in *. rewrite Hl, (Hf k Hn). exact C.
Qed.

Lemma marked_kupd_same (c : client) t k d loc : marked {| local := loc; marks := kupd (marks c) k (Some d); started := started c; queue := queue c; reconnect := reconnect c |} t k = (t <? d).
Proof. unfold marked. cbn [marks]. unfold kupd. rewrite String.eqb_refl. reflexivity. Qed.
Lemma marked_kupd_other (c : client) t k k0 e loc : k <> k0 ->
  marked {| local := loc; marks := kupd (marks c) k0 e; started := started c; queue := queue c; reconnect := reconnect c |} t k = marked c t k.
Proof. intro H. unfold marked. cbn [marks]. unfold kupd. destruct (String.eqb_spec k k0); [contradiction|reflexivity]. Qed.

Lemma R_set U g i k v ttl ex : Q g -> R (fst (cmd_step U g i (KSet k v ttl ex))).
Proof.
  intro HQ. cbn [cmd_step]. rewrite redis_refines_ref. cbn [r_step].
  set (cl := clients g i). set (s := srv g). set (t := now g).
  assert (Rej : R (fst ({| srv := s; now := t; clients := cupd (clients g) i (with_marks cl (kupd (marks cl) k None)); nclients := nclients g |}, BBool false))).
  { cbn [fst]. apply R_after_local; [exact HQ|reflexivity|apply (HQ i)|]. intros St k'. cbn [with_marks started] in St.
    destruct (Q_started_facts g i HQ St k') as [M C]. split; [|exact C].
    unfold marked, with_marks. cbn [marks]. unfold kupd. destruct (String.eqb k' k); [reflexivity|exact M]. }
  assert (Acc : R (fst ({| srv := supd s k (Some (enc v, deadline t ttl)); now := t;
                           clients := broadcast (cupd (clients g) i {| local := lwrite cl t k (LV v) ttl; marks := kupd (marks cl) k (Some (t + MARK_TTL));
                                                                        started := started cl; queue := queue cl; reconnect := reconnect cl |}) [MKey k];
                           nclients := nclients g |}, BBool true))).
  { cbn [fst]. apply (R_after_cmd g i _ _ [k]); [exact HQ|reflexivity|apply (HQ i)| |].
    - intros k' Hn. apply sval_supd_other. intro E. apply Hn. left. symmetry. exact E.
    - intro St. cbn [started] in St. apply (P_writer_one s _ t cl _ k [k]).
      + exact (Q_started_facts g i HQ St).
      + intros k' Hne. split; [apply (llook_lwrite_other cl t k' k (LV v) ttl Hne)|apply marked_kupd_other; exact Hne].
      + intros k' Hn. apply sval_supd_other. intro E. apply Hn. left. symmetry. exact E.
      + intros k' [<-|[]]. reflexivity.
      + intros _. left. reflexivity.
      + intros _. unfold coherent_at.
        destruct (llook_lwrite_same cl t k (LV v) ttl) as (d & Hd). unfold with_local in Hd. cbn [local] in Hd.
        unfold llook in *. cbn [local] in *. rewrite Hd.
        rewrite sval_supd_same; [apply transform_enc| |apply is_str_enc].
        intros d0 Hd0. unfold deadline in Hd0. destruct (Z.ltb_spec 0 ttl); [|discriminate]. injection Hd0 as <-. lia. }
  destruct ex as [b|]; [|exact Acc]. destruct (Bool.eqb (present s t k) b); [exact Acc|exact Rej].
Qed.

Lemma R_incr U g i k by_ ttl : Q g -> R (fst (cmd_step U g i (KIncr k by_ ttl))).
Proof.
  intro HQ. cbn [cmd_step]. rewrite redis_refines_ref. cbn [r_step].
  set (cl := clients g i). set (s := srv g). set (t := now g).
  (* whatever the new entry is, it is the counter n, alive *)
  assert (Acc : forall n (dl : option Z), (forall d0, dl = Some d0 -> t < d0) ->
            R (fst ({| srv := supd s k (Some (RNum n, dl)); now := t;
                       clients := broadcast (cupd (clients g) i
                                     (if n =? 0 then cl else {| local := lwrite cl t k (LV (VInt n)) ttl; marks := kupd (marks cl) k (Some (t + MARK_TTL));
                                                                started := started cl; queue := queue cl; reconnect := reconnect cl |})) [MKey k];
                       nclients := nclients g |}, BInt n))).
  { intros n dl Hdl. cbn [fst]. apply (R_after_cmd g i _ _ [k]); [exact HQ|destruct (n =? 0); reflexivity|destruct (n =? 0); apply (HQ i)| |].
    - intros k' Hn. apply sval_supd_other. intro E. apply Hn. left. symmetry. exact E.
    - intro St. assert (St0 : started cl = true) by (destruct (n =? 0); exact St).
      destruct (Z.eqb_spec n 0) as [Hz|Hz].
      + (* nothing remembered, no mark: the announcement will drop whatever is cached *)
        apply (P_writer_one s _ t cl cl k [k]).
        * exact (Q_started_facts g i HQ St0).
        * intros; split; reflexivity.
        * intros k' Hn. apply sval_supd_other. intro E. apply Hn. left. symmetry. exact E.
        * intros k' [<-|[]]. reflexivity.
        * intros _. left. reflexivity.
        * destruct (Q_started_facts g i HQ St0 k) as [M _]. fold cl t in M. rewrite M. cbn. rewrite String.eqb_refl. discriminate.
      + apply (P_writer_one s _ t cl _ k [k]).
        * exact (Q_started_facts g i HQ St0).
        * intros k' Hne. split; [apply (llook_lwrite_other cl t k' k (LV (VInt n)) ttl Hne)|apply marked_kupd_other; exact Hne].
        * intros k' Hn. apply sval_supd_other. intro E. apply Hn. left. symmetry. exact E.
        * intros k' [<-|[]]. reflexivity.
        * intros _. left. reflexivity.
        * intros _. unfold coherent_at.
          destruct (llook_lwrite_same cl t k (LV (VInt n)) ttl) as (d & Hd). unfold with_local in Hd. cbn [local] in Hd.
          unfold llook in *. cbn [local] in *. rewrite Hd. rewrite sval_supd_same; [reflexivity|exact Hdl|reflexivity]. }
  destruct (look s t k) as [[[v|z|tk|b|l|l] d]|] eqn:L; try (cbn [fst]; apply Q_R; exact HQ).
  - apply Acc. intros d0 Hd. destruct ((z + by_ =? 1) && (0 <? ttl)) eqn:Eb.
    + injection Hd as <-. apply andb_true_iff in Eb as [_ Eb]. apply Z.ltb_lt in Eb. lia.
    + subst d. exact (look_live _ _ _ _ _ L).
  - apply Acc. intros d0 Hd. destruct (by_ =? 1); [|discriminate]. unfold deadline in Hd. destruct (Z.ltb_spec 0 ttl); [|discriminate].
    injection Hd as <-. lia.
Qed.

Lemma sval_none_of_look s t k : look s t k = None -> sval s t k = None.
Proof. unfold sval, c_get. intros ->. reflexivity. Qed.

Lemma R_del U g i k : Q g -> R (fst (cmd_step U g i (KDel k))).
Proof.
  intro HQ. cbn [cmd_step]. rewrite redis_refines_ref. cbn [r_step fst].
  set (cl := clients g i). set (s := srv g). set (t := now g).
  apply (R_after_cmd g i _ _ (live_keys s t [k])); [exact HQ|reflexivity|apply (HQ i)| |].
  - intros k' Hn. apply sval_look. apply frame_drop. exact Hn.
  - intro St. cbn [with_local started] in St. apply (P_writer_one s _ t cl _ k).
    + exact (Q_started_facts g i HQ St).
    + intros k' Hne. split; [apply (llook_lwrite_other cl t k' k LA 0 Hne)|reflexivity].
    + intros k' Hn. apply sval_look. apply frame_drop. exact Hn.
    + intros k' Hin. apply in_live_keys in Hin as [[<-|[]] _]. reflexivity.
    + intro M. exfalso. destruct (Q_started_facts g i HQ St k) as [M0 _]. fold cl t in M0. change (marked cl t k = true) in M. congruence.
    + intros _. unfold coherent_at. destruct (llook_lwrite_same cl t k LA 0) as (d & ->).
      apply sval_none_of_look. rewrite look_drop. cbn. rewrite String.eqb_refl. reflexivity.
Qed.

Lemma R_clear U g i : Q g -> R (fst (cmd_step U g i KClear)).
Proof.
  intro HQ. cbn [cmd_step up_step fst]. intro j. cbn [clients srv now]. unfold broadcast, cupd.
  destruct (Nat.eqb_spec j i) as [->|Hne].
  - destruct (HQ i) as [Qq Qs]. split; intro St; cbn [push with_local started] in St; cbn [push with_local queue started]; rewrite St, Qq; [|reflexivity].
    cbn [app]. apply P_push. apply P_flush. intro k. apply (Qs St k).
  - destruct (HQ j) as [Qq Qs]. split; intro St; cbn [push started] in St; cbn [push queue]; rewrite St, Qq; [|reflexivity].
    cbn [app]. apply P_push. apply P_flush. intro k. apply (Qs St k).
Qed.

Lemma sval_some_look s t k v : sval s t k = Some v -> exists rv d, look s t k = Some (rv, d) /\ is_str rv = true /\ transform rv = Some v.
Proof.
  unfold sval, c_get. destruct (look s t k) as [[rv d]|]; [|discriminate]. destruct (is_str rv) eqn:E; [|discriminate].
  intro H. exists rv, d. auto.
Qed.

Lemma live_keys_one s t k : live_keys s t [k] = if isSome (look s t k) then [k] else [].
Proof. unfold live_keys. cbn. destruct (look s t k); reflexivity. Qed.

Lemma R_expire U g i k ttl : Q g -> R (fst (cmd_step U g i (KExpire k ttl))).
Proof.
  intro HQ. cbn [cmd_step]. rewrite redis_refines_ref. cbn [r_step].
  set (cl := clients g i). set (s := srv g). set (t := now g).
  set (cl' := match llook cl t k with
              | Some (LV v, _) => {| local := kupd (local cl) k (Some (LV v, Some (t + ttl))); marks := kupd (marks cl) k (Some (t + MARK_TTL));
                                     started := started cl; queue := queue cl; reconnect := reconnect cl |}
              | _ => cl end).
  assert (St' : started cl' = started cl) by (unfold cl'; destruct (llook cl t k) as [[[v|] d]|]; reflexivity).
  assert (Qu' : queue cl' = []) by (unfold cl'; destruct (llook cl t k) as [[[v|] d]|]; apply (HQ i)).
  rewrite live_keys_one. destruct (look s t k) as [[rv d]|] eqn:L; cbn [isSome fst].
  - (* the key is there: announced *)
    set (s' := if ttl <=? 0 then supd s k None else supd s k (Some (rv, Some (t + ttl)))).
    assert (Fr : forall k', ~ In k' [k] -> sval s' t k' = sval s t k').
    { intros k' Hn. assert (k' <> k) by (intro E; apply Hn; left; symmetry; exact E). unfold s'. destruct (ttl <=? 0); apply sval_supd_other; assumption. }
    apply (R_after_cmd g i cl' s' [k]); [exact HQ|exact St'|exact Qu'|exact Fr|].
    intro St. rewrite St' in St. apply (P_writer_one s s' t cl cl' k [k]).
    + exact (Q_started_facts g i HQ St).
    + intros k' Hne. unfold cl'. destruct (llook cl t k) as [[[v|] d0]|]; try (split; reflexivity).
      split; [|apply marked_kupd_other; exact Hne]. unfold llook. cbn [local]. unfold kupd. destruct (String.eqb_spec k' k); [contradiction|reflexivity].
    + exact Fr.
    + intros k' [<-|[]]. reflexivity.
    + intros _. left. reflexivity.
    + destruct (Q_started_facts g i HQ St k) as [M0 C0]. fold cl s t in M0, C0. unfold cl'.
      unfold coherent_at in C0. destruct (llook cl t k) as [[[v|] d0]|] eqn:Lk.
      * intros _. unfold coherent_at, llook. cbn [local]. unfold kupd. rewrite String.eqb_refl.
        destruct (Z.leb_spec (t + ttl) t) as [Hle|Hgt]; [exact I|].
        unfold s'. destruct (Z.leb_spec ttl 0); [lia|].
        destruct (sval_some_look _ _ _ _ C0) as (rv0 & dd & L0 & Is & Tr). rewrite L in L0. injection L0 as <- <-.
        rewrite sval_supd_same; [exact Tr| |exact Is]. intros d1 [= <-]. lia.
      * rewrite M0. cbn. rewrite String.eqb_refl. discriminate.
      * rewrite M0. cbn. rewrite String.eqb_refl. discriminate.
  - (* not there: nothing happens on the server; a listening client cannot have held a value for it *)
    apply (R_after_cmd g i cl' s []); [exact HQ|exact St'|exact Qu'|reflexivity|].
    intro St. rewrite St' in St. destruct (Q_started_facts g i HQ St k) as [M0 C0]. fold cl s t in M0, C0.
    assert (E : cl' = cl).
    { unfold cl'. unfold coherent_at in C0. destruct (llook cl t k) as [[[v|] d0]|]; try reflexivity.
      destruct (sval_some_look _ _ _ _ C0) as (rv0 & dd & L0 & _). congruence. }
    rewrite E. intro k'. destruct (Q_started_facts g i HQ St k') as [M C]. unfold cl, s, t. rewrite M. split; [discriminate|]. intros _ _. exact C.
Qed.

(* the acting client only forgot local entries (no marks); the server announces E *)
Lemma P_shrunk s s' t cl cl' E :
  (forall k, marked cl t k = false /\ coherent_at s t cl k) ->
  (forall k, marked cl' t k = marked cl t k) ->
  (forall k, ~ In k E -> llook cl' t k = None \/ (llook cl' t k = llook cl t k /\ sval s' t k = sval s t k)) ->
  P s' t cl' (map MKey E).
Proof.
  intros HQ Hm Hl k. destruct (HQ k) as [M C]. rewrite Hm, M. split; [discriminate|].
  intros Hc _. assert (Hn : ~ In k E) by (intro Hin; apply countk_map_in in Hin; lia).
  destruct (Hl k Hn) as [N|[E1 E2]]; unfold coherent_at in *; [rewrite N; exact I|rewrite E1, E2; exact C].
Qed.

Lemma live_keys_subset s t ks k : In k (live_keys s t ks) -> In k ks.
Proof. intro H. apply in_live_keys in H. tauto. Qed.

Lemma R_delmatch U g i pat : Q g -> R (fst (cmd_step U g i (KDelMatch pat))).
Proof.
  intro HQ. cbn [cmd_step]. rewrite redis_refines_ref. cbn [r_step].
  set (cl := clients g i). set (s := srv g). set (t := now g).
  set (cl' := with_local cl (fun k => if globs pat k then None else local cl k)).
  assert (Loc : forall k, llook cl' t k = None \/ llook cl' t k = llook cl t k).
  { intro k. unfold cl', llook, with_local. cbn [local]. destruct (globs pat k); [left; reflexivity|right; reflexivity]. }
  destruct (existsb is_star (list_ascii_of_string pat)); cbn [fst].
  - assert (Fr : forall k, ~ In k (c_scan s t U pat) -> sval (drop s t (matching s t U pat)) t k = sval s t k).
    { intros k Hn. apply sval_look. apply frame_drop. intro Hin. apply Hn. apply live_keys_subset in Hin. exact Hin. }
    apply (R_after_cmd g i cl' _ (c_scan s t U pat)); [exact HQ|reflexivity|apply (HQ i)|exact Fr|].
    intro St. apply (P_shrunk s _ t cl cl'); [exact (Q_started_facts g i HQ St)|reflexivity|].
    intros k Hn. destruct (Loc k) as [N|E]; [left; exact N|right; split; [exact E|apply Fr; exact Hn]].
  - assert (Fr : forall k, ~ In k (live_keys s t [pat]) -> sval (drop s t [pat]) t k = sval s t k).
    { intros k Hn. apply sval_look. apply frame_drop. exact Hn. }
    apply (R_after_cmd g i cl' _ (live_keys s t [pat])); [exact HQ|reflexivity|apply (HQ i)|exact Fr|].
    intro St. apply (P_shrunk s _ t cl cl'); [exact (Q_started_facts g i HQ St)|reflexivity|].
    intros k Hn. destruct (Loc k) as [N|E]; [left; exact N|right; split; [exact E|apply Fr; exact Hn]].
Qed.

Lemma fold_absent_facts t ks : forall c,
  let c' := fold_left (fun c0 k => with_local c0 (lwrite c0 t k LA 0)) ks c in
  started c' = started c /\ queue c' = queue c /\ marks c' = marks c /\
  (forall k, ~ In k ks -> llook c' t k = llook c t k) /\
  (forall k, In k ks -> exists d, llook c' t k = Some (LA, d)).
Proof.
  induction ks as [|k0 ks IH]; intro c; cbn [fold_left].
  - repeat split; try reflexivity. intros k [].
  - destruct (IH (with_local c (lwrite c t k0 LA 0))) as (St & Qu & Mk & Oth & Inn). repeat split; try assumption.
    + intros k Hn. rewrite Oth by (intro H; apply Hn; right; exact H). apply llook_lwrite_other. intro E. apply Hn. left. symmetry. exact E.
    + intros k [<-|Hin].
      * destruct (in_dec string_dec k0 ks) as [Hi|Hn]; [apply Inn; exact Hi|]. rewrite Oth by exact Hn. apply llook_lwrite_same.
      * apply Inn. exact Hin.
Qed.

Lemma R_delmany U g i ks : Q g -> R (fst (cmd_step U g i (KDelMany ks))).
Proof.
  intro HQ. cbn [cmd_step]. rewrite redis_refines_ref. cbn [r_step fst].
  set (cl := clients g i). set (s := srv g). set (t := now g).
  destruct (fold_absent_facts t ks cl) as (St & Qu & Mk & Oth & Inn).
  set (cl' := fold_left (fun c0 k => with_local c0 (lwrite c0 t k LA 0)) ks cl) in *.
  assert (Fr : forall k, ~ In k (live_keys s t (nodup string_dec ks)) -> sval (drop s t ks) t k = sval s t k).
  { intros k Hn. apply sval_look. apply frame_drop. intro Hin. apply Hn. apply in_live_keys in Hin as [H1 H2]. apply in_live_keys. split; [apply nodup_In; exact H1|exact H2]. }
  apply (R_after_cmd g i cl' _ (live_keys s t (nodup string_dec ks))); [exact HQ|exact St|rewrite Qu; apply (HQ i)|exact Fr|].
  intro St'. rewrite St in St'. intro k. change (now g) with t. destruct (Q_started_facts g i HQ St' k) as [M C]. fold cl s t in M, C.
  assert (Mk' : marked cl' t k = false) by (unfold marked; rewrite Mk; exact M). rewrite Mk'. split; [discriminate|].
  intros Hc _. assert (Hn : ~ In k (live_keys s t (nodup string_dec ks))) by (intro Hin; apply countk_map_in in Hin; lia).
  unfold coherent_at. destruct (in_dec string_dec k ks) as [Hi|Hni].
  - destruct (Inn k Hi) as (d & ->). apply sval_none_of_look. rewrite look_drop.
    destruct (existsb (String.eqb k) ks) eqn:E; [reflexivity|]. destruct (look s t k) eqn:L; [|reflexivity].
    exfalso. apply Hn. apply in_live_keys. split; [apply nodup_In; exact Hi|rewrite L; discriminate].
  - rewrite (Oth k Hni), (Fr k Hn). exact C.
Qed.

Lemma fold_setmany_facts t ttl kvs : forall s c k,
  let s' := fold_left (fun m' (kv : key * val) => supd m' (fst kv) (Some (enc (snd kv), deadline t ttl))) kvs s in
  let c' := fold_left (fun c0 (kv : key * val) => {| local := lwrite c0 t (fst kv) (LV (snd kv)) ttl; marks := kupd (marks c0) (fst kv) (Some (t + MARK_TTL));
                                         started := started c0; queue := queue c0; reconnect := reconnect c0 |}) kvs c in
  started c' = started c /\ queue c' = queue c /\
  (~ In k (map fst kvs) -> llook c' t k = llook c t k /\ marked c' t k = marked c t k /\ look s' t k = look s t k) /\
  (countk k (map (fun kv => MKey (fst kv)) kvs) = 1%nat -> exists v d, llook c' t k = Some (LV v, d) /\ sval s' t k = Some v).
Proof.
  induction kvs as [|[k0 v0] kvs IH]; intros s c k; cbn [fold_left map fst snd countk].
  - repeat split; try reflexivity. discriminate.
  - set (s1 := supd s k0 (Some (enc v0, deadline t ttl))).
    set (c1 := {| local := lwrite c t k0 (LV v0) ttl; marks := kupd (marks c) k0 (Some (t + MARK_TTL)); started := started c; queue := queue c; reconnect := reconnect c |}).
    destruct (IH s1 c1 k) as (St & Qu & Oth & One). split; [exact St|]. split; [exact Qu|]. split.
    + intro Hn. destruct Oth as (L1 & M1 & S1); [intro H; apply Hn; right; exact H|].
      assert (Hne : k <> k0) by (intro E; apply Hn; left; symmetry; exact E).
      split; [|split].
      * rewrite L1. apply (llook_lwrite_other c t k k0 (LV v0) ttl Hne).
      * rewrite M1. unfold c1. apply marked_kupd_other. exact Hne.
      * rewrite S1. apply look_supd_other. exact Hne.
    + intro Hc. destruct (String.eqb_spec k0 k) as [->|Hne].
      * assert (Hz : countk k (map (fun kv : key * val => MKey (fst kv)) kvs) = O) by lia.
        assert (Hn : ~ In k (map fst kvs)).
        { intro Hin. assert (1 <= countk k (map (fun kv : key * val => MKey (fst kv)) kvs))%nat; [|lia].
          clear -Hin. induction kvs as [|[a b] kvs IH]; cbn in *; [contradiction|]. destruct Hin as [->|H]; [rewrite String.eqb_refl; lia|specialize (IH H); lia]. }
        destruct Oth as (L1 & M1 & S1); [exact Hn|]. exists v0.
        destruct (llook_lwrite_same c t k (LV v0) ttl) as (d & Hd). exists d. split.
        -- rewrite L1. exact Hd.
        -- erewrite sval_look; [|exact S1]. unfold s1. rewrite sval_supd_same; [apply transform_enc| |apply is_str_enc].
           intros d0 Hd0. unfold deadline in Hd0. destruct (Z.ltb_spec 0 ttl); [|discriminate]. injection Hd0 as <-. lia.
      * apply One. lia.
Qed.

Lemma setmany_marked t ttl kvs : forall c k, In k (map fst kvs) ->
  marked (fold_left (fun c0 (kv : key * val) => {| local := lwrite c0 t (fst kv) (LV (snd kv)) ttl; marks := kupd (marks c0) (fst kv) (Some (t + MARK_TTL));
                                         started := started c0; queue := queue c0; reconnect := reconnect c0 |}) kvs c) t k = true.
Proof.
  induction kvs as [|[k0 v0] kvs IH]; intros c k Hin; cbn [fold_left map fst snd] in *; [contradiction|].
  destruct (in_dec string_dec k (map fst kvs)) as [Hi|Hn]; [apply IH; exact Hi|]. destruct Hin as [->|Hin]; [|contradiction].
  set (c1 := {| local := lwrite c t k (LV v0) ttl; marks := kupd (marks c) k (Some (t + MARK_TTL)); started := started c; queue := queue c; reconnect := reconnect c |}).
  destruct (fold_setmany_facts t ttl kvs (fun _ => None) c1 k) as (_ & _ & Oth & _). destruct (Oth Hn) as (_ & M1 & _).
  rewrite M1. unfold c1. rewrite marked_kupd_same. unfold MARK_TTL. apply Z.ltb_lt. lia.
Qed.

Lemma R_setmany U g i kvs ttl : Q g -> R (fst (cmd_step U g i (KSetMany kvs ttl))).
Proof.
  intro HQ. cbn [cmd_step]. rewrite redis_refines_ref. cbn [r_step fst].
  set (cl := clients g i). set (s := srv g). set (t := now g).
  set (s' := fold_left (fun m' (kv : key * val) => supd m' (fst kv) (Some (enc (snd kv), deadline t ttl))) kvs s).
  set (cl' := fold_left (fun c0 (kv : key * val) => {| local := lwrite c0 t (fst kv) (LV (snd kv)) ttl; marks := kupd (marks c0) (fst kv) (Some (t + MARK_TTL));
                                         started := started c0; queue := queue c0; reconnect := reconnect c0 |}) kvs cl).
  assert (Em : map (fun kv : key * val => MKey (fst kv)) kvs = map MKey (map fst kvs)) by (rewrite map_map; reflexivity).
  rewrite Em.
  destruct (fold_setmany_facts t ttl kvs s cl EmptyString) as (St & Qu & _ & _). fold s' cl' in St, Qu.
  apply (R_after_cmd g i cl' s' (map fst kvs)); [exact HQ|exact St|rewrite Qu; apply (HQ i)| |].
  - intros k Hn. destruct (fold_setmany_facts t ttl kvs s cl k) as (_ & _ & Oth & _). destruct (Oth Hn) as (_ & _ & S1). apply sval_look. exact S1.
  - intro St'. rewrite St in St'. intro k. change (now g) with t. destruct (Q_started_facts g i HQ St' k) as [M C]. fold cl s t in M, C.
    destruct (fold_setmany_facts t ttl kvs s cl k) as (_ & _ & Oth & One). fold s' cl' in Oth, One. rewrite <- Em.
    destruct (in_dec string_dec k (map fst kvs)) as [Hi|Hn].
    + pose proof (setmany_marked t ttl kvs cl k Hi) as Mk1. fold cl' in Mk1. rewrite Mk1. split.
      * intros _. rewrite Em. apply countk_map_in. exact Hi.
      * intros Hc _. destruct (One Hc) as (v & d & L1 & S1). unfold coherent_at. rewrite L1. exact S1.
    + destruct (Oth Hn) as (L1 & M1 & S1). rewrite M1, M. split; [discriminate|]. intros _ _.
      unfold coherent_at. rewrite L1. erewrite sval_look; [exact C|exact S1].
Qed.

(* ---------- time, connection loss ---------- *)
(* lock commands: set_lock is the only-if-absent write of an integer token *)
Lemma R_setlock U g i k tok ttl : Q g -> R (fst (cmd_step U g i (KSetLock k tok ttl))).
Proof. intro HQ. exact (R_set U g i k (VInt tok) ttl (Some false) HQ). Qed.

Lemma R_unlock U g i k tok : Q g -> R (fst (cmd_step U g i (KUnlock k tok))).
Proof.
  intro HQ. cbn [cmd_step]. set (cl := clients g i). set (s := srv g). set (t := now g).
  set (cl' := match llook cl t k with
              | Some (LV (VInt z), _) => if z =? tok then with_local cl (kupd (local cl) k None) else cl
              | _ => cl end).
  assert (Hshape : cl' = cl \/ cl' = with_local cl (kupd (local cl) k None)).
  { unfold cl'. destruct (llook cl t k) as [[[v|] d]|]; try (left; reflexivity).
    destruct v; try (left; reflexivity). destruct (_ =? _); [right|left]; reflexivity. }
  assert (Hst : started cl' = started cl) by (destruct Hshape as [->| ->]; reflexivity).
  assert (Hq : queue cl' = queue cl) by (destruct Hshape as [->| ->]; reflexivity).
  assert (Hm : forall k', marked cl' t k' = marked cl t k') by (intro k'; destruct Hshape as [->| ->]; reflexivity).
  assert (Hl : forall k', llook cl' t k' = None \/ llook cl' t k' = llook cl t k').
  { intro k'. destruct Hshape as [->| ->]; [right; reflexivity|]. unfold llook, with_local. cbn [local]. unfold kupd.
    destruct (String.eqb k' k); [left|right]; reflexivity. }
  assert (Same : R {| srv := s; now := t; clients := cupd (clients g) i cl'; nclients := nclients g |}).
  { apply R_after_local; [exact HQ|exact Hst|rewrite Hq; apply (HQ i)|]. intros St k'. rewrite Hst in St.
    destruct (Q_started_facts g i HQ St k') as [M C]. fold cl s t in M, C. split; [rewrite Hm; exact M|].
    unfold coherent_at in *. fold s t. destruct (Hl k') as [E|E]; rewrite E; [exact I|exact C]. }
  rewrite up_get. fold s t. destruct (sval s t k) as [v|]; [|exact Same]. destruct v; try exact Same.
  destruct (z =? tok); [|exact Same].
  rewrite redis_refines_ref. cbn [r_step fst].
  apply (R_after_cmd g i cl' _ (live_keys s t [k])); [exact HQ|exact Hst|rewrite Hq; apply (HQ i)| |].
  - intros k' Hn. apply sval_look. apply frame_drop. exact Hn.
  - intro St. rewrite Hst in St. apply (P_shrunk s _ t cl cl').
    + exact (Q_started_facts g i HQ St).
    + exact Hm.
    + intros k' Hn. destruct (Hl k') as [E|E]; [left; exact E|right]. split; [exact E|]. apply sval_look. apply frame_drop. exact Hn.
Qed.

Definition KU (U : list key) (g : cfg) : Prop := forall k, srv g k <> None -> In k U.

Lemma look_later s t t' k e : t <= t' -> look s t' k = Some e -> look s t k = Some e.
Proof.
  intros Ht. unfold look. destruct (s k) as [[v [d|]]|]; try (intro H0; exact H0).
  destruct (Z.leb_spec d t'); [discriminate|]. intro H0. destruct (Z.leb_spec d t); [lia|exact H0].
Qed.
Lemma look_idem s t k : look (fun k0 => look s t k0) t k = look s t k.
Proof.
  unfold look at 1. destruct (look s t k) as [[v [d|]]|] eqn:L; try reflexivity.
  pose proof (look_live _ _ _ _ _ L). destruct (Z.leb_spec d t); [lia|reflexivity].
Qed.
Lemma llook_later c t t' k x : t <= t' -> llook c t' k = Some x -> llook c t k = Some x.
Proof.
  intros Ht. unfold llook. destruct (local c k) as [[y [d|]]|]; try (intro H0; exact H0).
  destruct (Z.leb_spec d t'); [discriminate|]. intro H0. destruct (Z.leb_spec d t); [lia|exact H0].
Qed.
Lemma marked_later c t t' k : t <= t' -> marked c t' k = true -> marked c t k = true.
Proof. intros Ht. unfold marked. destruct (marks c k) as [d|]; [|discriminate]. intro H. apply Z.ltb_lt in H. apply Z.ltb_lt. lia. Qed.

Lemma R_tick U g dt : KU U g -> Q g -> R (fst (step U g (Tick dt))).
Proof.
  intros HK HQ. cbn [step]. destruct (Z.ltb_spec dt 0); [apply Q_R; exact HQ|]. cbn [fst].
  set (t := now g). set (t' := t + dt). set (s := srv g).
  set (E := filter (fun k => isSome (s k) && negb (isSome (look s t' k))) U).
  intro j. cbn [clients srv now]. destruct (HQ j) as [Qq Qs]. fold t s in Qs.
  set (c := clients g j) in *.
  assert (Main : (started (push c (map MKey E)) = true -> P (fun k => look s t' k) t' (push c (map MKey E)) (queue (push c (map MKey E)))) /\
                 (started (push c (map MKey E)) = false -> queue (push c (map MKey E)) = [])).
  { cbn [push started queue]. split; intro St; rewrite St, Qq; [|reflexivity]. cbn [app]. apply P_push.
    intro k. destruct (Qs St k) as [M C]. assert (M' : marked c t' k = false).
    { destruct (marked c t' k) eqn:E'; [|reflexivity]. apply (marked_later c t t' k) in E'; [congruence|unfold t'; lia]. }
    rewrite M'. split; [discriminate|]. intros Hc _.
    assert (Hn : ~ In k E) by (intro Hin; apply countk_map_in in Hin; lia).
    unfold coherent_at in *. destruct (llook c t' k) as [[x d]|] eqn:L; [|exact I].
    apply (llook_later c t t' k) in L; [|unfold t'; lia]. rewrite L in C.
    assert (Sv : sval (fun k0 => look s t' k0) t' k = sval s t k).
    { unfold sval, c_get. rewrite look_idem. destruct (look s t' k) as [e|] eqn:L'.
      - rewrite (look_later s t t' k e); [reflexivity|unfold t'; lia|exact L'].
      - destruct (look s t k) as [e|] eqn:L0; [|reflexivity].
        exfalso. apply Hn. unfold E. apply filter_In. split.
        + apply HK. fold s. apply look_raw in L0. rewrite L0. discriminate.
        + apply look_raw in L0. rewrite L0, L'. reflexivity. }
    rewrite Sv. exact C. }
  destruct (reconnect (push c (map MKey E))) as [r|] eqn:Er; [|exact Main].
  destruct (Z.leb_spec r t'); [|exact Main].
  cbn [started queue]. split; [|discriminate]. intros _ k. unfold marked, coherent_at, llook. cbn. split; [discriminate|]. intros _ _. exact I.
Qed.

Lemma R_drop U g i : Q g -> R (fst (step U g (Drop i))).
Proof.
  intro HQ. cbn [step]. destruct (started (clients g i)); cbn [negb fst]; [|apply Q_R; exact HQ].
  intro j. cbn [clients srv now]. unfold cupd. destruct (Nat.eqb_spec j i) as [->|Hne].
  - cbn [started queue]. split; [discriminate|reflexivity].
  - apply (Q_R g HQ j).
Qed.

Lemma KU_step U g e : (match e with Cmd _ c => Forall (fun k => In k U)
                          (match c with
                           | KSet k _ _ _ | KIncr k _ _ | KExpire k _ | KSetLock k _ _ => [k]
                           | KSetMany kvs _ => map fst kvs
                           | _ => [] end) | _ => True end) ->
  KU U g -> KU U (fst (step U g e)).
Proof.
  intros Hw HK. destruct e as [i c| dt | |i]; cbn [step].
  - destruct c as [k|ks|k|k v ttl ex|kvs ttl|k by_ ttl|k|ks|pat|k ttl| |k tok ttl|k tok]; cbn [cmd_step].
    + destruct (local_read _ _ _); [exact HK|]. destruct (read_through _ _ _ _ _). exact HK.
    + destruct (fold_left _ ks _). exact HK.
    + destruct (local_read _ _ _) as [[?|]|]; exact HK.
    + rewrite redis_refines_ref. cbn [r_step]. inversion Hw as [|? ? Hk _]; subst.
      assert (A : KU U {| srv := supd (srv g) k (Some (enc v, deadline (now g) ttl)); now := now g; clients := clients g; nclients := nclients g |}).
      { intros k' H. cbn in H. unfold supd in H. destruct (String.eqb_spec k' k); [subst; exact Hk|apply HK; exact H]. }
      destruct ex as [b|]; [destruct (Bool.eqb _ b)|]; cbn [fst]; intros k' H; cbn [srv] in H; try (apply (A k'); exact H); apply HK; exact H.
    + rewrite redis_refines_ref. cbn [r_step fst]. intros k' H. cbn [srv] in H.
      destruct (in_dec string_dec k' (map fst kvs)) as [Hi|Hn].
      * rewrite Forall_forall in Hw. apply Hw. exact Hi.
      * apply HK. intro E. apply H. clear H Hw.
        revert E. generalize (srv g). induction kvs as [|kv kvs IH]; intros s0 E; cbn [fold_left]; [exact E|].
        apply IH; [intro Hin; apply Hn; right; exact Hin|]. unfold supd. destruct (String.eqb_spec k' (fst kv)); [exfalso; apply Hn; left; symmetry; assumption|exact E].
    + rewrite redis_refines_ref. cbn [r_step]. inversion Hw as [|? ? Hk _]; subst.
      destruct (look (srv g) (now g) k) as [[[v|z|tk|b|l|l] d]|]; cbn [fst srv]; try exact HK;
        intros k' H; cbn [srv] in H; unfold supd in H; (destruct (String.eqb_spec k' k); [subst; exact Hk|apply HK; exact H]).
    + rewrite redis_refines_ref. cbn [r_step fst]. intros k' H. cbn [srv] in H. apply HK. intro E. apply H.
      unfold drop. cbn. destruct (present (srv g) (now g) k); [|exact E]. unfold supd. destruct (String.eqb k' k); [reflexivity|exact E].
    + rewrite redis_refines_ref. cbn [r_step fst]. intros k' H. cbn [srv] in H. apply HK. intro E. apply H. clear H.
      unfold drop. revert E. generalize (srv g). induction ks as [|k0 ks IH]; intros s0 E; cbn [fold_left]; [exact E|].
      apply IH. destruct (present s0 (now g) k0); [|exact E]. unfold supd. destruct (String.eqb k' k0); [reflexivity|exact E].
    + rewrite redis_refines_ref. cbn [r_step].
      assert (D : forall ks, KU U {| srv := drop (srv g) (now g) ks; now := now g; clients := clients g; nclients := nclients g |}).
      { intros ks k' H. cbn [srv] in H. apply HK. intro E. apply H. clear H.
        unfold drop. revert E. generalize (srv g). induction ks as [|k0 ks IH]; intros s0 E; cbn [fold_left]; [exact E|].
        apply IH. destruct (present s0 (now g) k0); [|exact E]. unfold supd. destruct (String.eqb k' k0); [reflexivity|exact E]. }
      destruct (existsb is_star (list_ascii_of_string pat)); cbn [fst]; intros k' H; cbn [srv] in H; eapply (D _ k'); exact H.
    + rewrite redis_refines_ref. cbn [r_step]. inversion Hw as [|? ? Hk _]; subst.
      destruct (look (srv g) (now g) k) as [[rv d]|]; cbn [fst]; [|exact HK].
      intros k' H. cbn [srv] in H. destruct (ttl <=? 0); unfold supd in H; (destruct (String.eqb_spec k' k); [subst; exact Hk|apply HK; exact H]).
    + cbn [up_step fst]. intros k' H. cbn in H. contradiction.
    + rewrite redis_refines_ref. cbn [r_step]. inversion Hw as [|? ? Hk _]; subst.
      assert (A : KU U {| srv := supd (srv g) k (Some (enc (VInt tok), deadline (now g) ttl)); now := now g; clients := clients g; nclients := nclients g |}).
      { intros k' H. cbn in H. unfold supd in H. destruct (String.eqb_spec k' k); [subst; exact Hk|apply HK; exact H]. }
      destruct (Bool.eqb _ false); cbn [fst]; intros k' H; cbn [srv] in H; try (apply (A k'); exact H); apply HK; exact H.
    + rewrite up_get. destruct (sval (srv g) (now g) k) as [v|]; [|exact HK]. destruct v; try exact HK. destruct (_ =? _); [|exact HK].
      rewrite redis_refines_ref. cbn [r_step fst]. intros k' H. cbn [srv] in H. apply HK. intro E. apply H.
      unfold drop. cbn. destruct (present (srv g) (now g) k); [|exact E]. unfold supd. destruct (String.eqb k' k); [reflexivity|exact E].
  - destruct (dt <? 0); [exact HK|]. cbn [fst]. intros k H. cbn [srv] in H. apply HK. intro E. apply H. unfold look. rewrite E. reflexivity.
  - exact HK.
  - destruct (negb (started (clients g i))); exact HK.
Qed.

(* ---------- the theorem ---------- *)
Definition wf_event (U : list key) (e : event) : Prop :=
  match e with
  | Cmd _ c => Forall (fun k => In k U) (match c with
                                         | KSet k _ _ _ | KIncr k _ _ | KExpire k _ | KSetLock k _ _ => [k]
                                         | KSetMany kvs _ => map fst kvs
                                         | _ => [] end)
  | _ => True
  end.

Lemma R_step U g e : KU U g -> Q g -> R (fst (step U g e)).
Proof.
  intros HK HQ. destruct e as [i c|dt| |i].
  - cbn [step]. destruct c; [apply R_get|apply R_getmany|apply R_exists|apply R_set|apply R_setmany|apply R_incr|apply R_del|apply R_delmany|apply R_delmatch|apply R_expire|apply R_clear|apply R_setlock|apply R_unlock]; exact HQ.
  - apply R_tick; assumption.
  - cbn [step fst]. intro j. cbn [clients srv now]. destruct (HQ j) as [Qq Qs]. unfold deliver_one. rewrite Qq. cbn [fold_left queue started local marks].
    split; [|reflexivity]. intros St k. destruct (Qs St k) as [M C]. unfold marked, coherent_at, llook in *. cbn [marks local]. rewrite M. split; [discriminate|]. intros _ _. exact C.
  - apply R_drop. exact HQ.
Qed.

(* every event followed by the delivery of all pending messages *)
Definition paced (es : list event) : list event := flat_map (fun e => [e; Deliver]) es.

Lemma Q_init n : Q (init n).
Proof. intro i. cbn. split; [reflexivity|]. intros _ k. unfold marked, coherent_at, llook. cbn. auto. Qed.
Lemma KU_init U n : KU U (init n).
Proof. intros k H. cbn in H. contradiction. Qed.

Theorem cs_coherent U n es : Forall (wf_event U) es -> Q (run_from U (init n) (paced es)).
Proof.
  intro Hw.
  assert (G : forall es g, Forall (wf_event U) es -> KU U g -> Q g -> Q (run_from U g (paced es)) /\ KU U (run_from U g (paced es))).
  { clear. induction es as [|e es IH]; intros g Hw HK HQ; [split; assumption|].
    inversion Hw as [|? ? He Hes]; subst. cbn [paced flat_map app]. unfold run_from. cbn [fold_left]. fold (run_from U).
    apply IH; [exact Hes| |].
    - apply (KU_step U _ Deliver I). apply KU_step; [exact He|exact HK].
    - apply deliver_R_Q. apply R_step; assumption. }
  apply G; [exact Hw|apply KU_init|apply Q_init].
Qed.

(* at a quiescent point the reads of a listening client return exactly what the server holds *)
Theorem cs_reads U g i : Q g -> started (clients g i) = true ->
  (forall k, snd (cmd_step U g i (KGet k)) = BVal (sval (srv g) (now g) k)) /\
  (forall k, snd (cmd_step U g i (KExists k)) = BBool (isSome (look (srv g) (now g) k))).
Proof.
  intros HQ St. split; intro k; cbn [cmd_step]; unfold local_read; rewrite St;
    destruct (Q_started_facts g i HQ St k) as [_ C]; unfold coherent_at in C;
    destruct (llook (clients g i) (now g) k) as [[[v|] d]|] eqn:L.
  - cbn. rewrite C. reflexivity.
  - cbn. rewrite C. reflexivity.
  - pose proof (read_through_facts U (srv g) (now g) (clients g i) k) as F.
    destruct (read_through U (srv g) (now g) (clients g i) k) as [c' r]. destruct F as (-> & _). reflexivity.
  - cbn. destruct (sval_some_look _ _ _ _ C) as (rv & dd & -> & _). reflexivity.
  - cbn. unfold c_exists. destruct (look (srv g) (now g) k); reflexivity.
  - cbn. unfold c_exists. destruct (look (srv g) (now g) k); reflexivity.
Qed.

(* a conditional write the server rejects changes no client's local copy (it only clears the writer's own mark) *)
Theorem cs_rejected_write_invisible U g i k v ttl ex :
  snd (cmd_step U g i (KSet k v ttl ex)) = BBool false ->
  forall j k', local (clients (fst (cmd_step U g i (KSet k v ttl ex))) j) k' = local (clients g j) k'.
Proof.
  cbn [cmd_step]. rewrite redis_refines_ref. cbn [r_step].
  destruct ex as [b|]; [destruct (Bool.eqb _ b)|]; cbn [snd fst]; try discriminate.
  intros _ j k'. cbn [clients]. unfold cupd. destruct (Nat.eqb_spec j i) as [->|]; reflexivity.
Qed.

(* losing the subscription connection: the local copy is emptied and nothing is served from it until the listener is back *)
Theorem cs_drop_empties U g i : started (clients g i) = true ->
  let g' := fst (step U g (Drop i)) in
  started (clients g' i) = false /\ (forall k, local (clients g' i) k = None) /\
  (forall k, local_read (clients g' i) (now g') k = None).
Proof.
  intro St. cbn [step]. rewrite St. cbn [negb fst clients]. unfold cupd. rewrite Nat.eqb_refl. cbn. repeat split; reflexivity.
Qed.

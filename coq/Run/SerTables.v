(* Tables recorded from the real pickler / hmac, turned into the parameters of Model/Serializer.v *)
From Cashews Require Import Base.Prelude Model.Serializer.
Open Scope string_scope.

Definition dtable := list (val * option string).
Definition ltable := list (string * lres).
Definition mtable := list (string * string * string * string).     (* digestmod, secret, message, hex *)

Definition t_dumps (t : dtable) (v : val) : option string :=
  match find (fun e => val_eqb (fst e) v) t with Some e => snd e | None => None end.
Definition t_loads (t : ltable) (b : string) : lres :=
  match find (fun e => String.eqb (fst e) b) t with Some e => snd e | None => LOther end.
Definition t_mac (t : mtable) (dg secret msg : string) : string :=
  match find (fun e => let '(d, s, m, _) := e in String.eqb d dg && String.eqb s secret && String.eqb m msg) t with
  | Some (_, _, _, h) => h
  | None => "<unrecorded-mac>"
  end.

(* custom registry: the shipped bytes entry plus recorded encoder / decoder calls of registered types *)
Definition ctable := list (val * string * string).     (* value, type name, encoded payload *)
Definition t_cenc (t : ctable) (v : val) : option (string * string) :=
  match default_cenc v with
  | Some r => Some r
  | None => match find (fun e => val_eqb (fst (fst e)) v) t with Some e => Some (snd (fst e), snd e) | None => None end
  end.
Definition t_cdec (t : ctable) (ty payload : string) : option val :=
  match default_cdec ty payload with
  | Some r => Some r
  | None => match find (fun e => String.eqb (snd (fst e)) ty && String.eqb (snd e) payload) t with
            | Some e => Some (fst (fst e)) | None => None end
  end.

Definition dres_eqb (a b : dres) : bool :=
  match a, b with
  | DVal x, DVal y => val_eqb x y
  | DDefault, DDefault | DUnsecure, DUnsecure | DExc, DExc => true
  | _, _ => false
  end.
Definition stored_eqb (a b : stored) : bool :=
  match a, b with
  | SInt x, SInt y => (x =? y)%Z
  | SBytes x, SBytes y => String.eqb x y
  | SObj x, SObj y => val_eqb x y
  | _, _ => false
  end.

(* Executable image of the routing and enable/disable logic of the Cache facade:
     wrapper/wrapper.py   _add_backend (dict + reverse-sorted prefix tuple), _get_backend (first startswith)
     wrapper/commands.py  get_many grouping per backend and positional re-assembly
     wrapper/disable_control.py  _is_disable_middleware
     backends/interface.py ControlMixin (per-context disabled set, copied at task creation)
   Definitions only. *)
From Coq Require Import Ascii.
From Cashews Require Import Base.Prelude.

(* ---- str ordering of Python (code points) on ASCII strings ---- *)
Fixpoint sleb (a b : string) : bool :=
  match a, b with
  | EmptyString, _ => true
  | String _ _, EmptyString => false
  | String c a', String d b' =>
      if (N_of_ascii c <? N_of_ascii d)%N then true
      else if (N_of_ascii c =? N_of_ascii d)%N then sleb a' b' else false
  end.
(* sorted(keys, reverse=True) *)
Fixpoint insert_desc (x : string) (l : list string) : list string :=
  match l with
  | [] => [x]
  | y :: r => if sleb y x then x :: l else y :: insert_desc x r
  end.
Definition sort_desc (l : list string) : list string := fold_right insert_desc [] l.

(* registry = dict prefix -> backend id, in insertion order; re-registering a prefix overrides *)
Definition registry := list (string * nat).
Fixpoint reg_set (r : registry) (p : string) (b : nat) : registry :=
  match r with
  | [] => [(p, b)]
  | (p', b') :: r' => if String.eqb p p' then (p', b) :: r' else (p', b') :: reg_set r' p b
  end.
Definition reg_get (r : registry) (p : string) : option nat :=
  option_map snd (find (fun e => String.eqb (fst e) p) r).
Definition registered (regs : list (string * nat)) : registry := fold_left (fun r e => reg_set r (fst e) (snd e)) regs [].
Definition sorted_prefixes (r : registry) : list string := sort_desc (map fst r).

(* _get_backend: first prefix in the sorted tuple the key starts with; None = NotConfiguredError *)
Definition route_prefix (sorted : list string) (k : key) : option string := find (fun p => String.prefix p k) sorted.
Definition route (r : registry) (k : key) : option nat :=
  match route_prefix (sorted_prefixes r) k with Some p => reg_get r p | None => None end.

(* ---- get_many: group keys per backend (first-seen order), one backend call per group, dict
   update with zip(keys, values), then tuple(result.get(key) for key in keys) ---- *)
Section GetMany.
Variable rt : key -> nat.                                   (* routing (total here) *)
Variable bk_get_many : nat -> list key -> list (option val). (* backend call *)
Fixpoint group_add (g : list (nat * list key)) (b : nat) (k : key) : list (nat * list key) :=
  match g with
  | [] => [(b, [k])]
  | (b', ks) :: g' => if Nat.eqb b b' then (b', ks ++ [k]) :: g' else (b', ks) :: group_add g' b k
  end.
Definition groups (ks : list key) : list (nat * list key) := fold_left (fun g k => group_add g (rt k) k) ks [].
Definition dict := list (key * option val).
Fixpoint dict_set (d : dict) (k : key) (v : option val) : dict :=
  match d with
  | [] => [(k, v)]
  | (k', v') :: d' => if String.eqb k k' then (k', v) :: d' else (k', v') :: dict_set d' k v
  end.
Definition dict_get (d : dict) (k : key) : option val :=
  match find (fun e => String.eqb (fst e) k) d with Some e => snd e | None => None end.
Fixpoint dict_update (d : dict) (kvs : list (key * option val)) : dict :=
  match kvs with [] => d | (k, v) :: r => dict_update (dict_set d k v) r end.
Definition facade_get_many (ks : list key) : list (option val) :=
  let result := fold_left (fun d g => dict_update d (combine (snd g) (bk_get_many (fst g) (snd g)))) (groups ks) [] in
  map (dict_get result) ks.
End GetMany.

(* ---- disable middleware ---- *)
Inductive ckind := KGet | KGetMany (n : nat) | KPattern | KKeysCount | KOther.
Inductive cres := RDefault | RDefaults (n : nat) | REmptyIter | RNone | RZero | RBackend.
(* what the facade returns and whether the backend command is issued *)
Definition disabled_result (k : ckind) : cres :=
  match k with
  | KGet => RDefault
  | KGetMany n => RDefaults n
  | KPattern => REmptyIter
  | KKeysCount => RZero
  | KOther => RNone
  end.
Definition middleware (disabled : bool) (k : ckind) : cres * bool :=
  if disabled then (disabled_result k, false) else (RBackend, true).

(* ---- ControlMixin with context variables ---- *)
Definition cmdset := list nat.                   (* commands as numbers; ALL = all_cmds *)
Record ctl := { control_set : bool; ctxs : list (nat * cmdset) }.   (* task id -> its context's value *)
Definition ctx_get (c : ctl) (t : nat) : cmdset :=
  match find (fun e => Nat.eqb (fst e) t) (ctxs c) with Some e => snd e | None => [] end.
Definition ctx_put (c : ctl) (t : nat) (s : cmdset) : ctl :=
  {| control_set := true; ctxs := (t, s) :: ctxs c |}.
Definition memn (x : nat) (l : list nat) := existsb (Nat.eqb x) l.
Definition c_is_disable (all_cmds : cmdset) (c : ctl) (t : nat) (cmds : list nat) : bool :=
  if negb (control_set c) then false
  else let d := ctx_get c t in
       match cmds with
       | [] => negb (match d with [] => true | _ => false end)
       | _ => existsb (fun x => memn x d) cmds
       end.
Definition c_is_full_disable (all_cmds : cmdset) (c : ctl) (t : nat) : bool :=
  if negb (control_set c) then false
  else let d := ctx_get c t in forallb (fun x => memn x d) all_cmds.
Definition c_disable (all_cmds : cmdset) (c : ctl) (t : nat) (cmds : list nat) : ctl :=
  ctx_put c t (match cmds with [] => all_cmds | _ => cmds ++ ctx_get c t end).
Definition c_enable (c : ctl) (t : nat) (cmds : list nat) : ctl :=
  ctx_put c t (match cmds with [] => [] | _ => filter (fun x => negb (memn x cmds)) (ctx_get c t) end).
(* task creation copies the creator's context *)
Definition c_spawn (c : ctl) (parent child : nat) : ctl :=
  {| control_set := control_set c; ctxs := (child, ctx_get c parent) :: ctxs c |}.

(* ---- delete_many / set_many: the same grouping, one backend call per group ---- *)
Definition bstores := list (nat * list (key * val)).          (* backend id -> its contents *)
Definition bs_get (st : bstores) (b : nat) : list (key * val) :=
  match find (fun e => Nat.eqb (fst e) b) st with Some e => snd e | None => [] end.
Fixpoint bs_put (st : bstores) (b : nat) (c : list (key * val)) : bstores :=
  match st with
  | [] => [(b, c)]
  | (b', c') :: r => if Nat.eqb b b' then (b', c) :: r else (b', c') :: bs_put r b c
  end.
Definition kv_get (c : list (key * val)) (k : key) : option val :=
  match find (fun e => String.eqb (fst e) k) c with Some e => Some (snd e) | None => None end.
Definition kv_del (c : list (key * val)) (k : key) := filter (fun e => negb (String.eqb (fst e) k)) c.
Definition kv_set (c : list (key * val)) (k : key) (v : val) := kv_del c k ++ [(k, v)].
Definition facade_delete_many (rt : key -> nat) (st : bstores) (ks : list key) : bstores :=
  fold_left (fun st g => bs_put st (fst g) (fold_left kv_del (snd g) (bs_get st (fst g)))) (groups rt ks) st.
Definition facade_set_many (rt : key -> nat) (st : bstores) (kvs : list (key * val)) : bstores :=
  fold_left (fun st g => bs_put st (fst g)
                           (fold_left (fun c k => match kv_get kvs k with Some v => kv_set c k v | None => c end)
                                      (snd g) (bs_get st (fst g))))
            (groups rt (map fst kvs)) st.

(* C01 - the in-memory store is a TTL key-value map for every command history.
   Statements only; proofs are `exact <lemma>`. *)
From Cashews Require Import Base.Prelude Base.OMap Spec.TTLMap Model.Memory Proofs.MemoryProofs Proofs.TTLMapFacts.

(* Every history (any length, any instants as long as the clock does not go back, any
   commands incl. purge passes anywhere) over a key set K that fits the capacity: the model
   of Memory returns, command by command, exactly what the ideal TTL map returns. *)
Theorem C01_memory_refines_ttlmap : forall K size h t0,
  NoDup K -> (length K <= size)%nat ->
  Forall (fun e => incl (cmd_keys (snd e)) K) h -> mono t0 h ->
  outs_m size [] h = run_s empty h.
Proof. exact memory_refines_from_empty. Qed.
Print Assumptions C01_memory_refines_ttlmap.

(* the same from any pair of related states (arbitrary initial contents) *)
Theorem C01_memory_refines_ttlmap_from : forall K size, NoDup K -> (length K <= size)%nat ->
  forall h s m t0, Forall (fun e => incl (cmd_keys (snd e)) K) h ->
  R s m t0 -> KInv K s -> mono t0 h -> outs_m size s h = run_s m h.
Proof. exact memory_refines_ttlmap. Qed.
Print Assumptions C01_memory_refines_ttlmap_from.

(* "never returned at or after its deadline" *)
Theorem C01_not_served_at_or_after_deadline : forall m now k d v,
  m k = Some (Some d, v) -> d <= now -> s_get m now k = None.
Proof. exact spec_not_served_at_deadline. Qed.
Print Assumptions C01_not_served_at_or_after_deadline.

(* "a write that reported success is readable immediately afterwards" *)
Theorem C01_write_readable : forall m now k v ttl, s_get (s_write m now k v ttl) now k = Some v.
Proof. exact spec_write_readable. Qed.
Print Assumptions C01_write_readable.

(* "whether or not it has been purged yet": a purge pass inserted anywhere changes nothing *)
Theorem C01_sweep_insensitive : forall K size h1 t h2 t0, NoDup K -> (length K <= size)%nat ->
  Forall (fun e => incl (cmd_keys (snd e)) K) (h1 ++ h2) -> mono t0 (h1 ++ (t, Sweep) :: h2) ->
  outs_m size [] (h1 ++ (t, Sweep) :: h2)
  = firstn (length h1) (outs_m size [] (h1 ++ h2)) ++ RUnit :: skipn (length h1) (outs_m size [] (h1 ++ h2)).
Proof. exact sweep_insensitive. Qed.
Print Assumptions C01_sweep_insensitive.

(* non-vacuity: a history that meets the hypotheses and visits an expired, unpurged entry
   with each of the sensitive commands (set if-absent, set if-present, get_expire, delete) *)
Example C01_example :
  let h := [(1, Set_ "a" (VInt 7) 16 None); (17, Set_ "a" (VInt 8) 0 (Some true)); (17, Set_ "a" (VInt 9) 0 (Some false));
            (17, Get "a"); (17, GetExpire "a"); (20, Set_ "b" (VStr "x") 4 None); (24, GetExpire "b"); (24, Del "b")]%string in
  outs_m 2 [] h = [RBool true; RBool false; RBool true; RVal (Some (VInt 9)); RInt (-1); RBool true; RInt (-2); RBool false]
  /\ mono 0 h /\ Forall (fun e => incl (cmd_keys (snd e)) ["a"; "b"]%string) h.
Proof. split; [vm_compute; reflexivity|]. split; [cbn; lia|]. repeat (apply Forall_cons; [intros x [<-|[]]; cbn; auto|]). apply Forall_nil. Qed.

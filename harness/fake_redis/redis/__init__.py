"""In-process stand-in for the `redis` package (redis-py is not installed in this image): the part of redis-py's asyncio
client that cashews touches, on top of an in-process server (server.py) written from the Redis command reference.
Command methods only assemble the argument tuple the way redis-py does and call self.execute_command, so the
execute_command / execute overrides of cashews (SafeRedis, Redis, SafePipeline) are the code that runs."""
from . import exceptions  # noqa: F401
from . import asyncio  # noqa: F401

__version__ = "5.0.0-standin"

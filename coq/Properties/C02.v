(* C02 - a cached call returns only a fresh real result for the same arguments. Statements only. *)
From Coq Require Import Ascii.
From Cashews Require Import Base.Prelude Spec.TTLMap Model.Key Model.DecorSimple Proofs.DecorSimpleProofs.

(* the invariant: every entry of the store is the stored form of an accepted execution of that key, carrying
   that execution's deadline; it holds initially and after every history of calls (any keys, instants, scripts) *)
Theorem C02_simple_invariant : forall ttl c h, SInv ttl c (fst (simple_hist empty [] ttl c h)) (snd (simple_hist empty [] ttl c h)).
Proof. exact (fun ttl c h => simple_reachable ttl c h empty [] (SInv_empty ttl c)). Qed.
Print Assumptions C02_simple_invariant.

(* in any such state, one call: it executes iff the key has no live entry; when it executes the caller gets the
   function's own outcome and a rejected outcome leaves the store untouched; when it does not, the caller gets the
   outcome of an earlier accepted execution of the same key that is still within its ttl *)
Theorem C02_simple_call : forall ttl c m L now k o, SInv ttl c m L ->
  let '(m', res, ex) := simple_call m now k ttl c o in
  SInv ttl c m' (if ex then (k, now, o) :: L else L) /\
  (ex = true -> res = o /\ s_get m now k = None /\ (accepted c o = false -> m' = m)) /\
  (ex = false -> exists t o', In (k, t, o') L /\ res = unmark (stored_form o') /\ accepted c o' = true /\
                              live now (deadline t ttl) = true).
Proof. exact simple_step. Qed.
Print Assumptions C02_simple_call.

(* ... and what is replayed is exactly that outcome (values never look like the exception marker) *)
Theorem C02_replay_is_the_outcome : forall o, clean o -> (forall e, o = OExc e -> 0 <= e) -> unmark (stored_form o) = o.
Proof. exact unmark_stored. Qed.
Print Assumptions C02_replay_is_the_outcome.

(* iterator: one call in any reachable state of a key's chunk store (runs may take virtual time): it either runs the
   generator or replays, whole and in order, the chunks of one recorded cacheable run still within ttl *)
Theorem C02_iterator_call : forall k ttl c fuel m now L r dur, IInv k ttl c m now L -> 0 <= dur ->
  let '(m', res, ex) := iter_call fuel m now k ttl c r dur in
  IInv k ttl c m' (now + dur) (if ex then (now, r) :: L else L) /\
  (ex = true -> res = r) /\
  (ex = false -> exists t r', In (t, r') L /\ run_cacheable c r' = true /\ now < t + ttl /\
                              ((length (chunks_of r') < fuel)%nat -> res = unroll (chunks_of r'))).
Proof. exact iter_step. Qed.
Print Assumptions C02_iterator_call.

(* whatever the items are (falsy ones included): the chunks of a run unroll to exactly that run *)
Theorem C02_iterator_whole_run : forall r, clean_run r -> unroll (chunks_of r) = r.
Proof. exact unroll_chunks. Qed.
Print Assumptions C02_iterator_whole_run.

Theorem C02_iterator_invariant_init : forall k ttl c now, IInv k ttl c empty now [].
Proof. exact IInv_empty. Qed.
Print Assumptions C02_iterator_invariant_init.
Theorem C02_iterator_invariant_time : forall k ttl c m now now' L, now <= now' -> IInv k ttl c m now L -> IInv k ttl c m now' L.
Proof. exact IInv_time. Qed.
Print Assumptions C02_iterator_invariant_time.

(* duration strings: every list of (digits, unit) components denotes the sum of the components *)
Theorem C02_ttl_parse_sound : forall cs, Forall comp_ok cs ->
  ttl_from_str (flat_map comp_str cs) = Some (fold_left (fun a c => a + comp_val c) cs 0).
Proof. exact ttl_parse_sound. Qed.
Print Assumptions C02_ttl_parse_sound.
Theorem C02_ttl_parse_digits : forall ds, Forall is_dig ds -> ds <> [] -> ttl_from_str (map dchar ds) = Some (dval ds 0).
Proof. exact ttl_parse_digits. Qed.
Print Assumptions C02_ttl_parse_digits.

Example C02_example :
  ttl_from_str (list_ascii_of_string "1d2h3m50s") = Some 93830 /\
  (let '(m1, r1, e1) := iter_call 10 empty 0 "k" 32 CAll ([VInt 1; VInt 0; VInt 2], None) 0 in
   let '(_, r2, e2) := iter_call 10 m1 16 "k" 32 CAll ([VInt 9], None) 0 in (e1, r2, e2))
  = (true, ([VInt 1; VInt 0; VInt 2], None), false).
Proof. vm_compute. split; reflexivity. Qed.

From Coq Require Import FunctionalExtensionality.
From Cashews Require Import Base.Prelude Spec.Glob Model.Redis Spec.RedisRef.
Open Scope Z_scope.

Lemma supd_same s k e : supd s k e k = e.
Proof. unfold supd. rewrite String.eqb_refl. reflexivity. Qed.
Lemma look_supd_same s now k v d : look (supd s k (Some (v, d))) now k = match d with Some d0 => if d0 <=? now then None else Some (v, d) | None => Some (v, d) end.
Proof. unfold look. rewrite supd_same. destruct d; reflexivity. Qed.
Lemma look_live s now k v d : look s now k = Some (v, Some d) -> now < d.
Proof.
  unfold look. destruct (s k) as [[v0 [d0|]]|]; try discriminate.
  destruct (Z.leb_spec d0 now); [discriminate|]. intros [= _ <-]. assumption.
Qed.
Lemma look_raw s now k e : look s now k = Some e -> s k = Some e.
Proof.
  unfold look. destruct (s k) as [[v0 [d0|]]|]; try discriminate; [|auto].
  destruct (d0 <=? now); [discriminate|auto].
Qed.

(* UNLINK of a key list = dropping each present key; the reply counts them *)
Lemma unlink_drop s now ks : fst (c_unlink s now ks) = drop s now ks /\ exists n, snd (c_unlink s now ks) = Int n /\ 0 <= n.
Proof.
  unfold c_unlink, drop.
  assert (G : forall ks s n, 0 <= n ->
    fst (fold_left (fun (sr : server * reply) k => let '(s', r) := sr in
               match look s' now k, r with Some _, Int n => (supd s' k None, Int (n + 1)) | _, _ => (s', r) end) ks (s, Int n)) =
    fold_left (fun m' k => if present m' now k then supd m' k None else m') ks s /\
    exists n', snd (fold_left (fun (sr : server * reply) k => let '(s', r) := sr in
               match look s' now k, r with Some _, Int n => (supd s' k None, Int (n + 1)) | _, _ => (s', r) end) ks (s, Int n)) = Int n' /\ 0 <= n').
  { clear s ks. intro ks. induction ks as [|k0 ks IH]; intros s n Hn; cbn [fold_left]; [split; [reflexivity|exists n; split; [reflexivity|exact Hn]]|].
    unfold present. destruct (look s now k0); cbn [isSome]; apply IH; lia. }
  apply G. lia.
Qed.

Lemma unlink_one s now k : c_unlink s now [k] = (if present s now k then supd s k None else s, Int (if present s now k then 1 else 0)).
Proof. unfold c_unlink, present. cbn. destruct (look s now k); reflexivity. Qed.

Lemma filter_ext_in' {A} (f g : A -> bool) l : (forall x, f x = g x) -> filter f l = filter g l.
Proof. intro H. induction l as [|a l IH]; cbn; [reflexivity|]. rewrite H, IH. reflexivity. Qed.

Lemma fold_set_many now ttl kvs : forall s,
  fold_left (fun s' kv => fst (c_set s' now (fst kv) (enc (snd kv)) (px_of ttl) false false)) kvs s =
  fold_left (fun m' kv => supd m' (fst kv) (Some (enc (snd kv), deadline now ttl))) kvs s.
Proof.
  induction kvs as [|kv kvs IH]; intro s; cbn [fold_left]; [reflexivity|]. rewrite <- IH. f_equal.
  unfold c_set, px_of, deadline. cbn. destruct (0 <? ttl); reflexivity.
Qed.

Lemma scan_matching s now U pat : c_scan s now U pat = matching s now U pat.
Proof. reflexivity. Qed.

Lemma supd_supd s k e1 e2 : supd (supd s k e1) k e2 = supd s k e2.
Proof. apply functional_extensionality. intro k'. unfold supd. destruct (String.eqb k' k); reflexivity. Qed.
Lemma look_keep s now k v d (v' : rval) : look s now k = Some (v, d) ->
  match d with Some d0 => if d0 <=? now then @None entry else @Some entry (v', d) | None => @Some entry (v', d) end = @Some entry (v', d).
Proof. intro L. destruct d as [d0|]; [|reflexivity]. pose proof (look_live _ _ _ _ _ L). destruct (Z.leb_spec d0 now); [lia|reflexivity]. Qed.

Lemma pexpire_after_supd s now k v d ttl : 0 < ttl -> (forall d0, d = Some d0 -> now < d0) ->
  fst (c_pexpire (supd s k (Some (v, d))) now k ttl) = supd s k (Some (v, Some (now + ttl))).
Proof.
  intros Hp Hl. unfold c_pexpire. rewrite look_supd_same. destruct d as [d0|].
  - specialize (Hl d0 eq_refl). destruct (Z.leb_spec d0 now); [lia|]. destruct (Z.leb_spec ttl 0); [lia|]. cbn. apply supd_supd.
  - destruct (Z.leb_spec ttl 0); [lia|]. cbn. apply supd_supd.
Qed.

(* ---------- 1. with the server up, every command means what the reference says ---------- *)
Theorem redis_refines_ref U s now c : up_step true U s now c = r_step U s now c.
Proof.
  destruct c as [k v ttl ex|kvs ttl|k|ks|k|ks|k|k ttl|k|k by_ ttl|k tok ttl|k tok|pat|pat|pat|k ms ttl|k ms|k n|k size idxs|k size idxs by_|k st en mx ttl| | |];
    cbn [up_step r_step]; try reflexivity.
  - (* set *)
    unfold c_set, px_of, deadline, present. destruct ex as [[|]|]; cbn.
    + destruct (isSome (look s now k)); cbn; destruct (0 <? ttl); reflexivity.
    + destruct (isSome (look s now k)); cbn; destruct (0 <? ttl); reflexivity.
    + destruct (0 <? ttl); reflexivity.
  - (* set_many *) rewrite fold_set_many. reflexivity.
  - (* get *) unfold c_get, read_val. destruct (look s now k) as [[[v|z|tk|b|l|l] d]|]; reflexivity.
  - (* get_many *)
    destruct ks as [|k0 ks]; [reflexivity|]. unfold c_mget. rewrite map_map. do 2 f_equal. apply map_ext. intro k.
    unfold read_val. destruct (look s now k) as [[[v|z|tk|b|l|l] d]|]; reflexivity.
  - (* delete *) rewrite unlink_one. unfold drop. cbn. destruct (present s now k); reflexivity.
  - (* delete_many *) destruct (unlink_drop s now ks) as [E _]. rewrite E. reflexivity.
  - (* exists *) unfold c_exists, present. destruct (isSome (look s now k)); reflexivity.
  - (* expire *) unfold c_pexpire. destruct (look s now k) as [[v d]|]; reflexivity.
  - (* get_expire *) unfold c_ttl. destruct (look s now k) as [[v [d|]]|]; reflexivity.
  - (* incr *)
    destruct (Z.ltb_spec 0 ttl) as [Hp|Hp].
    + unfold script_incr_expire, c_incrby, deadline. destruct (look s now k) as [[[v|z|tk|b|l|l] d]|] eqn:L; cbn; try reflexivity.
      * destruct (Z.eqb_spec (z + by_) 1) as [E|E]; cbn; [|reflexivity].
        unfold c_pexpire. rewrite look_supd_same. destruct d as [d0|].
        -- pose proof (look_live _ _ _ _ _ L) as Hl. destruct (Z.leb_spec d0 now); [lia|].
           destruct (Z.leb_spec ttl 0); [lia|]. cbn. rewrite supd_supd. reflexivity.
        -- destruct (Z.leb_spec ttl 0); [lia|]. cbn. rewrite supd_supd. reflexivity.
      * destruct (Z.eqb_spec by_ 1) as [E|E]; cbn.
        -- unfold c_pexpire. rewrite look_supd_same. destruct (Z.leb_spec ttl 0); [lia|]. cbn. rewrite supd_supd.
           destruct (Z.ltb_spec 0 ttl); [reflexivity|lia].
        -- reflexivity.
    + unfold c_incrby. destruct (look s now k) as [[[v|z|tk|b|l|l] d]|]; cbn; try reflexivity.
      * rewrite andb_false_r. reflexivity.
      * unfold deadline. destruct (0 <? ttl) eqn:E; [apply Z.ltb_lt in E; lia|]. destruct (by_ =? 1); reflexivity.
  - (* set_lock *)
    unfold c_set, present. cbn. destruct (isSome (look s now k)); reflexivity.
  - (* unlock *)
    unfold script_unlock, c_get. destruct (look s now k) as [[[v|z|tk|b|l|l] d]|] eqn:L; cbn [is_str]; try reflexivity.
    destruct (val_eqb tk tok); [|reflexivity]. rewrite unlink_one. unfold present. rewrite L. reflexivity.
  - (* delete_match *)
    destruct (existsb is_star (list_ascii_of_string pat)).
    + destruct (unlink_drop s now (c_scan s now U pat)) as [E _]. rewrite E. reflexivity.
    + destruct (unlink_drop s now [pat]) as [E _]. rewrite E. reflexivity.
  - (* get_match *)
    do 2 f_equal. apply flat_map_ext. intro k. unfold read_val. destruct (look s now k) as [[[v|z|tk|b|l|l] d]|]; reflexivity.
  - (* set_add *)
    destruct (look s now k) as [[[v|z|tk|b|l|l] d]|] eqn:L; unfold c_sadd; rewrite L; cbn; try (destruct ttl; reflexivity).
    + destruct ttl as [t|]; [|reflexivity]. unfold c_pexpire. rewrite look_supd_same.
      destruct d as [d0|]; [|reflexivity].
      pose proof (look_live _ _ _ _ _ L) as Hl. destruct (Z.leb_spec d0 now); [lia|]. reflexivity.
    + destruct ttl as [t|]; [|reflexivity]. unfold c_pexpire. rewrite look_supd_same. cbn. reflexivity.
  - (* slice_incr *)
    unfold script_incr_slice. destruct (zset_of s now k) as [[l d]|] eqn:Zk; [|reflexivity].
    rewrite (filter_ext_in' (fun x => negb ((0 <=? x) && (x <? st))) (fun x => (x <? 0) || (st <=? x))).
    2:{ intro x. destruct (Z.leb_spec 0 x), (Z.ltb_spec x st), (Z.ltb_spec x 0), (Z.leb_spec st x); cbn; try reflexivity; lia. }
    set (l1 := filter (fun x => (x <? 0) || (st <=? x)) l).
    set (cnt := Z.of_nat (length (filter (fun x => (st <=? x) && (x <=? en)) l1))).
    destruct (cnt <? mx); [|reflexivity].
    set (l2 := l1 ++ [en]).
    assert (S1 : forall e, supd (match l, l1 with [], _ => s | _, [] => supd s k None | _, _ => supd s k (Some (RZSet l1, d)) end) k e = supd s k e).
    { intro e. destruct l; [reflexivity|]. destruct l1; apply supd_supd. }
    rewrite S1. destruct (0 <? ttl) eqn:Ep; [|reflexivity].
    apply Z.ltb_lt in Ep. rewrite pexpire_after_supd; [reflexivity|exact Ep|].
    intros d0 Hd. destruct l1; [discriminate|]. subst d.
    unfold zset_of in Zk. destruct (look s now k) as [[[v0|z0|tk0|b0|lz|lz] dz]|] eqn:L; try discriminate.
    injection Zk as _ ->. exact (look_live _ _ _ _ _ L).
Qed.

(* histories: (instant, server down?, command) *)
Fixpoint run_ref (U : list key) (m : server) (h : list (Z * ccmd)) : list bres :=
  match h with [] => [] | (t, c) :: r => let '(m', o) := r_step U m t c in o :: run_ref U m' r end.

Theorem redis_history_refines U : forall h s,
  run_b true U s (map (fun tc => (fst tc, false, snd tc)) h) = run_ref U s h.
Proof.
  induction h as [|[t c] h IH]; intro s; cbn; [reflexivity|].
  unfold b_step. rewrite redis_refines_ref. destruct (r_step U s t c) as [m' o]. rewrite IH. reflexivity.
Qed.

(* without suppression the same holds whenever the command does not end in the interaction error *)
Theorem redis_strict_same U s now c : snd (up_step false U s now c) <> BRaise -> up_step false U s now c = up_step true U s now c.
Proof.
  destruct c; cbn [up_step]; try reflexivity.
  - destruct (c_get s now k); cbn; try reflexivity; intro H; contradiction.
  - destruct (if 0 <? ttl then script_incr_expire s now k by_ ttl else c_incrby s now k by_) as [s' r]. destruct r; cbn; try reflexivity; intro H; contradiction.
  - destruct (c_sadd s now k ms) as [s1 r]. destruct ttl; [reflexivity|]. destruct r; cbn; try reflexivity; intro H; contradiction.
Qed.

(* ---------- 2. the server is unreachable ---------- *)
Definition falsy (r : bres) : bool :=
  match r with
  | BBool false | BNone | BUnit | BVal None | BInt 0 => true
  | BVals l => forallb (fun x => match x with None => true | _ => false end) l
  | BInts [] | BKeys [] | BPairs [] => true
  | _ => false
  end.

(* suppression on: the store is not touched, nothing but ping raises, and every answer is the "nothing there / not done" one *)
Theorem redis_down_safe U s now c :
  b_step true U true s now c = (s, if touches_server c then down_res c else BVals []) /\
  (down_res c = BRaise <-> c = CPing) /\ down_res c <> BOther /\ (c <> CPing -> falsy (down_res c) = true).
Proof.
  repeat split.
  - unfold b_step. destruct c; try reflexivity. destruct ks; reflexivity.
  - destruct c; cbn; intro H; try discriminate; reflexivity.
  - intros ->. reflexivity.
  - destruct c; discriminate.
  - destruct c; cbn; try reflexivity; try (intro H; contradiction).
    intros _. induction ks; cbn; [reflexivity|assumption].
Qed.

(* suppression off: exactly the documented error, for every command that needs the server *)
Theorem redis_down_strict U s now c : touches_server c = true -> b_step false U true s now c = (s, BRaise).
Proof. intro H. unfold b_step. rewrite H. reflexivity. Qed.

(* over a whole history with the server going down and coming back at arbitrary positions: no command ever ends in
   an exception other than the interaction error, and with suppression on that one only comes from ping *)
Definition cmd_of (x : Z * bool * ccmd) := snd x.
Lemma up_step_no_other sup U s now c : snd (up_step sup U s now c) <> BOther.
Proof.
  destruct c; cbn [up_step]; try discriminate;
    repeat match goal with
           | |- context[let '(_, _) := ?p in _] => destruct p
           | |- context[match ?x with _ => _ end] => destruct x
           end; cbn; discriminate.
Qed.

Theorem redis_history_safe U : forall h s,
  Forall (fun r => r <> BOther) (run_b true U s h) /\
  Forall2 (fun x r => r = BRaise -> cmd_of x = CPing) h (run_b true U s h).
Proof.
  induction h as [|[[t down] c] h IH]; intro s; cbn; [split; constructor|].
  destruct (b_step true U down s t c) as [s' o] eqn:E. destruct (IH s') as [I1 I2]. split; constructor; try assumption.
  - unfold b_step in E. destruct down.
    + destruct (touches_server c); injection E as _ <-; [destruct c; discriminate|apply up_step_no_other].
    + replace o with (snd (up_step true U s t c)) by (rewrite E; reflexivity). apply up_step_no_other.
  - intro Ho. subst o. unfold cmd_of. cbn. unfold b_step in E. destruct down.
    + destruct (touches_server c) eqn:Tc; injection E as _ E.
      * destruct c; try discriminate. reflexivity.
      * destruct c; try discriminate. destruct ks; discriminate.
    + exfalso. assert (H : snd (up_step true U s t c) = BRaise) by (rewrite E; reflexivity). clear E.
      destruct c; cbn [up_step] in H; try discriminate;
        repeat match type of H with
               | context[let '(_, _) := ?p in _] => destruct p
               | context[match ?x with _ => _ end] => destruct x
               end; cbn in H; discriminate.
Qed.

(* ---------- 3. a read-through decorator over an unreachable backend returns the function's own result ---------- *)
(* the shape shared by cache / early / soft / hit / failover on a miss: look the key up, call the function, store *)
Definition read_through (U : list key) (s : server) (now : Z) (down : bool) (k : key) (ttl : Z) (f : val) : server * val :=
  match snd (b_step true U down s now (CGet k)) with
  | BVal (Some v) => (s, v)
  | _ => (fst (b_step true U down s now (CSet k f ttl None)), f)
  end.
Theorem read_through_survives_down U s now k ttl f : read_through U s now true k ttl f = (s, f).
Proof. reflexivity. Qed.

(* ---- is_locked(wait, step): on a server nobody writes to, a key that is gone stays gone, so the waiting form answers what
   `exists` answers at the instant it returns - which is how the histories of Run/C19.v carry it (CExists at the return instant) *)
Lemma b_exists_present U s now k : b_exists U s now k = present s now k.
Proof. unfold b_exists, present. cbn. unfold c_exists. destruct (isSome (look s now k)); reflexivity. Qed.
Lemma gone_stays_gone s now now' k : now <= now' -> present s now k = false -> present s now' k = false.
Proof.
  unfold present, look. intros Hle. destruct (s k) as [[v [d|]]|]; cbn; try (intro; assumption).
  destruct (Z.leb_spec d now); cbn; [|discriminate]. intros _. destruct (Z.leb_spec d now'); [reflexivity|lia].
Qed.
Definition rounds (w st : Z) : Z := Z.max 0 ((w + st - 1) / st).
Theorem b_is_locked_spec U s k st fuel : forall now w b, 0 < st ->
  b_is_locked fuel U s now k w st = Some b -> b = present s (now + rounds w st * st) k.
Proof.
  induction fuel as [|f IH]; intros now w b Hs H; cbn [b_is_locked] in H; [discriminate|].
  rewrite b_exists_present in H. unfold rounds. destruct (Z.ltb_spec 0 w) as [Hw|Hw].
  - assert (Hq : (w + st - 1) / st = (w - st + st - 1) / st + 1).
    { replace (w + st - 1) with ((w - st + st - 1) + 1 * st) by ring. apply Z.div_add. lia. }
    assert (Hq0 : 0 <= (w - st + st - 1) / st) by (apply Z.div_pos; lia).
    destruct (present s now k) eqn:L.
    + apply IH in H; [|exact Hs]. rewrite H. unfold rounds. f_equal. rewrite Hq. lia.
    + injection H as <-. symmetry. apply (gone_stays_gone s now); [|exact L].
      assert (0 <= Z.max 0 ((w + st - 1) / st) * st) by (apply Z.mul_nonneg_nonneg; lia). lia.
  - injection H as <-. assert ((w + st - 1) / st < 1) by (apply Z.div_lt_upper_bound; lia).
    replace (Z.max 0 ((w + st - 1) / st)) with 0 by lia. f_equal. lia.
Qed.

From Coq Require Import Ascii Sorting.Sorted.
From Cashews Require Import Base.Prelude Model.Router.

(* ---------- the string order ---------- *)
Lemma sleb_refl a : sleb a a = true.
Proof. induction a as [|c a IH]; cbn; [reflexivity|]. rewrite N.ltb_irrefl, N.eqb_refl. exact IH. Qed.

Lemma sleb_trans a : forall b c, sleb a b = true -> sleb b c = true -> sleb a c = true.
Proof.
  induction a as [|x a IH]; intros [|y b] [|z c]; cbn; try reflexivity; try discriminate.
  destruct (N.ltb_spec (N_of_ascii x) (N_of_ascii y)), (N.ltb_spec (N_of_ascii y) (N_of_ascii z)),
           (N.ltb_spec (N_of_ascii x) (N_of_ascii z)); try reflexivity; try lia;
  destruct (N.eqb_spec (N_of_ascii x) (N_of_ascii y)), (N.eqb_spec (N_of_ascii y) (N_of_ascii z)),
           (N.eqb_spec (N_of_ascii x) (N_of_ascii z)); try discriminate; try lia; try (intros; discriminate).
  apply IH.
Qed.

Lemma sleb_total a : forall b, sleb a b = true \/ sleb b a = true.
Proof.
  induction a as [|x a IH]; intros [|y b]; cbn; auto.
  destruct (N.ltb_spec (N_of_ascii x) (N_of_ascii y)), (N.ltb_spec (N_of_ascii y) (N_of_ascii x)); auto; try lia.
  assert (E : N_of_ascii x = N_of_ascii y) by lia. rewrite E, N.eqb_refl. apply IH.
Qed.

(* ---------- sorting ---------- *)
Definition desc (a b : string) : Prop := sleb b a = true.   (* a before b *)

Lemma In_insert x l y : In y (insert_desc x l) <-> y = x \/ In y l.
Proof.
  induction l as [|z l IH]; cbn; [intuition|]. destruct (sleb z x); cbn; [intuition|]. rewrite IH. intuition.
Qed.
Lemma In_sort l y : In y (sort_desc l) <-> In y l.
Proof. induction l as [|x l IH]; cbn; [tauto|]. rewrite In_insert, IH. intuition. Qed.

Lemma insert_sorted x l : StronglySorted desc l -> StronglySorted desc (insert_desc x l).
Proof.
  induction 1 as [|y l Hs IH Hall]; cbn; [repeat constructor|].
  destruct (sleb y x) eqn:E.
  - constructor; [constructor; assumption|]. constructor; [exact E|].
    rewrite Forall_forall in *. intros z Hz. unfold desc in *. eapply sleb_trans; [apply Hall, Hz|exact E].
  - constructor; [exact IH|]. rewrite Forall_forall in *. intros z Hz. apply In_insert in Hz as [->|Hz]; [|auto].
    unfold desc. destruct (sleb_total x y); [assumption|congruence].
Qed.
Lemma sort_sorted l : StronglySorted desc (sort_desc l).
Proof. induction l; cbn; [constructor|apply insert_sorted; assumption]. Qed.

(* ---------- prefixes of one key ---------- *)
Lemma prefix_sleb_length k : forall p q, String.prefix p k = true -> String.prefix q k = true ->
  sleb q p = true -> (String.length q <= String.length p)%nat.
Proof.
  induction k as [|c k IH]; intros [|a p] [|b q]; cbn; try lia; try discriminate.
  destruct (ascii_dec a c); [|discriminate]. destruct (ascii_dec b c); [|discriminate]. subst.
  rewrite N.ltb_irrefl, N.eqb_refl. intros Hp Hq Hs. specialize (IH p q Hp Hq Hs). lia.
Qed.

Lemma find_first_sorted (f : string -> bool) l p : StronglySorted desc l -> find f l = Some p ->
  In p l /\ f p = true /\ forall q, In q l -> f q = true -> sleb q p = true.
Proof.
  induction 1 as [|y l Hs IH Hall]; cbn; [discriminate|].
  destruct (f y) eqn:E.
  - intros [= <-]. split; [left; reflexivity|]. split; [exact E|].
    intros q [<-|Hq] _; [apply sleb_refl|]. rewrite Forall_forall in Hall. apply Hall, Hq.
  - intro F. destruct (IH F) as (Hin & Hf & Hmax). split; [right; exact Hin|]. split; [exact Hf|].
    intros q [<-|Hq] Hfq; [congruence|auto].
Qed.

Theorem route_longest prefixes k p : route_prefix (sort_desc prefixes) k = Some p ->
  In p prefixes /\ String.prefix p k = true /\
  forall q, In q prefixes -> String.prefix q k = true -> (String.length q <= String.length p)%nat.
Proof.
  intro F. apply (find_first_sorted _ _ _ (sort_sorted prefixes)) in F as (Hin & Hp & Hmax).
  split; [apply In_sort; exact Hin|]. split; [exact Hp|].
  intros q Hq Hqk. apply (prefix_sleb_length k); auto. apply Hmax; [apply In_sort; exact Hq|exact Hqk].
Qed.

Theorem route_none prefixes k : route_prefix (sort_desc prefixes) k = None ->
  forall q, In q prefixes -> String.prefix q k = false.
Proof.
  intros F q Hq. unfold route_prefix in F. apply In_sort in Hq.
  eapply find_none in F; [|exact Hq]. exact F.
Qed.

(* ---------- get_many answers position by position ---------- *)
Section GM.
Variable rt : key -> nat.
Variable bk_get : nat -> key -> option val.
Definition bk_many (b : nat) (ks : list key) := map (bk_get b) ks.

Definition good_pair (e : key * option val) : Prop := snd e = bk_get (rt (fst e)) (fst e).
Definition good_dict (d : dict) := Forall good_pair d.

Lemma dict_set_good d k v : good_dict d -> v = bk_get (rt k) k -> good_dict (dict_set d k v).
Proof.
  intros Hd Hv. induction Hd as [|[k' v'] d Hg Hd IH]; cbn; [repeat constructor; exact Hv|].
  destruct (String.eqb_spec k k') as [->|]; constructor; auto.
Qed.
Lemma dict_set_has d k v k' : (exists v', In (k', v') d) -> exists v', In (k', v') (dict_set d k v).
Proof.
  intros (v' & H). induction d as [|[k0 v0] d IH]; [destruct H|]. cbn.
  destruct (String.eqb_spec k k0) as [->|Hn].
  - destruct H as [[= <- <-]|H]; [exists v; left; reflexivity|exists v'; right; exact H].
  - destruct H as [[= <- <-]|H]; [exists v0; left; reflexivity|]. destruct (IH H) as (x & Hx). exists x. right. exact Hx.
Qed.
Lemma dict_set_adds d k v : exists v', In (k, v') (dict_set d k v).
Proof.
  induction d as [|[k0 v0] d IH]; cbn; [exists v; left; reflexivity|].
  destruct (String.eqb_spec k k0) as [->|]; [exists v; left; reflexivity|]. destruct IH as (x & Hx). exists x. right. exact Hx.
Qed.
Lemma dict_get_good d k : good_dict d -> (exists v, In (k, v) d) -> dict_get d k = bk_get (rt k) k.
Proof.
  intros Hd (v & Hin). unfold dict_get. induction Hd as [|[k' v'] d Hg Hd IH]; [destruct Hin|]. cbn.
  destruct (String.eqb_spec k' k) as [->|Hn]; [exact Hg|].
  destruct Hin as [[= -> _]|Hin]; [congruence|]. apply IH. exact Hin.
Qed.

Definition has (d : dict) (k : key) := exists v, In (k, v) d.

Lemma dict_update_good b ks : (forall k, In k ks -> rt k = b) -> forall d, good_dict d ->
  good_dict (dict_update d (combine ks (bk_many b ks))) /\
  (forall k, has d k \/ In k ks -> has (dict_update d (combine ks (bk_many b ks))) k).
Proof.
  unfold bk_many. induction ks as [|k ks IH]; intros Hb d Hd; cbn [map combine dict_update].
  - split; [exact Hd|]. intros k [H|[]]. exact H.
  - assert (Hk : rt k = b) by (apply Hb; left; reflexivity).
    destruct (IH (fun x Hx => Hb x (or_intror Hx)) (dict_set d k (bk_get b k))) as [G Hh].
    { apply dict_set_good; [exact Hd|]. rewrite Hk. reflexivity. }
    split; [exact G|]. intros k' [H|[<-|H]]; apply Hh; auto.
    + left. apply dict_set_has. exact H.
    + left. apply dict_set_adds.
Qed.

(* groups: every key of ks sits in the group of its backend, and groups are homogeneous *)
Definition groups_ok (g : list (nat * list key)) := Forall (fun e => forall k, In k (snd e) -> rt k = fst e) g.
Definition in_groups (g : list (nat * list key)) (k : key) := exists e, In e g /\ In k (snd e).

Lemma group_add_ok g k : groups_ok g -> groups_ok (group_add g (rt k) k) /\
  in_groups (group_add g (rt k) k) k /\ (forall k', in_groups g k' -> in_groups (group_add g (rt k) k) k').
Proof.
  induction 1 as [|[b ks] g Hg Hall IH]; cbn.
  - split; [repeat constructor; cbn; intros k' [<-|[]]; reflexivity|]. split.
    + exists (rt k, [k]). split; left; reflexivity.
    + intros k' (e & [] & _).
  - destruct (Nat.eqb_spec (rt k) b) as [E|Hn].
    + split; [constructor; [|exact Hall]; cbn in *; intros k' Hk'; apply in_app_iff in Hk' as [H|[<-|[]]]; auto|].
      split; [exists (b, ks ++ [k]); split; [left; reflexivity|cbn; apply in_app_iff; right; left; reflexivity]|].
      intros k' (e & [<-|He] & Hk'); [exists (b, ks ++ [k]); split; [left; reflexivity|cbn in *; apply in_app_iff; auto]|].
      exists e. split; [right; exact He|exact Hk'].
    + destruct IH as (A & B & Cc). split; [constructor; assumption|]. split.
      * destruct B as (e & He & Hk). exists e. split; [right; exact He|exact Hk].
      * intros k' (e & [<-|He] & Hk'); [exists (b, ks); split; [left; reflexivity|exact Hk']|].
        destruct (Cc k' (ex_intro _ e (conj He Hk'))) as (e' & He' & Hk''). exists e'. split; [right; exact He'|exact Hk''].
Qed.

Lemma groups_spec ks : forall g, groups_ok g ->
  let g' := fold_left (fun g k => group_add g (rt k) k) ks g in
  groups_ok g' /\ (forall k, In k ks \/ in_groups g k -> in_groups g' k).
Proof.
  induction ks as [|k ks IH]; intros g Hg; cbn [fold_left].
  - split; [exact Hg|]. intros k [[]|H]. exact H.
  - destruct (group_add_ok g k Hg) as (A & B & Cc). destruct (IH _ A) as [G H].
    split; [exact G|]. intros k' [[<-|Hk']|Hk']; apply H; auto.
Qed.

Lemma fold_groups_good g : groups_ok g -> forall d, good_dict d ->
  let d' := fold_left (fun d e => dict_update d (combine (snd e) (bk_many (fst e) (snd e)))) g d in
  good_dict d' /\ (forall k, has d k \/ in_groups g k -> has d' k).
Proof.
  induction 1 as [|[b ks] g Hb Hall IH]; intros d Hd; cbn [fold_left].
  - split; [exact Hd|]. intros k [H|(e & [] & _)]. exact H.
  - cbn [fst snd] in *. destruct (dict_update_good b ks Hb d Hd) as [G Hh].
    destruct (IH _ G) as [G' Hh']. split; [exact G'|].
    intros k [H|(e & [<-|He] & Hk)]; apply Hh'.
    + left. apply Hh. left. exact H.
    + left. apply Hh. right. exact Hk.
    + right. exists e. split; assumption.
Qed.

Theorem many_in_order ks : facade_get_many rt bk_many ks = map (fun k => bk_get (rt k) k) ks.
Proof.
  unfold facade_get_many. destruct (groups_spec ks [] (Forall_nil _)) as [G Hin].
  destruct (fold_groups_good _ G [] (Forall_nil _)) as [Gd Hh].
  apply map_ext_in. intros k Hk. apply dict_get_good; [exact Gd|].
  apply Hh. right. apply Hin. left. exact Hk.
Qed.
End GM.

(* ---------- disabled commands never reach the backend ---------- *)
Theorem disabled_bypass k : middleware true k = (disabled_result k, false) /\ disabled_result k <> RBackend.
Proof. split; [reflexivity|destruct k; discriminate]. Qed.

(* ---------- enable/disable is local to the task's context ---------- *)
Definition ctl_wf (c : ctl) := control_set c = false -> forall t, ctx_get c t = [].

Lemma ctx_get_put c t s t' : ctx_get (ctx_put c t s) t' = if Nat.eqb t t' then s else ctx_get c t'.
Proof. unfold ctx_get, ctx_put. cbn. destruct (Nat.eqb t t'); reflexivity. Qed.

Lemma is_disable_local_put all c t s t' q : ctl_wf c -> t <> t' ->
  c_is_disable all (ctx_put c t s) t' q = c_is_disable all c t' q.
Proof.
  intros Hwf Hn. unfold c_is_disable. rewrite ctx_get_put. cbn [control_set ctx_put negb].
  destruct (Nat.eqb_spec t t'); [congruence|].
  destruct (control_set c) eqn:E; cbn [negb]; [reflexivity|].
  rewrite (Hwf E t'). destruct q as [|x q]; [reflexivity|]. cbn. induction q; cbn; auto.
Qed.

Theorem disable_task_local all c t cmds t' q : ctl_wf c -> t <> t' ->
  c_is_disable all (c_disable all c t cmds) t' q = c_is_disable all c t' q /\
  c_is_disable all (c_enable c t cmds) t' q = c_is_disable all c t' q.
Proof. intros Hwf Hn. split; apply is_disable_local_put; assumption. Qed.

Theorem spawn_inherits all c parent child q : ~ In child (map fst (ctxs c)) -> child <> parent ->
  c_is_disable all (c_spawn c parent child) child q = c_is_disable all c parent q /\
  forall t, t <> child -> c_is_disable all (c_spawn c parent child) t q = c_is_disable all c t q.
Proof.
  intros _ Hn. unfold c_is_disable, c_spawn, ctx_get. cbn. rewrite Nat.eqb_refl. split; [reflexivity|].
  intros t Ht. destruct (Nat.eqb_spec child t); [congruence|reflexivity].
Qed.

Lemma wf_init : ctl_wf {| control_set := false; ctxs := [] |}.
Proof. intros _ t. reflexivity. Qed.
Lemma wf_put c t s : ctl_wf (ctx_put c t s).
Proof. intro H. discriminate. Qed.
Lemma wf_spawn c p ch : ctl_wf c -> ctl_wf (c_spawn c p ch).
Proof.
  intros Hwf E t. cbn in E. unfold c_spawn, ctx_get. cbn. destruct (Nat.eqb ch t); [apply Hwf, E|apply Hwf, E].
Qed.

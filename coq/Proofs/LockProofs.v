From Cashews Require Import Base.Prelude Model.Lock.
Open Scope Z_scope.

(* every task inside holds an issued token, entered no later than now, and - while its own ttl has not elapsed - the
   lock entry is exactly (its token, entered + ttl); no two tasks hold the same token; the entry's token was issued *)
Definition Inv (c : cfg) : Prop :=
  (forall i tk a t, tasks c i = Inside tk a t -> (tk < fresh c)%nat /\ a <= now c /\
       (now c < a + t -> lock c = Some (tk, a + t))) /\
  (forall i j tk a a' t t', tasks c i = Inside tk a t -> tasks c j = Inside tk a' t' -> i = j) /\
  (forall tk d, lock c = Some (tk, d) -> (tk < fresh c)%nat).

Lemma inv_init : Inv init.
Proof. repeat split; cbn; intros; discriminate. Qed.

Lemma unlock_other c tk tk' d : lock c = Some (tk', d) -> tk' <> tk -> fst (unlock c tk) = Some (tk', d).
Proof. intros L H. unfold unlock. rewrite L. destruct (Nat.eqb_spec tk' tk); [congruence|]. rewrite andb_false_r. reflexivity. Qed.
Lemma unlock_lt c tk tk1 d : fst (unlock c tk) = Some (tk1, d) -> lock c = Some (tk1, d).
Proof. unfold unlock. destruct (lock c) as [[tk' d']|]; [|discriminate]. destruct ((now c <? d') && Nat.eqb tk' tk); [discriminate|auto]. Qed.

Lemma inv_step c e : (forall i t, e = Try i t -> 0 < t) -> Inv c -> Inv (fst (step c e)).
Proof.
  intros Hpos (H1 & H2 & H3). destruct e as [dt|i ttl|i|tk0|]; cbn [step]; [| | | |exact (conj H1 (conj H2 H3))].
  - destruct (Z.leb_spec 0 dt); cbn [fst]; [|exact (conj H1 (conj H2 H3))].
    refine (conj _ (conj _ _)); cbn.
    + intros i tk a t Hi. specialize (H1 _ _ _ _ Hi) as (Hf & Ha & Hl). split; [assumption|split; [lia|]].
      intros Hlt. apply Hl. lia.
    + exact H2.
    + exact H3.
  - specialize (Hpos i ttl eq_refl).
    destruct (tasks c i) eqn:Ti; cbn [fst]; [|exact (conj H1 (conj H2 H3))].
    destruct (lock_live c) eqn:LL; cbn [fst]; [exact (conj H1 (conj H2 H3))|].
    refine (conj _ (conj _ _)); cbn.
    + intros i0 tk a t Hi. unfold updt in Hi. destruct (Nat.eqb_spec i0 i).
      * injection Hi as <- <- <-. split; [lia|split; [lia|reflexivity]].
      * specialize (H1 _ _ _ _ Hi) as (Hf & Ha & Hl). split; [lia|split; [assumption|]].
        intros Hlt. specialize (Hl Hlt). unfold lock_live in LL. rewrite Hl in LL. apply Z.ltb_ge in LL. lia.
    + intros i0 j tk a a' t t' Hi Hj. unfold updt in Hi, Hj.
      destruct (Nat.eqb_spec i0 i), (Nat.eqb_spec j i); subst; try reflexivity.
      * injection Hi as <- <- <-. specialize (H1 _ _ _ _ Hj) as (? & _). lia.
      * injection Hj as <- <- <-. specialize (H1 _ _ _ _ Hi) as (? & _). lia.
      * eapply H2; eauto.
    + intros tk d [= <- <-]. lia.
  - destruct (tasks c i) as [|tk a t] eqn:Ti; cbn [fst]; [exact (conj H1 (conj H2 H3))|].
    destruct (unlock c tk) as [l r] eqn:U. cbn [fst].
    assert (Ul : l = fst (unlock c tk)) by (rewrite U; reflexivity).
    refine (conj _ (conj _ _)); cbn.
    + intros i0 tk1 a1 t1 Hi. unfold updt in Hi. destruct (Nat.eqb_spec i0 i) as [|Hne]; [discriminate|].
      specialize (H1 _ _ _ _ Hi) as (Hf & Ha & Hl). split; [assumption|split; [assumption|]].
      intros Hlt. specialize (Hl Hlt). rewrite Ul. apply unlock_other; [exact Hl|].
      intros ->. apply Hne. eapply H2; eauto.
    + intros i0 j tk1 a1 a1' t1 t1' Hi Hj. unfold updt in Hi, Hj.
      destruct (Nat.eqb_spec i0 i), (Nat.eqb_spec j i); try discriminate. eapply H2; eauto.
    + intros tk1 d Hu. rewrite Ul in Hu. apply unlock_lt in Hu. eapply H3; eauto.
  - destruct (Nat.ltb_spec tk0 (fresh c)); cbn [fst]; [exact (conj H1 (conj H2 H3))|].
    destruct (unlock c tk0) as [l r] eqn:U. cbn [fst].
    assert (Ul : l = fst (unlock c tk0)) by (rewrite U; reflexivity).
    refine (conj _ (conj _ _)); cbn.
    + intros i tk a t Hi. specialize (H1 _ _ _ _ Hi) as (Hf & Ha & Hl). split; [assumption|split; [assumption|]].
      intros Hlt. specialize (Hl Hlt). rewrite Ul. apply unlock_other; [exact Hl|lia].
    + exact H2.
    + intros tk1 d Hu. rewrite Ul in Hu. apply unlock_lt in Hu. eapply H3; eauto.
Qed.

Definition pos_ttls (evs : list event) : Prop := Forall (fun e => forall i t, e = Try i t -> 0 < t) evs.

Theorem inv_reachable evs : pos_ttls evs -> Inv (run evs).
Proof.
  unfold run. intro Hp. rewrite <- (rev_involutive evs) in *. induction (rev evs) as [|e l IH]; cbn; [apply inv_init|].
  rewrite fold_left_app. cbn. unfold pos_ttls in Hp. cbn in Hp. apply Forall_app in Hp as [Hl He]. inversion He; subst.
  apply inv_step; [assumption|]. apply IH. exact Hl.
Qed.

(* for every schedule, any number of tasks: two tasks inside at once => one of them has overstayed its own ttl *)
Theorem lock_mutex evs i j tk a t tk' a' t' : pos_ttls evs ->
  let c := run evs in
  tasks c i = Inside tk a t -> tasks c j = Inside tk' a' t' -> i <> j ->
  a + t <= now c \/ a' + t' <= now c.
Proof.
  intros Hp c Hi Hj Hne. destruct (inv_reachable evs Hp) as (H1 & H2 & _). fold c in H1, H2.
  destruct (Z.lt_ge_cases (now c) (a + t)) as [L1|]; [|left; assumption].
  destruct (Z.lt_ge_cases (now c) (a' + t')) as [L2|]; [|right; assumption].
  exfalso. destruct (H1 _ _ _ _ Hi) as (_ & _ & Hl1). destruct (H1 _ _ _ _ Hj) as (_ & _ & Hl2).
  rewrite (Hl1 L1) in Hl2. specialize (Hl2 L2). injection Hl2 as -> _. apply Hne. eapply H2; eauto.
Qed.

(* unlock releases the entry iff the live entry holds that token, and reports exactly that *)
Theorem unlock_owner_only c tk : snd (unlock c tk) = true <-> exists d, lock c = Some (tk, d) /\ now c < d.
Proof.
  unfold unlock. destruct (lock c) as [[tk' d]|]; cbn [snd].
  - destruct (Z.ltb_spec (now c) d) as [Hlt|Hge], (Nat.eqb_spec tk' tk) as [He|Hn]; cbn [andb snd]; split; intro H.
    + subst. eauto.
    + reflexivity.
    + discriminate.
    + destruct H as (d0 & E & _). injection E as E1 E2. congruence.
    + discriminate.
    + destruct H as (d0 & E & H'). injection E as E1 E2. subst. lia.
    + discriminate.
    + destruct H as (d0 & E & H'). injection E as E1 E2. congruence.
  - split; [discriminate|intros (d & E & _); discriminate].
Qed.

(* whatever way a task leaves, the entry carrying its token is gone afterwards *)
Theorem lock_released c i tk a t : tasks c i = Inside tk a t ->
  forall d, lock (fst (step c (Leave i))) <> Some (tk, d) \/ d <= now c.
Proof.
  intros Ti d. cbn [step]. rewrite Ti. unfold unlock. destruct (lock c) as [[tk' d']|] eqn:L; cbn.
  - destruct (Z.ltb_spec (now c) d'), (Nat.eqb_spec tk' tk); cbn; try (left; discriminate).
    + left. congruence.
    + destruct (Z.le_gt_cases d (now c)); [right; assumption|left]. intros [= _ ->]. lia.
    + left. congruence.
  - left. discriminate.
Qed.

(* progress: when the key has no live entry, the next attempt succeeds - nothing else is consulted *)
Theorem lock_progress c i ttl : tasks c i = Idle -> lock_live c = false -> snd (step c (Try i ttl)) = true.
Proof. intros Ti L. cbn [step]. rewrite Ti, L. reflexivity. Qed.

(* ---- is_locked ---- *)
Theorem probe_spec c : snd (step c Probe) = true <-> exists tk d, lock c = Some (tk, d) /\ now c < d.
Proof.
  cbn. unfold lock_live. destruct (lock c) as [[tk d]|]; split; intro H.
  - apply Z.ltb_lt in H. eauto.
  - destruct H as (tk' & d' & [= <- <-] & H). apply Z.ltb_lt. exact H.
  - discriminate.
  - destruct H as (? & ? & ? & _). discriminate.
Qed.
Lemma probe_pure c : fst (step c Probe) = c.
Proof. reflexivity. Qed.

Lemma live_tick_tick c a b : lock_live (tick (tick c a) b) = lock_live (tick c (a + b)).
Proof. unfold lock_live, tick; cbn. destruct (lock c) as [[? d]|]; [|reflexivity]. rewrite Z.add_assoc. reflexivity. Qed.
Lemma live_tick_0 c : lock_live (tick c 0) = lock_live c.
Proof. unfold lock_live, tick; cbn. destruct (lock c) as [[? d]|]; [|reflexivity]. rewrite Z.add_0_r. reflexivity. Qed.
Lemma dead_stays_dead c d : 0 <= d -> lock_live c = false -> lock_live (tick c d) = false.
Proof.
  unfold lock_live, tick; cbn. intros Hd. destruct (lock c) as [[? d0]|]; [|reflexivity].
  intro H. apply Z.ltb_ge in H. apply Z.ltb_ge. lia.
Qed.

(* the waiting form answers what the plain form would answer once the wait is over: ceil(wait/step) sleeps of `step`
   later.  (Liveness only decreases while nothing else touches the key, so the early exit never changes the answer.) *)
Definition sleeps (w s : Z) : Z := Z.max 0 ((w + s - 1) / s).
Theorem is_locked_wait_spec fuel : forall c w s b, 0 < s ->
  is_locked_wait fuel c w s = Some b -> b = lock_live (tick c (sleeps w s * s)).
Proof.
  induction fuel as [|f IH]; intros c w s b Hs H; cbn [is_locked_wait] in H; [discriminate|].
  unfold sleeps. destruct (Z.ltb_spec 0 w) as [Hw|Hw].
  - assert (Hq : (w + s - 1) / s = (w - s + s - 1) / s + 1).
    { replace (w + s - 1) with ((w - s + s - 1) + 1 * s) by ring. apply Z.div_add. lia. }
    assert (Hq0 : 0 <= (w - s + s - 1) / s) by (apply Z.div_pos; lia).
    destruct (lock_live c) eqn:L.
    + apply IH in H; [|exact Hs]. rewrite H, live_tick_tick. unfold sleeps. f_equal. f_equal. rewrite Hq. lia.
    + injection H as <-. symmetry. apply dead_stays_dead; [|exact L]. apply Z.mul_nonneg_nonneg; lia.
  - injection H as <-. assert ((w + s - 1) / s < 1) by (apply Z.div_lt_upper_bound; lia).
    replace (Z.max 0 ((w + s - 1) / s)) with 0 by lia. cbn. symmetry. apply live_tick_0.
Qed.
(* enough fuel always exists: the loop ends after at most `sleeps w s` rounds *)
Theorem is_locked_wait_total : forall fuel c w s, 0 < s -> sleeps w s < Z.of_nat fuel -> is_locked_wait fuel c w s <> None.
Proof.
  induction fuel as [|f IH]; intros c w s Hs Hf; unfold sleeps in *; [lia|]. cbn [is_locked_wait].
  destruct (Z.ltb_spec 0 w) as [Hw|Hw]; [|discriminate]. destruct (lock_live c); [|discriminate].
  apply IH; [exact Hs|]. unfold sleeps.
  assert (Hq : (w + s - 1) / s = (w - s + s - 1) / s + 1).
  { replace (w + s - 1) with ((w - s + s - 1) + 1 * s) by ring. apply Z.div_add. lia. }
  assert (Hq0 : 0 <= (w - s + s - 1) / s) by (apply Z.div_pos; lia). lia.
Qed.

(* the same loop spelled with the events of the model: Probe, then Tick step, ... - the answer is the conjunction of what
   its polls see, so the standalone function and histories with Probe events describe one behaviour *)
Fixpoint polls (c : cfg) (s : Z) (n : nat) : list bool :=
  match n with
  | O => [snd (step c Probe)]
  | S m => snd (step c Probe) :: polls (fst (step (fst (step c Probe)) (Tick s))) s m
  end.
Theorem is_locked_wait_polls fuel : forall c w s b, 0 < s ->
  is_locked_wait fuel c w s = Some b -> b = forallb (fun x => x) (polls c s (Z.to_nat (sleeps w s))).
Proof.
  induction fuel as [|f IH]; intros c w s b Hs H; cbn [is_locked_wait] in H; [discriminate|].
  unfold sleeps. destruct (Z.ltb_spec 0 w) as [Hw|Hw].
  - assert (Hq : (w + s - 1) / s = (w - s + s - 1) / s + 1).
    { replace (w + s - 1) with ((w - s + s - 1) + 1 * s) by ring. apply Z.div_add. lia. }
    assert (Hq0 : 0 <= (w - s + s - 1) / s) by (apply Z.div_pos; lia).
    replace (Z.to_nat (Z.max 0 ((w + s - 1) / s))) with (S (Z.to_nat (sleeps (w - s) s))) by (unfold sleeps; lia).
    cbn [polls forallb step fst snd]. destruct (Z.leb_spec 0 s) as [_|]; [|lia]. fold (tick c s).
    destruct (lock_live c) eqn:L; cbn [andb].
    + apply IH; assumption.
    + injection H as <-. reflexivity.
  - injection H as <-. assert ((w + s - 1) / s < 1) by (apply Z.div_lt_upper_bound; lia).
    replace (Z.to_nat (Z.max 0 ((w + s - 1) / s))) with O by lia. cbn. rewrite andb_true_r. reflexivity.
Qed.

"""C20: the client-side cache agrees with the server once invalidations are delivered."""
import asyncio
import logging
import os
import sys

_FAKE = os.path.join(os.path.dirname(os.path.dirname(os.path.abspath(__file__))), "fake_redis")
if _FAKE not in sys.path:
    sys.path.insert(0, _FAKE)

from harness import vclock  # noqa: E402
from harness.core import C, Nat, S, Some, Z  # noqa: E402
from harness.memrun import dec, enc, val_to_coq  # noqa: E402

ID = "C20"
RUN_MODULE = "Spec.Glob Model.Redis Model.ClientSide Run.C20"
EXPLAIN = "explain"
RULE = ("histories of 4-24 events over 2-3 real BcastClientSide backends sharing one in-process server: get, get_many, exists, set (plain / only-if-absent / "
        "only-if-present, with and without TTL), set_many, incr (with / without TTL), delete, delete_many, delete_match, expire, clear, set_lock / unlock (integer tokens, on value keys) issued by any client; "
        "virtual clock advances of 0.125-12 s (server-side expiry emits invalidations; a dropped listener reconnects after 10 s); drops of one client's "
        "subscription connection at any position (a quarter of the histories: a drop followed by that client's reads interleaved with the others' writes "
        "inside the 10 s before it re-subscribes); after every event the server expires what is due and every pending invalidation is delivered and "
        "processed (quiescent point), then the server keyspace, every client's local copy (values, 'absent' markers, local deadlines), live "
        "recently-updated marks and started flags are dumped. non-trivial: some client answered a read from its local copy after another client had "
        "modified or the server had expired that key earlier in the history")
TRUSTED_BASE = ["Coq 8.16.1 kernel + vm_compute", "functional_extensionality_dep (Coq.Logic.FunctionalExtensionality; through the server model's refinement theorem, used by C20_coherent)",
                "hand-written model coq/Model/ClientSide.v over Model/Redis.v tied by this differential run (results + full dumps at every quiescent point)",
                "harness/fake_redis: stand-in for redis-py and the server including CLIENT TRACKING BCAST redirect semantics (one invalidation per modified / expired key to every "
                "tracking connection, the writer included; a flush message for FLUSHDB), written from the documentation",
                "message delivery is driven to completion between events (the property's quiescent points)"]
ASSUMPTIONS = ["server reachable for commands (C19 covers an unreachable server); only the subscription connection is dropped", "TTLs are multiples of 0.125 s (local float deadlines and server ms deadlines coincide)"]
EXHAUSTIVE = {"quick": False, "thorough": False}
ALLOWED_AXIOMS = ["FunctionalExtensionality.functional_extensionality_dep"]   # through the server model's refinement theorem; named in TRUSTED_BASE
U = sorted(["a", "b", "ab", "n"])
VALUES = [1, 5, "x", "hello", b"raw", True, 0, "", False, None, "123"]       # falsy values (0, '', False, None) and numeric-looking text included
DEFAULT = "<default>"
PREFIX = "cashews:"
logging.getLogger("cashews.backends.redis.client").disabled = True
logging.getLogger("cashews.backends.redis.client_side").disabled = True


def _rand_cmd(rng):
    r = rng.random()
    k = rng.choice(["a", "b", "ab"])
    ttl = rng.choice([0, 0, 0, 0.5, 1.0, 2.5])
    if r < 0.17: return ["get", rng.choice(U)]
    if r < 0.24:      # a default of the caller's own, drawn from the values the commands write: asked twice with two different defaults
        d1, d2 = rng.sample([0, 1, 5, "", "x", False], 2)
        return ["get", rng.choice(U), enc(d1), enc(d2)]
    if r < 0.30: return ["get_many", [rng.choice(U) for _ in range(rng.randint(1, 4))]]
    if r < 0.36: return ["exists", rng.choice(U)]
    if r < 0.58: return ["set", k, enc(rng.choice(VALUES)), ttl, rng.choice([None, None, None, True, False, False])]
    if r < 0.63: return ["set_many", [[kk, enc(rng.choice(VALUES))] for kk in rng.sample(["a", "b", "ab"], rng.randint(1, 2))], ttl]
    if r < 0.75: return ["incr", "n", rng.choice([1, 1, 2, -1, -1, 0]), rng.choice([0, 0, 1.0])]
    if r < 0.83: return ["delete", rng.choice(U)]
    if r < 0.86: return ["delete_many", rng.sample(U, rng.randint(1, 2))]
    if r < 0.90: return ["delete_match", rng.choice(["a*", "*b", "n", "*"])]
    if r < 0.96: return ["expire", rng.choice(U), rng.choice([0.5, 1.0, 2.5])]
    if r < 0.975: return ["set_lock", rng.choice(["a", "b"]), rng.choice([3, 5, 9]), rng.choice([0.5, 1.0, 2.5])]     # integer tokens: a lock is an only-if-absent write
    if r < 0.99: return ["unlock", rng.choice(["a", "b"]), rng.choice([3, 5, 9])]
    return ["clear"]


def _rand_case(rng):
    n = rng.choice([2, 2, 3])
    evs = []
    for _ in range(rng.randint(4, 24)):
        r = rng.random()
        if r < 0.78: evs.append(["cmd", rng.randrange(n), _rand_cmd(rng)])
        elif r < 0.95: evs.append(["tick", rng.choice([1, 2, 4, 4, 8, 9, 20, 40, 81, 96])])
        else: evs.append(["drop", rng.randrange(n)])
    return {"clients": n, "events": evs}


def _outage_case(rng):
    """one client loses its subscription connection and keeps reading (get / get_many / exists) and deleting the keys the other clients keep
    changing, all inside the 10 s before it re-subscribes; then the reconnect, then more reads"""
    n = rng.choice([2, 2, 3])
    c = rng.randrange(n)
    evs = [["cmd", rng.randrange(n), _rand_cmd(rng)] for _ in range(rng.randint(0, 5))] + [["drop", c]]
    for _ in range(rng.randint(4, 12)):
        r = rng.random()
        k = rng.choice(["a", "b", "ab", "n"])
        if r < 0.45: evs.append(["cmd", c, rng.choice([["get", k], ["exists", k], ["exists", k], ["get_many", [k, rng.choice(U)]],
                                                       ["delete", k], ["get", k]])])      # the disconnected client also deletes what it has just looked up
        elif r < 0.85:
            o = rng.choice([i for i in range(n) if i != c])
            evs.append(["cmd", o, rng.choice([["delete", k], ["delete", k], ["set", k, enc(rng.choice(VALUES)), rng.choice([0, 0, 1.0]), None],
                                              ["incr", "n", 1, 0], ["delete_match", "*"]])])
        else: evs.append(["tick", rng.choice([1, 2, 4])])
    if rng.random() < 0.5:
        evs.append(["tick", 96])
        evs += [["cmd", c, rng.choice([["get", k], ["exists", k]])] for k in rng.sample(U, 2)]
    return {"clients": n, "events": evs}


def _lock_case(rng):
    """clients contending for one lock key: refused attempts, foreign and owner releases, reads of the key in between, TTL lapses"""
    n = rng.choice([2, 2, 3])
    k = rng.choice(["a", "b"])
    evs = []
    for _ in range(rng.randint(4, 12)):
        r = rng.random()
        c = rng.randrange(n)
        if r < 0.3: evs.append(["cmd", c, ["set_lock", k, rng.choice([3, 5, 9]), rng.choice([0.5, 1.0, 2.5])]])
        elif r < 0.5: evs.append(["cmd", c, ["unlock", k, rng.choice([3, 5, 9])]])
        elif r < 0.8: evs.append(["cmd", c, rng.choice([["exists", k], ["get", k], ["get_many", [k, "ab"]]])])
        elif r < 0.87: evs.append(["cmd", c, ["delete", k]])
        else: evs.append(["tick", rng.choice([1, 2, 4, 8, 20])])
    return {"clients": n, "events": evs}


def _lost_delete_cases():
    """a client that has lost its subscription looks a key up (absent), another client writes it, the first one deletes it: the delete
    must reach the server whatever the first client remembers locally"""
    out = []
    for k in ("a", "ab"):
        for look in (["get", k], ["exists", k], ["get_many", [k, "b"]]):
            for pre in ([], [["cmd", 0, look]]):
                out.append({"clients": 2, "events": pre + [["drop", 0], ["cmd", 0, look], ["cmd", 1, ["set", k, enc("v1"), 0, None]], ["cmd", 0, ["delete", k]],
                                                        ["cmd", 1, ["get", k]], ["tick", 96], ["cmd", 0, ["get", k]], ["cmd", 1, ["exists", k]]]})
    return out


def gen_cases(rng, tier):
    n = 400 if tier == "quick" else 5000
    return [_rand_case(rng) for _ in range(n - n // 4 - n // 8)] + [_outage_case(rng) for _ in range(n // 4)] + [_lock_case(rng) for _ in range(n // 8)] + _lost_delete_cases()


BASE_MS = int(vclock.BASE * 1000)


def run_impl(case):
    async def go():
        from redis.server import reset_servers, server_for
        reset_servers()
        from cashews.backends.redis.client_side import BcastClientSide, _empty_in_redis
        cl = [BcastClientSide("redis://c20", suppress=True) for _ in range(case["clients"])]
        for c in cl: await c.init()
        srv = server_for("redis://c20")

        async def quiesce():
            srv.purge()
            for _ in range(12): await asyncio.sleep(0)

        async def dump():
            now = srv.now()
            sd = []
            for k in U:
                e = srv.data.get(PREFIX + k)
                if e is None: sd.append(None); continue
                kind, v, exp = e
                if kind != "string": sd.append([["other", kind], None]); continue
                if v.isdigit() or (v[:1] == b"-" and v[1:].isdigit()): val = ["num", int(v)]
                else: val = ["val", enc(await cl[0]._serializer.decode(cl[0], key=PREFIX + k, value=v, default=None))]
                sd.append([val, None if exp is None else exp - BASE_MS])
            cds = []
            tnow = vclock.Clock.now
            for c in cl:
                loc, marks = [], []
                for k in U:
                    e = c._local_cache.store.get(k)
                    if e is None or (e[0] is not None and e[0] <= tnow): loc.append(None)
                    else: loc.append([["absent"] if e[1] is _empty_in_redis else ["val", enc(e[1])], None if e[0] is None else round(e[0] * 1000) - BASE_MS])
                    m = c._recently_update.store.get(k)
                    marks.append(bool(m is not None and not (m[0] is not None and m[0] <= tnow)))
                cds.append([bool(c._listen_started.is_set()), loc, marks])
            return [sd, cds]
        await quiesce()
        results, dumps = [], []
        for ev in case["events"]:
            r = ["unit"]
            if ev[0] == "tick":
                await asyncio.sleep(ev[1] * 0.125)
            elif ev[0] == "drop":
                pool = cl[ev[1]]._client.connection_pool
                for ps, _ in list(srv.trackers):
                    if ps.pool is pool:
                        ps.broken = True; ps.wake()
                srv.trackers = [t for t in srv.trackers if t[0].pool is not pool]
            else:
                c, cm = cl[ev[1]], ev[2]
                op = cm[0]
                try:
                    if op == "get" and len(cm) > 2:
                        d1, d2 = dec(cm[2]), dec(cm[3])
                        v1 = await c.get(cm[1], default=d1)
                        v2 = await c.get(cm[1], default=d2)
                        if type(v1) is type(d1) and v1 == d1 and type(v2) is type(d2) and v2 == d2: r = ["val", None]      # a miss answers each call with its default
                        elif type(v1) is type(v2) and v1 == v2: r = ["val", [enc(v1)]]
                        else: r = ["other", "two reads of one key disagree: %r / %r" % (v1, v2)]
                    elif op == "get":
                        v = await c.get(cm[1], default=DEFAULT); r = ["val", None if isinstance(v, str) and v == DEFAULT else [enc(v)]]
                    elif op == "get_many":
                        vs = await c.get_many(*cm[1], default=DEFAULT); r = ["vals", [None if isinstance(v, str) and v == DEFAULT else [enc(v)] for v in vs]]
                    elif op == "exists": r = ["bool", bool(await c.exists(cm[1]))]
                    elif op == "set": r = ["bool", bool(await c.set(cm[1], dec(cm[2]), expire=cm[3] or None, exist=cm[4]))]
                    elif op == "set_many": r = ["unit" if (await c.set_many({k: dec(v) for k, v in cm[1]}, expire=cm[2] or None)) is None else "odd"]
                    elif op == "incr":
                        v = await c.incr(cm[1], cm[2], expire=cm[3] or (0 if cm[2] % 2 else None)); r = ["none"] if v is None else ["int", int(v)]
                    elif op == "delete": r = ["bool", bool(await c.delete(cm[1]))]
                    elif op == "delete_many": r = ["unit" if (await c.delete_many(*cm[1])) is None else "odd"]
                    elif op == "delete_match": r = ["unit" if (await c.delete_match(cm[1])) is None else "odd"]
                    elif op == "expire":
                        v = await c.expire(cm[1], cm[2]); r = ["none"] if v is None else ["bool", bool(v)]
                    elif op == "set_lock": r = ["bool", bool(await c.set_lock(cm[1], cm[2], cm[3]))]
                    elif op == "unlock": r = ["bool", bool(await c.unlock(cm[1], cm[2]))]
                    else:
                        v = await c.clear(); r = ["none"] if v is None else ["bool", bool(v)]
                except Exception as e:  # noqa
                    r = ["other", type(e).__name__ + ": " + str(e)[:60]]
            await quiesce()
            results.append(r)
            dumps.append(await dump())
        times = None
        for c in cl: await c.close()
        return {"results": results, "dumps": dumps}
    return vclock.run(go)


def _px(ttl):
    return int(ttl * 1000) if ttl else 0


def _cmd(c):
    op = c[0]
    if op == "get": return C("KGet", S(c[1]))
    if op == "get_many": return C("KGetMany", [S(k) for k in c[1]])
    if op == "exists": return C("KExists", S(c[1]))
    if op == "set": return C("KSet", S(c[1]), val_to_coq(dec(c[2])), Z(_px(c[3])), None if c[4] is None else Some(c[4]))
    if op == "set_many": return C("KSetMany", [(S(k), val_to_coq(dec(v))) for k, v in c[1]], Z(_px(c[2])))
    if op == "incr": return C("KIncr", S(c[1]), Z(c[2]), Z(_px(c[3])))
    if op == "delete": return C("KDel", S(c[1]))
    if op == "delete_many": return C("KDelMany", [S(k) for k in c[1]])
    if op == "delete_match": return C("KDelMatch", S(c[1]))
    if op == "expire": return C("KExpire", S(c[1]), Z(_px(c[2])))
    if op == "set_lock": return C("KSetLock", S(c[1]), Z(c[2]), Z(_px(c[3])))
    if op == "unlock": return C("KUnlock", S(c[1]), Z(c[2]))
    return C("KClear")


def _ov(x):
    return None if x is None else Some(val_to_coq(dec(x[0])))


def _res(r):
    k = r[0]
    if k == "bool": return C("BBool", bool(r[1]))
    if k == "unit": return C("BUnit")
    if k == "none": return C("BNone")
    if k == "val": return C("BVal", _ov(r[1]))
    if k == "vals": return C("BVals", [_ov(x) for x in r[1]])
    if k == "int": return C("BInt", Z(r[1]))
    return C("BOther")


def _sentry(e):
    if e is None: return None
    (kind, v), exp = e
    if kind == "num": rv = C("RNum", Z(v))
    elif kind == "val": rv = C("RStr", val_to_coq(dec(v)))
    else: rv = C("RSet", [S("<" + str(v) + ">")])
    return Some((rv, None if exp is None else Some(Z(exp))))


def _lentry(e):
    if e is None: return None
    kind, exp = e
    lk = C("LA") if kind[0] == "absent" else C("LV", val_to_coq(dec(kind[1])))
    return Some((lk, None if exp is None else Some(Z(exp))))


def to_coq(case, obs):
    evs = []
    for ev in case["events"]:
        if ev[0] == "tick": evs.append(C("Tick", Z(ev[1] * 125)))
        elif ev[0] == "drop": evs.append(C("Drop", Nat(ev[1])))
        else: evs.append(C("Cmd", Nat(ev[1]), _cmd(ev[2])))
    dumps = []
    for sd, cds in obs["dumps"]:
        dumps.append(([_sentry(e) for e in sd], [((bool(st), [_lentry(e) for e in loc]), [bool(m) for m in marks]) for st, loc, marks in cds]))
    return C("CCS", [S(k) for k in U], Nat(case["clients"]), evs, [_res(r) for r in obs["results"]], dumps)


def nontrivial(case, obs):
    touched = {}          # key -> set of clients that modified it / "expired"
    for ev, d_prev, d in zip(case["events"], [None] + obs["dumps"][:-1], obs["dumps"]):
        if ev[0] == "cmd":
            i, cm = ev[1], ev[2]
            if cm[0] in ("get", "exists") and d_prev is not None:
                k = cm[1]
                loc = d_prev[1][i][1][U.index(k)]
                if loc is not None and d_prev[1][i][0] and any(j != i for j in touched.get(k, ())):
                    return True
            if cm[0] in ("set", "incr", "delete", "expire"): touched.setdefault(cm[1], set()).add(i)
            if cm[0] in ("set_many",):
                for k, _ in cm[1]: touched.setdefault(k, set()).add(i)
            if cm[0] in ("delete_many",):
                for k in cm[1]: touched.setdefault(k, set()).add(i)
            if cm[0] in ("delete_match", "clear"):
                for k in U: touched.setdefault(k, set()).add(i)
        elif ev[0] == "tick" and d_prev is not None:
            for n, k in enumerate(U):
                if d_prev[0][n] is not None and d[0][n] is None: touched.setdefault(k, set()).add("expiry")
    return False


def classify(case, obs):
    d = {"clients": case["clients"], "events": len(case["events"])}
    for ev, r in zip(case["events"], obs["results"]):
        name = ev[0] if ev[0] != "cmd" else "cmd_" + ev[2][0]
        d[name] = d.get(name, 0) + 1
        if r[0] == "other": d["raised"] = d.get("raised", 0) + 1
    served_locally = 0
    for ev, d_prev in zip(case["events"], [None] + obs["dumps"][:-1]):
        if ev[0] == "cmd" and ev[2][0] == "get" and d_prev is not None and d_prev[1][ev[1]][0] and d_prev[1][ev[1]][1][U.index(ev[2][1])] is not None:
            served_locally += 1
    d["reads_served_locally"] = served_locally
    d["dumps_with_unstarted_client"] = sum(1 for dd in obs["dumps"] if any(not c[0] for c in dd[1]))
    return d


def shrink(case):
    evs = case["events"]
    for i in range(len(evs)):
        if len(evs) > 1:
            c = dict(case); c["events"] = evs[:i] + evs[i + 1:]; yield c
    if case["clients"] > 2 and all(e[0] == "tick" or e[1] < 2 for e in evs):
        c = dict(case); c["clients"] = 2; yield c

"""C07: single-flight (thunder protection) of protected cached functions, under the deterministic scheduler."""
import asyncio
import contextvars

from harness import sched
from harness.core import C, Nat, Z

ID = "C07"
RUN_MODULE = "Model.SingleFlight Run.C07"
EXPLAIN = "explain"
RULE = ("2-5 real asyncio tasks calling one function decorated with cache / cache(lock=True) / early / soft (protected by default, long TTLs) "
        "with key arguments from {0,1} (in half of the cases each caller also passes a distinct argument the key template leaves out); the wrapped body yields 0-3 times on scheduler gates and then returns a value naming the caller whose "
        "call executed it, or raises; each caller first waits on a start gate; the schedule (which parked caller or body runs next, at which "
        "idle point the one designated caller is cancelled, at which steps two parked tasks are released into the same loop iteration) is a "
        "seeded list of choices; thorough tier: EVERY schedule of 3 callers of one key (body yields twice, each choice of cancelled caller) "
        "and of 2+1 callers of two keys, enumerated depth-first. Observed, in execution order: call, task creation, body start/resume/end, "
        "done-callback, cancellation, outcome handed to each caller. non-trivial: a call was made while a body of its key was executing")
TRUSTED_BASE = ["Coq 8.16.1 kernel + vm_compute", "hand-written model coq/Model/SingleFlight.v tied by replaying the observed event log",
                "asyncio: task switching, shield, cancellation delivery, done-callback order are the interpreter's; the scheduler only chooses among parked tasks and observes",
                "the in-memory backend's commands do not yield (no interleaving inside the cache lookup / store)"]
ASSUMPTIONS = ["one process, one event loop", "TTLs far beyond the run (no expiry, no early/soft refresh during a case)", "bodies do not cancel themselves"]
EXHAUSTIVE = {"quick": False, "thorough": True}
who = contextvars.ContextVar("c07_who", default=None)


class Boom(Exception):
    pass


def _rand_case(rng):
    n = rng.randint(2, 5)
    callers = [{"key": rng.choice([0, 0, 0, 1]), "yields": rng.randint(0, 3), "out": rng.choice(["ret", "ret", "ret", "raise", "raise", "ret0", "cancel_self"]),
                "form": rng.choice(["pos", "pos", "kw"])} for _ in range(n)]      # ret0: the body returns the falsy value 0; form: f(k) or f(k=k)
    return {"kind": rng.choice(["cache", "cache", "cache_lock", "early", "soft", "method", "method"]), "callers": callers,
            "extra": rng.random() < 0.5, "decor_first": rng.random() < 0.3, "cancel": rng.choice([None, 0, 1, n - 1]), "bursts": sorted(rng.sample(range(1, 12), rng.choice([0, 0, 1, 2]))),
            "schedule": [rng.randrange(12) for _ in range(30)]}


def _enumerate(base, max_leaves):
    def run_fn(prefix):
        _, drv = _run(dict(base, schedule=list(prefix)))
        return drv
    leaves, complete = sched.enumerate_schedules(run_fn, max_leaves)
    return [dict(base, schedule=p) for p in leaves], complete


ENUM_COMPLETE = {}


def gen_cases(rng, tier):
    cases = [_rand_case(rng) for _ in range(600 if tier == "quick" else 6000)]
    if tier == "thorough":
        same = [{"key": 0, "yields": 2, "out": "ret"}, {"key": 0, "yields": 1, "out": "ret"}, {"key": 0, "yields": 0, "out": "raise"}]
        for cancel in (None, 0, 1, 2):
            for bursts in ([], [1], [2], [3], [4], [5], [2, 4]):
                cs, done = _enumerate({"kind": "cache", "callers": same, "cancel": cancel, "bursts": bursts}, 30000)
                ENUM_COMPLETE[f"3 callers one key cancel={cancel} bursts={bursts}"] = [len(cs), done]
                cases += cs
        four = [{"key": 0, "yields": 2, "out": "raise"}, {"key": 0, "yields": 1, "out": "ret"}, {"key": 0, "yields": 0, "out": "ret"}, {"key": 1, "yields": 1, "out": "ret"}]
        for cancel in (None, 0, 1):
            cs, done = _enumerate({"kind": "soft", "callers": four, "cancel": cancel, "bursts": []}, 30000)
            ENUM_COMPLETE[f"3+1 callers two keys cancel={cancel}"] = [len(cs), done]
            cases += cs
        # four callers of ONE key, the first execution raises while a caller has joined it; late callers start and join a second one
        fail4 = [{"key": 0, "yields": 1, "out": "raise"}, {"key": 0, "yields": 0, "out": "ret"}, {"key": 0, "yields": 2, "out": "ret"}, {"key": 0, "yields": 0, "out": "ret"}]
        for bursts in ([], [3], [4], [5]):
            cs, done = _enumerate({"kind": "cache", "callers": fail4, "cancel": None, "bursts": bursts}, 30000)
            ENUM_COMPLETE[f"4 callers one key, first execution raises bursts={bursts}"] = [len(cs), done]
            cases += cs
        rais = [{"key": 0, "yields": 1, "out": "raise"}, {"key": 0, "yields": 0, "out": "ret"}, {"key": 1, "yields": 1, "out": "ret"}]
        for cancel in (None, 1):
            cs, done = _enumerate({"kind": "early", "callers": rais, "cancel": cancel, "bursts": []}, 30000)
            ENUM_COMPLETE[f"2+1 callers two keys cancel={cancel}"] = [len(cs), done]
            cases += cs
    return cases


def _run(case):
    specs = case["callers"]

    def hook(task):
        c = who.get()
        if c is None:
            return
        task.set_name(f"F{c}")
        flights.append(task)
        drv_box[0].events.append(["spawn", c])
        task.add_done_callback(lambda _t, c=c: drv_box[0].events.append(["unreg", c]))
    drv_box = [None]
    flights = []

    def main_factory(drv):
        drv_box[0] = drv
        ev = drv.events

        async def main():
            from cashews import Cache
            cache = Cache()
            if not case.get("decor_first"):      # (otherwise the function is decorated before the cache is configured, as module-level code does)
                cache.setup("mem://?check_interval=0&size=100000")
                await cache.init()

            async def body(k, trace=None):       # `trace` is not part of the cache key
                c = who.get()
                ev.append(["bstart", c, k])
                try:
                    for _ in range(specs[c]["yields"]):
                        await drv.gate("body")
                        ev.append(["bstep", c])
                except asyncio.CancelledError:
                    ev.append(["bend", c, "cancelled"])
                    raise
                ev.append(["bend", c, specs[c]["out"]])
                if specs[c]["out"] == "ret":
                    return 100 + c
                if specs[c]["out"] == "ret0":
                    return 0
                if specs[c]["out"] == "cancel_self":
                    raise asyncio.CancelledError()     # the execution itself ends cancelled (e.g. inner work it awaited was cancelled)
                raise Boom(c)
            kind = case["kind"]
            if kind == "cache": f = cache(ttl=100000, key="k:{k}")(body)
            elif kind == "cache_lock": f = cache(ttl=100000, key="k:{k}", lock=True)(body)
            elif kind == "early": f = cache.early(ttl=100000, early_ttl=50000, key="k:{k}")(body)
            elif kind == "method":
                # a protected method without an explicit key: the instance is part of the key, two instances are two keys
                class Svc:
                    def __init__(self, n): self.n = n

                    @cache(ttl=100000)
                    async def m(self):
                        return await body(self.n)
                objs = [Svc(0), Svc(1)]

                async def f(k, trace=None):      # (the automatic key names every parameter: no extra argument here)
                    return await objs[k].m()
            else: f = cache.soft(ttl=100000, soft_ttl=50000, key="k:{k}")(body)

            if case.get("decor_first"):
                cache.setup("mem://?check_interval=0&size=100000")
                await cache.init()

            async def caller(i):
                try:
                    await drv.gate("start")
                    who.set(i)
                    ev.append(["call", i, specs[i]["key"]])
                    kk = specs[i]["key"]
                    if specs[i].get("form") == "kw":
                        r = await (f(k=kk, trace=i) if case.get("extra") else f(k=kk))
                    else:
                        r = await (f(kk, trace=i) if case.get("extra") else f(kk))
                    ev.append(["got", i, "ret", r])
                except Boom as e:
                    ev.append(["got", i, "raise", e.args[0]])
                except asyncio.CancelledError:
                    ev.append(["got", i, "cancelled", 0])
                    raise
                except Exception as e:  # noqa
                    ev.append(["got", i, "other", repr(e)[:60]])
            ts = []
            for i in range(len(specs)):
                t = asyncio.get_running_loop().create_task(caller(i), name=f"T{i}")
                drv.tasks[f"T{i}"] = t
                ts.append(t)
            await asyncio.gather(*ts, return_exceptions=True)
            await asyncio.gather(*flights, return_exceptions=True)     # an execution may outlive all of its (cancelled) callers
            for _ in range(3):
                await asyncio.sleep(0)
            await cache.close()
            return True
        return main()
    cancellable = [f"T{case['cancel']}"] if case["cancel"] is not None and case["cancel"] < len(specs) else []
    return sched.run(main_factory, case["schedule"], cancellable=cancellable, max_cancels=1 if cancellable else 0,
                     bursts=case.get("bursts", ()), task_hook=hook)


def run_impl(case):
    result, drv = _run(case)
    return {"events": drv.events, "deadlock": bool(drv.deadlock or not result), "choices": len(drv.trace)}


def _out(kind, v):
    if kind == "ret": return C("Ret", Z(v))
    if kind == "raise": return C("Raise", Z(v))
    return C("Cancelled")


def _spec_out(specs, c):
    o = specs[c]["out"]
    if o == "cancel_self": return C("Cancelled")
    return _out("ret" if o == "ret0" else o, 100 + c if o == "ret" else 0 if o == "ret0" else c)


def to_coq(case, obs):
    specs = case["callers"]
    evs = obs["events"]
    fid, started, log, raw = {}, set(), [], []
    for n, e in enumerate(evs):
        nxt = evs[n + 1] if n + 1 < len(evs) else [None]
        kind = e[0]
        if kind == "call":
            i, k = e[1], e[2]
            spawned = nxt[0] == "spawn" and nxt[1] == i
            log.append(C("OE", C("Call", Nat(i), Nat(k), Nat(specs[i]["yields"]), _spec_out(specs, i)), spawned))
            raw.append(C("RCall", Nat(i), Nat(k)))
        elif kind == "spawn":
            if e[1] in fid: log.append(C("OBad"))
            fid[e[1]] = len(fid)
        elif kind == "bstart":
            c = e[1]
            raw.append(C("RBStart", Nat(c), Nat(e[2])))
            if c in fid and c not in started:
                started.add(c)
                log.append(C("OE", C("Start", Nat(fid[c])), True))
            else:
                log.append(C("OBad"))      # a body outside a registered task, or a second body of one task
        elif kind == "bstep":
            c = e[1]
            log.append(C("OE", C("Step", Nat(fid[c])), nxt[0] == "bend" and nxt[1] == c) if c in fid else C("OBad"))
        elif kind == "bend":
            raw.append(C("RBEnd", Nat(e[1]), _spec_out(specs, e[1]) if e[2] != "cancelled" else C("Cancelled")))
        elif kind == "unreg":
            c = e[1]
            if c not in fid:
                log.append(C("OBad")); continue
            if c not in started:
                started.add(c)
                log.append(C("OE", C("Start", Nat(fid[c])), False))     # answered from the cache: the body was not called
            log.append(C("OE", C("Unreg", Nat(fid[c])), True))
        elif kind == "cancel":
            i = int(e[1][1:])
            log.append(C("OE", C("Cancel", Nat(i)), True))
            raw.append(C("RCancel", Nat(i)))
        elif kind == "got":
            i = e[1]
            o = _out(e[2], e[3]) if e[2] in ("ret", "raise", "cancelled") else C("Raise", Z(-1))
            log.append(C("OGot", Nat(i), o))
            raw.append(C("RGot", Nat(i), o))
    if obs["deadlock"]:
        log.append(C("OBad"))
    sp = [((Nat(s["key"]), Nat(s["yields"])), _spec_out(specs, i)) for i, s in enumerate(specs)]
    return C("CSF", sp, log, raw)


def nontrivial(case, obs):
    running = {}
    for e in obs["events"]:
        if e[0] == "bstart": running[e[2]] = e[1]
        elif e[0] == "bend": running = {k: c for k, c in running.items() if c != e[1]}
        elif e[0] == "call" and e[2] in running: return True
    return False


def classify(case, obs):
    d = {"callers": len(case["callers"]), "kind_" + case["kind"]: 1, "events": len(obs["events"]), "deadlock": int(obs["deadlock"]),
         "scheduler_choices": obs["choices"], "cancel_designated": int(case["cancel"] is not None), "bursts": len(case.get("bursts", ()))}
    for e in obs["events"]:
        name = e[0] if e[0] != "got" else "got_" + e[2]
        d[name] = d.get(name, 0) + 1
    d["joined_running"] = int(nontrivial(case, obs))
    ended = {}
    for e in obs["events"]:           # a call that finds a finished but still registered task
        if e[0] == "bend": ended[e[1]] = case["callers"][e[1]]["key"]
        elif e[0] == "unreg": ended.pop(e[1], None)
        elif e[0] == "call" and e[2] in ended.values(): d["call_between_end_and_done_callback"] = d.get("call_between_end_and_done_callback", 0) + 1
    return d


def enumeration_report():
    """per enumerated program: [number of distinct complete schedules, enumeration ran to the end]"""
    return dict(ENUM_COMPLETE) or None


def exhaustive_ok():
    return all(done for _, done in ENUM_COMPLETE.values())


def shrink(case):
    cs = case["callers"]
    if len(cs) > 2:
        for i in range(len(cs)):
            c = dict(case); c["callers"] = cs[:i] + cs[i + 1:]
            if c["cancel"] is not None and c["cancel"] >= len(c["callers"]): c["cancel"] = None
            yield c
    if case.get("bursts"):
        c = dict(case); c["bursts"] = []; yield c
    if case["cancel"] is not None:
        c = dict(case); c["cancel"] = None; yield c
    if case["kind"] != "cache":
        c = dict(case); c["kind"] = "cache"; yield c
    for i, s in enumerate(cs):
        if s["yields"] > 0:
            c = dict(case); c["callers"] = cs[:i] + [dict(s, yields=s["yields"] - 1)] + cs[i + 1:]; yield c
    s = case["schedule"]
    for i in range(min(len(s), 12)):
        if s[i]:
            c = dict(case); c["schedule"] = s[:i] + [0] + s[i + 1:]; yield c

(* Correspondence + oracle for C08 (cache keys). *)
From Cashews Require Import Base.Prelude Model.Router Model.Key.
Open Scope string_scope.

(* one call form: positional args, keyword args, the key the implementation derived (None = raised) *)
Definition call_obs := (list kval * kvmap * option string)%type.
(* group1: call forms that bind to the same arguments; group2: forms binding to arguments that differ
   from group1's in a parameter the template mentions (separable value types) when sep = true *)
Inductive case :=
| CKey (s : sig) (t : template) (given : bool) (g1 g2 : list call_obs) (sep : bool)
(* templates outside the modelled rendering fragment (format functions such as {x:hash}): judged by the property's own
   words only - equal bound arguments give one key, separable ones give two - with no model key to compare with *)
| CKeyOpaque (g1 g2 : list call_obs) (sep : bool).

Definition ostr_eqb := option_eqb String.eqb.
Definition agree_call (s : sig) (t : template) (given : bool) (c : call_obs) : bool :=
  let '(args, kwargs, k) := c in ostr_eqb (cache_key s t given args kwargs) k.
Definition all_same (g : list call_obs) : bool :=
  match g with
  | [] => true
  | (_, _, k0) :: r => isSome k0 && forallb (fun c => ostr_eqb (snd c) k0) r
  end.
Definition first_key (g : list call_obs) : option string := match g with [] => None | (_, _, k) :: _ => k end.

Definition judge (c : case) : verdict :=
  match c with
  | CKey s t given g1 g2 sep =>
      (forallb (agree_call s t given) g1 && forallb (agree_call s t given) g2,
       all_same g1 && all_same g2 &&
       (if sep then negb (ostr_eqb (first_key g1) (first_key g2)) else true),
       [])
  | CKeyOpaque g1 g2 sep =>
      (true, all_same g1 && all_same g2 && (if sep then negb (ostr_eqb (first_key g1) (first_key g2)) else true), [])
  end.
Definition explain (c : case) :=
  match c with
  | CKey s t given g1 g2 _ =>
    (map (fun c => cache_key s t given (fst (fst c)) (snd (fst c))) g1,
     map (fun c => cache_key s t given (fst (fst c)) (snd (fst c))) g2)
  | CKeyOpaque _ _ _ => ([], [])
  end.

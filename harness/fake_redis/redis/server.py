"""The in-process server: the Redis commands cashews issues, written from the command reference.
Keys are str; string values bytes; time is time.time() in integer milliseconds (the harness's virtual clock)."""
import hashlib
import time

from .exceptions import ConnectionError, NoScriptError, ResponseError  # noqa: A004
from .lua import run_script

_SERVERS = {}
INVALIDATE_CHAN = b"__redis__:invalidate"


def server_for(url):
    if url not in _SERVERS:
        _SERVERS[url] = Server()
    return _SERVERS[url]


def reset_servers():
    _SERVERS.clear()


def _b(x):
    if isinstance(x, bytes): return x
    if isinstance(x, str): return x.encode()
    if isinstance(x, bool): raise ResponseError("bool argument")
    if isinstance(x, int): return str(x).encode()
    if isinstance(x, float): return repr(x).encode()
    raise ResponseError(f"cannot encode {type(x)}")


def _s(x):
    return _b(x).decode()


def _int(x):
    try:
        return int(_b(x))
    except ValueError:
        raise ResponseError("value is not an integer or out of range") from None


def _score(x):
    s = _s(x)
    excl = s.startswith("(")
    if excl: s = s[1:]
    try:
        return float(s), excl
    except ValueError:
        raise ResponseError("min or max is not a float") from None


def glob_match(pat, s):
    """Redis glob: * ? [set] and backslash escape"""
    def m(i, j):
        while i < len(pat):
            c = pat[i]
            if c == "*":
                while i + 1 < len(pat) and pat[i + 1] == "*": i += 1
                if i + 1 == len(pat): return True
                return any(m(i + 1, q) for q in range(j, len(s) + 1))
            if j >= len(s): return False
            if c == "?":
                pass
            elif c == "[":
                q = pat.find("]", i + 1)
                if q < 0:
                    if s[j] != "[": return False
                else:
                    body = pat[i + 1:q]; neg = body.startswith("^")
                    if neg: body = body[1:]
                    ok, t = False, 0
                    while t < len(body):
                        if t + 2 < len(body) and body[t + 1] == "-":
                            ok |= body[t] <= s[j] <= body[t + 2]; t += 3
                        else:
                            ok |= body[t] == s[j]; t += 1
                    if ok == neg: return False
                    i = q
            elif c == "\\" and i + 1 < len(pat):
                i += 1
                if pat[i] != s[j]: return False
            elif c != s[j]:
                return False
            i += 1; j += 1
        return j == len(s)
    return m(0, 0)


class Server:
    def __init__(self):
        self.data = {}          # key -> [kind, value, expire_at_ms | None]
        self.down = False
        self.down_exc = None
        self.scripts = {}
        self.cursors = {}
        self.next_cursor = 1
        self.trackers = []      # (pubsub, prefix): BCAST tracking redirected to that connection
        self.next_client_id = 1
        self.log = []           # commands received (for the harness)
        self.batch = None       # keys modified in the current event-loop cycle of the server (BCAST invalidations are sent per cycle, de-duplicated)
        self.depth = 0

    # ---- clock / expiry --------------------------------------------------------
    def now(self):
        return int(time.time() * 1000)

    def purge(self):
        t = self.now()
        self.begin()
        try:
            for k in [k for k, e in self.data.items() if e[2] is not None and e[2] <= t]:
                del self.data[k]
                self.touched(k)
        finally:
            self.end()

    def touched(self, key):
        if self.batch is not None:
            self.batch[key] = True
            return
        self._send([key])

    def _send(self, keys):
        for ps, prefix in list(self.trackers):
            mine = [k.encode() for k in keys if k.startswith(prefix)]
            if mine:
                ps.push({"type": "message", "pattern": None, "channel": INVALIDATE_CHAN, "data": mine})

    def begin(self):
        if self.depth == 0: self.batch = {}
        self.depth += 1

    def end(self):
        self.depth -= 1
        if self.depth == 0:
            keys, self.batch = list(self.batch), None
            if keys: self._send(keys)

    def drop_connections(self):
        """the server closes every pub/sub connection (restart, network cut)"""
        for ps, _ in list(self.trackers):
            ps.broken = True
            ps.wake()
        self.trackers = []

    def live(self, key, kind=None):
        e = self.data.get(key)
        if e is None: return None
        if kind is not None and e[0] != kind:
            raise ResponseError("WRONGTYPE Operation against a key holding the wrong kind of value")
        return e

    # ---- dispatch ---------------------------------------------------------------
    def execute(self, *args):
        if self.down:
            # how the outage shows: a refused / closed connection by default; the harness may choose a timeout or a bare OS error
            raise (self.down_exc or ConnectionError)("server is down")
        name = _s(args[0]).upper()
        self.begin()
        try:
            self.purge()
            self.log.append(name)
            fn = getattr(self, "c_" + name.replace(" ", "_"), None)
            if fn is None:
                raise ResponseError(f"unknown command '{name}' (outside the modelled server)")
            return fn(*args[1:])
        finally:
            self.end()

    # ---- strings ------------------------------------------------------------------
    def c_PING(self, *a): return b"PONG" if not a else _b(a[0])

    def c_SET(self, key, value, *opts):
        key = _s(key); px = None; nx = xx = keepttl = False
        i = 0
        while i < len(opts):
            o = _s(opts[i]).upper()
            if o == "PX": px = _int(opts[i + 1]); i += 2
            elif o == "EX": px = _int(opts[i + 1]) * 1000; i += 2
            elif o == "NX": nx = True; i += 1
            elif o == "XX": xx = True; i += 1
            elif o == "KEEPTTL": keepttl = True; i += 1
            else: raise ResponseError("syntax error")
        if px is not None and px <= 0: raise ResponseError("invalid expire time in 'set' command")
        old = self.data.get(key)
        if (nx and old is not None) or (xx and old is None): return None
        exp = self.now() + px if px is not None else (old[2] if keepttl and old else None)
        self.data[key] = ["string", _b(value), exp]
        self.touched(key)
        return b"OK"

    def c_GET(self, key):
        e = self.live(_s(key), "string")
        return None if e is None else e[1]

    def c_MGET(self, *keys):
        out = []
        for k in keys:
            e = self.data.get(_s(k))
            out.append(e[1] if e is not None and e[0] == "string" else None)
        return out

    def c_UNLINK(self, *keys):
        n = 0
        for k in keys:
            if self.data.pop(_s(k), None) is not None:
                n += 1; self.touched(_s(k))
        return n
    c_DEL = c_UNLINK

    def c_EXISTS(self, *keys): return sum(1 for k in keys if _s(k) in self.data)

    def c_PEXPIRE(self, key, ms):
        e = self.data.get(_s(key))
        if e is None: return 0
        ms = _int(ms)
        if ms <= 0:
            del self.data[_s(key)]
        else:
            e[2] = self.now() + ms
        self.touched(_s(key))
        return 1

    def c_TTL(self, key):
        e = self.data.get(_s(key))
        if e is None: return -2
        if e[2] is None: return -1
        return (e[2] - self.now() + 500) // 1000

    def c_INCRBY(self, key, amount):
        key = _s(key)
        e = self.live(key, "string")
        cur = 0
        if e is not None:
            cur = _int(e[1])
        n = cur + _int(amount)
        self.data[key] = ["string", str(n).encode(), e[2] if e else None]
        self.touched(key)
        return n

    def c_SCAN(self, cursor, *opts):
        cursor = _int(cursor); pat = "*"; count = 10
        i = 0
        while i < len(opts):
            o = _s(opts[i]).upper()
            if o == "MATCH": pat = _s(opts[i + 1]); i += 2
            elif o == "COUNT": count = _int(opts[i + 1]); i += 2
            else: raise ResponseError("syntax error")
        if cursor == 0:
            keys, pos = sorted(self.data), 0
        else:
            if cursor not in self.cursors: return [0, []]
            keys, pos = self.cursors.pop(cursor)
        chunk = keys[pos:pos + max(count, 1)]
        pos += len(chunk)
        out = [k.encode() for k in chunk if k in self.data and glob_match(pat, k)]
        if pos >= len(keys): return [0, out]
        c = self.next_cursor; self.next_cursor += 1
        self.cursors[c] = (keys, pos)
        return [c, out]

    def c_DBSIZE(self): return len(self.data)

    def c_FLUSHDB(self, *a):
        self.data.clear()
        for ps, _ in list(self.trackers):
            ps.push({"type": "message", "pattern": None, "channel": INVALIDATE_CHAN, "data": None})
        return b"OK"

    def c_MEMORY_USAGE(self, key):
        e = self.data.get(_s(key))
        return None if e is None else 56 + len(_s(key)) + (len(e[1]) if e[0] == "string" else 16 * len(e[1]))

    # ---- sets -----------------------------------------------------------------------
    def c_SADD(self, key, *members):
        key = _s(key); e = self.live(key, "set")
        if e is None:
            e = self.data[key] = ["set", set(), None]
        n = 0
        for m in members:
            if _b(m) not in e[1]:
                e[1].add(_b(m)); n += 1
        self.touched(key)
        return n

    def c_SREM(self, key, *members):
        key = _s(key); e = self.live(key, "set")
        if e is None: return 0
        n = 0
        for m in members:
            if _b(m) in e[1]:
                e[1].discard(_b(m)); n += 1
        if not e[1]: del self.data[key]
        if n: self.touched(key)
        return n

    def c_SPOP(self, key, count=None):
        key = _s(key); e = self.live(key, "set")
        if count is None:
            if e is None: return None
            m = sorted(e[1])[0]; e[1].discard(m)
            if not e[1]: del self.data[key]
            self.touched(key)
            return m
        if e is None: return []
        out = sorted(e[1])[:_int(count)]
        for m in out: e[1].discard(m)
        if not e[1]: del self.data[key]
        if out: self.touched(key)
        return out

    def c_SMEMBERS(self, key):
        e = self.live(_s(key), "set")
        return [] if e is None else sorted(e[1])

    # ---- sorted sets ------------------------------------------------------------------
    def c_ZADD(self, key, *sm):
        key = _s(key); e = self.live(key, "zset")
        if e is None:
            e = self.data[key] = ["zset", {}, None]
        n = 0
        for i in range(0, len(sm), 2):
            sc, _ = _score(sm[i]); m = _b(sm[i + 1])
            if m not in e[1]: n += 1
            e[1][m] = sc
        self.touched(key)
        return n

    def _in(self, sc, lo, hi):
        (a, ax), (b, bx) = lo, hi
        return (sc > a if ax else sc >= a) and (sc < b if bx else sc <= b)

    def c_ZCOUNT(self, key, lo, hi):
        e = self.live(_s(key), "zset")
        if e is None: return 0
        lo, hi = _score(lo), _score(hi)
        return sum(1 for sc in e[1].values() if self._in(sc, lo, hi))

    def c_ZREMRANGEBYSCORE(self, key, lo, hi):
        key = _s(key); e = self.live(key, "zset")
        if e is None: return 0
        lo, hi = _score(lo), _score(hi)
        rm = [m for m, sc in e[1].items() if self._in(sc, lo, hi)]
        for m in rm: del e[1][m]
        if not e[1]: del self.data[key]
        if rm: self.touched(key)
        return len(rm)

    # ---- bit fields --------------------------------------------------------------------
    def c_BITFIELD(self, key, *ops):
        key = _s(key); e = self.live(key, "string")
        buf = bytearray(e[1]) if e else bytearray()
        out, overflow, i, wrote = [], "WRAP", 0, False

        def parse(fmt, off):
            fmt, off = _s(fmt), _s(off)
            if fmt[0] not in "ui": raise ResponseError("Invalid bitfield type")
            bits = int(fmt[1:])
            if fmt[0] == "i": raise ResponseError("signed fields are outside the modelled server")
            pos = int(off[1:]) * bits if off.startswith("#") else int(off)
            return bits, pos

        def read(bits, pos):
            v = 0
            for b in range(pos, pos + bits):
                byte = buf[b // 8] if b // 8 < len(buf) else 0
                v = (v << 1) | ((byte >> (7 - b % 8)) & 1)
            return v

        def write(bits, pos, v):
            need = (pos + bits + 7) // 8
            if len(buf) < need: buf.extend(b"\0" * (need - len(buf)))
            for n, b in enumerate(range(pos, pos + bits)):
                bit = (v >> (bits - 1 - n)) & 1
                buf[b // 8] = (buf[b // 8] & ~(1 << (7 - b % 8))) | (bit << (7 - b % 8))
        while i < len(ops):
            o = _s(ops[i]).upper()
            if o == "GET":
                bits, pos = parse(ops[i + 1], ops[i + 2]); out.append(read(bits, pos)); i += 3
            elif o == "OVERFLOW":
                overflow = _s(ops[i + 1]).upper(); i += 2
            elif o == "INCRBY":
                bits, pos = parse(ops[i + 1], ops[i + 2]); inc = _int(ops[i + 3]); i += 4
                v = read(bits, pos) + inc; top = (1 << bits) - 1
                if v > top or v < 0:
                    if overflow == "SAT": v = top if v > top else 0
                    elif overflow == "FAIL":
                        out.append(None); continue
                    else: v &= top
                write(bits, pos, v); out.append(v); wrote = True
            else:
                raise ResponseError("syntax error")
        if wrote:
            self.data[key] = ["string", bytes(buf), e[2] if e else None]
            self.touched(key)
        return out

    # ---- scripts ---------------------------------------------------------------------
    def c_SCRIPT_LOAD(self, script):
        sha = hashlib.sha1(_b(script)).hexdigest()
        self.scripts[sha] = _s(script)
        return sha.encode()

    def c_EVALSHA(self, sha, numkeys, *rest):
        sha = _s(sha)
        if sha not in self.scripts:
            raise NoScriptError("NOSCRIPT No matching script")
        n = _int(numkeys)
        keys = [_s(k) for k in rest[:n]]
        argv = [_s(a) for a in rest[n:]]
        return run_script(self.scripts[sha], keys, argv, lambda *a: self.call_from_script(*a))

    def call_from_script(self, *args):
        name = _s(args[0]).upper()
        fn = getattr(self, "c_" + name, None)
        if fn is None:
            raise ResponseError(f"unknown command '{name}' called from script")
        return fn(*args[1:])

    # ---- connection-level commands used on the pub/sub connection ------------------------
    def client_id(self):
        c = self.next_client_id; self.next_client_id += 1
        return c

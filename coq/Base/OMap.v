(* Ordered association lists: the image of Python's OrderedDict (insertion / recency
   order, oldest first).  Lookup-level lemmas only. *)
From Cashews Require Import Base.Prelude.

Section OMap.
Context {V : Type}.
Definition omap := list (key * V).

Fixpoint lookup (s : omap) (k : key) : option V :=
  match s with [] => None | (k', e) :: r => if String.eqb k k' then Some e else lookup r k end.
Fixpoint remove (s : omap) (k : key) : omap :=
  match s with
  | [] => []
  | (k', e) :: r => if String.eqb k k' then remove r k else (k', e) :: remove r k
  end.
Definition mem (s : omap) (k : key) : bool := isSome (lookup s k).
Definition move_to_end (s : omap) (k : key) : omap :=
  match lookup s k with Some e => remove s k ++ [(k, e)] | None => s end.
(* d[k] = e : replaces in place when present (position kept), appends otherwise *)
Fixpoint assign (s : omap) (k : key) (e : V) : omap :=
  match s with
  | [] => [(k, e)]
  | (k', e') :: r => if String.eqb k k' then (k', e) :: r else (k', e') :: assign r k e
  end.
Definition keys (s : omap) : list key := map fst s.

Lemma lookup_remove s k k' :
  lookup (remove s k) k' = if String.eqb k' k then None else lookup s k'.
Proof.
  induction s as [|[k0 e] s IH]; cbn; [destruct (String.eqb k' k); reflexivity|].
  destruct (String.eqb_spec k k0) as [->|Hn].
  - rewrite IH. destruct (String.eqb_spec k' k0); reflexivity.
  - cbn. destruct (String.eqb_spec k' k0) as [->|].
    + destruct (String.eqb_spec k0 k); [congruence|reflexivity].
    + apply IH.
Qed.
Lemma lookup_app s t k :
  lookup (s ++ t) k = match lookup s k with Some e => Some e | None => lookup t k end.
Proof. induction s as [|[k0 e] s IH]; cbn; [reflexivity|]. destruct (String.eqb k k0); auto. Qed.
Lemma lookup_move s k k' : lookup (move_to_end s k) k' = lookup s k'.
Proof.
  unfold move_to_end. destruct (lookup s k) eqn:E; [|reflexivity].
  rewrite lookup_app, lookup_remove. cbn. destruct (String.eqb_spec k' k) as [->|]; [congruence|].
  destruct (lookup s k'); reflexivity.
Qed.
Lemma lookup_assign s k e k' :
  lookup (assign s k e) k' = if String.eqb k' k then Some e else lookup s k'.
Proof.
  induction s as [|[k0 e0] s IH]; cbn.
  - destruct (String.eqb k' k); reflexivity.
  - destruct (String.eqb_spec k k0) as [->|Hn]; cbn.
    + destruct (String.eqb k' k0); reflexivity.
    + destruct (String.eqb_spec k' k0) as [->|].
      * destruct (String.eqb_spec k0 k); [congruence|reflexivity].
      * apply IH.
Qed.
End OMap.
Arguments omap V : clear implicits.

"""C09: serialization round-trips every supported value under every configuration."""
import datetime
import decimal

from harness import serrun, vclock
from harness.core import C, S

ID = "C09"
RUN_MODULE = "Model.Serializer Run.SerTables Run.C09"
EXPLAIN = "explain"
RULE = ("values from a recursive generator (None, bool, ints incl. huge/negative, floats, str, bytes incl. b'123', b'md5:x_y', b'', b'_', "
        "b'bytes:z', Decimal, date/datetime/timedelta, nested tuple/list/set/dict depth <= 3, dataclass, NamedTuple) x keys from a text "
        "alphabet x {no secret, secret} x {md5, sha1, sha256, sum} x {default, json (json-safe values + bytes), null}; stored via set and "
        "set_many, read via get and get_many on a real Memory(serializer=...) with an instrumented pickler and recording MACs. non-trivial: "
        "the value is not a plain int (so framing / pickling / custom encoding is exercised)")
TRUSTED_BASE = ["Coq 8.16.1 kernel + vm_compute", "hand-written model coq/Model/Serializer.v tied by this differential run (stored blob compared byte for byte)",
                "pickle / json / hmac / hashlib enter as tables recorded during the run; their contract (round trip, not digit-only, hex MAC) is a hypothesis of the theorem and is monitored on every generated value"]
ASSUMPTIONS = ["values for which the pickler itself does not round-trip (e.g. tuples under JSON) are outside the quantifier and not generated",
               "keys are text; key.encode() is UTF-8"]
EXHAUSTIVE = {"quick": False, "thorough": False}

KEYS = ["k", "a:b", "k_1", "", "with space", "1", "_", "md5:x_y", "üñ"]
BYTES = [b"", b"123", b"0", b"md5:x_y", b"_", b":", b"bytes:z", b"sha1:deadbeef_payload", b"\x00\xff\x80", b"abc", b"12a", b"sum:1_2",
         b"abc ", b"line\n", b"\t", b" x ", b"\r\n"]      # leading / trailing ASCII whitespace is part of the value
ATOMS = [None, True, False, 0, 1, -7, 2 ** 80, -(2 ** 70), 1.5, -0.0, 1e300, "", "x", "123", "_", ":", "a_b:c", "md5:x_y", "été"]


def gen_value(rng, depth, json_safe):
    r = rng.random()
    if depth <= 0 or r < 0.45:
        if json_safe:
            return rng.choice([None, True, False, 1.5, "", "x", "123", "_", "a_b:c", 7, -3, float("inf"), float("-inf"), 1e308,
                               "caf\u00e9", "\u03c0", "\u5546\u54c1"])      # text outside ASCII
        if r < 0.15:
            return rng.choice(BYTES)
        if r < 0.25:
            return rng.choice([decimal.Decimal("1.10"), datetime.date(2020, 2, 29), datetime.datetime(2021, 1, 2, 3, 4, 5), datetime.timedelta(days=1, seconds=5),
                               serrun.DC(1, "x"), serrun.NT(1, "y"), frozenset({1, 2})])
        return rng.choice(ATOMS)
    n = rng.randint(0, 3)
    kind = rng.choice(["list", "dict"] if json_safe else ["list", "tuple", "set", "dict"])
    if kind == "list": return [gen_value(rng, depth - 1, json_safe) for _ in range(n)]
    if kind == "tuple": return tuple(gen_value(rng, depth - 1, json_safe) for _ in range(n))
    if kind == "set": return {rng.choice([1, 2, "a", b"b", None, (1, 2)]) for _ in range(n)}
    return {rng.choice(["a", "b", "c"] if json_safe else ["a", 1, (1, 2), "b"]): gen_value(rng, depth - 1, json_safe) for _ in range(n)}


def gen_cases(rng, tier):
    n = 1200 if tier == "quick" else 15000
    cases = []
    for i in range(n):
        pick = rng.choice(["default", "default", "json", "null"])
        secret = rng.random() < 0.6
        cfg = {"pickler": pick, "secret": secret, "digest": rng.choice(["md5", "sha1", "sha256", "sum"]), "via_url": rng.random() < 0.3}
        if pick == "json" and rng.random() < 0.3:
            v = rng.choice(BYTES)
        elif rng.random() < 0.25:
            v = rng.choice(BYTES)
        else:
            v = gen_value(rng, 3, pick == "json")
        custom = None
        if pick != "json" and rng.random() < 0.12:
            custom = rng.choice(["early", "late"])
            v = serrun.Money(rng.choice([0, 5, 123, -1]))
        cases.append({"config": cfg, "key": rng.choice(KEYS), "value": _enc(v), "custom": custom})
    return cases


def _twin(v):
    """a value that compares equal to v but has another type, if there is a simple one"""
    if isinstance(v, bool): return int(v)
    if isinstance(v, int) and v in (0, 1): return bool(v)
    if isinstance(v, int) and abs(v) < 2 ** 50: return float(v)
    if isinstance(v, float) and abs(v) < 2 ** 50 and v == int(v): return int(v)
    if isinstance(v, list) and v and all(type(x) is int and x in (0, 1) for x in v): return [bool(x) for x in v]
    return None


# JSON-able encoding of arbitrary generated values (evidence samples / replays)
def _enc(v):
    import base64, pickle
    if isinstance(v, serrun.Money):
        return {"repr": repr(v), "money": v.a}
    return {"repr": repr(v)[:200], "pickle": base64.b64encode(pickle.dumps(v)).decode()}


def _dec(e):
    import base64, pickle
    if "money" in e:
        return serrun.Money(e["money"])
    return pickle.loads(base64.b64decode(e["pickle"]))


def run_impl(case):
    import pickle as _p
    v = _dec(case["value"])
    cfg = case["config"]

    async def go():
        pre = {"cenc": []}
        if case.get("custom") == "early":
            serrun.register_money(pre)
        mem, rec = serrun.make(cfg)
        rec["cenc"] = pre["cenc"]
        if case.get("custom") == "late":
            serrun.register_money(rec)
        try:
            await mem.init()
            out = {}
            try:
                tw = _twin(v)
                if tw is not None:          # the key first holds an EQUAL value of another type (1 / True / 1.0 ...): the overwrite must win
                    await mem.set(case["key"], tw)
                await mem.set(case["key"], v)
                st = mem.store[case["key"]][1]
                try:
                    out["get"] = await mem.get(case["key"], default=serrun.DEFAULT)
                except Exception as e:  # noqa
                    out["get"] = {"exc": type(e).__name__}
                await mem.delete(case["key"])
                await mem.set_many({"zz0": 41, case["key"]: v, "zz1": 43})       # the value travels between two other pairs
                st2 = mem.store[case["key"]][1]
                try:
                    r = await mem.get_many("zz-missing", case["key"], "zz1", "zz0", "zz1", default=serrun.DEFAULT)      # one key is asked for twice: one answer per position
                    aligned = (len(r) == 5 and r[0] is serrun.DEFAULT and type(r[2]) is int and r[2] == 43 and type(r[3]) is int and r[3] == 41
                               and type(r[4]) is int and r[4] == 43)
                    out["many"] = r[1] if aligned else {"exc": "MISALIGNED " + repr(r)[:60]}
                except Exception as e:  # noqa
                    out["many"] = {"exc": type(e).__name__}
                await mem.delete_many("zz0", "zz1")
                out["stored"] = st
                out["stored_same"] = (type(st) is type(st2) and st == st2)
            except Exception as e:  # noqa  (encode failed)
                out = {"get": {"exc": "SET:" + type(e).__name__}, "many": {"exc": "SET"}, "stored": None, "stored_same": True}
            await mem.close()
        finally:
            rec["restore"]()
            serrun.unregister_money()
        # monitor the pickler contract on this value
        mon = {"pickled": len(rec["dumps"]) > 0}
        return {"out": out, "rec": {k: rec[k] for k in ("dumps", "loads", "macs", "cenc")}, "mon": mon}
    res = vclock.run(go)
    res["_v"] = v
    return _Obs(res)


class _Obs(dict):
    """carries live python objects; JSON view for evidence is a summary"""
    def __init__(self, res):
        o = res["out"]
        super().__init__({"get": repr(o["get"])[:120], "many": repr(o["many"])[:120], "stored": repr(o["stored"])[:120],
                          "dumps_calls": len(res["rec"]["dumps"]), "loads_calls": len(res["rec"]["loads"]), "mac_calls": len(res["rec"]["macs"])})
        self.live = res


def to_coq(case, obs):
    live = obs.live
    ids = serrun.Ids()
    v = live["_v"]
    vc = ids.coq(v)
    dt, lt, mt = serrun.tables(live["rec"], ids)
    ct = serrun.ctable(live["rec"], ids)
    st = live["out"]["stored"]
    if type(st) is int and not isinstance(st, bool): so = C("SInt", serrun.Z(st))
    elif isinstance(st, bytes): so = C("SBytes", S(serrun.lat(st)))
    else: so = C("SObj", ids.coq(st))
    if not live["out"]["stored_same"]:
        so = C("SObj", C("VOpq", serrun.Z(999)))
    key = serrun.lat(case["key"].encode())
    return C("CRt", serrun.cfg_coq(case["config"]), S(key), vc, dt, lt, mt, ct, so, serrun.dres(live["out"]["get"], ids), serrun.dres(live["out"]["many"], ids))


def nontrivial(case, obs):
    return not (type(obs.live["_v"]) is int)


def classify(case, obs):
    v = obs.live["_v"]
    cfg = case["config"]
    return {"type_" + type(v).__name__: 1, "pickler_" + cfg["pickler"]: 1, "secret": int(cfg["secret"]), "digest_" + cfg["digest"]: 1,
            "custom_" + str(case.get("custom")): 1, "get_raised": int(isinstance(obs.live["out"]["get"], dict) and "exc" in obs.live["out"]["get"])}


def shrink(case):
    v = _dec(case["value"])
    if isinstance(v, (list, tuple, set, frozenset, dict)) and len(v) > 0:
        items = list(v.items()) if isinstance(v, dict) else list(v)
        for i in range(len(items)):
            rest = items[:i] + items[i + 1:]
            try:
                nv = dict(rest) if isinstance(v, dict) else type(v)(rest)
            except Exception:  # noqa
                continue
            c = dict(case); c["value"] = _enc(nv); yield c
        for it in (v.values() if isinstance(v, dict) else v):
            c = dict(case); c["value"] = _enc(it); yield c
    if isinstance(v, (bytes, str)) and len(v) > 1:
        c = dict(case); c["value"] = _enc(v[:-1]); yield c
        c = dict(case); c["value"] = _enc(v[1:]); yield c
    if case["key"] != "k":
        c = dict(case); c["key"] = "k"; yield c

"""Shared implementation-side runner for C03 / C04: one transaction on a real Cache + Memory, with an outside
observer probing the raw backend after every in-transaction command."""
import asyncio

from harness import vclock
from harness.core import C, S, Some, Z
from harness.memrun import DEFAULT, TICK, cmd_to_coq, dec, enc, res_to_coq, val_to_coq

KEYS = ["a", "b", "c", "ab"]
VALUES = [1, 2, 7, 0, 0, "x", "y", None, ""]      # (no bytes: the facade stores them encoded, the raw snapshots of the observer would differ)


class _InnerBoom(Exception):
    pass


class Boom(Exception):
    pass


def gen_cmd(rng, keys, reads=True):
    k = rng.choice(keys)
    ttl = rng.choice([0, 0, 8, 12, 32, 1600])
    r = rng.random()
    if reads and r < 0.30:
        q = rng.random()
        if q < 0.25: return ["get", k]
        if q < 0.35:       # a default of the caller's own, drawn from the values the commands write
            d1, d2 = rng.sample([1, 2, 7, 0, "x", "y"], 2)
            return ["get", k, enc(d1), enc(d2)]
        if q < 0.5: return ["get_many", [rng.choice(keys) for _ in range(rng.randint(1, 3))]]
        if q < 0.7: return ["exists", k]
        if q < 0.8: return ["get_expire", k]
        if q < 0.9: return ["scan", rng.choice(["a", "", "b", "c"])]
        return ["get_match", rng.choice(["a", "", "b"])]
    if r < 0.55: return ["set", k, enc(rng.choice(VALUES)), ttl, rng.choice([None, None, None, True, False])]
    if r < 0.62: return ["set_many", [[kk, enc(rng.choice(VALUES))] for kk in rng.sample(keys, rng.randint(1, 2))], ttl]
    if r < 0.74: return ["incr", k, rng.choice([1, 1, 2, -1, -1, -2, 0]), ttl]
    if r < 0.84: return ["delete", k]
    if r < 0.88: return ["delete_many", [rng.choice(keys) for _ in range(rng.randint(1, 2))]]
    if r < 0.93: return ["delete_match", rng.choice(["a", "b", ""])]
    return ["expire", k, rng.choice([8, 32, 1600, 0])]


def gen_case(rng, writes_only=False, maxlen=15):
    keys = KEYS
    init = [[k, enc(rng.choice(VALUES)), rng.choice([0, 0, 1600, 48])] for k in keys if rng.random() < 0.6]
    n = rng.randint(1, maxlen)
    cmds, budget = [], 6
    for _ in range(n):
        adv = 1 if budget > 0 and rng.random() < 0.2 else 0
        budget -= adv
        cmds.append([adv, gen_cmd(rng, keys, reads=not writes_only)])
    return {"mode": rng.choice(["fast", "locked", "serializable"]), "init": init, "cmds": cmds,
            "ending": rng.choice(["commit", "commit", "commit", "rollback", "raise", "cancel"]),
            "nested": rng.choice([False, False, False, False, "fresh", "same", "same_twice"]),
            "default_mode": rng.random() < 0.3}      # the mode comes from set_transaction_mode(), cache.transaction() is called without arguments


async def _apply(cache, c):
    op = c[0]
    try:
        # reserved ':'-prefixed keys (transaction locks) are outside the property: filtered from pattern reads
        if op == "scan": return ["keys", sorted([k async for k in cache.scan(c[1] + "*") if not k.startswith(":")])]
        if op == "get_match": return ["pairs", sorted([[k, enc(v)] async for k, v in cache.get_match(c[1] + "*") if not k.startswith(":")], key=lambda kv: kv[0])]
        if op == "delete_match":
            await cache.delete_match(c[1] + "*"); return ["r", None]
        from harness.memrun import apply
        return ["r", await apply(cache, c)]
    except Exception as e:  # noqa
        return ["r", "ERR"]


def run(case):
    keys = KEYS

    async def go():
        from cashews import Cache
        from cashews.wrapper.transaction import TransactionMode
        cache = Cache()
        mem = cache.setup("mem://?check_interval=0&size=100000")
        await cache.init()

        def tick():
            return round((vclock.Clock.now - vclock.BASE) / TICK)

        def snap():
            out = []
            now = vclock.Clock.now
            for k in keys:
                e = mem.store.get(k)
                if e is None or (e[0] is not None and e[0] <= now):
                    out.append(None)
                else:
                    out.append([enc(e[1]), None if e[0] is None else round((e[0] - vclock.BASE) / TICK)])
            return out
        await asyncio.sleep(TICK)
        t0 = tick()
        for k, v, ttl in case["init"]:
            await mem.set(k, dec(v), expire=ttl * TICK if ttl else None)
        mode = {"fast": TransactionMode.FAST, "locked": TransactionMode.LOCKED, "serializable": TransactionMode.SERIALIZABLE}[case["mode"]]
        steps, anomaly = [], None
        try:
            if case.get("default_mode"):
                cache.set_transaction_mode(mode)
                uow = cache.transaction()
            else:
                uow = cache.transaction(mode=mode)
            nested = case["nested"]          # False | True/"fresh": a new context object per inner block | "same": the outer object re-entered
            async with uow as tx:
                half = len(case["cmds"]) // 2
                if not nested and len(case["cmds"]) % 4 == 1:
                    # a false start: some writes, then an explicit rollback - and the block goes on; what follows is a transaction of its own
                    for _, c in case["cmds"][:2]:
                        await _apply(cache, c)
                    await tx.rollback()
                for i, (adv, c) in enumerate(case["cmds"]):
                    if adv: await asyncio.sleep(adv * TICK)
                    t = tick()
                    if nested and i >= half:
                        if nested in ("same", "same_twice"): inner = uow
                        elif case.get("default_mode"): inner = cache.transaction()
                        elif len(case["cmds"]) % 2:      # an inner block that asks for ANOTHER mode still joins the running transaction
                            inner = cache.transaction(mode={TransactionMode.FAST: TransactionMode.LOCKED, TransactionMode.LOCKED: TransactionMode.SERIALIZABLE,
                                                            TransactionMode.SERIALIZABLE: TransactionMode.FAST}[mode])
                        else: inner = cache.transaction(mode=mode)
                        if nested == "fresh" and (i + len(case["cmds"])) % 3 == 0:
                            # the inner block is left by an exception that is caught inside the outer block: the transaction goes on
                            try:
                                async with inner:
                                    r = await _apply(cache, c)
                                    raise _InnerBoom()
                            except _InnerBoom:
                                pass
                        else:
                            async with inner:
                                if nested == "same_twice":
                                    async with uow:
                                        r = await _apply(cache, c)
                                else:
                                    r = await _apply(cache, c)
                    else:
                        r = await _apply(cache, c)
                    steps.append([t, c, r, snap()])
                if case["ending"] == "rollback":
                    await tx.rollback()
                elif case["ending"] == "raise":
                    raise Boom()
                elif case["ending"] == "cancel":       # the block is left by a BaseException (task cancellation)
                    raise asyncio.CancelledError()
        except (Boom, asyncio.CancelledError):
            pass
        except Exception as e:  # noqa
            anomaly = type(e).__name__
        # after the block: the same context object is entered once more (empty block), then a plain facade write must reach the
        # store at once - a context variable or a depth counter left behind by the block would buffer or lose it
        if anomaly is None:
            try:
                if case["ending"] in ("commit", "rollback"):
                    async with uow:
                        pass
                await cache.set("post:probe", 1)
                if "post:probe" not in mem.store:
                    anomaly = "write after the block did not reach the store"
                await cache.delete("post:probe")
                if "post:probe" in mem.store:
                    anomaly = "delete after the block did not reach the store"
            except Exception as e:  # noqa
                anomaly = "after the block: " + type(e).__name__
        tend = tick()
        final = snap()
        reserved = sorted(k for k in mem.store if k.startswith(":"))
        await cache.close()
        return {"t0": t0, "steps": steps, "tend": tend, "final": final, "anomaly": anomaly, "reserved_left": reserved}
    return vclock.run(go)


def tcmd_coq(c):
    op = c[0]
    if op == "scan": return C("TScan", S(c[1]))
    if op == "get_match": return C("TGetMatch", S(c[1]))
    if op == "delete_match": return C("TDelMatch", S(c[1]))
    return C("TC", cmd_to_coq(c))


def tres_coq(c, r):
    kind, v = r
    if kind == "keys": return C("TKeys", [S(k) for k in v])
    if kind == "pairs": return C("TPairs", [(S(k), val_to_coq(dec(x))) for k, x in v])
    if c[0] in ("scan", "get_match"):   # raised
        return C("TR", C("RErr"))
    return C("TR", res_to_coq(c, v))


def snap_coq(s):
    return [None if e is None else Some((val_to_coq(dec(e[0])), None if e[1] is None else Some(Z(e[1])))) for e in s]


def to_coq(case, obs):
    init = [((S(k), val_to_coq(dec(v))), Z(ttl)) for k, v, ttl in case["init"]]
    h = [(Z(t), tcmd_coq(c)) for t, c, r, s in obs["steps"]]
    res = [tres_coq(c, r) for t, c, r, s in obs["steps"]]
    outside = [snap_coq(s) for t, c, r, s in obs["steps"]]
    final = snap_coq(obs["final"])
    if obs["anomaly"] or obs["reserved_left"]:
        final = [Some((C("VStr", S("<anomaly:%s %s>" % (obs["anomaly"], obs["reserved_left"]))), None))] + final[1:]
    e = C({"commit": "ECommit", "rollback": "ERollback", "raise": "ERaise", "cancel": "ERaise"}[case["ending"]])
    return C("CTxn", [S(k) for k in KEYS], Z(obs["t0"]), init, h, e, Z(obs["tend"]), res, outside, final)


def shrink(case):
    cm = case["cmds"]
    for i in range(len(cm)):
        c = dict(case); c["cmds"] = cm[:i] + cm[i + 1:]
        if c["cmds"]: yield c
    for i in range(len(case["init"])):
        c = dict(case); c["init"] = case["init"][:i] + case["init"][i + 1:]; yield c
    if case["nested"]:
        c = dict(case); c["nested"] = False; yield c
    if case["mode"] != "fast":
        c = dict(case); c["mode"] = "fast"; yield c
    for i, (adv, x) in enumerate(cm):
        if adv:
            c = dict(case); c["cmds"] = cm[:i] + [[0, x]] + cm[i + 1:]; yield c

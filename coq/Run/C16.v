(* Correspondence + oracle for C16 (failing backend commands around a transaction block). *)
From Cashews Require Import Base.Prelude Spec.TTLMap Model.Tags Model.Txn Model.TxnFault.
Open Scope string_scope.
Open Scope list_scope.
Open Scope Z_scope.

(* what the fault wrapper saw at a failing position: was it an unlock (of which key, on which backend), was it in the body *)
Inductive fdesc := FD (is_unlock : bool) (backend : nat) (k : key) (in_body : bool).
(* observed after the block: caller saw an exception; a write issued right afterwards did NOT reach the store;
   per backend: reserved (lock) keys still present; per backend: value of every data key *)
Inductive case :=
| CFault (md : mode) (U : list key) (now : Z) (init : list (list (key * val)))
         (cs : list (nat * bcmd)) (used : list nat) (order : list (list key)) (flts : list nat) (fds : list fdesc)
         (raised stuck : bool) (locks_left : list (list key)) (data : list (list (option val)))
         (lock_life : list (list Z))       (* remaining lifetime (ticks) of every lock key left behind, per backend *)
         (dlife : list (list Z))           (* per backend, per data key: remaining lifetime in ticks, -1 = no deadline, -2 = absent *)
(* one command ends with a BaseException that is not an Exception (CancelledError, e.g. a timeout around a hanging command):
   the exit paths for that class are not modelled; only "the task has left the transaction" is judged *)
| CCancel (stuck : bool).

Definition init_b (now : Z) (kvs : list (key * val)) : txb :=
  txb0 (fold_left (fun m e => s_write m now (fst e) (snd e) 0) kvs empty).
Definition lock_universe (md : mode) (U : list key) : list key :=
  match md with MFast => [] | MSerial => [":serializable:lock"] | MLocked => map (lock_key_of MLocked) U end.
Definition locks_in (md : mode) (U : list key) (now : Z) (x : txb) : list key :=
  filter (fun lk => isSome (s_look (bB x) now lk)) (lock_universe md U).
Definition data_of (U : list key) (now : Z) (x : txb) : list (option val) := map (fun k => s_get (bB x) now k) U.
Definition dlife_of (U : list key) (now : Z) (x : txb) : list Z :=
  map (fun k => match s_look (bB x) now k with Some (Some d, _) => d - now | Some (None, _) => -1 | None => -2 end) U.

Fixpoint insert_z (x : Z) (l : list Z) : list Z := match l with [] => [x] | y :: r => if x <=? y then x :: l else y :: insert_z x r end.
Definition sort_z (l : list Z) := fold_right insert_z [] l.
Definition same_set (a b : list key) : bool := forallb (fun x => mems x b) a && forallb (fun x => mems x a) b.
Definition ldata_eqb := list_eqb (list_eqb (option_eqb val_eqb)).

Definition judge (c : case) : verdict :=
  match c with
  | CFault md U now init cs used order flts fds raised stuck locks_left data lock_life dlife =>
      let w0 := {| bks := map (init_b now) init; pos := 0%nat; faults := flts; lorder := order |} in
      let '(w, mraised, mstuck) := block md U now w0 used cs in
      let life_of (x : txb) := map (fun lk => match s_look (bB x) now lk with Some (Some d, _) => d - now | _ => -1 end) (locks_in md U now x) in
      let agree := list_eqb (fun a b => list_eqb Z.eqb (sort_z a) (sort_z b)) (map life_of (bks w)) lock_life && Bool.eqb mraised raised && Bool.eqb mstuck stuck &&
                   list_eqb same_set (map (locks_in md U now) (bks w)) locks_left &&
                   ldata_eqb (map (data_of U now) (bks w)) data &&
                   list_eqb (list_eqb Z.eqb) (map (dlife_of U now) (bks w)) dlife in
      let ok :=
        negb stuck &&
        (* a lock key that is still there: its own release was the failing command *)
        forallb (fun bl => forallb (fun lk => existsb (fun d => match d with FD true b k _ => Nat.eqb b (fst bl) && String.eqb k lk | _ => false end) fds)
                                   (snd bl))
                (combine (seq 0 (length locks_left)) locks_left) &&
        (* ... and it lapses by itself after the transaction timeout *)
        forallb (forallb (fun l => (0 <? l) && (l <=? LOCK_TTL))) lock_life &&
        (* a failure inside the body applies none of the writes *)
        (if existsb (fun d => match d with FD _ _ _ true => true | _ => false end) fds
         then ldata_eqb (map (data_of U now) (map (init_b now) init)) data &&
              list_eqb (list_eqb Z.eqb) (map (dlife_of U now) (map (init_b now) init)) dlife      (* values and lifetimes *)
         else true) in
      (agree, ok, [])
  | CCancel stuck => (true, negb stuck, [])
  end.
Definition explain (c : case) :=
  match c with
  | CFault md U now init cs used order flts _ _ _ _ _ _ _ =>
      let w0 := {| bks := map (init_b now) init; pos := 0%nat; faults := flts; lorder := order |} in
      let '(w, r, s) := block md U now w0 used cs in (r, s, map (locks_in md U now) (bks w), map (data_of U now) (bks w))
  | CCancel _ => (true, false, [], [])
  end.

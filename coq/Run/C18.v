(* Correspondence and oracle for C18: cases carry the inputs AND what the implementation
   returned; judge = (model agrees, spec oracle holds on the observed outputs, known). *)
From Cashews Require Import Base.Prelude Model.Bits.
Open Scope N_scope.

Inductive bop := BIncr (idxs : list N) (size : N) (by_ : Z) | BGet (idxs : list N) (size : N).

Definition tbl := list (N * N * N).   (* recorded hash calls: (algorithm, i, digest) *)
Definition Htbl (t : tbl) (ii i : N) : N :=
  match find (fun e => (fst (fst e) =? ii) && (snd (fst e) =? i)) t with Some e => snd e | None => 0 end.

Inductive blop := BlAdd (e : nat) | BlQuery (e : nat).

Inductive case :=
| CBits (v0 : N) (ops : list bop) (outs : list (list N)) (final : N)
| CIdx (t : tbl) (nalg k m : N) (out : list N)
| CBloom (m k nalg : N) (check_fp : bool) (tbls : list tbl) (truth : list bool)
         (ops : list blop) (outs : list bool).

(* ---------- model runs ---------- *)
Fixpoint run_bits (v : N) (ops : list bop) : N * list (list N) :=
  match ops with
  | [] => (v, [])
  | BIncr idxs sz by_ :: r => let '(v1, o) := incr_bits v idxs sz by_ in
                              let '(v2, os) := run_bits v1 r in (v2, o :: os)
  | BGet idxs sz :: r => let '(v2, os) := run_bits v r in (v2, get_bits v idxs sz :: os)
  end.

Definition lN_eqb := list_eqb N.eqb.
Definition subsetN (a b : list N) := forallb (fun x => memN x b) a.
Definition same_set (a b : list N) := (length a =? length b)%nat && subsetN a b && subsetN b a.

Definition fuel := Nat.mul 200 100.   (* 20000: dense requests (k close to m = 100) need a little over 3000 hash calls *)
Definition elem_idxs (t : tbl) nalg k m : list N :=
  match get_indexes (Htbl t) fuel nalg k m with Some l => l | None => [] end.

Fixpoint run_bloom (v : N) (m k nalg : N) (check_fp : bool) (tbls : list tbl) (truth : list bool)
         (ops : list blop) : list bool :=
  match ops with
  | [] => []
  | BlAdd e :: r =>
      let f := nth e truth false in
      let v1 := if f then bloom_add v (elem_idxs (nth e tbls []) nalg k m) else v in
      f :: run_bloom v1 m k nalg check_fp tbls truth r
  | BlQuery e :: r =>
      let f := nth e truth false in
      let a := match bloom_query v (elem_idxs (nth e tbls []) nalg k m) check_fp with
               | Some b => b | None => f end in
      a :: run_bloom v m k nalg check_fp tbls truth r
  end.

(* ---------- spec oracles ---------- *)
(* array of independent saturating counters of one width: a function index -> value *)
Definition fields := list (N * N).
Definition fget (f : fields) (init : N -> N) (i : N) : N :=
  match find (fun e => fst e =? i) f with Some e => snd e | None => init i end.
Definition sat (sz old : N) (by_ : Z) : N :=
  Z.to_N (Z.min (Z.max 0 (Z.of_N old + by_)) (Z.of_N (2 ^ sz) - 1)).
Fixpoint spec_incr (f : fields) init (idxs : list N) sz by_ : fields * list N :=
  match idxs with
  | [] => (f, [])
  | i :: r => let x := sat sz (fget f init i) by_ in
              let '(f2, o) := spec_incr ((i, x) :: f) init r sz by_ in (f2, x :: o)
  end.
Fixpoint spec_bits (f : fields) init (ops : list bop) : list (list N) :=
  match ops with
  | [] => []
  | BIncr idxs sz by_ :: r => let '(f1, o) := spec_incr f init idxs sz by_ in o :: spec_bits f1 init r
  | BGet idxs sz :: r => map (fget f init) idxs :: spec_bits f init r
  end.
Definition op_size (o : bop) := match o with BIncr _ s _ => s | BGet _ s => s end.
Definition one_width (ops : list bop) : option N :=
  match ops with
  | [] => None
  | o :: r => if forallb (fun o' => op_size o' =? op_size o) r then Some (op_size o) else None
  end.

Fixpoint strictly_asc (l : list N) : bool :=
  match l with x :: ((y :: _) as r) => (x <? y) && strictly_asc r | _ => true end.

(* no False for an element added earlier (truthy result) *)
Fixpoint ok_bloom (added : list nat) (truth : list bool) (ops : list blop) (outs : list bool) : bool :=
  match ops, outs with
  | BlAdd e :: r, _ :: os => ok_bloom (if nth e truth false then e :: added else added) truth r os
  | BlQuery e :: r, o :: os => (if existsb (Nat.eqb e) added then o else true) && ok_bloom added truth r os
  | [], [] => true
  | _, _ => false
  end.

Definition judge (c : case) : verdict :=
  match c with
  | CBits v0 ops outs final =>
      let '(v, o) := run_bits v0 ops in
      let agree := list_eqb lN_eqb o outs && (v =? final) in
      let ok := match one_width ops with
                | Some sz => list_eqb lN_eqb (spec_bits [] (fun i => bget v0 i sz) ops) outs
                | None => true end in
      (agree, ok, [])
  | CIdx t nalg k m out =>
      let agree := match get_indexes (Htbl t) fuel nalg k m with
                   | Some l => same_set l out | None => false end in
      let ok := strictly_asc out && (N.of_nat (length out) =? k) && forallb (fun x => x <? m) out in
      (agree, ok, [])
  | CBloom m k nalg check_fp tbls truth ops outs =>
      (list_eqb Bool.eqb (run_bloom 0 m k nalg check_fp tbls truth ops) outs,
       ok_bloom [] truth ops outs, [])
  end.

Definition explain (c : case) : list (list N) * list N * list bool :=
  match c with
  | CBits v0 ops _ _ => (snd (run_bits v0 ops), [fst (run_bits v0 ops)], [])
  | CIdx t nalg k m _ => ([], elem_idxs t nalg k m, [])
  | CBloom m k nalg check_fp tbls truth ops _ => ([], [], run_bloom 0 m k nalg check_fp tbls truth ops)
  end.

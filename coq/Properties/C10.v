(* C10 - signed storage: corrupted or foreign data never becomes a value. Statements only. *)
From Coq Require Import Ascii.
From Cashews Require Import Base.Prelude Model.Serializer Proofs.SerializerProofs.
Open Scope string_scope.

(* any unpickler, any MAC, any blob, key and secret: every byte string handed to the unpickler is the
   payload part of the blob, and the blob's signature part verifies for the configured secret and this key *)
Theorem C10_unpickle_only_verified : forall loads mac cdec c key blob dg secret, signer c = Some (dg, secret) ->
  forall p, In p (snd (decode loads mac cdec c key (SBytes blob))) -> verified mac c key blob p.
Proof. exact unpickle_only_verified. Qed.
Print Assumptions C10_unpickle_only_verified.

(* a blob (not digit-only, i.e. digest label intact) whose signature does not verify reads as the
   default or raises the unsafe-data error: no value, no other exception *)
Theorem C10_decode_outcomes : forall loads mac cdec c key blob dg secret, signer c = Some (dg, secret) ->
  isdigit blob = false -> (forall p, ~ verified mac c key blob p) ->
  fst (decode loads mac cdec c key (SBytes blob)) = DDefault \/ fst (decode loads mac cdec c key (SBytes blob)) = DUnsecure.
Proof. exact decode_outcomes. Qed.
Print Assumptions C10_decode_outcomes.

(* under an injective (idealised) MAC with hex output, replacing the payload under an intact signature never verifies *)
Theorem C10_tampered_payload_never_verifies : forall mac,
  (forall dg s m, contains "_"%char (mac dg s m) = false /\ contains ":"%char (mac dg s m) = false) ->
  (forall dg s m1 m2, mac dg s m1 = mac dg s m2 -> m1 = m2) ->
  forall c key dg secret p p', signer c = Some (dg, secret) -> is_label dg = true -> p' <> p ->
  forall q, ~ verified mac c key (dg ++ ":" ++ mac dg secret (key ++ p) ++ "_" ++ p') q.
Proof. exact tampered_payload_never_verifies. Qed.
Print Assumptions C10_tampered_payload_never_verifies.

(* Correspondence + oracle for C13 (pattern commands). *)
From Cashews Require Import Base.Prelude Spec.Glob Model.Scan.

Inductive case :=
| CScan (live : list key) (p : string) (out : option (list key))            (* None = raised *)
| CDel (live : list key) (p : string) (remaining : option (list key))
| CTx (L B D : list key) (p : string) (out : option (list key))
| CTxDel (L B D : list key) (p : string) (view_after : option (list key)).

Definition subsetk (a b : list key) := forallb (fun x => memk x b) a.
Definition same_keys (a b : list key) := (length a =? length b)%nat && subsetk a b && subsetk b a.
Definition osame (m : option (list key)) (o : option (list key)) : bool :=
  match m, o with Some a, Some b => same_keys a b | None, None => true | _, _ => false end.
Definition keep (f : key -> bool) (l : list key) := filter f l.

Definition judge (c : case) : verdict :=
  match c with
  | CScan live p out =>
      (osame (m_scan live p) out, osame (Some (filter (globs p) live)) out, [])
  | CDel live p remaining =>
      (osame (option_map (fun m => filter (fun k => negb (memk k m)) live) (m_scan live p)) remaining,
       osame (Some (filter (fun k => negb (globs p k)) live)) remaining, [])
  | CTx L B D p out =>
      (osame (tx_scan L B D p) out, osame (Some (filter (globs p) (tx_view L B D))) out, [])
  | CTxDel L B D p va =>
      (osame (option_map (fun r => tx_view (fst r) B (snd r)) (tx_delete_match L B D p)) va,
       osame (Some (filter (fun k => negb (globs p k)) (tx_view L B D))) va, [])
  end.

Definition explain (c : case) : option (list key) :=
  match c with
  | CScan live p _ => m_scan live p
  | CDel live p _ => option_map (fun m => filter (fun k => negb (memk k m)) live) (m_scan live p)
  | CTx L B D p _ => tx_scan L B D p
  | CTxDel L B D p _ => option_map (fun r => tx_view (fst r) B (snd r)) (tx_delete_match L B D p)
  end.

"""C18: bit fields / get_indexes / Bloom filter.  Implementation side of the correspondence."""
import asyncio
import zlib

from harness import vclock
from harness.core import C, N, Nat, Z

ID = "C18"
RUN_MODULE = "Run.C18"
EXPLAIN = "explain"
RULE = ("cases: (a) Bitarray / Memory.incr_bits+get_bits op sequences on a seed array (mixed or single width), "
        "(b) get_indexes(key,k,m) with every hash call recorded into the model's table, (c) decorated Bloom predicate "
        "add/query sequences via Cache.bloom with m,k from params_for. non-trivial: (a) an increment that saturates or "
        "whose neighbour field is non-zero, (b) a collision re-probe happened or k=m, (c) a query of an added element or "
        "a query answered False; add/query calls are issued positionally or by keyword")
TRUSTED_BASE = ["Coq 8.16.1 kernel + vm_compute", "hand-written model coq/Model/Bits.v tied by this differential run",
                "hash functions (zlib.crc32, adler32 stand-in as 2nd algorithm) enter as recorded tables",
                "params_for float formula is not modelled: m,k are read from the implementation"]
ASSUMPTIONS = ["get_indexes termination is assumed (fuel 20000 in the model; recorder aborts the implementation after 20000 hash calls)",
               "pure-Python Bitarray (cashews/utils/_bitarray.py) is the class importable in this image",
               "Bloom predicate's wrapped function is deterministic per element"]
EXHAUSTIVE = {"quick": False, "thorough": True}  # thorough enumerates all (index<64, size<=6, |by|<=70) on a fixed seed array

ELEMS = ["a", "b", "ab", "user:1", "x_1", "", "zz", "k9", "q", "hello", "a_b", "7", "el", "foo", "bar", "baz"]


def gen_cases(rng, tier):
    cases = []
    nb = 700 if tier == "quick" else 6000
    for _ in range(nb):
        single = rng.random() < 0.6
        size = rng.choice([1, 1, 2, 3, 4, 5, 6, 8, 16, 7, 9, 11, 13, 15])      # widths that are not a power of two included
        ops = []
        for _ in range(rng.randint(1, 10)):
            sz = size if single else rng.choice([1, 2, 3, 5, 8, 7, 12])
            idxs = [rng.choice([0, 1, 2, 3, 5, 17, 63]) for _ in range(rng.randint(1, 3))]
            if rng.random() < 0.6:
                by = rng.choice([1, 1, -1, 2, -2, 3, 7, -8, 70, -70, 2 ** sz, -(2 ** sz), 2 ** sz - 1, 2 ** sz + 1, -(2 ** sz) - 2, 2 ** 17, -(2 ** 17), 0])
                ops.append(["incr", idxs, sz, by])
            else:
                ops.append(["get", idxs, sz])
        v0 = rng.choice([0, 0, rng.getrandbits(40), rng.getrandbits(130)])
        via = rng.choice(["bitarray", "memory", "memory_fresh", "facade", "memory_lru"])      # facade: Cache.incr_bits / get_bits on a fresh key; memory_lru: a 2-slot store, another key written before every operation
        # memory_fresh: the key does not exist yet (v0 = 0) and another never-written key has just been incremented
        cases.append({"kind": "bits", "via": via, "v0": 0 if via in ("memory_fresh", "facade", "memory_lru") else v0, "ops": ops})
    if tier == "thorough":  # exhaustive sub-space: all (index<64, size<=6, |by|<=70) on a fixed seed array
        seed = 0x5A5A_F00F_1234_ABCD_0F0F_3C3C_9999_7777_1111_EEEE_8888_5555_AAAA_2468_1357_FFFF_0000_FEDC_BA98_7654_3210_0123_4567_89AB_CDEF
        for size in range(1, 7):
            for index in range(64):
                for by in range(-70, 71):
                    cases.append({"kind": "bits", "via": "bitarray", "v0": seed,
                                  "ops": [["incr", [index], size, by], ["get", [max(index - 1, 0), index + 1], size]]})
    ni = 500 if tier == "quick" else 5000
    for _ in range(ni):
        m = rng.choice([1, 2, 3, 4, 5, 8, 13, 64, 100, 959, 10007])
        k = rng.randint(1, min(m, 9)) if rng.random() < 0.8 else m if m <= 13 else rng.randint(1, 9)
        cases.append({"kind": "idx", "key": rng.choice(ELEMS) + rng.choice(["", ":1", "_", "é"]), "k": k, "m": m, "nalg": rng.choice([1, 1, 2])})
    for _ in range(min(ni // 20, 80)):     # dense requests (capped: each costs about a second of vm_compute): k close to m, long re-probe chains before the last free index is found
        m = rng.choice([20, 32, 50, 50, 64, 64, 100])
        k = rng.choice([m, m, m - 1, m - 2, (3 * m) // 4])
        # (crc32 only: the harness's second stand-in algorithm, adler32, is too weak for dense requests - its residues cycle)
        cases.append({"kind": "idx", "key": rng.choice(ELEMS) + rng.choice(["", ":1", "_"]), "k": k, "m": m, "nalg": 1})
    nbl = 120 if tier == "quick" else 1200
    for _ in range(nbl):
        n = rng.randint(1, 8)
        cap = rng.choice([1, 2, 3, 5, 10, 50])
        fp = rng.choice([1, 5, 10, 30, 0.1])
        elems = rng.sample(ELEMS, n)
        truth = [rng.random() < 0.7 for _ in elems]
        ops = []
        for _ in range(rng.randint(2, 3 * cap + 6 if cap < 6 else 25)):
            ops.append([rng.choice(["add", "query", "query"]), rng.randrange(n), rng.choice(["pos", "kw"])])
        cases.append({"kind": "bloom", "capacity": cap, "fp": fp, "check_fp": rng.random() < 0.5, "elems": elems,
                      "truth": truth, "ops": ops, "nalg": rng.choice([1, 1, 2])})
    return cases


class _Recorder:
    """replaces split_hash.algorithms entries, recording (algorithm, i, digest)"""
    def __init__(self, nalg):
        import cashews.utils.split_hash as sh
        self.sh = sh
        self.saved = list(sh.algorithms)
        self.calls = []
        self.by_key = {}
        base = [zlib.crc32, zlib.adler32][:nalg]
        sh.algorithms[:] = [self._mk(ii, f) for ii, f in enumerate(base)]

    def _mk(self, ii, f):
        def h(data: bytes):
            if len(self.calls) > 20000:
                raise RuntimeError("hash-call budget exhausted (non-terminating probe?)")
            r = f(data)
            key, _, i = data.decode().rpartition("_")
            self.calls.append((ii, int(i), r))
            self.by_key.setdefault(key, []).append((ii, int(i), r))
            return r
        return h

    def close(self):
        self.sh.algorithms[:] = self.saved


def run_impl(case):
    kind = case["kind"]
    if kind == "bits":
        from cashews.utils._bitarray import Bitarray
        if case["via"] == "bitarray":
            arr = Bitarray(str(case["v0"]))
            outs = []
            for op in case["ops"]:
                if op[0] == "incr":
                    o = []
                    for i in op[1]:
                        arr.incr(i, op[2], op[3])
                        o.append(arr.get(i, op[2]))
                    outs.append(o)
                else:
                    outs.append([arr.get(i, op[2]) for i in op[1]])
            return {"outs": outs, "final": arr.to_int()}

        async def go():
            from cashews.backends.memory import Memory
            if case["via"] == "facade":
                from cashews import Cache
                mem = Cache()
                mem.setup("mem://?check_interval=0")
                await mem.init()
            else:
                mem = Memory(check_interval=0, size=2 if case["via"] == "memory_lru" else 1000)
                await mem.init()
            if case["via"] in ("facade", "memory_lru"):
                pass
            elif case["via"] == "memory_fresh":
                await mem.incr_bits("other", 0, 1, 5, size=3, by=3)
                await mem.get_bits("third", 0, 2, size=2)
            else:
                mem._set("bits", Bitarray(str(case["v0"])))
            outs = []
            for n_op, op in enumerate(case["ops"]):
                if case["via"] == "memory_lru" and n_op:      # reading or writing the bit field is a use: it is never the least recently used entry
                    await mem.set("other%d" % n_op, n_op)
                if op[0] == "incr":
                    outs.append(list(await mem.incr_bits("bits", *op[1], size=op[2], by=op[3])))
                else:
                    outs.append(list(await mem.get_bits("bits", *op[1], size=op[2])))
            store = mem._get_backend("bits").store if case["via"] == "facade" else mem.store
            fin = store["bits"][1] if "bits" in store else None
            final = fin.to_int() if fin is not None else 0
            await mem.close()
            return {"outs": outs, "final": final}
        return vclock.run(go)
    if kind == "idx":
        rec = _Recorder(case["nalg"])
        try:
            from cashews.utils.split_hash import get_indexes
            try:
                out = sorted(get_indexes(case["key"], case["k"], case["m"]))
                err = None
            except Exception as e:  # noqa
                out, err = [], type(e).__name__
        finally:
            rec.close()
        return {"out": out, "err": err, "tbl": [list(c) for c in rec.calls]}
    if kind == "bloom":
        rec = _Recorder(case["nalg"])
        try:
            async def go():
                from cashews import Cache
                from cashews.decorators.bloom import params_for
                cache = Cache()
                cache.setup("mem://?check_interval=0")
                m, k = params_for(case["capacity"], case["fp"] / 100)
                truth = dict(zip(case["elems"], case["truth"]))

                @cache.bloom(capacity=case["capacity"], false_positives=case["fp"], check_false_positive=case["check_fp"], name="el:{x}")
                async def pred(x):
                    if len(case["elems"]) % 2:      # a predicate answering with truthy / falsy values that are not bools (a count)
                        return 3 if truth[x] else 0
                    return truth[x]
                outs = []
                for op, e, form in case["ops"]:
                    el = case["elems"][e]
                    f = pred.set if op == "add" else pred
                    outs.append(bool(await (f(el) if form == "pos" else f(x=el))))
                await cache.close()
                return {"m": m, "k": k, "outs": outs}
            res = vclock.run(go)
        finally:
            rec.close()
        res["tbls"] = [[list(c) for c in rec.by_key.get("el:" + el, [])] for el in case["elems"]]
        return res
    raise ValueError(kind)


def _tbl(rows):
    # dedupe, keep order
    seen, out = set(), []
    for ii, i, r in rows:
        if (ii, i) not in seen:
            seen.add((ii, i))
            out.append(((N(ii), N(i)), N(r)))
    return [((a), b) for (a, b) in out]


def to_coq(case, obs):
    kind = case["kind"]
    if kind == "bits":
        ops = [C("BIncr", [N(i) for i in op[1]], N(op[2]), Z(op[3])) if op[0] == "incr" else C("BGet", [N(i) for i in op[1]], N(op[2])) for op in case["ops"]]
        # a negative output (never produced by the pinned tree: counters saturate at 0) is shown to the oracle as a value beyond every field width
        return C("CBits", N(case["v0"]), ops, [[N(x) if x >= 0 else N((1 << 40) - x) for x in o] for o in obs["outs"]], N(obs["final"]))
    if kind == "idx":
        if obs["err"]:
            return C("CIdx", [], N(case["nalg"]), N(case["k"]), N(case["m"]), [N(99999999)])
        return C("CIdx", [((N(a), N(b)), N(c)) for a, b, c in obs["tbl"]], N(case["nalg"]), N(case["k"]), N(case["m"]), [N(x) for x in obs["out"]])
    if kind == "bloom":
        ops = [C("BlAdd" if op == "add" else "BlQuery", Nat(e)) for op, e, _ in case["ops"]]
        return C("CBloom", N(obs["m"]), N(obs["k"]), N(case["nalg"]), case["check_fp"],
                 [[((N(a), N(b)), N(c)) for a, b, c in t] for t in obs["tbls"]], list(case["truth"]), ops, list(obs["outs"]))
    raise ValueError(kind)


def nontrivial(case, obs):
    if case["kind"] == "bits":
        for op, o in zip(case["ops"], obs["outs"]):
            if op[0] == "incr" and any(x in (0, 2 ** op[2] - 1) for x in o):
                return True
        return False
    if case["kind"] == "idx":
        return len(obs["tbl"]) > case["k"] or case["k"] == case["m"]
    added = set()
    for (op, e, _), o in zip(case["ops"], obs["outs"]):
        if op == "add" and case["truth"][e]:
            added.add(e)
        elif op == "query" and (e in added or not o):
            return True
    return False


def classify(case, obs):
    d = {"kind_" + case["kind"]: 1}
    if case["kind"] == "bits":
        d["bits_ops"] = len(case["ops"])
        d["via_" + case["via"]] = 1
    if case["kind"] == "idx":
        d["idx_reprobes"] = max(0, len(obs["tbl"]) - case["k"])
        d["idx_errors"] = 1 if obs["err"] else 0
    if case["kind"] == "bloom":
        d["bloom_ops"] = len(case["ops"])
    return d


def shrink(case):
    if case["kind"] in ("bits", "bloom"):
        ops = case["ops"]
        for i in range(len(ops)):
            c = dict(case)
            c["ops"] = ops[:i] + ops[i + 1:]
            if c["ops"]:
                yield c
        if case["kind"] == "bits":
            if case["v0"]:
                c = dict(case); c["v0"] = 0
                yield c
            for i, op in enumerate(ops):
                if len(op[1]) > 1:
                    for j in range(len(op[1])):
                        c = dict(case)
                        c["ops"] = ops[:i] + [[op[0], op[1][:j] + op[1][j + 1:]] + op[2:]] + ops[i + 1:]
                        yield c
    elif case["kind"] == "idx":
        if case["k"] > 1:
            c = dict(case); c["k"] -= 1
            yield c


def neighbours(case, rng):
    return list(shrink(case))

From Cashews Require Import Base.Prelude Spec.TTLMap Model.Rate Proofs.DecorSimpleProofs Proofs.StrategiesProofs.
Open Scope string_scope.
Open Scope Z_scope.

(* ================= rate_limit ================= *)
(* runs = executed calls of the current epoch (the life of the counter).  While the counter lives its value n is the
   number of calls of the epoch and runs = min n limit. *)
Definition RInv (k : key) (limit : Z) (m : tmap) (now runs : Z) : Prop :=
  match s_look m now k with
  | Some (Some _, VInt n) => 1 <= n /\ runs = Z.min n limit
  | Some _ => False
  | None => True
  end.

Lemma s_look_write_pos m now k v ttl : 0 < ttl -> s_look (s_write m now k v ttl) now k = Some (Some (now + ttl), v).
Proof.
  intro Hp. unfold s_look. rewrite s_write_pos by exact Hp. rewrite String.eqb_refl. cbn.
  destruct (Z.ltb_spec now (now + ttl)); [reflexivity|lia].
Qed.
Lemma s_look_write_inherit m now k v d v0 : s_look m now k = Some (Some d, v0) ->
  s_look (s_write m now k v 0) now k = Some (Some d, v).
Proof.
  intro H. unfold s_look at 1. unfold s_write, upd. rewrite String.eqb_refl. cbn [deadline Z.ltb]. rewrite H.
  destruct (s_look_entry _ _ _ _ H) as [_ L]. cbn in L. cbn. rewrite L. reflexivity.
Qed.

Theorem rate_step k limit period ttl m now runs : 0 < period -> 0 <= limit -> RInv k limit m now runs ->
  let '(m', ran) := rate_call m now k limit period ttl in
  let runs0 := if isSome (s_look m now k) then runs else 0 in
  RInv k limit m' now (runs0 + (if ran then 1 else 0)) /\
  (ran = true -> runs0 + 1 <= limit) /\
  (* the epoch's deadline: period after its first call; ttl after its first rejection; otherwise unchanged *)
  match s_look m now k, s_look m' now k with
  | None, Some (d', _) => d' = Some (if (limit <? 1) && (0 <? ttl) && (1 =? limit + 1) then now + ttl else now + period)
  | Some (d, VInt n), Some (d', _) => d' = if (limit <? n + 1) && (0 <? ttl) && (n + 1 =? limit + 1) then Some (now + ttl) else d
  | _, _ => True
  end.
Proof.
  intros Hp Hl HI. unfold rate_call, t_incr, s_get, RInv in *.
  destruct (s_look m now k) as [[d v]|] eqn:Lk; cbn [option_map snd isSome].
  - destruct d as [d|]; [|destruct v; contradiction]. destruct v as [n| | | | | | |]; try contradiction.
    destruct HI as [Hn ->].
    assert (E1 : (n + 1 =? 1) = false) by (apply Z.eqb_neq; lia). rewrite E1.
    pose proof (s_look_write_inherit m now k (VInt (n + 1)) d (VInt n) Lk) as L1.
    destruct (Z.ltb_spec limit (n + 1)) as [Hgt|Hle]; cbn [andb].
    + (* rejected *)
      destruct ((0 <? ttl) && (n + 1 =? limit + 1)) eqn:Ex.
      * apply andb_true_iff in Ex as [Ht _]. apply Z.ltb_lt in Ht.
        unfold t_expire. rewrite L1. rewrite s_look_write_pos by exact Ht.
        split; [split; lia|]. split; [discriminate|reflexivity].
      * rewrite L1. split; [split; lia|]. split; [discriminate|reflexivity].
    + rewrite L1. split; [split; lia|]. split; [lia|reflexivity].
  - change (1 =? 1) with true. cbn iota.
    pose proof (s_look_write_pos m now k (VInt 1) period Hp) as L1.
    destruct (Z.ltb_spec limit 1) as [Hgt|Hle]; cbn [andb].
    + destruct ((0 <? ttl) && (1 =? limit + 1)) eqn:Ex.
      * apply andb_true_iff in Ex as [Ht _]. apply Z.ltb_lt in Ht.
        unfold t_expire. rewrite L1. rewrite s_look_write_pos by exact Ht.
        split; [split; lia|]. split; [discriminate|reflexivity].
      * rewrite L1. split; [split; lia|]. split; [discriminate|reflexivity].
    + rewrite L1. split; [split; lia|]. split; [lia|reflexivity].
Qed.

Lemma RInv_empty k limit now : RInv k limit empty now 0.
Proof. exact I. Qed.
(* time passing keeps the invariant (a lapsed counter ends the epoch) *)
Lemma RInv_time k limit m now now' runs : now <= now' -> RInv k limit m now runs -> RInv k limit m now' runs.
Proof.
  intros Hle. unfold RInv, s_look. destruct (m k) as [[d v]|]; [|auto].
  destruct (live now' d) eqn:L'; [|auto]. rewrite (live_mono' _ _ _ Hle L'). auto.
Qed.

(* ================= the window log (Memory.slice_incr) ================= *)
Definition cnt (f : Z -> bool) (l : list Z) : Z := Z.of_nat (length (filter f l)).
Definition strictw (now period : Z) (v : Z) : bool := now - period <? v.
Definition closedw (now period : Z) (v : Z) : bool := now - period <=? v.

Lemma NoDup_filter' {A} (f : A -> bool) l : NoDup l -> NoDup (filter f l).
Proof. induction 1 as [|x l Hx Hn IH]; cbn; [constructor|]. destruct (f x); [constructor; [rewrite filter_In; tauto|exact IH]|exact IH]. Qed.
Lemma NoDup_snoc_Z (l : list Z) x : NoDup l -> ~ In x l -> NoDup (l ++ [x]).
Proof.
  induction 1 as [|y l Hy Hn IH]; cbn; intro Hx; [repeat constructor; auto|].
  constructor; [rewrite in_app_iff; cbn; intros [H|[H|[]]]; [auto|apply Hx; left; auto]|apply IH; intro; apply Hx; right; assumption].
Qed.
Lemma cnt_incl f g (l l' : list Z) : NoDup l -> (forall x, In x l -> f x = true -> In x l' /\ g x = true) -> cnt f l <= cnt g l'.
Proof.
  intros Hnd H. unfold cnt. apply inj_le. apply NoDup_incl_length; [apply NoDup_filter'; exact Hnd|].
  intros x Hx. apply filter_In in Hx as [Hx Hf]. apply filter_In. apply H; assumption.
Qed.

(* the list the call reads: the stored log if the key is alive *)
Definition read_log (m : tmap) (now : Z) (k : key) : list Z := match s_get m now k with Some (VZs l) => l | _ => [] end.

Lemma slice_incr_shape m now k start end_ maxv ttl : 0 < ttl ->
  let kept := filter (in_window start end_) (read_log m now k) in
  let count := Z.of_nat (length kept) in
  slice_incr m now k start end_ maxv ttl =
    (s_write m now k (VZs (if count <? maxv then kept ++ [end_] else kept)) ttl, if count <? maxv then count + 1 else count).
Proof. intros Hp. unfold slice_incr, read_log. cbn zeta. destruct (_ <? maxv); reflexivity. Qed.

(* ---------- sliding-window limiter ---------- *)
(* done = instants of the executed calls; tl = instant of the last call *)
Definition SlInv (k : key) (period : Z) (m : tmap) (tl : Z) (done : list Z) : Prop :=
  (forall d v, m k = Some (d, v) -> d = Some (tl + period) /\ exists l, v = VZs l /\ (forall x, In x done -> tl - period < x -> In x l)) /\
  (m k = None -> done = []) /\ (forall x, In x done -> x <= tl) /\ NoDup done.

Lemma SlInv_empty k period tl : SlInv k period empty tl [].
Proof. repeat split; try discriminate; intros; try contradiction; constructor. Qed.

Lemma read_log_recent k period m tl done now : 0 < period -> tl < now -> SlInv k period m tl done ->
  forall x, In x done -> now - period < x -> In x (read_log m now k).
Proof.
  intros Hp Hlt (Hent & Hnone & Hle & _) x Hx Hrec. unfold read_log, s_get, s_look.
  destruct (m k) as [[d v]|] eqn:E; [|rewrite (Hnone eq_refl) in Hx; destruct Hx].
  destruct (Hent d v eq_refl) as (-> & l & -> & Hin). cbn [live].
  pose proof (Hle x Hx). destruct (Z.ltb_spec now (tl + period)); [|lia]. cbn. apply Hin; [exact Hx|lia].
Qed.

Theorem slide_step k limit period m tl done now : 0 < period -> 0 <= limit -> tl < now -> SlInv k period m tl done ->
  let '(m', ran) := slide_call m now k limit period in
  SlInv k period m' now (if ran then now :: done else done) /\
  (* an executed call has fewer than `limit` executed calls in the `period` before it *)
  (ran = true -> cnt (strictw now period) done < limit).
Proof.
  intros Hp Hl Hlt HI. unfold slide_call. rewrite slice_incr_shape by exact Hp. cbn zeta.
  set (kept := filter (in_window (now - period) now) (read_log m now k)).
  pose proof (read_log_recent k period m tl done now Hp Hlt HI) as Hrec.
  destruct HI as (Hent & Hnone & Hle & Hnd).
  assert (Hcnt : cnt (strictw now period) done <= Z.of_nat (length kept)).
  { unfold cnt. apply inj_le. apply NoDup_incl_length; [apply NoDup_filter'; exact Hnd|].
    intros x Hx. apply filter_In in Hx as [Hx Hf]. unfold strictw in Hf. apply Z.ltb_lt in Hf.
    apply filter_In. split; [apply Hrec; assumption|]. unfold in_window. pose proof (Hle x Hx).
    apply andb_true_iff. split; [apply Z.leb_le; lia|apply Z.leb_le; lia]. }
  assert (Hkept : forall x, In x done -> now - period < x -> In x kept).
  { intros x Hx Hr. apply filter_In. split; [apply Hrec; assumption|]. unfold in_window. pose proof (Hle x Hx).
    apply andb_true_iff. split; [apply Z.leb_le; lia|apply Z.leb_le; lia]. }
  assert (Wr : forall l', s_write m now k (VZs l') period k = Some (Some (now + period), VZs l')).
  { intro l'. rewrite s_write_pos by exact Hp. rewrite String.eqb_refl. reflexivity. }
  assert (Mk : forall l' done', (forall x, In x done' -> now - period < x -> In x l') -> (forall x, In x done' -> x <= now) -> NoDup done' ->
            SlInv k period (s_write m now k (VZs l') period) now done').
  { intros l' done' H1 H2 H3. unfold SlInv. split; [|split; [|split; assumption]].
    - intros d0 v0 E. rewrite Wr in E. injection E as <- <-. split; [reflexivity|]. exists l'. split; [reflexivity|exact H1].
    - intro E. rewrite Wr in E. discriminate. }
  destruct (Z.ltb_spec (Z.of_nat (length kept)) (limit + 1)) as [Hb|Hb].
  - (* appended *)
    destruct (Z.ltb_spec limit (Z.of_nat (length kept) + 1)) as [Hrej|Hrun]; cbn [negb].
    + split; [|discriminate]. apply Mk; [|intros x Hx; pose proof (Hle x Hx); lia|exact Hnd].
      intros x Hx Hr. apply in_app_iff. left. apply Hkept; assumption.
    + split; [|intros _; lia]. apply Mk.
      * intros x [<-|Hx] Hr; apply in_app_iff; [right; left; reflexivity|left; apply Hkept; assumption].
      * intros x [<-|Hx]; [lia|]. pose proof (Hle x Hx). lia.
      * constructor; [|exact Hnd]. intro Hin. pose proof (Hle now Hin). lia.
  - (* the log is full: rejected, nothing appended *)
    destruct (Z.ltb_spec limit (Z.of_nat (length kept))) as [_|Hc]; [|lia]. cbn [negb].
    split; [|discriminate]. apply Mk; [|intros x Hx; pose proof (Hle x Hx); lia|exact Hnd].
    intros x Hx Hr. apply Hkept; assumption.
Qed.

(* ---------- exact logs (circuit breaker: maxvalue never reached) ---------- *)
Definition XInv (k : key) (period : Z) (m : tmap) (tl : Z) (H : list Z) : Prop :=
  (forall d v, m k = Some (d, v) ->
     d = Some (tl + period) /\ exists l, v = VZs l /\ NoDup l /\ (forall x, In x l -> In x H) /\
                                          (forall x, In x H -> tl - period < x -> In x l)) /\
  (m k = None -> H = []) /\ (forall x, In x H -> x <= tl) /\ NoDup H.

Lemma XInv_empty k period tl : XInv k period empty tl [].
Proof. repeat split; try discriminate; intros; try contradiction; constructor. Qed.

Theorem log_step k period m tl H now maxv : 0 < period -> tl < now -> XInv k period m tl H ->
  cnt (closedw now period) H < maxv ->
  let '(m', count) := slice_incr m now k (now - period) now maxv period in
  cnt (strictw now period) H + 1 <= count /\ count <= cnt (closedw now period) H + 1 /\
  XInv k period m' now (now :: H) /\ (forall k', k' <> k -> m' k' = m k').
Proof.
  intros Hp Hlt (Hent & Hnone & Hle & Hnd) Hmax. rewrite slice_incr_shape by exact Hp. cbn zeta.
  set (kept := filter (in_window (now - period) now) (read_log m now k)).
  (* what the call reads *)
  assert (Hrl : NoDup (read_log m now k) /\ (forall x, In x (read_log m now k) -> In x H) /\
                (forall x, In x H -> now - period < x -> In x (read_log m now k))).
  { unfold read_log, s_get, s_look. destruct (m k) as [[d v]|] eqn:E.
    - destruct (Hent d v eq_refl) as (-> & l & -> & Hl1 & Hl2 & Hl3). cbn [live].
      destruct (Z.ltb_spec now (tl + period)); cbn.
      + repeat split; auto. intros x Hx Hr. apply Hl3; [exact Hx|lia].
      + repeat split; [constructor|intros x []|]. intros x Hx Hr. pose proof (Hle x Hx). lia.
    - rewrite (Hnone eq_refl). repeat split; [constructor|intros x []|intros x []]. }
  destruct Hrl as (Rnd & Rsub & Rrec).
  assert (Klo : cnt (strictw now period) H <= Z.of_nat (length kept)).
  { unfold cnt. apply inj_le. apply NoDup_incl_length; [apply NoDup_filter'; exact Hnd|].
    intros x Hx. apply filter_In in Hx as [Hx Hf]. unfold strictw in Hf. apply Z.ltb_lt in Hf. pose proof (Hle x Hx).
    apply filter_In. split; [apply Rrec; assumption|]. unfold in_window. apply andb_true_iff. split; [apply Z.leb_le; lia|apply Z.leb_le; lia]. }
  assert (Khi : Z.of_nat (length kept) <= cnt (closedw now period) H).
  { unfold cnt. apply inj_le. apply NoDup_incl_length; [apply NoDup_filter'; exact Rnd|].
    intros x Hx. apply filter_In in Hx as [Hx Hf]. unfold in_window in Hf. apply andb_true_iff in Hf as [Hf _].
    apply filter_In. split; [apply Rsub; exact Hx|exact Hf]. }
  destruct (Z.ltb_spec (Z.of_nat (length kept)) maxv) as [_|Hc]; [|lia].
  split; [lia|]. split; [lia|]. split; [|intros k' Hk'; apply s_write_other; exact Hk'].
  assert (Wr : s_write m now k (VZs (kept ++ [now])) period k = Some (Some (now + period), VZs (kept ++ [now]))).
  { rewrite s_write_pos by exact Hp. rewrite String.eqb_refl. reflexivity. }
  unfold XInv. split; [|split; [|split]].
  - intros d0 v0 E. rewrite Wr in E. injection E as <- <-.
    split; [reflexivity|]. eexists. split; [reflexivity|]. split; [|split].
    + apply NoDup_snoc_Z; [apply NoDup_filter'; exact Rnd|]. intro Hin. apply filter_In in Hin as [Hin _].
      pose proof (Hle now (Rsub now Hin)). lia.
    + intros x Hx. apply in_app_iff in Hx as [Hx|[<-|[]]]; [right; apply Rsub; apply filter_In in Hx; tauto|left; reflexivity].
    + intros x [<-|Hx] Hr; apply in_app_iff; [right; left; reflexivity|left].
      pose proof (Hle x Hx). apply filter_In. split; [apply Rrec; [exact Hx|lia]|].
      unfold in_window. apply andb_true_iff. split; [apply Z.leb_le; lia|apply Z.leb_le; lia].
  - intro E. rewrite Wr in E. discriminate.
  - intros x [<-|Hx]; [lia|]. pose proof (Hle x Hx). lia.
  - constructor; [|exact Hnd]. intro Hin. pose proof (Hle now Hin). lia.
Qed.

(* ================= circuit breaker ================= *)
From Cashews Require Import Proofs.KeyProofs.
Open Scope Z_scope.
Lemma suffix_neq (k a b : string) : a <> b -> (k ++ a)%string <> (k ++ b)%string.
Proof. intros H E. apply append_inj_l in E. exact (H E). Qed.
Lemma total_fails_neq k : total_key k <> fails_key k. Proof. apply suffix_neq. discriminate. Qed.
Lemma total_open_neq k : total_key k <> open_key k. Proof. apply suffix_neq. discriminate. Qed.
Lemma fails_open_neq k : fails_key k <> open_key k. Proof. apply suffix_neq. discriminate. Qed.

Lemma XInv_frame k period m m' tl H : m' k = m k -> XInv k period m tl H -> XInv k period m' tl H.
Proof. intros E (A & B & C & D). unfold XInv. rewrite E. auto. Qed.

(* T = instants of the calls that got past the open check, F = the instants at which those among them that failed with a
   listed exception failed.  The call starts at `now`; its outcome is known at `fin` >= now. *)
Theorem breaker_step_at k rate period ttl mc m tl tlf T F now fin o :
  0 < period -> 0 < ttl -> tl < now -> now <= fin -> tlf < fin ->
  XInv (total_key k) period m tl T -> XInv (fails_key k) period m tlf F ->
  cnt (closedw now period) T < 9999 -> cnt (closedw fin period) F < 9999 ->
  let '(m', res, tripped) := breaker_call_at m now fin k rate period ttl mc o in
  match s_look m now (open_key k) with
  | Some _ => res = BOpen /\ m' = m /\ tripped = false                    (* open: the function is not run *)
  | None =>
      res = BRan o /\ XInv (total_key k) period m' now (now :: T) /\
      (match o with
       | BFailListed => XInv (fails_key k) period m' fin (fin :: F)
       | _ => XInv (fails_key k) period m' tlf F
       end) /\
      (* it trips exactly when the call failed with a listed exception and the window counts meet the rule; the
         counts are the history's (calls in the period before the start, failures in the period before the failure),
         exact up to instants lying exactly `period` back *)
      (exists total fails,
          cnt (strictw now period) T + 1 <= total <= cnt (closedw now period) T + 1 /\
          (o = BFailListed -> cnt (strictw fin period) F + 1 <= fails <= cnt (closedw fin period) F + 1) /\
          (tripped = true <-> o = BFailListed /\ mc <= total /\ rate * total <= fails * 100)) /\
      (tripped = true -> s_look m' fin (open_key k) = Some (Some (fin + ttl), VInt 1))
  end.
Proof.
  intros Hp Ht Hl Hfin Hlf XT XF MT MF. unfold breaker_call_at.
  destruct (s_look m now (open_key k)) as [e|] eqn:Op; cbn [isSome]; [auto|].
  pose proof (log_step (total_key k) period m tl T now 9999 Hp Hl XT MT) as LT.
  destruct (slice_incr m now (total_key k) (now - period) now 9999 period) as [m1 total] eqn:E1.
  destruct LT as (Tlo & Thi & XT1 & Fr1).
  assert (XF1 : XInv (fails_key k) period m1 tlf F).
  { apply (XInv_frame _ _ m); [apply Fr1; intro E; symmetry in E; exact (total_fails_neq k E)|exact XF]. }
  assert (Op1 : s_look m1 fin (open_key k) = None).
  { pose proof (dead_mono m now fin (open_key k) Hfin Op) as D. unfold dead, s_look in *.
    rewrite Fr1 by (intro E; symmetry in E; exact (total_open_neq k E)). exact D. }
  destruct o.
  - split; [reflexivity|]. split; [exact XT1|]. split; [exact XF1|]. split; [|discriminate].
    exists total, 0. split; [lia|]. split; [discriminate|]. split; [discriminate|intros [E _]; discriminate].
  - pose proof (log_step (fails_key k) period m1 tlf F fin 9999 Hp Hlf XF1 MF) as LF.
    destruct (slice_incr m1 fin (fails_key k) (fin - period) fin 9999 period) as [m2 fails] eqn:E2.
    destruct LF as (Flo & Fhi & XF2 & Fr2).
    assert (XT2 : XInv (total_key k) period m2 now (now :: T)).
    { apply (XInv_frame _ _ m1); [apply Fr2; exact (total_fails_neq k)|exact XT1]. }
    assert (Op2 : s_look m2 fin (open_key k) = None).
    { unfold s_look in *. rewrite Fr2 by (intro E; symmetry in E; exact (fails_open_neq k E)). exact Op1. }
    assert (T0 : (total =? 0) = false) by (apply Z.eqb_neq; unfold cnt in *; lia).
    rewrite T0. cbn [negb andb].
    destruct (Z.ltb_spec total mc) as [Hmc|Hmc]; cbn [negb andb].
    + split; [reflexivity|]. split; [exact XT2|]. split; [exact XF2|]. split; [|discriminate].
      exists total, fails. split; [lia|]. split; [intros _; lia|]. split; [discriminate|]. intros (_ & Hm & _). lia.
    + destruct (Z.leb_spec (rate * total) (fails * 100)) as [Hr|Hr].
      * rewrite Op2. cbn [isSome].
        assert (Wo : s_look (s_write m2 fin (open_key k) (VInt 1) ttl) fin (open_key k) = Some (Some (fin + ttl), VInt 1))
          by (apply s_look_write_pos; exact Ht).
        split; [reflexivity|]. split; [|split; [|split; [|intros _; exact Wo]]].
        -- apply (XInv_frame _ _ m2); [apply s_write_other; exact (total_open_neq k)|exact XT2].
        -- apply (XInv_frame _ _ m2); [apply s_write_other; exact (fails_open_neq k)|exact XF2].
        -- exists total, fails. split; [lia|]. split; [intros _; lia|]. split; [intros _; repeat split; auto|reflexivity].
      * split; [reflexivity|]. split; [exact XT2|]. split; [exact XF2|]. split; [|discriminate].
        exists total, fails. split; [lia|]. split; [intros _; lia|]. split; [discriminate|]. intros (_ & _ & Hx). lia.
  - split; [reflexivity|]. split; [exact XT1|]. split; [exact XF1|]. split; [|discriminate].
    exists total, 0. split; [lia|]. split; [discriminate|]. split; [discriminate|intros [E _]; discriminate].
Qed.

(* the instantaneous call *)
Theorem breaker_step k rate period ttl mc m tl tlf T F now o :
  0 < period -> 0 < ttl -> tl < now -> tlf < now ->
  XInv (total_key k) period m tl T -> XInv (fails_key k) period m tlf F ->
  cnt (closedw now period) T < 9999 -> cnt (closedw now period) F < 9999 ->
  let '(m', res, tripped) := breaker_call m now k rate period ttl mc o in
  match s_look m now (open_key k) with
  | Some _ => res = BOpen /\ m' = m /\ tripped = false
  | None =>
      res = BRan o /\ XInv (total_key k) period m' now (now :: T) /\
      (match o with
       | BFailListed => XInv (fails_key k) period m' now (now :: F)
       | _ => XInv (fails_key k) period m' tlf F
       end) /\
      (exists total fails,
          cnt (strictw now period) T + 1 <= total <= cnt (closedw now period) T + 1 /\
          (o = BFailListed -> cnt (strictw now period) F + 1 <= fails <= cnt (closedw now period) F + 1) /\
          (tripped = true <-> o = BFailListed /\ mc <= total /\ rate * total <= fails * 100)) /\
      (tripped = true -> s_look m' now (open_key k) = Some (Some (now + ttl), VInt 1))
  end.
Proof.
  intros Hp Ht Hl Hlf XT XF MT MF. unfold breaker_call.
  exact (breaker_step_at k rate period ttl mc m tl tlf T F now now o Hp Ht Hl (Z.le_refl now) Hlf XT XF MT MF).
Qed.

(* with no call lying exactly `period` back, the two window counts coincide and the rule is the property's rule *)
Lemma cnt_strict_closed now period H : ~ In (now - period) H -> cnt (strictw now period) H = cnt (closedw now period) H.
Proof.
  intro Hn. unfold cnt. f_equal. f_equal. apply filter_ext_in. intros x Hx. unfold strictw, closedw.
  destruct (Z.ltb_spec (now - period) x), (Z.leb_spec (now - period) x); try reflexivity; try lia.
  exfalso. apply Hn. replace (now - period) with x by lia. exact Hx.
Qed.

(* Executable image of wrapper/tags.py over the TTL-map spec:
     set / incr with tags (102-121), delete_tags popping members in batches (88-100),
     the on-remove callback pruning membership through the registry (71-83),
     memory.py set_add / set_remove / set_pop (one deadline per tag set, re-timed by the latest add).
   Lazy expiry fires the callback when an expired key is first touched: the harness probes every key after each
   step, so the model purges expired data keys (in key order) at the start of each step.  Definitions only. *)
From Cashews Require Import Base.Prelude Spec.TTLMap.
Open Scope string_scope.
Open Scope Z_scope.

(* registry: a registered tag template and the key template it was registered with; both are "prefix{x}" shaped *)
Inductive tagspec := TPlain (t : string) | TTempl (prefix : string).
Record regent := { rtag : tagspec; rkey_prefix : string }.
Definition registry := list regent.

Definition tag_key (t : string) : key := "_tag:" ++ t.
Fixpoint drop_prefix (p s : string) : option string :=
  match p with
  | EmptyString => Some s
  | String a p' => match s with String b s' => if Ascii.eqb a b then drop_prefix p' s' else None | EmptyString => None end
  end.
(* TagsRegistry.get_key_tags *)
Definition key_tags (reg : registry) (k : key) : list string :=
  flat_map (fun r => match drop_prefix (rkey_prefix r) k with
                     | Some rest => [match rtag r with TPlain t => t | TTempl p => p ++ rest end]
                     | None => [] end) reg.

Definition mems (x : string) (l : list string) : bool := existsb (String.eqb x) l.
Definition set_of (m : tmap) (now : Z) (k : key) : list string :=
  match s_get m now k with Some (VSet l) => l | _ => [] end.
(* Memory.set_add / set_remove / set_pop(all) *)
Definition set_add (m : tmap) (now : Z) (k : key) (x : string) (ttl : Z) : tmap :=
  let l := set_of m now k in s_write m now k (VSet (if mems x l then l else l ++ [x])) ttl.
Definition set_remove (m : tmap) (now : Z) (k : key) (x : string) : tmap :=
  s_write m now k (VSet (filter (fun y => negb (String.eqb y x)) (set_of m now k))) 0.

(* Memory._delete + the callback: drop the entry (if any) and prune it from the sets of its registered tags *)
Definition on_remove (reg : registry) (m : tmap) (now : Z) (k : key) : tmap :=
  fold_left (fun m' t => set_remove m' now (tag_key t) k) (key_tags reg k) m.
Definition raw_delete (reg : registry) (m : tmap) (now : Z) (k : key) : tmap :=
  match m k with Some _ => on_remove reg (upd m k None) now k | None => m end.

(* lazy expiry of the data keys the harness probes, in order *)
Definition purge (reg : registry) (keys : list key) (m : tmap) (now : Z) : tmap :=
  fold_left (fun m' k => match m' k with
                         | Some (d, _) => if live now d then m' else raw_delete reg m' now k
                         | None => m' end) keys m.

Inductive tev :=
| TSet (k : key) (v : val) (ttl : Z) (tags : list string)
| TIncr (k : key) (by_ : Z) (ttl : Z) (tags : list string)
| TDel (k : key)
| TDelPrefix (p : string)                 (* delete_match(p + "*") *)
| TDeleteTags (t : string).

Definition add_tags (m : tmap) (now : Z) (k : key) (ttl : Z) (tags : list string) : tmap :=
  fold_left (fun m' t => set_add m' now (tag_key t) k ttl) tags m.

(* delete_tags: pop every member (in batches of 100, all of them in the end), delete them *)
Definition delete_tag (reg : registry) (m : tmap) (now : Z) (t : string) : tmap :=
  let members := set_of m now (tag_key t) in
  match members with
  | [] => match s_get m now (tag_key t) with Some _ => s_write m now (tag_key t) (VSet []) 0 | None => s_write m now (tag_key t) (VSet []) 0 end
  | _ => let m1 := s_write m now (tag_key t) (VSet []) 0 in
         fold_left (fun m' k => raw_delete reg m' now k) members m1
  end.

Definition tag_step (reg : registry) (keys : list key) (m : tmap) (now : Z) (e : tev) : tmap :=
  let m := purge reg keys m now in
  match e with
  | TSet k v ttl tags => add_tags (s_write m now k v ttl) now k ttl tags
  | TIncr k by_ ttl tags =>
      (* Memory.incr: the TTL is given only when the new value is 1; the tags are added whatever the new value is *)
      match s_get m now k with
      | Some (VInt z) => add_tags (s_write m now k (VInt (z + by_)) (if z + by_ =? 1 then ttl else 0)) now k ttl tags
      | None => add_tags (s_write m now k (VInt by_) (if by_ =? 1 then ttl else 0)) now k ttl tags
      | Some _ => m
      end
  | TDel k => match s_look m now k with Some _ => raw_delete reg m now k | None => m end
  | TDelPrefix p => fold_left (fun m' k => match drop_prefix p k with
                                            | Some _ => match s_look m' now k with Some _ => raw_delete reg m' now k | None => m' end
                                            | None => m' end) keys m
  | TDeleteTags t => delete_tag reg m now t
  end.

(* The same step when only the keys in `probed` are read between the commands: every other key stays in the store past its
   deadline until a command touches it (Memory._live_entry purges an expired entry it meets, with the callback):
     set          writes over an expired entry without purging it (Memory._set) - its stale memberships stay
     incr         reads the key first: an expired entry is purged with the callback
     delete       an expired entry is purged with the callback (and False returned), a live one deleted with the callback
     delete_match scan meets every stored key with the prefix: expired ones are purged, live ones deleted - callbacks for both
     delete_tags  pops the members of the live set and deletes each stored one with the callback
   `keys` = every data key of the history (what scan can meet).  With probed = keys this is tag_step (every key is live or
   absent when the command runs); the theorems are about tag_step, the lazy variant is tied by the correspondence and judged
   by the same oracle. *)
Definition tag_step_lazy (reg : registry) (probed keys : list key) (m : tmap) (now : Z) (e : tev) : tmap :=
  let m := purge reg probed m now in
  match e with
  | TSet k v ttl tags => add_tags (s_write m now k v ttl) now k ttl tags
  | TIncr k by_ ttl tags =>
      let m := purge reg [k] m now in
      match s_get m now k with
      | Some (VInt z) => add_tags (s_write m now k (VInt (z + by_)) (if z + by_ =? 1 then ttl else 0)) now k ttl tags
      | None => add_tags (s_write m now k (VInt by_) (if by_ =? 1 then ttl else 0)) now k ttl tags
      | Some _ => m
      end
  | TDel k => raw_delete reg m now k
  | TDelPrefix p => fold_left (fun m' k => match drop_prefix p k with Some _ => raw_delete reg m' now k | None => m' end) keys m
  | TDeleteTags t => delete_tag reg m now t
  end.

(* which of the probed keys are readable *)
Definition readable (keys : list key) (m : tmap) (now : Z) : list bool := map (fun k => isSome (s_look m now k)) keys.

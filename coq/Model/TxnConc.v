(* Executable image of concurrent cache.transaction() blocks (wrapper/transaction.py + backends/transaction.py) for any
   number of tasks over one shared in-memory store, at the granularity of single backend commands.
   Each task runs a list of items: a direct cache command, or a transactional block (mode, commands, raises at the end?).
   A block keeps a task-local overlay (written keys) and delete set; in LOCKED / SERIALIZABLE mode the first write of a
   key first takes the per-key / global lock entry in the store (set_lock with the transaction's token, ttl = timeout;
   on failure sleep 0.1 s and retry, LockedError when the attempts are used up); a normal end issues delete_many of
   the delete set and set_many of the overlay, then - as after a raising body - unlocks every lock it took.
   Time is in units of 0.05 s.  One event = one task doing its next step (a backend command, or local work), or time
   passing.  Values are integers, data has no TTL.  Definitions only. *)
From Cashews Require Import Base.Prelude.
Open Scope Z_scope.

Inductive cmd := Get (k : nat) | Put (k : nat) (v : Z) | Incr (k : nat) (d : Z) | Del (k : nat) | Sleep (n : Z)
               | PutIf (k : nat) (v : Z) (want : bool)    (* set(..., exist=want): written only if the key's presence equals want *)
               | Touch (k : nat).                         (* expire(k, 0): a write command that changes no value; inside a block it takes the
                                                             key's lock and pulls the stored value into the overlay (written back at commit) *)
Inductive mode := Fast | Locked | Serial.
Record block := { bmode : mode; bcmds : list cmd; braise : bool }.
Inductive item := Direct (c : cmd) | Txn (b : block).
(* how a finished item ended, as its caller sees it *)
Inductive outcome := Ok (results : list (option Z)) | Raised (results : list (option Z)) | LockedErr.

(* association lists for the overlay *)
Fixpoint lookup (l : list (nat * Z)) (k : nat) : option Z :=
  match l with [] => None | (k', v) :: r => if Nat.eqb k' k then Some v else lookup r k end.
Definition remove (l : list (nat * Z)) (k : nat) := filter (fun kv => negb (Nat.eqb (fst kv) k)) l.
Definition put (l : list (nat * Z)) (k : nat) (v : Z) := (k, v) :: remove l k.
Definition memk (k : nat) (l : list nat) := existsb (Nat.eqb k) l.
Definition remk (l : list nat) (k : nat) := filter (fun x => negb (Nat.eqb x k)) l.
Definition upd {A} (t : nat -> A) (k : nat) (v : A) := fun x => if Nat.eqb x k then v else t x.

(* the local effect of an executed command, with the value a read-through returned *)
Inductive lcmd := LPut (k : nat) (v : Z) | LIncr (k : nat) (d : Z) (base : option (option Z)) | LDel (k : nat)
                | LPutIf (k : nat) (v : Z) (want hit : bool)      (* hit: the condition held and the value was written *)
                | LTouch (k : nat) (base : option (option Z)).
Definition lapply (od : list (nat * Z) * list nat) (c : lcmd) : list (nat * Z) * list nat :=
  let '(ov, dl) := od in
  match c with
  | LPut k v => (put ov k v, remk dl k)
  | LIncr k d base =>
      let cur := match lookup ov k with
                 | Some v => v
                 | None => match base with Some (Some b) => b | _ => 0 end
                 end in
      (put ov k (cur + d), remk dl k)
  | LDel k => (remove ov k, if memk k dl then dl else k :: dl)
  | LPutIf k v _ hit => if hit then (put ov k v, remk dl k) else (ov, dl)
  | LTouch k base =>
      match lookup ov k with
      | Some _ => (ov, dl)
      | None => if memk k dl then (ov, dl) else match base with Some (Some b) => (put ov k b, dl) | _ => (ov, dl) end
      end
  end.

Inductive phase := PBody (pending : list cmd) | PCommitDel | PCommitSet | PUnlock.
Record txn := { tmode : mode; ttoken : nat; tphase : phase;
                tov : list (nat * Z); tdel : list nat;
                theld : list (nat * Z);                  (* lock key, deadline it was taken with *)
                tbudget : option nat;                    (* attempts left for the lock being waited for *)
                tres : list (option Z);                  (* results of the commands so far *)
                tfail : option bool;                     (* Some false: body raised; Some true: LockedError *)
                texec : list lcmd;                       (* ghost: local effects executed so far *)
                tblock : block }.                        (* ghost: the block being run *)
Record task := { items : list item; cur : option txn; wake : Z; outs : list outcome }.

Inductive wkind := WDirect | WDelMany | WSetMany.
Record cfg := { now : Z; store : nat -> option Z; locks : nat -> option (nat * Z);
                tasks : nat -> task; fresh : nat;
                timeout : Z; attempts : nat;
                wlog : list (nat * nat * wkind * list lcmd) }.   (* ghost: who wrote the store: task, token, kind, effects of the block *)

Inductive bk := BGet | BPut | BIncr | BDel | BSetLock | BUnlock | BDelMany | BSetMany | BExists | BExpire.
Inductive obs := Idle | Local | Back (b : bk) (k : nat) (r : option Z).
Inductive event := Run (i : nat) (hint : nat) | Tick (dt : Z).

Definition lock_key (m : mode) (k : nat) : nat := match m with Serial => O | _ => S k end.
Definition is_write (c : cmd) := match c with Put _ _ | Incr _ _ | Del _ | PutIf _ _ _ | Touch _ => true | _ => false end.
Definition cmd_key (c : cmd) := match c with Get k | Put k _ | Incr k _ | Del k | PutIf k _ _ | Touch k => k | Sleep _ => O end.
Definition heldb (h : list (nat * Z)) (lk : nat) := existsb (fun x => Nat.eqb (fst x) lk) h.
Definition lock_free (c : cfg) (lk : nat) := match locks c lk with Some (_, d) => d <=? now c | None => true end.
Definition b2z (b : bool) : option Z := Some (if b then 1 else 0).
Definition isSomeZ (o : option Z) := match o with Some _ => true | None => false end.

Definition set_task (c : cfg) (i : nat) (t : task) : cfg :=
  {| now := now c; store := store c; locks := locks c; tasks := upd (tasks c) i t; fresh := fresh c;
     timeout := timeout c; attempts := attempts c; wlog := wlog c |}.
Definition with_cur (t : task) (x : option txn) : task := {| items := items t; cur := x; wake := wake t; outs := outs t |}.
Definition set_phase (x : txn) (p : phase) : txn :=
  {| tmode := tmode x; ttoken := ttoken x; tphase := p; tov := tov x; tdel := tdel x; theld := theld x; tbudget := tbudget x;
     tres := tres x; tfail := tfail x; texec := texec x; tblock := tblock x |}.

(* a direct command of a task that is in no transaction: straight to the store *)
Definition direct (c : cfg) (i : nat) (t : task) (cm : cmd) (rest : list item) : cfg * obs :=
  let fin r := {| items := rest; cur := None; wake := wake t; outs := outs t ++ [Ok [r]] |} in
  match cm with
  | Get k => (set_task c i (fin (store c k)), Back BGet k (store c k))
  | Put k v =>
      ({| now := now c; store := upd (store c) k (Some v); locks := locks c; tasks := upd (tasks c) i (fin None); fresh := fresh c;
          timeout := timeout c; attempts := attempts c; wlog := wlog c ++ [(i, O, WDirect, [LPut k v])] |}, Back BPut k None)
  | Incr k d =>
      let v := match store c k with Some b => b + d | None => d end in
      ({| now := now c; store := upd (store c) k (Some v); locks := locks c; tasks := upd (tasks c) i (fin (Some v)); fresh := fresh c;
          timeout := timeout c; attempts := attempts c; wlog := wlog c ++ [(i, O, WDirect, [LIncr k d (Some (store c k))])] |}, Back BIncr k (Some v))
  | Del k =>
      ({| now := now c; store := upd (store c) k None; locks := locks c; tasks := upd (tasks c) i (fin (b2z (isSomeZ (store c k)))); fresh := fresh c;
          timeout := timeout c; attempts := attempts c; wlog := wlog c ++ [(i, O, WDirect, [LDel k])] |}, Back BDel k (b2z (isSomeZ (store c k))))
  | Sleep n => (set_task c i {| items := rest; cur := None; wake := now c + n; outs := outs t ++ [Ok [None]] |}, Local)
  | PutIf k v want =>
      let hit := Bool.eqb (isSomeZ (store c k)) want in
      ({| now := now c; store := if hit then upd (store c) k (Some v) else store c; locks := locks c; tasks := upd (tasks c) i (fin (b2z hit)); fresh := fresh c;
          timeout := timeout c; attempts := attempts c; wlog := wlog c ++ [(i, O, WDirect, [LPutIf k v want hit])] |}, Back BPut k (b2z hit))
  | Touch k =>
      ({| now := now c; store := store c; locks := locks c; tasks := upd (tasks c) i (fin None); fresh := fresh c;
          timeout := timeout c; attempts := attempts c; wlog := wlog c ++ [(i, O, WDirect, [LTouch k (Some (store c k))])] |}, Back BExpire k None)
  end.

(* the next command of a block's body, the lock (if one is needed) being held *)
Definition body_cmd (c : cfg) (i : nat) (t : task) (x : txn) (cm : cmd) (pend : list cmd) : cfg * obs :=
  let next ov dl res ex := {| tmode := tmode x; ttoken := ttoken x; tphase := PBody pend; tov := ov; tdel := dl; theld := theld x;
                              tbudget := None; tres := tres x ++ [res]; tfail := tfail x; texec := texec x ++ ex; tblock := tblock x |} in
  match cm with
  | Get k =>
      if memk k (tdel x) then (set_task c i (with_cur t (Some (next (tov x) (tdel x) None []))), Local)
      else match lookup (tov x) k with
           | Some v => (set_task c i (with_cur t (Some (next (tov x) (tdel x) (Some v) []))), Local)
           | None => (set_task c i (with_cur t (Some (next (tov x) (tdel x) (store c k) []))), Back BGet k (store c k))
           end
  | Put k v =>
      let '(ov, dl) := lapply (tov x, tdel x) (LPut k v) in
      (set_task c i (with_cur t (Some (next ov dl None [LPut k v]))), Local)
  | Incr k d =>
      let through := match lookup (tov x) k with Some _ => false | None => negb (memk k (tdel x)) end in
      let base := if through then Some (store c k) else None in
      let '(ov, dl) := lapply (tov x, tdel x) (LIncr k d base) in
      (set_task c i (with_cur t (Some (next ov dl (lookup ov k) [LIncr k d base]))),
       if through then Back BGet k (store c k) else Local)
  | Del k =>
      let '(ov, dl) := lapply (tov x, tdel x) (LDel k) in
      (set_task c i (with_cur t (Some (next ov dl (Some 1) [LDel k]))), Local)
  | Sleep n =>
      (set_task c i {| items := items t; cur := Some (next (tov x) (tdel x) None []); wake := now c + n; outs := outs t |}, Local)
  | PutIf k v want =>
      (* TransactionBackend.set: "exists" is answered by the overlay, then by the delete set, then by the store *)
      let known := match lookup (tov x) k with Some _ => Some true | None => if memk k (tdel x) then Some false else None end in
      let ex := match known with Some b => b | None => isSomeZ (store c k) end in
      let hit := Bool.eqb ex want in
      let '(ov, dl) := lapply (tov x, tdel x) (LPutIf k v want hit) in
      (set_task c i (with_cur t (Some (next ov dl (b2z hit) [LPutIf k v want hit]))),
       match known with Some _ => Local | None => Back BExists k (b2z (isSomeZ (store c k))) end)
  | Touch k =>
      (* TransactionBackend.expire: a key the overlay holds is re-timed locally, a key pending deletion is left alone,
         otherwise the stored value is read and, if there is one, copied into the overlay *)
      let through := match lookup (tov x) k with Some _ => false | None => negb (memk k (tdel x)) end in
      let base := if through then Some (store c k) else None in
      let '(ov, dl) := lapply (tov x, tdel x) (LTouch k base) in
      (set_task c i (with_cur t (Some (next ov dl None [LTouch k base]))),
       if through then Back BGet k (store c k) else Local)
  end.

Definition fail_with (x : txn) (locked : bool) : txn :=
  {| tmode := tmode x; ttoken := ttoken x; tphase := PBody []; tov := tov x; tdel := tdel x; theld := theld x; tbudget := None;
     tres := tres x; tfail := Some locked; texec := texec x; tblock := tblock x |}.

Definition run_task (c : cfg) (i : nat) (hint : nat) : cfg * obs :=
  let t := tasks c i in
  if now c <? wake t then (c, Idle) else
  match cur t with
  | None =>
      match items t with
      | [] => (c, Idle)
      | Direct cm :: rest => direct c i t cm rest
      | Txn b :: rest =>
          let x := {| tmode := bmode b; ttoken := fresh c; tphase := PBody (bcmds b); tov := []; tdel := []; theld := []; tbudget := None;
                      tres := []; tfail := None; texec := []; tblock := b |} in
          ({| now := now c; store := store c; locks := locks c; tasks := upd (tasks c) i (with_cur t (Some x)); fresh := S (fresh c);
              timeout := timeout c; attempts := attempts c; wlog := wlog c |}, Local)
      end
  | Some x =>
      match tphase x with
      | PBody (cm :: pend) =>
          let lk := lock_key (tmode x) (cmd_key cm) in
          let need := match tmode x with Fast => false | _ => is_write cm && negb (heldb (theld x) lk) end in
          if need then
            if lock_free c lk then
              let x' := {| tmode := tmode x; ttoken := ttoken x; tphase := tphase x; tov := tov x; tdel := tdel x;
                           theld := (lk, now c + timeout c) :: theld x; tbudget := None; tres := tres x; tfail := tfail x;
                           texec := texec x; tblock := tblock x |} in
              ({| now := now c; store := store c; locks := upd (locks c) lk (Some (ttoken x, now c + timeout c));
                  tasks := upd (tasks c) i (with_cur t (Some x')); fresh := fresh c;
                  timeout := timeout c; attempts := attempts c; wlog := wlog c |}, Back BSetLock lk (Some 1))
            else
              let left := match tbudget x with Some n => n | None => attempts c end in
              let x' := match left with
                        | S (S n) => {| tmode := tmode x; ttoken := ttoken x; tphase := tphase x; tov := tov x; tdel := tdel x; theld := theld x;
                                        tbudget := Some (S n); tres := tres x; tfail := tfail x; texec := texec x; tblock := tblock x |}
                        | _ => fail_with x true                       (* last attempt failed: LockedError after the sleep *)
                        end in
              (set_task c i {| items := items t; cur := Some x'; wake := now c + 2; outs := outs t |}, Back BSetLock lk (Some 0))
          else body_cmd c i t x cm pend
      | PBody [] =>
          let failed := match tfail x with Some b => Some b | None => if braise (tblock x) then Some false else None end in
          match failed with
          | Some b =>   (* rollback: forget the overlay, then release *)
              (set_task c i (with_cur t (Some {| tmode := tmode x; ttoken := ttoken x; tphase := PUnlock; tov := []; tdel := []; theld := theld x;
                                                 tbudget := None; tres := tres x; tfail := Some b; texec := texec x; tblock := tblock x |})), Local)
          | None => (set_task c i (with_cur t (Some (set_phase x PCommitDel))), Local)
          end
      | PCommitDel =>
          match tdel x with
          | [] => (set_task c i (with_cur t (Some (set_phase x PCommitSet))), Local)
          | dl => ({| now := now c; store := fun k => if memk k dl then None else store c k; locks := locks c;
                      tasks := upd (tasks c) i (with_cur t (Some (set_phase x PCommitSet))); fresh := fresh c;
                      timeout := timeout c; attempts := attempts c; wlog := wlog c ++ [(i, ttoken x, WDelMany, texec x)] |}, Back BDelMany O None)
          end
      | PCommitSet =>
          let x' := {| tmode := tmode x; ttoken := ttoken x; tphase := PUnlock; tov := []; tdel := []; theld := theld x; tbudget := None;
                       tres := tres x; tfail := tfail x; texec := texec x; tblock := tblock x |} in
          match tov x with
          | [] => (set_task c i (with_cur t (Some x')), Local)
          | ov => ({| now := now c; store := fun k => match lookup ov k with Some v => Some v | None => store c k end; locks := locks c;
                      tasks := upd (tasks c) i (with_cur t (Some x')); fresh := fresh c;
                      timeout := timeout c; attempts := attempts c; wlog := wlog c ++ [(i, ttoken x, WSetMany, texec x)] |}, Back BSetMany O None)
          end
      | PUnlock =>
          match theld x with
          | [] =>
              let o := match tfail x with Some true => LockedErr | Some false => Raised (tres x) | None => Ok (tres x) end in
              (set_task c i {| items := tl (items t); cur := None; wake := wake t; outs := outs t ++ [o] |}, Local)
          | (lk0, _) :: _ =>
              let lk := if heldb (theld x) hint then hint else lk0 in
              let mine := match locks c lk with Some (tk, d) => Nat.eqb tk (ttoken x) && (now c <? d) | None => false end in
              let x' := {| tmode := tmode x; ttoken := ttoken x; tphase := PUnlock; tov := tov x; tdel := tdel x;
                           theld := filter (fun h => negb (Nat.eqb (fst h) lk)) (theld x); tbudget := None; tres := tres x; tfail := tfail x;
                           texec := texec x; tblock := tblock x |} in
              ({| now := now c; store := store c; locks := if mine then upd (locks c) lk None else locks c;
                  tasks := upd (tasks c) i (with_cur t (Some x')); fresh := fresh c;
                  timeout := timeout c; attempts := attempts c; wlog := wlog c |}, Back BUnlock lk (b2z mine))
          end
      end
  end.

Definition step (c : cfg) (e : event) : cfg * obs :=
  match e with
  | Run i h => run_task c i h
  | Tick dt => (if 0 <=? dt then {| now := now c + dt; store := store c; locks := locks c; tasks := tasks c; fresh := fresh c;
                                    timeout := timeout c; attempts := attempts c; wlog := wlog c |} else c, Idle)
  end.

Definition init (progs : list (list item)) (st : nat -> option Z) (tmo : Z) (att : nat) : cfg :=
  {| now := 0; store := st; locks := fun _ => None;
     tasks := fun i => {| items := nth i progs []; cur := None; wake := 0; outs := [] |};
     fresh := 1%nat; timeout := tmo; attempts := att; wlog := [] |}.
Definition run_from (c : cfg) (evs : list event) : cfg := fold_left (fun c e => fst (step c e)) evs c.

#!/usr/bin/env python3
"""tools/keep_mutant.py <src dir> <seeded id> <caught_by: text> : store a confirmed seeded change under /verif/seeded/<id>/"""
import json, os, shutil, sys
src, sid, caught = sys.argv[1], sys.argv[2], sys.argv[3]
dst = f"/verif/seeded/{sid}"
os.makedirs(dst, exist_ok=True)
for f in ("patch.diff", "demo.py"):
    shutil.copy(os.path.join(src, f), dst)
meta = json.load(open(os.path.join(src, "meta.json")))
meta["confirmed"] = ("demo.py exits 0 on the unchanged tree and 1 with patch.diff applied (tools/try_mutant.sh); "
                     "pinned suite: same passed set as BASELINE (reported by the authoring sub-agent, spot-checked)")
meta["checks_run"] = caught
json.dump(meta, open(os.path.join(dst, "meta.json"), "w"), indent=1)
print("kept", dst)

(* Shared vocabulary of all models: keys, values, results, ordered stores. No proofs of
   properties here; only definitions and small structural lemmas reused everywhere. *)
From Coq Require Export String List ZArith NArith Bool Lia.
Export ListNotations.
Open Scope Z_scope.

Definition key := string.

(* Values as far as the models need them.  Values are immutable in the models. *)
Inductive val :=
| VInt (z : Z)            (* python int (not bool) *)
| VStr (s : string)       (* python str *)
| VBytes (s : string)     (* python bytes *)
| VBool (b : bool)
| VNone
| VSet (l : list string)  (* python set of str, as a duplicate-free list *)
| VZs (l : list Z)        (* python list of numbers (sliding window log) *)
| VOpq (n : Z).           (* any other python object, identified by a number *)

Fixpoint list_eqb {A} (eqb : A -> A -> bool) (l1 l2 : list A) : bool :=
  match l1, l2 with
  | [], [] => true
  | x :: r1, y :: r2 => eqb x y && list_eqb eqb r1 r2
  | _, _ => false
  end.

Definition val_eqb (a b : val) : bool :=
  match a, b with
  | VInt x, VInt y => x =? y
  | VStr x, VStr y => String.eqb x y
  | VBytes x, VBytes y => String.eqb x y
  | VBool x, VBool y => Bool.eqb x y
  | VNone, VNone => true
  | VSet x, VSet y => list_eqb String.eqb x y
  | VZs x, VZs y => list_eqb Z.eqb x y
  | VOpq x, VOpq y => x =? y
  | _, _ => false
  end.

Definition option_eqb {A} (eqb : A -> A -> bool) (a b : option A) : bool :=
  match a, b with
  | Some x, Some y => eqb x y
  | None, None => true
  | _, _ => false
  end.

Definition isSome {A} (o : option A) : bool := match o with Some _ => true | None => false end.

Lemma list_eqb_spec {A} (eqb : A -> A -> bool) :
  (forall x y, eqb x y = true <-> x = y) -> forall l1 l2, list_eqb eqb l1 l2 = true <-> l1 = l2.
Proof.
  intros H l1. induction l1 as [|x r1 IH]; intros [|y r2]; cbn; split; intro E;
    try reflexivity; try discriminate.
  - apply andb_true_iff in E as [E1 E2]. apply H in E1. apply IH in E2. congruence.
  - injection E as -> ->. apply andb_true_iff. split; [apply H|apply IH]; reflexivity.
Qed.

Lemma val_eqb_spec a b : val_eqb a b = true <-> a = b.
Proof.
  destruct a, b; cbn; split; intro E; try discriminate; try reflexivity;
    try (apply Z.eqb_eq in E; congruence);
    try (apply String.eqb_eq in E; congruence);
    try (apply Bool.eqb_prop in E; congruence);
    try (injection E as ->; first [apply Z.eqb_refl | apply String.eqb_refl | apply Bool.eqb_reflx]).
  - apply (list_eqb_spec String.eqb String.eqb_eq) in E. congruence.
  - injection E as ->. apply (list_eqb_spec String.eqb String.eqb_eq). reflexivity.
  - apply (list_eqb_spec Z.eqb Z.eqb_eq) in E. congruence.
  - injection E as ->. apply (list_eqb_spec Z.eqb Z.eqb_eq). reflexivity.
Qed.

(* Failing-case reporting used by every Run/Cxx.v: a case is judged by
   (agree, ok, exclusions): model = implementation; implementation satisfies the spec
   oracle; ids of recorded findings whose situation the case contains. *)
Definition verdict := (bool * bool * list nat)%type.
Definition b2n (b : bool) : nat := if b then 1%nat else 0%nat.
Fixpoint failing_from {C} (judge : C -> verdict) (i : nat) (cs : list C) : list (list nat) :=
  match cs with
  | [] => []
  | c :: r =>
      let '(a, o, ex) := judge c in
      if a && o then failing_from judge (S i) r
      else (i :: b2n a :: b2n o :: ex) :: failing_from judge (S i) r
  end.
Definition failing {C} (judge : C -> verdict) (cs : list C) := failing_from judge 0%nat cs.

(* C11: recency-list facts, and the Memory model's key order as a run of recency operations. *)
From Cashews Require Import Base.Prelude Base.OMap Spec.TTLMap Spec.LRU Model.Memory.
From Coq Require Import Sorting.Sorted.

(* ---------- abstract recency list ---------- *)
Lemma SS_filter {A} (Rr : A -> A -> Prop) (f : A -> bool) l : StronglySorted Rr l -> StronglySorted Rr (filter f l).
Proof.
  induction 1 as [|a l Hs IH Hf]; cbn; [constructor|].
  destruct (f a); [|exact IH]. constructor; [exact IH|].
  rewrite Forall_forall in *. intros x Hx. apply filter_In in Hx. apply Hf. tauto.
Qed.
Lemma SS_snoc {A} (Rr : A -> A -> Prop) l x : StronglySorted Rr l -> Forall (fun a => Rr a x) l -> StronglySorted Rr (l ++ [x]).
Proof.
  induction 1 as [|a l Hs IH Hf]; intro Hall; cbn.
  - repeat constructor.
  - inversion Hall; subst. constructor; [apply IH; assumption|].
    apply Forall_app. split; [exact Hf|repeat constructor; assumption].
Qed.
Lemma SS_tl {A} (Rr : A -> A -> Prop) l : StronglySorted Rr l -> StronglySorted Rr (tl l).
Proof. destruct 1; cbn; [constructor|assumption]. Qed.
Lemma Forall_filter {A} (P : A -> Prop) f l : Forall P l -> Forall P (filter f l).
Proof. rewrite !Forall_forall. intros H x Hx. apply filter_In in Hx. apply H. tauto. Qed.
Lemma Forall_tl {A} (P : A -> Prop) l : Forall P l -> Forall P (tl l).
Proof. destruct 1; cbn; [constructor|assumption]. Qed.

Lemma map_fst_others k l : map fst (others k l) = filter (neqk k) (map fst l).
Proof.
  unfold others. induction l as [|[k0 n0] l IH]; cbn; [reflexivity|].
  destruct (neqk k k0); cbn; [f_equal|]; exact IH.
Qed.

Lemma r_inv_init : r_inv ([], 0%nat).
Proof. repeat split; constructor. Qed.

Lemma r_inv_step st o : r_inv st -> r_inv (r_step st o).
Proof.
  destruct st as [l n]. intros (Hs & Hf & Hnd). destruct o as [k|k|]; cbn [r_step]; unfold r_inv; cbn [fst snd].
  - split; [|split].
    + apply SS_snoc; [apply SS_filter; exact Hs|].
      apply Forall_filter. eapply Forall_impl; [|exact Hf]. intros a Ha. exact Ha.
    + apply Forall_app. split.
      * apply Forall_filter. eapply Forall_impl; [|exact Hf]. intros a Ha. cbn in *. lia.
      * constructor; [cbn; lia|constructor].
    + rewrite map_app, map_fst_others. cbn. apply NoDup_snoc; [apply NoDup_filter; exact Hnd|].
      rewrite In_filter_neqk. tauto.
  - split; [|split].
    + apply SS_filter. exact Hs.
    + apply Forall_filter. eapply Forall_impl; [|exact Hf]. intros a Ha. cbn in *. lia.
    + rewrite map_fst_others. apply NoDup_filter. exact Hnd.
  - split; [|split].
    + apply SS_tl. exact Hs.
    + apply Forall_tl. eapply Forall_impl; [|exact Hf]. intros a Ha. cbn in *. lia.
    + destruct l; cbn in *; [constructor|]. inversion Hnd; assumption.
Qed.

Lemma r_inv_run ops : forall st, r_inv st -> r_inv (r_run st ops).
Proof. induction ops as [|o ops IH]; intros st H; [exact H|]. change (r_run st (o :: ops)) with (r_run (r_step st o) ops). apply IH, r_inv_step, H. Qed.

(* the head of the list is the least recently touched key, and all keys are distinct *)
Lemma head_is_lru st k sk rest : r_inv st -> fst st = (k, sk) :: rest ->
  Forall (fun e => (sk < snd e)%nat /\ fst e <> k) rest /\ NoDup (map fst rest).
Proof.
  intros (Hs & _ & Hnd) E. rewrite E in *. inversion Hs as [|? ? Hs' Hall]; subst.
  cbn in Hnd. inversion Hnd as [|? ? Hnin Hnd']; subst. split; [|exact Hnd'].
  rewrite Forall_forall in *. intros [k' s'] Hin. split; [apply (Hall _ Hin)|].
  cbn. intros ->. apply Hnin. apply in_map_iff. exists (k, s'). auto.
Qed.

Lemma k_step_erases st o : map fst (fst (r_step st o)) = k_step (map fst (fst st)) o.
Proof.
  destruct st as [l n], o as [k|k|]; cbn.
  - rewrite map_app, map_fst_others. reflexivity.
  - apply map_fst_others.
  - destruct l; reflexivity.
Qed.
Lemma k_run_erases ops : forall st, map fst (fst (r_run st ops)) = k_run (map fst (fst st)) ops.
Proof.
  induction ops as [|o ops IH]; intro st; [reflexivity|].
  change (r_run st (o :: ops)) with (r_run (r_step st o) ops).
  change (k_run (map fst (fst st)) (o :: ops)) with (k_run (k_step (map fst (fst st)) o) ops).
  rewrite IH, k_step_erases. reflexivity.
Qed.
Lemma k_run_app l a b : k_run l (a ++ b) = k_run (k_run l a) b.
Proof. unfold k_run. apply fold_left_app. Qed.

(* ---------- the model's key order is a run of recency operations ---------- *)
Definition tr_live_entry (s : store) now k (touch : bool) : list rop :=
  match lookup s k with
  | None => []
  | Some e => (if touch then [Touch k] else []) ++ (if expired now (fst e) then [Drop k] else [])
  end.
Definition tr_set (size : nat) (s : store) (k : key) : list rop :=
  Touch k :: (if (size <? length (filter (neqk k) (keys s)) + 1)%nat then [Evict] else []).

Lemma keys_move (s : store) k : keys (move_to_end s k) = if mem s k then filter (neqk k) (keys s) ++ [k] else keys s.
Proof.
  unfold move_to_end, mem. destruct (lookup s k) as [e|]; cbn; [|reflexivity].
  rewrite keys_app, keys_remove. reflexivity.
Qed.
Lemma filter_neqk_idem (l : list key) k : filter (neqk k) (filter (neqk k) l) = filter (neqk k) l.
Proof. induction l as [|x l IH]; cbn; [reflexivity|]. destruct (neqk k x) eqn:E; cbn; rewrite ?E, IH; reflexivity. Qed.
Lemma filter_neqk_snoc (l : list key) k : filter (neqk k) (l ++ [k]) = filter (neqk k) l.
Proof. rewrite filter_app. cbn. unfold neqk at 2. rewrite String.eqb_refl. cbn. apply app_nil_r. Qed.

Lemma keys_live_entry s now k touch :
  keys (fst (live_entry s now k touch)) = k_run (keys s) (tr_live_entry s now k touch).
Proof.
  unfold live_entry, tr_live_entry. destruct (lookup s k) as [e|] eqn:E; [|reflexivity].
  assert (M : mem s k = true) by (unfold mem; rewrite E; reflexivity).
  destruct touch, (expired now (fst e)); cbn [fst k_run fold_left k_step app];
    rewrite ?keys_remove, ?keys_move, ?M, ?filter_neqk_snoc, ?filter_neqk_idem; reflexivity.
Qed.

Lemma keys_tl (s : store) : keys (tl s) = tl (keys s).
Proof. destruct s; reflexivity. Qed.

Lemma keys_m__set size s now k v ttl : keys (m__set size s now k v ttl) = k_run (keys s) (tr_set size s k).
Proof.
  unfold m__set, tr_set. rewrite set_shape. cbn [k_run fold_left k_step].
  rewrite app_length, <- (map_length fst (remove s k)). fold (keys (remove s k)). rewrite keys_remove. cbn [length].
  destruct (_ <? _)%nat; cbn.
  - rewrite keys_tl, keys_app, keys_remove. reflexivity.
  - rewrite keys_app, keys_remove. reflexivity.
Qed.

(* ---------- legality: Evict only fires on a list longer than the capacity ---------- *)
Fixpoint k_legal (size : nat) (l : list key) (ops : list rop) : Prop :=
  match ops with
  | [] => True
  | o :: r => match o with Evict => (size < length l)%nat | _ => True end /\ k_legal size (k_step l o) r
  end.
Lemma k_legal_app size a : forall l b, k_legal size l (a ++ b) <-> k_legal size l a /\ k_legal size (k_run l a) b.
Proof.
  induction a as [|o a IH]; intros l b; cbn [app k_legal]; [cbn; tauto|].
  change (k_run l (o :: a)) with (k_run (k_step l o) a). rewrite IH. tauto.
Qed.

(* Tr size s ops s' : the store s' has the keys of s after the recency operations ops, and
   ops is legal from s *)
Definition Tr (size : nat) (s : store) (ops : list rop) (s' : store) : Prop :=
  keys s' = k_run (keys s) ops /\ k_legal size (keys s) ops.

Lemma Tr_nil size s : Tr size s [] s.
Proof. split; [reflexivity|exact I]. Qed.
Lemma Tr_app size s a s1 b s2 : Tr size s a s1 -> Tr size s1 b s2 -> Tr size s (a ++ b) s2.
Proof.
  intros [E1 L1] [E2 L2]. split.
  - rewrite k_run_app, <- E1. exact E2.
  - apply k_legal_app. rewrite <- E1. auto.
Qed.

Lemma Tr_live_entry size s now k touch : Tr size s (tr_live_entry s now k touch) (fst (live_entry s now k touch)).
Proof.
  split; [apply keys_live_entry|]. unfold tr_live_entry.
  destruct (lookup s k) as [e|]; [|exact I]. destruct touch, (expired now (fst e)); cbn; tauto.
Qed.
Lemma Tr_set size s now k v ttl : Tr size s (tr_set size s k) (m__set size s now k v ttl).
Proof.
  split; [apply keys_m__set|]. unfold tr_set. cbn [k_legal k_step]. split; [exact I|].
  destruct (Nat.ltb_spec size (length (filter (neqk k) (keys s)) + 1)); cbn [k_legal]; [|exact I].
  split; [|exact I]. rewrite app_length. cbn. exact H.
Qed.
Lemma Tr_remove size (s : store) k : Tr size s [Drop k] (remove s k).
Proof. split; [apply keys_remove|cbn; tauto]. Qed.

Lemma fst_m_get s now k : fst (m_get s now k) = fst (live_entry s now k true).
Proof. unfold m_get. destruct (live_entry s now k true); reflexivity. Qed.

Definition tr_get s now k := tr_live_entry s now k true.
Fixpoint tr_get_many (s : store) now ks : list rop :=
  match ks with [] => [] | k :: r => tr_get s now k ++ tr_get_many (fst (m_get s now k)) now r end.
Fixpoint tr_sweep ks (s : store) now : list rop :=
  match ks with [] => [] | k :: r => tr_get s now k ++ tr_sweep r (fst (m_get s now k)) now end.
Fixpoint tr_set_many size (s : store) now (kvs : list (key * val)) ttl : list rop :=
  match kvs with
  | [] => []
  | kv :: r => tr_set size s (fst kv) ++ tr_set_many size (m__set size s now (fst kv) (snd kv) ttl) now r ttl
  end.

Lemma Tr_get size s now k : Tr size s (tr_get s now k) (fst (m_get s now k)).
Proof. rewrite fst_m_get. apply Tr_live_entry. Qed.

Lemma Tr_get_many size now ks : forall s, Tr size s (tr_get_many s now ks) (fst (m_get_many s now ks)).
Proof.
  induction ks as [|k ks IH]; intro s; cbn [tr_get_many m_get_many]; [apply Tr_nil|].
  pose proof (Tr_get size s now k) as H. destruct (m_get s now k) as [s1 v] eqn:E. cbn [fst] in *.
  specialize (IH s1). destruct (m_get_many s1 now ks) as [s2 vs]. cbn [fst] in *.
  eapply Tr_app; eauto.
Qed.
Lemma Tr_sweep size now ks : forall s, Tr size s (tr_sweep ks s now) (m_sweep ks s now).
Proof.
  induction ks as [|k ks IH]; intro s; cbn [tr_sweep m_sweep]; [apply Tr_nil|].
  eapply Tr_app; [apply Tr_get|apply IH].
Qed.
Lemma Tr_set_many size now ttl kvs : forall s,
  Tr size s (tr_set_many size s now kvs ttl) (fold_left (fun s' kv => m__set size s' now (fst kv) (snd kv) ttl) kvs s).
Proof.
  induction kvs as [|kv kvs IH]; intro s; cbn [tr_set_many fold_left]; [apply Tr_nil|].
  eapply Tr_app; [apply Tr_set|apply IH].
Qed.
Lemma Tr_del_many size ks : forall s : store, Tr size s (map Drop ks) (fold_left (fun s' k => remove s' k) ks s).
Proof.
  induction ks as [|k ks IH]; intro s; cbn [map fold_left]; [apply Tr_nil|].
  change (Drop k :: map Drop ks) with ([Drop k] ++ map Drop ks). eapply Tr_app; [apply Tr_remove|apply IH].
Qed.

Lemma k_run_drop_all (l : list key) : forall l', incl l' l -> k_run l' (map Drop l) = [].
Proof.
  induction l as [|a l IH]; intros l' Hin; cbn.
  - destruct l' as [|x l']; [reflexivity|]. destruct (Hin x); left; reflexivity.
  - apply IH. intros x Hx. apply In_filter_neqk in Hx as [Hx Hn]. destruct (Hin x Hx); [congruence|assumption].
Qed.
Lemma k_legal_drops size ks : forall l, k_legal size l (map Drop ks).
Proof. induction ks as [|k ks IH]; intro l; cbn; auto. Qed.

Definition m_trace (size : nat) (s : store) (now : Z) (c : cmd) : list rop :=
  match c with
  | Get k | Exists k => tr_get s now k
  | GetMany ks => tr_get_many s now ks
  | Set_ k v ttl ex =>
      match ex with
      | Some b => let '(s1, e) := live_entry s now k true in
                  tr_live_entry s now k true ++ (if Bool.eqb (isSome e) b then tr_set size s1 k else [])
      | None => tr_set size s k
      end
  | SetMany kvs ttl => tr_set_many size s now kvs ttl
  | Incr k _ _ => let '(s1, r) := m_get s now k in
                  tr_get s now k ++ match r with Some (VInt _) | None => tr_set size s1 k | _ => [] end
  | Del k => let '(s1, e) := live_entry s now k false in
             tr_live_entry s now k false ++ match e with Some _ => [Drop k] | None => [] end
  | DelMany ks => map Drop ks
  | Expire k _ => let '(s1, e) := live_entry s now k true in
                  tr_live_entry s now k true ++ match e with Some _ => tr_set size s1 k | None => [] end
  | GetExpire k => tr_live_entry s now k false
  | Clear => map Drop (keys s)
  | Sweep => tr_sweep (keys s) s now
  end.

Theorem Tr_step size s now c : Tr size s (m_trace size s now c) (fst (m_step size s now c)).
Proof.
  destruct c as [k|ks|k|k v ttl ex|kvs ttl|k by_ ttl|k|ks|k ttl|k| |]; cbn [m_step m_trace].
  - pose proof (Tr_get size s now k) as H. destruct (m_get s now k); exact H.
  - pose proof (Tr_get_many size now ks s) as H. destruct (m_get_many s now ks); exact H.
  - pose proof (Tr_get size s now k) as H. destruct (m_get s now k); exact H.
  - destruct ex as [b|]; [|apply Tr_set].
    pose proof (Tr_live_entry size s now k true) as H. destruct (live_entry s now k true) as [s1 e]. cbn [fst] in H.
    destruct (Bool.eqb (isSome e) b); cbn [fst].
    + eapply Tr_app; [exact H|apply Tr_set].
    + rewrite app_nil_r. exact H.
  - apply Tr_set_many.
  - pose proof (Tr_get size s now k) as H. destruct (m_get s now k) as [s1 r]. cbn [fst] in H.
    destruct r as [[z| | | | | | |]|]; cbn [fst]; try (rewrite app_nil_r; exact H);
      (eapply Tr_app; [exact H|apply Tr_set]).
  - pose proof (Tr_live_entry size s now k false) as H. destruct (live_entry s now k false) as [s1 e]. cbn [fst] in H.
    destruct e; cbn [fst]; [eapply Tr_app; [exact H|apply Tr_remove]|rewrite app_nil_r; exact H].
  - apply Tr_del_many.
  - pose proof (Tr_live_entry size s now k true) as H. destruct (live_entry s now k true) as [s1 e]. cbn [fst] in H.
    destruct e as [[d v]|]; cbn [fst]; [eapply Tr_app; [exact H|apply Tr_set]|rewrite app_nil_r; exact H].
  - pose proof (Tr_live_entry size s now k false) as H. destruct (live_entry s now k false) as [s1 e]. cbn [fst] in H.
    destruct e as [[[d|] v]|]; exact H.
  - split; [|apply k_legal_drops]. cbn [fst]. symmetry. apply k_run_drop_all. apply incl_refl.
  - apply Tr_sweep.
Qed.

(* ---------- whole histories ---------- *)
Fixpoint final_store (size : nat) (s : store) (h : list (Z * cmd)) : store :=
  match h with [] => s | (t, c) :: r => final_store size (fst (m_step size s t c)) r end.
Fixpoint h_trace (size : nat) (s : store) (h : list (Z * cmd)) : list rop :=
  match h with [] => [] | (t, c) :: r => m_trace size s t c ++ h_trace size (fst (m_step size s t c)) r end.

Theorem Tr_history size h : forall s, Tr size s (h_trace size s h) (final_store size s h).
Proof.
  induction h as [|[t c] h IH]; intro s; cbn [h_trace final_store]; [apply Tr_nil|].
  eapply Tr_app; [apply Tr_step|apply IH].
Qed.

(* capacity: every command leaves at most `size` entries when it started with at most `size` *)
Lemma length_remove (s : store) k : (length (remove s k) <= length s)%nat.
Proof. induction s as [|[k0 e] s IH]; cbn; [lia|]. destruct (String.eqb k k0); cbn; lia. Qed.
Lemma length_remove_mem (s : store) k : mem s k = true -> (length (remove s k) < length s)%nat.
Proof.
  unfold mem. induction s as [|[k0 e] s IH]; cbn; [discriminate|].
  destruct (String.eqb k k0); cbn; [pose proof (length_remove s k); lia|]. intro H. specialize (IH H). lia.
Qed.
Lemma length_move (s : store) k : (length (move_to_end s k) <= length s)%nat.
Proof.
  unfold move_to_end. destruct (lookup s k) eqn:E; [|lia]. rewrite app_length. cbn.
  assert (mem s k = true) by (unfold mem; rewrite E; reflexivity). pose proof (length_remove_mem s k H). lia.
Qed.
Lemma length_live_entry s now k touch : (length (fst (live_entry s now k touch)) <= length s)%nat.
Proof.
  unfold live_entry. destruct (lookup s k) as [e|]; [|cbn; lia].
  destruct (expired now (fst e)), touch; cbn [fst];
    repeat match goal with |- context [remove ?x k] => pose proof (length_remove x k); clear x end;
    pose proof (length_move s k); pose proof (length_remove s k); try lia.
  pose proof (length_remove (move_to_end s k) k). lia.
Qed.
Lemma length_m__set size s now k v ttl : (length s <= size)%nat -> (length (m__set size s now k v ttl) <= size)%nat.
Proof.
  intro H. unfold m__set. rewrite set_shape.
  pose proof (length_remove s k) as Hr.
  match goal with |- context [(size <? ?n)%nat] => destruct (Nat.ltb_spec size n) as [Hlt|Hge] end.
  - assert (T : forall (l : store), length (tl l) = (length l - 1)%nat) by (intros [|x l]; cbn; lia).
    rewrite T, app_length. cbn [length]. lia.
  - exact Hge.
Qed.

Lemma length_m_get s now k : (length (fst (m_get s now k)) <= length s)%nat.
Proof. rewrite fst_m_get. apply length_live_entry. Qed.

Theorem capacity_step size s now c : (length s <= size)%nat -> (length (fst (m_step size s now c)) <= size)%nat.
Proof.
  intro H. destruct c as [k|ks|k|k v ttl ex|kvs ttl|k by_ ttl|k|ks|k ttl|k| |]; cbn [m_step].
  - pose proof (length_m_get s now k). destruct (m_get s now k). cbn [fst] in *. lia.
  - revert s H. induction ks as [|k ks IH]; intros s H; cbn [m_get_many]; [exact H|].
    pose proof (length_m_get s now k) as L. destruct (m_get s now k) as [s1 v]. cbn [fst] in L.
    specialize (IH s1 ltac:(lia)). destruct (m_get_many s1 now ks). exact IH.
  - pose proof (length_m_get s now k). destruct (m_get s now k). cbn [fst] in *. lia.
  - destruct ex as [b|]; [|apply length_m__set; exact H].
    pose proof (length_live_entry s now k true) as L. destruct (live_entry s now k true) as [s1 e]. cbn [fst] in L.
    destruct (Bool.eqb (isSome e) b); cbn [fst]; [apply length_m__set|]; lia.
  - cbn [fst]. revert s H. induction kvs as [|kv kvs IH]; intros s H; cbn [fold_left]; [exact H|].
    apply IH. apply length_m__set. exact H.
  - pose proof (length_m_get s now k) as L. destruct (m_get s now k) as [s1 r]. cbn [fst] in L.
    destruct r as [[z| | | | | | |]|]; cbn [fst]; try lia; apply length_m__set; lia.
  - pose proof (length_live_entry s now k false) as L. destruct (live_entry s now k false) as [s1 e]. cbn [fst] in L.
    destruct e; cbn [fst]; [pose proof (length_remove s1 k)|]; lia.
  - cbn [fst]. revert s H. induction ks as [|k ks IH]; intros s H; cbn [fold_left]; [exact H|].
    apply IH. pose proof (length_remove s k). lia.
  - pose proof (length_live_entry s now k true) as L. destruct (live_entry s now k true) as [s1 e]. cbn [fst] in L.
    destruct e as [[d v]|]; cbn [fst]; [apply length_m__set|]; lia.
  - pose proof (length_live_entry s now k false) as L. destruct (live_entry s now k false) as [s1 e]. cbn [fst] in L.
    destruct e as [[[d|] v]|]; cbn [fst]; lia.
  - cbn. lia.
  - cbn [fst]. generalize (keys s). intro ks. revert s H. induction ks as [|k ks IH]; intros s H; cbn [m_sweep]; [exact H|].
    apply IH. pose proof (length_m_get s now k). lia.
Qed.

Theorem capacity_history size h : forall s, (length s <= size)%nat -> (length (final_store size s h) <= size)%nat.
Proof.
  induction h as [|[t c] h IH]; intros s H; cbn [final_store]; [exact H|]. apply IH, capacity_step, H.
Qed.

(* eviction removes the least recently touched key, and at that moment at least `size`
   other, pairwise distinct keys have been touched more recently *)
Theorem evict_is_lru size h pre post :
  h_trace size [] h = pre ++ Evict :: post ->
  exists k sk rest,
    fst (r_run ([], 0%nat) pre) = (k, sk) :: rest /\ (size <= length rest)%nat /\
    Forall (fun e => (sk < snd e)%nat /\ fst e <> k) rest /\ NoDup (map fst rest).
Proof.
  intro E. pose proof (Tr_history size h []) as [_ L]. rewrite E in L.
  apply k_legal_app in L as [_ L]. cbn [k_legal] in L. destruct L as [Hlen _].
  change (@keys entry []) with (map fst (fst (([], 0%nat) : rstate))) in Hlen.
  rewrite <- k_run_erases in Hlen. rewrite map_length in Hlen.
  pose proof (r_inv_run pre _ r_inv_init) as Hinv.
  destruct (fst (r_run ([], 0%nat) pre)) as [|[k sk] rest] eqn:F; [cbn in Hlen; lia|].
  exists k, sk, rest. split; [reflexivity|]. split; [cbn in Hlen; lia|].
  eapply head_is_lru; eauto.
Qed.

(* ---------- a purge pass keeps the relative order of the surviving entries ---------- *)
Definition alive (s : store) now k : bool :=
  match lookup s k with Some e => negb (expired now (fst e)) | None => false end.

Lemma lookup_m_get_other s now k k' : k' <> k -> lookup (fst (m_get s now k)) k' = lookup s k'.
Proof.
  intro Hn. rewrite fst_m_get. unfold live_entry. destruct (lookup s k) as [e|]; [|reflexivity].
  destruct (expired now (fst e)); cbn [fst]; rewrite ?lookup_remove, ?lookup_move;
    destruct (String.eqb_spec k' k); congruence.
Qed.

Lemma keys_m_get_present s now k : In k (keys s) ->
  keys (fst (m_get s now k)) = filter (neqk k) (keys s) ++ (if alive s now k then [k] else []).
Proof.
  intro Hin. rewrite fst_m_get. unfold live_entry, alive.
  destruct (lookup s k) as [e|] eqn:E; [|exfalso; exact (lookup_None s k E Hin)].
  assert (M : mem s k = true) by (unfold mem; rewrite E; reflexivity).
  destruct (expired now (fst e)); cbn [fst negb]; rewrite ?keys_remove, keys_move, M.
  - rewrite filter_neqk_snoc, filter_neqk_idem, app_nil_r. reflexivity.
  - reflexivity.
Qed.

Lemma sweep_order now : forall q s p, keys s = q ++ p -> NoDup (keys s) ->
  keys (m_sweep q s now) = p ++ filter (alive s now) q.
Proof.
  induction q as [|a q IH]; intros s p E Hnd; cbn [m_sweep filter]; [rewrite E, app_nil_r; reflexivity|].
  assert (Ha : In a (keys s)) by (rewrite E; left; reflexivity).
  pose proof (keys_m_get_present s now a Ha) as K1.
  assert (F : filter (neqk a) (keys s) = q ++ p).
  { rewrite E in *. cbn. unfold neqk at 1. rewrite String.eqb_refl. cbn.
    inversion Hnd; subst. apply filter_neqk_notin. assumption. }
  rewrite F in K1.
  assert (Hnd1 : NoDup (keys (fst (m_get s now a)))).
  { rewrite K1. rewrite E in Hnd. cbn in Hnd. inversion Hnd as [|? ? Hnin Hnd']; subst.
    destruct (alive s now a); [apply NoDup_snoc; assumption|rewrite app_nil_r; assumption]. }
  rewrite <- app_assoc in K1.
  rewrite (IH _ _ K1 Hnd1).
  assert (Fq : filter (alive (fst (m_get s now a)) now) q = filter (alive s now) q).
  { apply filter_ext_in. intros k' Hk'. unfold alive. rewrite lookup_m_get_other; [reflexivity|].
    intros ->. rewrite E in Hnd. cbn in Hnd. inversion Hnd as [|? ? Hnin _]; subst. apply Hnin. apply in_app_iff. auto. }
  rewrite Fq. destruct (alive s now a); cbn; rewrite <- ?app_assoc; reflexivity.
Qed.

Theorem sweep_keeps_order s now : NoDup (keys s) ->
  keys (m_sweep (keys s) s now) = filter (alive s now) (keys s).
Proof. intro H. apply (sweep_order now (keys s) s []); [symmetry; apply app_nil_r|exact H]. Qed.

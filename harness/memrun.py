"""Runs command histories against the real in-memory backend under the virtual clock and
prints them as Coq terms.  Shared by C01 and C11.  Time unit of histories: tick = 1/16 s."""
import asyncio

from harness import vclock
from harness.core import C, Nat, S, Some, Z

TICK = 0.0625
DEFAULT = "<default>"
KEYS = ["a", "b", "c", "d", "e", "f", "g", "h", "i", "j"]
VALUES = [1, 5, -3, "x", "hello", b"raw", b"a_b:c", None, 0, [7, 8]]      # the list is mutable: the caller changes its own object after the write


def val_to_coq(v):
    if v is None: return C("VNone")
    if isinstance(v, bool): return C("VBool", v)
    if isinstance(v, int): return C("VInt", Z(v))
    if isinstance(v, str): return C("VStr", S(v))
    if isinstance(v, bytes): return C("VBytes", S(v.decode("latin1")))
    if isinstance(v, list) and all(isinstance(x, int) and not isinstance(x, bool) for x in v): return C("VZs", [Z(x) for x in v])
    raise TypeError(v)


def enc(v):
    """JSON-able encoding of python values used in cases/observations"""
    if isinstance(v, bytes): return {"b": v.decode("latin1")}
    return v


def dec(v):
    if isinstance(v, dict) and "b" in v: return v["b"].encode("latin1")
    if isinstance(v, list): return list(v)      # a fresh object per use: the runner changes it after the write
    return v


def oval(v):
    """observed value -> Coq option val (None = default)"""
    if v == DEFAULT: return None
    return Some(val_to_coq(dec(v)))


def cmd_to_coq(c):
    op = c[0]
    if op == "get": return C("Get", S(c[1]))
    if op == "get_many": return C("GetMany", [S(k) for k in c[1]])
    if op == "exists": return C("Exists", S(c[1]))
    if op == "set": return C("Set_", S(c[1]), val_to_coq(dec(c[2])), Z(c[3]), None if c[4] is None else Some(c[4]))
    if op == "set_many": return C("SetMany", [(S(k), val_to_coq(dec(v))) for k, v in c[1]], Z(c[2]))
    if op == "incr": return C("Incr", S(c[1]), Z(c[2]), Z(c[3]))
    if op == "delete": return C("Del", S(c[1]))
    if op == "delete_many": return C("DelMany", [S(k) for k in c[1]])
    if op == "expire": return C("Expire", S(c[1]), Z(c[2]))
    if op == "get_expire": return C("GetExpire", S(c[1]))
    if op == "clear": return C("Clear")
    if op == "sweep": return C("Sweep")
    raise ValueError(op)


def res_to_coq(c, r):
    op = c[0]
    if r == "ERR": return C("RErr")
    if op == "get": return C("RVal", oval(r))
    if op == "get_many": return C("RVals", [oval(x) for x in r])
    if op in ("exists", "set", "delete"): return C("RBool", bool(r))
    if op in ("incr", "get_expire"): return C("RInt", Z(r))
    return C("RUnit")


def secs(ticks):
    return ticks * TICK if ticks else None


async def apply(target, c):
    """issue one command on a Memory backend or a Cache facade; returns JSON-able result"""
    op = c[0]
    try:
        if op == "get":
            if len(c) > 2:      # the caller passes a default of its own: asked twice with two different defaults, a miss answers each with its default
                d1, d2 = dec(c[2]), dec(c[3])
                if ord(c[1][0]) % 2:      # for half of the keys the defaults 0 / 1 are the bools equal to them: a stored 0 is not the default False
                    d1, d2 = [(bool(d) if type(d) is int and d in (0, 1) else d) for d in (d1, d2)]
                r1 = await target.get(c[1], default=d1)
                r2 = await target.get(c[1], default=d2)
                if type(r1) is type(d1) and r1 == d1 and type(r2) is type(d2) and r2 == d2: return enc(DEFAULT)
                if type(r1) is type(r2) and r1 == r2: return enc(r1)
                return "ERR"
            return enc(await target.get(c[1], default=DEFAULT))
        if op == "get_many": return [enc(x) for x in await target.get_many(*c[1], default=DEFAULT)]
        if op == "exists": return bool(await target.exists(c[1]))
        if op == "set":
            v = dec(c[2])
            r = bool(await target.set(c[1], v, expire=secs(c[3]), exist=c[4]))
            if isinstance(v, list): v.append(99)      # the caller goes on using (and changing) its object: the store keeps what was written
            return r
        if op == "set_many":
            pairs = {k: dec(v) for k, v in c[1]}
            await target.set_many(pairs, expire=secs(c[2]))
            for v in pairs.values():
                if isinstance(v, list): v.append(99)
            return None
        if op == "incr": return await target.incr(c[1], c[2], expire=secs(c[3]))
        if op == "delete": return bool(await target.delete(c[1]))
        if op == "delete_many":
            await target.delete_many(*c[1]); return None
        if op == "expire":
            await target.expire(c[1], secs(c[2]) if c[2] else 0); return None
        if op == "get_expire": return await target.get_expire(c[1])
        if op == "clear":
            await target.clear(); return None
        raise KeyError(op)
    except KeyError:
        raise
    except Exception:  # any exception escaping a command is an observable "raised"
        return "ERR"


def run_history(case):
    """case: {size, purge (bool), serializer ('none'|'secret'|'pickle'), facade (bool),
              events: [[advance_ticks, cmd], ...]}   advance >= 0, commands at odd ticks.
       returns {"steps": [[tick, cmd, result, order|None], ...]} including observed sweeps"""
    async def go():
        from cashews.backends.memory import Memory
        from cashews.serialize import get_serializer
        from cashews.picklers import PicklerType
        ser = None
        if case["serializer"] == "secret":
            ser = get_serializer(secret="s3cr3t", digestmod="sha1")
        elif case["serializer"] == "pickle":
            ser = get_serializer(pickle_type=PicklerType.DEFAULT)
        interval = 1.0 if case["purge"] else 0
        if case["facade"]:
            from cashews import Cache
            cache = Cache()
            qs = f"mem://?size={case['size']}&check_interval={interval}"
            if case["serializer"] == "secret": qs += "&secret=s3cr3t&digestmod=sha1"
            if case["serializer"] == "pickle": qs += "&pickle_type=default"
            mem = cache.setup(qs)
            target = cache
            await cache.init()
        else:
            mem = Memory(size=case["size"], check_interval=interval, serializer=ser)
            target = mem
            await mem.init()
        steps = []
        main = asyncio.current_task()
        orig_get = mem.get
        state = {"pass_at": None}

        async def spy_get(key, default=None):
            if asyncio.current_task() is not main:
                t = round((vclock.Clock.now - vclock.BASE) / TICK)
                if state["pass_at"] != t:
                    state["pass_at"] = t
                    steps.append([t, ["sweep"], None, None])
            return await orig_get(key, default=default)
        mem.get = spy_get
        # by default commands live on odd ticks and purge passes on multiples of 16; an aligned history starts on a purge
        # instant, so that commands after an advance of 16 / 32 / 48 / 64 ticks share their instant with a pass (which is atomic)
        await asyncio.sleep(16 * TICK if case.get("align") else TICK)
        for adv, c in case["events"]:
            if adv:
                await asyncio.sleep(adv * TICK)
            t = round((vclock.Clock.now - vclock.BASE) / TICK)
            before = list(mem.store)
            r = await apply(target, c)
            steps.append([t, c, r, list(mem.store), before])
        try:
            await (cache.close() if case["facade"] else mem.close())
        except Exception:  # the purge task died with an exception: observable, never allowed by the model
            steps.append([round((vclock.Clock.now - vclock.BASE) / TICK), ["clear"], "ERR", None])
        return {"steps": steps}
    return vclock.run(go)


def to_coq(case, obs):
    h, o = [], []
    for t, c, r, order, *_ in obs["steps"]:
        h.append((Z(t), cmd_to_coq(c)))
        o.append((res_to_coq(c, r), None if order is None else Some([S(k) for k in order])))
    return C("CMem", Nat(case["size"]), h, o)


def to_coq_lru(case, obs):
    h, o, b = [], [], []
    for st in obs["steps"]:
        t, c, r, order = st[:4]
        before = st[4] if len(st) > 4 else None
        h.append((Z(t), cmd_to_coq(c)))
        o.append((res_to_coq(c, r), None if order is None else Some([S(k) for k in order])))
        b.append(None if before is None else Some([S(k) for k in before]))
    return C("CLru", Nat(case["size"]), h, o, b)


def gen_history(rng, nkeys, nevents, ttl_weights=True):
    keys = KEYS[:nkeys]
    events = []
    for _ in range(nevents):
        adv = rng.choice([0, 0, 0, 2, 2, 4, 6, 8, 16, 18, 30, 32, 48, 64]) if rng.random() < 0.7 else 0
        k = rng.choice(keys)
        ttl = rng.choice([0, 0, 2, 4, 8, 16, 16, 24, 32, 48])
        r = rng.random()
        if r < 0.22: c = ["get", k] if rng.random() < 0.7 else ["get", k] + [enc(d) for d in rng.sample([1, 5, -3, "x", "hello", 0], 2)]
        elif r < 0.27: c = ["get_many", [rng.choice(keys) for _ in range(rng.choice([0, 1, 1, 2, 3, 4]))]]
        elif r < 0.34: c = ["exists", k]
        elif r < 0.56: c = ["set", k, enc(rng.choice(VALUES)), ttl, rng.choice([None, None, True, False])]
        elif r < 0.61: c = ["set_many", [[kk, enc(rng.choice(VALUES))] for kk in rng.sample(keys, rng.choice([0, 1, 1, 2, 3][:2 + min(3, nkeys)]) if nkeys >= 3 else rng.randint(0, nkeys))], ttl]
        elif r < 0.71: c = ["incr", k, rng.choice([1, 1, 1, 2, -1]), ttl]
        elif r < 0.78: c = ["delete", k]
        elif r < 0.81: c = ["delete_many", [rng.choice(keys) for _ in range(rng.choice([0, 1, 2, 3]))]]
        elif r < 0.89: c = ["expire", k, rng.choice([0, 2, 8, 16, 32])]
        elif r < 0.985: c = ["get_expire", k]
        else: c = ["clear"]
        events.append([adv, c])
    return events

(* C19's reference: what every cache command means on a TTL map with Redis's policies, written at the level of the
   cache interface (no server commands, no replies, no scripts):
     - time in milliseconds; a write without TTL makes the key permanent (plain SET drops a previous TTL);
     - only-if-absent / only-if-present writes; counters whose TTL is (re)set when the new value is 1;
     - owner-checked unlock; '*' patterns; sets; unsigned saturating bit fields; the sliding-window counter.
   The state type is shared with the server model (key -> value kind * expiry). *)
From Cashews Require Import Base.Prelude Spec.Glob Model.Redis.
Open Scope Z_scope.

Definition present (m : server) now k := isSome (look m now k).
Definition deadline (now ttl : Z) : option Z := if 0 <? ttl then Some (now + ttl) else None.
Definition read_val (m : server) now k : option val :=
  match look m now k with Some (RStr v, _) => Some v | Some (RNum z, _) => Some (VInt z) | _ => None end.
Definition drop (m : server) now (ks : list key) : server := fold_left (fun m' k => if present m' now k then supd m' k None else m') ks m.
Definition matching (m : server) now (U : list key) (pat : string) : list key := filter (fun k => present m now k && globs pat k) U.

Definition r_step (U : list key) (m : server) (now : Z) (c : ccmd) : server * bres :=
  match c with
  | CSet k v ttl ex =>
      let write := supd m k (Some (enc v, deadline now ttl)) in
      match ex with
      | None => (write, BBool true)
      | Some b => if Bool.eqb (present m now k) b then (write, BBool true) else (m, BBool false)
      end
  | CSetMany kvs ttl => (fold_left (fun m' kv => supd m' (fst kv) (Some (enc (snd kv), deadline now ttl))) kvs m, BUnit)
  | CGet k => (m, BVal (read_val m now k))
  | CGetMany ks => (m, BVals (map (read_val m now) ks))
  | CDel k => (drop m now [k], BBool (present m now k))
  | CDelMany ks => (drop m now ks, BUnit)
  | CExists k => (m, BBool (present m now k))
  | CExpire k ttl =>
      match look m now k with
      | None => (m, BBool false)
      | Some (v, _) => (if ttl <=? 0 then supd m k None else supd m k (Some (v, Some (now + ttl))), BBool true)
      end
  | CGetExpire k =>
      (m, BInt (match look m now k with None => -2 | Some (_, None) => -1 | Some (_, Some d) => (d - now + 500) / 1000 end))
  | CIncr k by_ ttl =>
      match look m now k with
      | None => (supd m k (Some (RNum by_, if by_ =? 1 then deadline now ttl else None)), BInt by_)
      | Some (RNum z, d) => (supd m k (Some (RNum (z + by_), if (z + by_ =? 1) && (0 <? ttl) then Some (now + ttl) else d)), BInt (z + by_))
      | Some (RSet _, _) | Some (RZSet _, _) => (m, BNone)         (* not a counter: refused *)
      | Some _ => (m, BNone)
      end
  | CSetLock k tok ttl => if present m now k then (m, BBool false) else (supd m k (Some (RTok tok, Some (now + ttl))), BBool true)
  | CUnlock k tok =>
      match look m now k with
      | Some (RTok v, _) => if val_eqb v tok then (supd m k None, BInt 1) else (m, BInt 0)
      | _ => (m, BInt 0)
      end
  | CScan pat => (m, BKeys (matching m now U pat))
  | CDelMatch pat => if existsb is_star (list_ascii_of_string pat) then (drop m now (matching m now U pat), BUnit) else (drop m now [pat], BUnit)
  | CGetMatch pat => (m, BPairs (flat_map (fun k => match read_val m now k with Some v => [(k, v)] | None => [] end) (matching m now U pat)))
  | CSliceIncr k st en mx ttl =>
      (* the window: forget stamps before st, count those up to en; below the limit: record en and refresh the TTL *)
      match zset_of m now k with
      | None => (m, BNone)
      | Some (l, d) =>
          let l1 := filter (fun x => (x <? 0) || (st <=? x)) l in
          let cnt := Z.of_nat (length (filter (fun x => (st <=? x) && (x <=? en)) l1)) in
          let d1 := match l1 with [] => None | _ => d end in
          if cnt <? mx
          then (supd m k (Some (RZSet (l1 ++ [en]), if 0 <? ttl then Some (now + ttl) else d1)), BInt (cnt + 1))
          else (match l, l1 with [], _ => m | _, [] => supd m k None | _, _ => supd m k (Some (RZSet l1, d)) end, BInt cnt)
      end
  | CSetAdd k ms ttl =>
      match look m now k with
      | Some (RSet _, _) | None =>
          let '(m1, r) := c_sadd m now k ms in
          match ttl with
          | None => (m1, match r with Int n => BInt n | _ => BNone end)
          | Some t => (match look m1 now k with
                       | Some (v, _) => if t <=? 0 then supd m1 k None else supd m1 k (Some (v, Some (now + t)))
                       | None => m1 end, BNone)
          end
      | Some _ => (m, BNone)
      end
  (* one server command each, answered as documented: the reference is that command *)
  | CSetRemove _ _ | CSetPop _ _ | CGetBits _ _ _ | CIncrBits _ _ _ _ | CClear | CCount | CPing => up_step true U m now c
  end.

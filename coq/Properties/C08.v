(* C08 - cache keys are canonical per bound arguments and separate different arguments. Statements only. *)
From Cashews Require Import Base.Prelude Model.Router Model.Key Proofs.KeyProofs.

(* Any signature (distinct parameter names, none of them reserved), any template over its parameters,
   any two call forms (positional / keyword / defaults omitted, **kwargs extras, *args surplus) that
   Python's binding maps to the same arguments: get_cache_key returns the same key, and it does not raise. *)
Theorem C08_key_canonical : forall s t given args1 K1 args2 K2 b,
  wf_sig s -> wf_kwargs K1 -> wf_kwargs K2 -> (forall n, In n (fields t) -> ok_field s n) ->
  bind s args1 K1 = Some b -> bind s args2 K2 = Some b ->
  cache_key s t given args1 K1 = cache_key s t given args2 K2 /\ cache_key s t given args1 K1 <> None.
Proof. exact key_canonical. Qed.
Print Assumptions C08_key_canonical.

(* For a ':'-separated template: two argument maps that agree on every other mentioned field and differ
   at a mentioned field n by values of one type among {text without ':', int, bool} render to different keys. *)
Theorem C08_key_separates : forall t kv1 kv2 n a1 a2, colon_sep t = true -> In n (fields t) ->
  (forall m, In m (fields t) -> m <> n -> kv_find kv1 m = kv_find kv2 m) ->
  kv_find kv1 n = Some (KA a1) -> kv_find kv2 n = Some (KA a2) -> separable a1 a2 -> a1 <> a2 ->
  render t kv1 <> render t kv2.
Proof. exact key_separates. Qed.
Print Assumptions C08_key_separates.

(* the automatically generated template always is ':'-separated *)
Theorem C08_auto_template_colon_sep : forall prefix s, colon_sep (auto_template prefix s) = true.
Proof. exact auto_template_colon_sep. Qed.
Print Assumptions C08_auto_template_colon_sep.

(* non-vacuity: f(a, b=5, *, c="x"); f(1), f(a=1), f(1, c="x") and f(a=1, b=5, c="x") bind alike and share a key *)
Example C08_example :
  let s := [ {| pname := "a"; pk := PK; pdefault := None |}; {| pname := "b"; pk := PK; pdefault := Some (KA (AInt 5)) |};
             {| pname := "c"; pk := KO; pdefault := Some (KA (AStr "x")) |} ]%string in
  let t := auto_template "m:f" s in
  let one := KA (AInt 1) in
  map (fun c => cache_key s t true (fst c) (snd c))
      [([one], []); ([], [("a", one)]); ([one], [("c", KA (AStr "x"))]); ([], [("a", one); ("b", KA (AInt 5)); ("c", KA (AStr "x"))])]%string
  = [Some "m:f:a:1:b:5:c:x"; Some "m:f:a:1:b:5:c:x"; Some "m:f:a:1:b:5:c:x"; Some "m:f:a:1:b:5:c:x"]%string
  /\ bind s [one] [] = bind s [] [("a", one)]%string.
Proof. vm_compute. split; reflexivity. Qed.

(* Correspondence + oracle for C05: concurrent transactional tasks on a real Cache under the scheduler. *)
From Cashews Require Import Base.Prelude Model.TxnConc.
Open Scope Z_scope.

(* what the harness logged, in execution order *)
Inductive orec :=
| RB (t : Z) (i : nat) (b : bk) (k : nat) (r : option Z) (hint : nat) (after : list (option Z))   (* a backend command and the store right after it *)
| RBegin (i : nat)                       (* task i starts its next item *)
| REnd (t : Z) (i : nat) (o : outcome).  (* ... and this is how it ended for the caller *)

Inductive case := CConc (progs : list (list item)) (st0 : list (option Z)) (tmo : Z) (att : nat) (univ : list nat)
                        (trace : list orec) (tend : Z) (final : list (option Z)).

Definition oz_eqb := option_eqb Z.eqb.
Definition bk_eqb (a b : bk) : bool :=
  match a, b with BGet, BGet | BPut, BPut | BIncr, BIncr | BDel, BDel | BSetLock, BSetLock | BUnlock, BUnlock | BDelMany, BDelMany | BSetMany, BSetMany | BExists, BExists | BExpire, BExpire => true | _, _ => false end.
Definition outcome_eqb (a b : outcome) : bool :=
  match a, b with
  | Ok x, Ok y => list_eqb oz_eqb x y
  | Raised x, Raised y => list_eqb oz_eqb x y
  | LockedErr, LockedErr => true
  | _, _ => false
  end.
Definition snap (c : cfg) (univ : list nat) := map (store c) univ.
Definition store_of (univ : list nat) (vals : list (option Z)) : nat -> option Z :=
  fun k => match find (fun kv => Nat.eqb (fst kv) k) (combine univ vals) with Some (_, v) => v | None => None end.

(* a task runs its local work the moment it can: up to its next backend command or sleep *)
Fixpoint eager (fuel : nat) (c : cfg) (i : nat) : cfg :=
  match fuel with
  | O => c
  | S f => let '(c', o) := run_task c i O in match o with Local => eager f c' i | _ => c end
  end.
Definition settle_all (c : cfg) (n : nat) : cfg := fold_left (fun c i => eager 60 c i) (seq 0 n) c.
(* let time pass up to t, stopping at every instant a sleeping task wakes up *)
Fixpoint advance (fuel : nat) (c : cfg) (n : nat) (t : Z) : cfg :=
  match fuel with
  | O => c
  | S f =>
      if t <=? now c then c else
      let ws := filter (fun w => (now c <? w) && (w <=? t)) (map (fun i => wake (tasks c i)) (seq 0 n)) in
      match ws with
      | [] => fst (step c (Tick (t - now c)))
      | w0 :: r => let w := fold_left Z.min r w0 in
                   advance f (settle_all (fst (step c (Tick (w - now c)))) n) n t
      end
  end.

Fixpoint replay (univ : list nat) (n : nat) (c : cfg) (seen : nat -> nat) (tr : list orec) : option (cfg * (nat -> nat)) :=
  match tr with
  | [] => Some (c, seen)
  | RB t i b k r hint after :: rest =>
      let c1 := advance 200 c n t in
      let '(c2, o) := run_task c1 i hint in
      match o with
      | Back b' k' r' =>
          if bk_eqb b b' && Nat.eqb k k' && oz_eqb r r' && list_eqb oz_eqb (snap c2 univ) after then replay univ n (eager 60 c2 i) seen rest else None
      | _ => None
      end
  | RBegin _ :: rest => replay univ n c seen rest
  | REnd t i o :: rest =>
      let c1 := advance 200 c n t in
      if Nat.ltb (seen i) (length (outs (tasks c1 i))) && outcome_eqb (nth (seen i) (outs (tasks c1 i)) LockedErr) o
      then replay univ n c1 (upd seen i (S (seen i))) rest else None
  end.
Definition all_done (c : cfg) (n : nat) : bool :=
  forallb (fun i => match items (tasks c i), cur (tasks c i) with [], None => true | _, _ => false end) (seq 0 n).

(* ---------- oracle: the property's words on the log ---------- *)
(* a block run alone, its read-throughs answered by [reads]: overlay, delete set, results, unused reads *)
Fixpoint seq_eff (cmds : list cmd) (reads : list (option Z)) (ov : list (nat * Z)) (dl : list nat) (res : list (option Z)) :=
  match cmds with
  | [] => (ov, dl, res)
  | Get k :: r =>
      if memk k dl then seq_eff r reads ov dl (res ++ [None])
      else match lookup ov k with
           | Some v => seq_eff r reads ov dl (res ++ [Some v])
           | None => match reads with v :: rs => seq_eff r rs ov dl (res ++ [v]) | [] => seq_eff r [] ov dl (res ++ [None]) end
           end
  | Put k v :: r => let '(ov', dl') := lapply (ov, dl) (LPut k v) in seq_eff r reads ov' dl' (res ++ [None])
  | Incr k d :: r =>
      match lookup ov k with
      | Some _ => let '(ov', dl') := lapply (ov, dl) (LIncr k d None) in seq_eff r reads ov' dl' (res ++ [lookup ov' k])
      | None => if memk k dl then let '(ov', dl') := lapply (ov, dl) (LIncr k d None) in seq_eff r reads ov' dl' (res ++ [lookup ov' k])
                else match reads with
                     | v :: rs => let '(ov', dl') := lapply (ov, dl) (LIncr k d (Some v)) in seq_eff r rs ov' dl' (res ++ [lookup ov' k])
                     | [] => seq_eff r [] ov dl res
                     end
      end
  | Del k :: r => let '(ov', dl') := lapply (ov, dl) (LDel k) in seq_eff r reads ov' dl' (res ++ [Some 1])
  | Sleep _ :: r => seq_eff r reads ov dl (res ++ [None])
  | PutIf k v want :: r =>
      let known := match lookup ov k with Some _ => Some true | None => if memk k dl then Some false else None end in
      match known, reads with
      | Some ex, _ => let hit := Bool.eqb ex want in
                      let '(ov', dl') := lapply (ov, dl) (LPutIf k v want hit) in seq_eff r reads ov' dl' (res ++ [b2z hit])
      | None, rd :: rs => let hit := Bool.eqb (match rd with Some 1 => true | _ => false end) want in
                          let '(ov', dl') := lapply (ov, dl) (LPutIf k v want hit) in seq_eff r rs ov' dl' (res ++ [b2z hit])
      | None, [] => seq_eff r [] ov dl res
      end
  | Touch k :: r =>
      match lookup ov k with
      | Some _ => seq_eff r reads ov dl (res ++ [None])
      | None => if memk k dl then seq_eff r reads ov dl (res ++ [None])
                else match reads with
                     | v :: rs => let '(ov', dl') := lapply (ov, dl) (LTouch k (Some v)) in seq_eff r rs ov' dl' (res ++ [None])
                     | [] => seq_eff r [] ov dl res
                     end
      end
  end.

Record tst := { t_item : nat;                    (* index of the current / next item *)
                t_in : bool;
                t_reads : list (option Z);       (* read-throughs of the current block *)
                t_wrote_del : bool; t_wrote_set : bool;
                t_lock0 : option Z }.            (* holding the global lock since *)
Definition tst0 := {| t_item := O; t_in := false; t_reads := []; t_wrote_del := false; t_wrote_set := false; t_lock0 := None |}.
Definition cur_item (progs : list (list item)) (i : nat) (s : tst) : option item := nth_error (nth i progs []) (t_item s).

Definition write_keys (cmds : list cmd) := map cmd_key (filter is_write cmds).
Definition only_incr (k : nat) (c : cmd) := negb (Nat.eqb (cmd_key c) k) || match c with Incr _ _ | Get _ | Sleep _ | Touch _ => true | _ => false end.
Definition writer_modes (progs : list (list item)) (k : nat) : list mode :=
  flat_map (fun p => flat_map (fun it => match it with
                                        | Txn b => if existsb (fun c => Nat.eqb (cmd_key c) k && is_write c) (bcmds b) then [bmode b] else []
                                        | Direct _ => [] end) p) progs.
(* a counter: written only by increments inside blocks, and the blocks incrementing it all use the same locking mode *)
Definition all_incr_key (progs : list (list item)) (k : nat) : bool :=
  forallb (fun p => forallb (fun it => match it with Direct c => negb (Nat.eqb (cmd_key c) k && is_write c) | Txn b => forallb (only_incr k) (bcmds b) end) p) progs &&
  (forallb (fun m => match m with Locked => true | _ => false end) (writer_modes progs k) ||
   forallb (fun m => match m with Serial => true | _ => false end) (writer_modes progs k)).
Definition incr_sum (k : nat) (cmds : list cmd) : Z :=
  fold_left (fun a c => match c with Incr k' d => if Nat.eqb k' k then a + d else a | _ => a end) cmds 0.

(* ok_log: state = per-task trackers, store before, holder of the global lock, committed increments per key, overstay seen *)
Fixpoint ok_log (progs : list (list item)) (univ : list nat) (tmo : Z) (ts : nat -> tst) (before : list (option Z))
                (committed : nat -> Z) (overstay : bool) (tr : list orec) : bool * (nat -> Z) * bool * list (option Z) :=
  match tr with
  | [] => (true, committed, overstay, before)
  | RBegin i :: rest =>
      let s := ts i in
      ok_log progs univ tmo (upd ts i {| t_item := t_item s; t_in := true; t_reads := []; t_wrote_del := false; t_wrote_set := false; t_lock0 := None |})
             before committed overstay rest
  | REnd _ i o :: rest =>
      let s := ts i in
      let good :=
        match cur_item progs i s with
        | Some (Direct c) => match o with Ok [_] => true | _ => false end
        | Some (Txn b) =>
            let '(ov, dl, res) := seq_eff (bcmds b) (t_reads s) [] [] [] in
            match o with
            | Ok r => negb (braise b) && list_eqb oz_eqb r res &&                          (* the body's own results *)
                      Bool.eqb (t_wrote_del s) (negb (match dl with [] => true | _ => false end)) &&
                      Bool.eqb (t_wrote_set s) (negb (match ov with [] => true | _ => false end))   (* all of its writes were committed *)
            | Raised r => braise b && list_eqb oz_eqb r res && negb (t_wrote_del s) && negb (t_wrote_set s)   (* none of them *)
            | LockedErr => negb (t_wrote_del s) && negb (t_wrote_set s) && match bmode b with Fast => false | _ => true end
            end
        | None => false
        end in
      let committed' :=
        match cur_item progs i s, o with
        | Some (Txn b), Ok _ => fun k => committed k + incr_sum k (bcmds b)
        | Some (Direct (Incr k d)), _ => fun k' => if Nat.eqb k' k then committed k' + d else committed k'
        | _, _ => committed
        end in
      let '(g, cm, ov, fin) := ok_log progs univ tmo (upd ts i {| t_item := S (t_item s); t_in := false; t_reads := []; t_wrote_del := false;
                                                               t_wrote_set := false; t_lock0 := None |}) before committed' overstay rest in
      (good && g, cm, ov, fin)
  | RB t i b k r hint after :: rest =>
      let s := ts i in
      let bef := store_of univ before in
      let aft := store_of univ after in
      let same_except (ks : list nat) := forallb (fun x => memk x ks || oz_eqb (bef x) (aft x)) univ in
      let '(good, s', overstay') :=
        match cur_item progs i s with
        | Some (Direct c) =>
            (* not in a transaction: the command goes straight to the store, nobody captures it *)
            (match c, b with
             | Get k', BGet => Nat.eqb k k' && oz_eqb r (bef k) && same_except []
             | Put k' v, BPut => Nat.eqb k k' && oz_eqb (aft k) (Some v) && same_except [k]
             | Incr k' d, BIncr => Nat.eqb k k' && oz_eqb (aft k) (Some (match bef k with Some x => x + d | None => d end)) && oz_eqb r (aft k) && same_except [k]
             | Del k', BDel => Nat.eqb k k' && oz_eqb (aft k) None && same_except [k]
             | PutIf k' v want, BPut =>
                 let hit := Bool.eqb (isSomeZ (bef k)) want in
                 Nat.eqb k k' && oz_eqb r (b2z hit) && oz_eqb (aft k) (if hit then Some v else bef k) && same_except [k]
             | Touch k', BExpire => Nat.eqb k k' && same_except []
             | _, _ => false
             end, s, overstay)
        | Some (Txn blk) =>
            match b with
            | BGet => (oz_eqb r (bef k) && same_except [],
                       {| t_item := t_item s; t_in := true; t_reads := t_reads s ++ [r]; t_wrote_del := t_wrote_del s; t_wrote_set := t_wrote_set s; t_lock0 := t_lock0 s |}, overstay)
            | BExists => (oz_eqb r (b2z (isSomeZ (bef k))) && same_except [],
                          {| t_item := t_item s; t_in := true; t_reads := t_reads s ++ [r]; t_wrote_del := t_wrote_del s; t_wrote_set := t_wrote_set s; t_lock0 := t_lock0 s |}, overstay)
            | BDelMany =>
                let '(ov, dl, _) := seq_eff (bcmds blk) (t_reads s) [] [] [] in
                (negb (braise blk) && negb (t_wrote_del s) && negb (t_wrote_set s) &&
                 forallb (fun x => oz_eqb (aft x) (if memk x dl then None else bef x)) univ,          (* exactly its own deletes *)
                 {| t_item := t_item s; t_in := true; t_reads := t_reads s; t_wrote_del := true; t_wrote_set := t_wrote_set s; t_lock0 := t_lock0 s |}, overstay)
            | BSetMany =>
                let '(ov, dl, _) := seq_eff (bcmds blk) (t_reads s) [] [] [] in
                (negb (braise blk) && negb (t_wrote_set s) &&
                 forallb (fun x => oz_eqb (aft x) (match lookup ov x with Some v => Some v | None => bef x end)) univ,   (* exactly its own writes *)
                 {| t_item := t_item s; t_in := true; t_reads := t_reads s; t_wrote_del := t_wrote_del s; t_wrote_set := true; t_lock0 := t_lock0 s |}, overstay)
            | BSetLock =>
                (same_except [] && match bmode blk with Fast => false | _ => true end,
                 if Nat.eqb k O && match r with Some 1 => true | _ => false end
                 then {| t_item := t_item s; t_in := true; t_reads := t_reads s; t_wrote_del := t_wrote_del s; t_wrote_set := t_wrote_set s; t_lock0 := Some t |}
                 else s, overstay)
            | BUnlock =>
                (same_except [],
                 if Nat.eqb k O then {| t_item := t_item s; t_in := true; t_reads := t_reads s; t_wrote_del := t_wrote_del s; t_wrote_set := t_wrote_set s; t_lock0 := None |} else s,
                 overstay || match r with Some 1 => false | _ => true end)
            | _ => (false, s, overstay)       (* a plain write command reaching the store from inside a block *)
            end
        | None => (false, s, overstay)
        end in
      (* serializable: nobody takes the global lock or writes while another task holds it within its timeout *)
      let serial_ok :=
        match cur_item progs i s with
        | Some (Txn blk) =>
            match bmode blk, b with
            | Serial, BSetLock | Serial, BDelMany | Serial, BSetMany =>
                (* (the proviso: a writer whose own lock has lapsed is outside the claim) *)
                let own_live := match t_lock0 s with Some t0 => t <? t0 + tmo | None => false end in
                if match b, r with BSetLock, Some 1 => true | BDelMany, _ => own_live | BSetMany, _ => own_live | _, _ => false end then
                  forallb (fun j => Nat.eqb j i || match t_lock0 (ts j) with Some t0 => t0 + tmo <=? t | None => true end) (seq 0 (length progs))
                else true
            | _, _ => true
            end
        | _ => true
        end in
      let '(g, cm, ov, fin) := ok_log progs univ tmo (upd ts i s') after committed overstay' rest in
      (good && serial_ok && g, cm, ov, fin)
  end.

Definition ok_case (progs : list (list item)) (st0 : list (option Z)) (tmo : Z) (univ : list nat) (trace : list orec) (final : list (option Z)) : bool :=
  let '(g, committed, overstay, last) := ok_log progs univ tmo (fun _ => tst0) st0 (fun _ => 0) false trace in
  g && list_eqb oz_eqb last final &&
  (* no lost increments: counters touched only by increments of locked / serializable blocks (or direct ones), nobody overstayed *)
  (overstay ||
   forallb (fun k => negb (all_incr_key progs k) ||
                     oz_eqb (match store_of univ final k with Some v => Some v | None => Some 0 end)
                            (Some ((match store_of univ st0 k with Some v => v | None => 0 end) + committed k))) univ).

Definition judge (c : case) : verdict :=
  match c with
  | CConc progs st0 tmo att univ trace tend final =>
      let n := length progs in
      let c0 := settle_all (init progs (store_of univ st0) tmo att) n in
      (match replay univ n c0 (fun _ => O) trace with
       | Some (c1, _) => let c2 := advance 200 c1 n tend in list_eqb oz_eqb (snap c2 univ) final && all_done c2 n
       | None => false
       end,
       ok_case progs st0 tmo univ trace final, [])
  end.

Definition explain (c : case) :=
  match c with
  | CConc progs st0 tmo att univ trace tend final =>
      let n := length progs in
      let c0 := settle_all (init progs (store_of univ st0) tmo att) n in
      (* how far the replay gets: number of records accepted, and what the model wanted to do at the first one refused *)
      (fix go (k : nat) (c : cfg) (seen : nat -> nat) (tr : list orec) : nat * obs * list (list outcome) :=
         match tr with
         | [] => (k, Idle, map (fun i => outs (tasks c i)) (seq 0 n))
         | r :: rest => match replay univ n c seen [r] with
                        | Some (c', seen') => go (S k) c' seen' rest
                        | None => (k, match r with RB t i b _ _ hint _ => snd (run_task (advance 200 c n t) i hint) | _ => Local end,
                                   map (fun i => outs (tasks c i)) (seq 0 n))
                        end
         end) O c0 (fun _ => O) trace
  end.

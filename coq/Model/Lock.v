(* Executable image of cache.lock / @locked (backends/interface.py:148-175) over the lock entry of one key, for any
   number of tasks: a task tries (set_lock with a fresh token and its ttl), is inside, leaves (unlock with its token, in
   the finally clause - also on exception and cancellation).  memory.py unlock is owner-checked and expiry-aware.
   Events also include unlocks with tokens nobody was given, and the passing of time.  Definitions only. *)
From Cashews Require Import Base.Prelude.
Open Scope Z_scope.

Inductive tstate := Idle | Inside (tk : nat) (acq ttl : Z).
Record cfg := { now : Z; lock : option (nat * Z); tasks : nat -> tstate; fresh : nat }.
Inductive event := Tick (dt : Z) | Try (i : nat) (ttl : Z) | Leave (i : nat) | ForeignUnlock (tk : nat)
  | Probe.    (* is_locked / one poll of is_locked(wait=...): reads liveness, changes nothing *)

Definition updt (f : nat -> tstate) i v := fun j => if Nat.eqb j i then v else f j.
Definition lock_live (c : cfg) := match lock c with Some (_, d) => now c <? d | None => false end.
(* Memory.unlock: remove the entry iff it is alive and holds this token; report exactly that *)
Definition unlock (c : cfg) (tk : nat) : option (nat * Z) * bool :=
  match lock c with
  | Some (tk', d) => if (now c <? d) && Nat.eqb tk' tk then (None, true) else (lock c, false)
  | None => (None, false)
  end.

(* second component: what the command returned (set_lock: acquired?; unlock: released?) *)
Definition step (c : cfg) (e : event) : cfg * bool :=
  match e with
  | Tick dt => (if 0 <=? dt then {| now := now c + dt; lock := lock c; tasks := tasks c; fresh := fresh c |} else c, true)
  | Try i ttl =>
      match tasks c i with
      | Idle => if lock_live c then (c, false)
                else ({| now := now c; lock := Some (fresh c, now c + ttl);
                         tasks := updt (tasks c) i (Inside (fresh c) (now c) ttl); fresh := S (fresh c) |}, true)
      | _ => (c, false)
      end
  | Leave i =>
      match tasks c i with
      | Inside tk _ _ => let '(l, r) := unlock c tk in
                         ({| now := now c; lock := l; tasks := updt (tasks c) i Idle; fresh := fresh c |}, r)
      | Idle => (c, false)
      end
  | ForeignUnlock tk =>
      if Nat.ltb tk (fresh c) then (c, false)          (* only tokens nobody was ever given *)
      else let '(l, r) := unlock c tk in ({| now := now c; lock := l; tasks := tasks c; fresh := fresh c |}, r)
  | Probe => (c, lock_live c)
  end.
Definition init : cfg := {| now := 0; lock := None; tasks := fun _ => Idle; fresh := O |}.
Definition run (evs : list event) : cfg := fold_left (fun c e => fst (step c e)) evs init.

(* memory.py is_locked(key, wait, step), alone on the key (nothing but time passes between its polls): while wait > 0 poll -
   absent: False at once - then wait -= step and sleep(step); when the wait is used up one last poll decides.  Fuel bounds
   the loop; None = out of fuel (excluded by the theorems' statements). *)
Definition tick (c : cfg) (d : Z) : cfg := {| now := now c + d; lock := lock c; tasks := tasks c; fresh := fresh c |}.
Fixpoint is_locked_wait (fuel : nat) (c : cfg) (w s : Z) : option bool :=
  match fuel with
  | O => None
  | S f => if 0 <? w then (if lock_live c then is_locked_wait f (tick c s) (w - s) s else Some false)
           else Some (lock_live c)
  end.

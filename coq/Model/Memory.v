(* Executable image of cashews/backends/memory.py (class Memory, regular commands) as it
   stands in /repo.  store = OrderedDict as an ordered association list, oldest first.
   One Gallina function per method, in the method's own order of effects.  No proofs. *)
From Cashews Require Import Base.Prelude Base.OMap Spec.TTLMap.

Definition store := omap entry.

(* _is_expired / the deadline test of _live_entry:  expire_at and expire_at <= time.time() *)
Definition expired (now : Z) (d : option Z) : bool :=
  match d with Some d => d <=? now | None => false end.

(* Memory._live_entry(key, touch): absent -> None; (touch: move_to_end); expired -> _delete, None *)
Definition live_entry (s : store) (now : Z) (k : key) (touch : bool) : store * option entry :=
  match lookup s k with
  | None => (s, None)
  | Some e => let s1 := if touch then move_to_end s k else s in
              if expired now (fst e) then (remove s1 k, None) else (s1, Some e)
  end.

(* Memory._get without serializer: value of the live entry or the default *)
Definition m_get (s : store) now k : store * option val :=
  let '(s1, e) := live_entry s now k true in (s1, option_map snd e).

(* Memory._set: deadline, inheritance from a live entry, assign, move_to_end, evict *)
Definition m__set (size : nat) (s : store) (now : Z) (k : key) (v : val) (ttl : Z) : store :=
  let d := if 0 <? ttl then Some (now + ttl) else None in
  let d := match d with
           | Some _ => d
           | None => match lookup s k with
                     | Some (d0, _) => if expired now d0 then None else d0
                     | None => None
                     end
           end in
  let s1 := move_to_end (assign s k (d, v)) k in
  if (size <? length s1)%nat then tl s1 else s1.

Fixpoint m_get_many (s : store) now (ks : list key) : store * list (option val) :=
  match ks with
  | [] => (s, [])
  | k :: r => let '(s1, v) := m_get s now k in
              let '(s2, vs) := m_get_many s1 now r in (s2, v :: vs)
  end.
Fixpoint m_sweep (ks : list key) (s : store) (now : Z) : store :=
  match ks with [] => s | k :: r => m_sweep r (fst (m_get s now k)) now end.

Definition m_step (size : nat) (s : store) (now : Z) (c : cmd) : store * res :=
  match c with
  | Get k => let '(s1, r) := m_get s now k in (s1, RVal r)
  | GetMany ks => let '(s1, r) := m_get_many s now ks in (s1, RVals r)
  | Exists k => let '(s1, r) := m_get s now k in (s1, RBool (isSome r))
  | Set_ k v ttl ex =>
      match ex with
      | Some b => let '(s1, e) := live_entry s now k true in
                  if Bool.eqb (isSome e) b then (m__set size s1 now k v ttl, RBool true) else (s1, RBool false)
      | None => (m__set size s now k v ttl, RBool true)
      end
  | SetMany kvs ttl => (fold_left (fun s' kv => m__set size s' now (fst kv) (snd kv) ttl) kvs s, RUnit)
  | Incr k by_ ttl =>
      let '(s1, r) := m_get s now k in
      match r with
      | Some (VInt z) => let n := z + by_ in (m__set size s1 now k (VInt n) (if n =? 1 then ttl else 0), RInt n)
      | None => let n := by_ in (m__set size s1 now k (VInt n) (if n =? 1 then ttl else 0), RInt n)
      | _ => (s1, RErr)
      end
  | Del k => let '(s1, e) := live_entry s now k false in
             match e with Some _ => (remove s1 k, RBool true) | None => (s1, RBool false) end
  | DelMany ks => (fold_left (fun s' k => remove s' k) ks s, RUnit)
  | Expire k ttl => let '(s1, e) := live_entry s now k true in
                    match e with Some (_, v) => (m__set size s1 now k v ttl, RUnit) | None => (s1, RUnit) end
  | GetExpire k => let '(s1, e) := live_entry s now k false in
                   match e with
                   | None => (s1, RInt (-2))
                   | Some (Some d, _) => (s1, RInt (round_secs (d - now)))
                   | Some (None, _) => (s1, RInt (-1))
                   end
  | Clear => ([], RUnit)
  | Sweep => (m_sweep (keys s) s now, RUnit)
  end.

Fixpoint run_m (size : nat) (s : store) (h : list (Z * cmd)) : list (res * list key) :=
  match h with
  | [] => []
  | (t, c) :: r => let '(s', o) := m_step size s t c in (o, keys s') :: run_m size s' r
  end.
